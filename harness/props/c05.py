# -*- coding: utf-8 -*-
"""C05 - lexical conventions: literals, whitespace, separators, case, empty arguments

case kinds (all of them are also sent to the Lean model):
  lex   - a string: token stream of the real ply lexer vs the model lexer (no oracle)
  slots - present/absent pattern of argument slots x separator x call `F(..)` / array literal `{..}`
  slots3 - one present/absent pattern of up to 6 slots x call / array literal, written with each of the three separators:
          the three formulas side by side must be accepted alike and pass the same values
  num   - numeric literal of form int / dec / dot / pct / pow from digit strings a, b
  str   - quoted literal: quote style q and contents s
  ws    - a C04 tree: as rendered, with white space at token boundaries, with leading / trailing white space
  sep   - argument texts as `G(..)` and `{..}` under the three separators
  rows  - two-row literal `{a,b;c,d}`, `{a\\b;c\\d}`, `G(a,b;c,d)`
  case  - cell references as written vs upper-cased vs as written with white space at the token boundaries (also on both
          sides of the ':' of a range), under a grid / label / echo host (see the section below)
"""
import itertools
import json
import random as _random
from fractions import Fraction

from .. import common, fx
from ..common import enc_str
from . import c04

ID = 'C05'
LEAN_MODULES = ['HotXL.Props.C05']
FUNCTIONS = ['hotxlfp.grammarparser.parser:FormulaParser.p_expression_number', 'hotxlfp.grammarparser.parser:FormulaParser.p_expression_string',
             'hotxlfp.grammarparser.parser:FormulaParser.p_expseq_comma', 'hotxlfp.grammarparser.parser:FormulaParser.p_expseq_semicolon',
             'hotxlfp.grammarparser.parser:FormulaParser.p_expseq_backslash', 'hotxlfp.grammarparser.parser:FormulaParser.p_array',
             'hotxlfp.grammarparser.parser:FormulaParser.p_expression_wargs', 'hotxlfp.grammarparser.parser:FormulaParser.p_expression_function',
             'hotxlfp.grammarparser.parser:FormulaParser.p_cell', 'hotxlfp.helper.number:to_number',
             'hotxlfp.grammarparser.lexer:t_WHITESPACE', 'hotxlfp.grammarparser.lexer:t_STRING', 'hotxlfp.grammarparser.lexer:t_FUNCTION',
             'hotxlfp.grammarparser.lexer:t_NUMBER', 'hotxlfp.grammarparser.lexer:t_VARIABLE', 'hotxlfp.grammarparser.lexer:t_RELATIVE_CELL',
             'hotxlfp.grammarparser.lexer:t_error', 'hotxlfp.parser:Parser.call_cell_value', 'hotxlfp.parser:Parser.call_range_value',
             'hotxlfp.helper.cell:extract_label', 'hotxlfp.helper.cell:to_label', 'hotxlfp.helper.cell:column_label_to_index',
             'hotxlfp.helper.cell:column_index_to_label', 'hotxlfp.grammarparser.lexer:t_ABSOLUTE_CELL',
             'hotxlfp.grammarparser.lexer:t_MIXED_CELL']
RULE = ('(lex) token streams of seeded strings, real ply lexer vs model lexer, compared as exact text (token types and values, a '
        'lexer error with its offending character), no oracle: 1500 strings of 0..8 pieces of a pool of 70 (token spellings, '
        'operators, both quotes and backslash-escaped quotes, error literals, blank / tab / newline / NBSP / ideographic space, an '
        'Arabic-Indic digit, an emoji, NUL, \\x1c) and 300 of 0..11 code points, each from printable ASCII, U+0000..024F, '
        'U+2000..30FF or U+0000..10FFFF (surrogates replaced by `x`); (slots) every present/absent pattern of 1..6 argument slots '
        '(125; `F()` has no slot) x 3 separators x {call `F(..)` of a recording function, array literal `{..}`} (complete, 750) '
        '+ 150 seeded ones of 7..13 slots (a slot present with probability 2/3); slot i holds the literal i or nothing: an '
        'accepted formula must hand over one value per slot, None for an empty one (what F received / the value of the array), a '
        'rejected one is not judged; (slots3) the same 125 patterns of 1..6 slots x {call, array literal} (complete, 250 cases, not '
        'scaled), each case the one pattern written with `,`, with `;` and with `\\` (3 formulas on the parser of (slots)): the three '
        'outcomes - rejected with its error code, or accepted with what F received / the value of the array - must be equal, so '
        'a pattern is accepted under all three separators or under none and passes the same list; what that list is is judged by '
        '(slots); (lit) 400 seeded numeric literals of the five forms a, a.b, .b, a%, a^b (digit strings of 1, '
        '2, 3, 8, 17 or 40 digits, leading zeros allowed; a of a% up to 15 digits; a^b with a of 1..2 digits and b in 0..11), 11 '
        'fixed ones (0, 007, 0.0, 1.50, .0, 0%, 100%, 0^0, 2^10, 123456789012345678.9, thirty 9s) and 20 literal powers on both '
        'sides of the 2^1024 guard and far above it (2^1023 / 1024, 3^646 / 647 / 1023 / 1024, 4^511 / 512, 10^308 / 341 / 342, '
        '99^170 / 171, 01^1024, 0 / 1 / 9 ^99999999, 2^(forty 9s), (forty 9s)^7 / 8); quoted literals in both quote styles: 500 '
        'of 0..11 characters of a 40-character alphabet (letters, digits, blank, separators, operators, backslash, parentheses, '
        'braces, # ! % $, the other quote, tab, newline, \\x01, NBSP, accented / CJK), 300 of 1..7 characters, each with '
        'probability 0.6 one of 46 characters that a normalisation of the source text would rewrite (full-width punctuation, '
        'quotes, digits and letters, ideographic space, ligatures, superscript two, one half, Kelvin / Angstrom signs, long s, '
        'dotless / dotted I, sharp s, combining acute, NBSP, zero-width space / joiner, soft hyphen, BOM, RLM, line / paragraph '
        'separators, NEL, CR, VT, FF, Roman / circled numerals, square metre, half-width katakana) else one of `ab 1`, and 14 '
        'fixed ones (empty, blank, lone / trailing / doubled backslash, each quote inside the other style, 200 characters): the '
        'value must be exactly the characters between the quotes; (ws) 500 formulas of C04\'s tree generator (depth 1..4, no '
        'error, blank or non-dyadic leaves; call nodes ID 70 % / ABS 30 %, the variable ovr among the 5 variables) on C04\'s re-entrant host '
        '(c04.real_parser: ID and ABS the host\'s identity, ovr registered with 999 and answered with 41 by its callVariable listener; '
        'model environment c04.ENV), each with minimal parentheses, with seeded blank / two blanks / tab / newline / CR LF (c04.add_space) '
        'before and a blank after operators, parentheses and commas, and with a leading blank and a trailing newline: same '
        'outcome (floats within 1e-12 relative); (sep) 200 lists of 1..5 arguments (integers 0..49, 20% quoted texts) + 128 '
        'lists that pair quoted texts spelling a separator or operator (comma, semicolon, two backslashes and a blank, . & % ^) '
        'and 1, alone and after 7, each as `G(..)` and `{..}` under each of the 3 separators and as `G( a , b )`: all 7 must '
        'give the same flat list of the integers and the texts between the quotes; (arr) 100 two-row literals (first row 2..4, '
        'second row 1..4 integers 0..49) as `{a,b;c,d}`, `{a\\b;c\\d}` and `G(a,b;c,d)`: all 3 must give the two rows; '
        '(case) cell references in every form, each rendered three ways - as written, with the references upper-cased, and as '
        'written with seeded white space (nothing 2/7, a blank 2/7, a tab, a newline, or two blanks + newline + blank 1/7 each) at '
        'every token boundary: on both sides of the `:` of a range, of a bare reference, of commas and of + / *, and inside the '
        'parentheses of SUM( ) - never between a function name and its parenthesis -, evaluated '
        'with three kinds of host listeners for callCellValue / callRangeValue (an unbounded integer sheet looked up by '
        'row.index / col.index; the same sheet looked up by the label text through a strict upper-case reader; an echo of '
        'every field received: label, index / label / is_absolute of row and column): complete for two seeded one-letter '
        'corners in rows 1..9 (lower / upper case of each corner x the 16 `$` patterns x the 4 corner orders, bare under the 3 '
        'hosts and inside SUM under the 2 sheet hosts) and for the 8 spellings of a single cell; 500 seeded formulas of 1..3 '
        'references (cells 1/3, ranges 2/3; columns of 1..3 letters with every letter in its own case, rows up to 1048576, '
        'random `$`, second corner within 4 rows / columns on any side of the first - under the echo host anywhere with '
        'probability 0.3) used bare, inside SUM(..), G(.., ..) and parenthesised integer + / * (echo host: bare and G only); '
        '100 times the same range written twice in different cases inside one call, G(r, r\') or G(SUM(r), SUM(r\')); 26 fixed '
        'regression witnesses under the 3 hosts (SUM(a1:b2), SUM(c3:a1), G(a1:B2, A1:b2), b2*SUM(a1:A3), xfd9, zz10:ZY9, ...). '
        'Oracle: both spellings give the identical record (values and their types) under every host, the spaced rendering '
        'gives the identical record AND the identical list of host events (label, index / label / is_absolute of row and column '
        'of every cell or corner the listeners received) as the unspaced one, and under the two sheet '
        'hosts that record is the value / block / sum the harness computes for the denoted cells. The model '
        'evaluates the formula as written (`eval`) in an environment that holds values only under the normalised '
        'upper-case labels; its record and its cell / range events (labels, indices, `$` flags) are compared with what '
        'the listeners recorded, in order. Every case is also answered by the Lean model (lex: `lex`; case: `eval`; the other '
        'kinds: `c04.batch` over all renderings, records only; floats within 1 ulp for (lit) numbers, 4 ulps otherwise, or 1e-9 '
        'relative for (ws); a model record without opinion is passed over, except in (case) where it is a disagreement). '
        'Seeded counts are those of quick at scale 1 (7105 cases), x scale, x 10 in thorough (48055 cases); complete and fixed '
        'families once. search(): the same families at scale 10, oracle only, up to the first failure. No time or step budget. '
        'Non-trivial = (lex) the real lexer yields at least one token or error; other kinds: at least one rendering is '
        'evaluated without error.')
TRUSTED = ['the regular-expression engine `re` (each token rule has a hand-written matcher; the generated pattern texts are pinned by Props/C05)',
           'float(text) and Python\'s int / int division are correctly rounded, int ** int is exact (a decimal literal is compared '
           'with the correctly rounded double of the rational it spells, a power below the guard with the exact integer)',
           'fx.record_matches / fx.ulp_close as the comparison of model and implementation records (1 ulp for numeric literals, 4 '
           'ulps elsewhere, 1e-9 relative for (ws)) and c06.same_outcome (same error, floats within 1e-12 relative, otherwise '
           'equal values of equal type) as the equality of (ws) outcomes',
           'C04\'s generator, minimal-parenthesis renderer, white-space inserter and host parser (variables, ID, cell listener '
           'that evaluate further formulas on the same parser; since the ninth round also ABS registered as the identity and the '
           'variable ovr, registered 999 and answered 41 by the variable listener - c04.ENV holds ABS = (first) and ovr = 41) as the '
           'source and carrier of the (ws) formulas',
           'the functions F (records and returns its arguments) and G (returns its arguments) registered with set_function, '
           'declared to the model as returning their arguments',
           '(case) the harness\'s own reading of a reference (column letters in bijective base 26 regardless of case, row = number - 1, '
           'a range = the rectangle spanned by its two corners, smaller index first) and its integer sum over the sheet, against '
           'which the values of the grid- and label-addressed hosts are compared; SUM of integers and the registered function G '
           '(returns its arguments) as carriers of the values']
ASSUMPTIONS = ['white space is blank, tab and newline (kind ws also writes the two-character line end CR LF); it is never inserted between a function name and its parenthesis, nor inside a '
               'token (between the two characters of <= >= <>, inside a name, number or quoted literal); a range is three tokens: '
               'white space on either side of its `:` changes neither the outcome nor the cells the host is asked for',
               'an integer literal may have leading zeros (007 is 7); every numeric literal must evaluate without error to a '
               'non-boolean number: an int equal to the rational it spells, or a float that is the correctly rounded double of it',
               'n% is computed as n*0.01 in floating point: compared within 1 ulp of n/100, for n below 2^53',
               'a literal power of at least 2^1024 is #NUM! (bounded evaluation time, C01): precisely, a^b with a > 1 and '
               'floor(log2 a)*b >= 1024 must answer #NUM! without a result; every other a^b (all those below 2^1024, and some '
               'up to 2^2046 such as 3^647) must be the exact integer when an int is returned; a float result must be the '
               'correctly rounded double and is not judged when the power exceeds the double range',
               'lone surrogate code points (not representable as Lean Char) are excluded from the lexer comparison',
               'an empty argument slot (leading, between two separators, trailing) is passed as None, in calls and in array literals '
               'alike: F(1,,3) receives [1, None, 3]; `F()` has no slot; formulas with empty slots that the parser rejects are not '
               'judged',
               'the separators `,` `;` `\\` are interchangeable when one of them is used alone, in argument lists and in array '
               'literals (a flat list, also for `{1;2;3}`); `;` between groups separated by `,` or `\\` makes two rows, in an '
               'argument list as in an array literal; a quoted text that spells a separator or operator is a value; for a list '
               'with empty slots (slots3) interchangeable includes acceptance: a pattern of present and empty slots that one '
               'separator accepts is accepted with the other two, with the same values passed, and one that is rejected is '
               'rejected with the same error code by all three',
               'a quoted literal is exactly the characters between its quotes, in either quote style: no escape sequences (a '
               'backslash, also before the closing quote, and the other quote are ordinary characters), no trimming, case folding, '
               'Unicode normalisation or dropping of control / format characters; its own quote does not occur inside',
               '"cell references are case-insensitive" is read as: a formula and the same formula with every cell reference '
               '(single cell or either corner of a range, any `$` pattern, any corner order) upper-cased have the same outcome '
               'record (equal values of equal types) whatever the host listeners compute from what they receive - so the label, '
               'row.index, row.label, row.is_absolute, col.index, col.label and col.is_absolute delivered to callCellValue / '
               'callRangeValue must not depend on the letter case (a host echoing all these fields makes any difference visible in '
               'the record); and, for hosts that address an integer sheet by index or by label, the outcome is the value / '
               'selection / sum of the cells that the upper-case spelling denotes, without error, for columns up to ZZZ (beyond '
               'XFD) and rows up to 1048576, a range being delivered with the smaller row and column index in its first corner',
               'row numbers are written without leading zeros and are at least 1 in the (case) formulas']
EXHAUSTIVE = {'quick': True, 'thorough': True}

SEPS = [',', ';', '\\']
TOKENISH = ['SUM(', 'a1', '$B$2', 'C$3', '$d4', 'foo', 'x_1', 'a.b', '12', '3.5', '.5', '"s t"', "'q'", '"a\\"b"', '#N/A', '#DIV/0!',
            '#REF', '{', '}', '&', ' ', '\t', '\n', '.', ':', ';', ',', '\\', '*', '/', '-', '+', '^', '(', ')', '>', '<', '>=',
            '<=', '<>', '"', "'", '!', '=', '%', '#', '@', 'é', '١', ' ', '　', '_', 'A', 'Z9', 'IF(', 'a_b.c(', 'T.DIST(',
            '1e5', 'TRUE', '$', '?', '~', '[', ']', '😀', '\x00', '\x1c', 'ß', '\\"', "\\'"]

_lx = [None]
_p = [None]
_got = []


def ply_lexer():
    if _lx[0] is None:
        common.load_repo()
        import ply.lex as lex
        from hotxlfp.grammarparser import lexer as lexmod
        _lx[0] = (lex.lex(module=lexmod), lexmod)
    return _lx[0]


def parser():
    if _p[0] is None:
        common.load_repo()
        import hotxlfp
        p = hotxlfp.Parser()
        p.set_function('F', lambda *a: (_got.append(list(a)), list(a))[1])
        p.set_function('G', lambda *a: list(a))
        _p[0] = p
    return _p[0]


MODEL_ENV = None


def model_env():
    global MODEL_ENV
    if MODEL_ENV is None:
        MODEL_ENV = fx.env_wire(fns={'F': '(args)', 'G': '(args)'})
    return MODEL_ENV


def cases(rng, ctx):
    thorough = ctx['tier'] == 'thorough'
    sc = ctx['scale'] * (10 if thorough else 1)
    out = []
    # (lex)
    for _ in range(1500 * sc):
        n = rng.randrange(0, 9)
        out.append({'kind': 'lex', 's': ''.join(rng.choice(TOKENISH) for _ in range(n))})
    for _ in range(300 * sc):
        n = rng.randrange(0, 12)
        out.append({'kind': 'lex', 's': ''.join(chr(rng.choice([rng.randrange(32, 127), rng.randrange(0, 0x250), rng.randrange(0x2000, 0x3100),
                                                                 rng.randrange(0, 0x110000)])) for _ in range(n)).translate({k: 120 for k in range(0xD800, 0xE000)})})
    # (slots) complete up to 6
    for n in range(1, 7):
        for pat in itertools.product([0, 1], repeat=n):
            if n == 1 and pat == (0,):
                continue      # `F()` has no slot at all
            for sep in SEPS:
                out.append({'kind': 'slots', 'pat': list(pat), 'sep': sep, 'where': 'call'})
                out.append({'kind': 'slots', 'pat': list(pat), 'sep': sep, 'where': 'array'})
    # (slots3) the same pattern in the three separator styles side by side: accepted by all three or by none, and passing the same
    for n in range(1, 7):
        for pat in itertools.product([0, 1], repeat=n):
            if n == 1 and pat == (0,):
                continue
            for where in ('call', 'array'):
                out.append({'kind': 'slots3', 'pat': list(pat), 'where': where})
    for _ in range(150 * sc):
        n = rng.randrange(7, 14)
        pat = [rng.choice([0, 1, 1]) for _ in range(n)]
        out.append({'kind': 'slots', 'pat': pat, 'sep': rng.choice(SEPS), 'where': rng.choice(['call', 'array'])})
    # (lit) numbers
    def digs(k, lead_nonzero=False):
        s = ''.join(rng.choice('0123456789') for _ in range(k))
        return s
    for _ in range(400 * sc):
        form = rng.choice(['int', 'dec', 'dot', 'pct', 'pow'])
        a = digs(rng.choice([1, 1, 2, 3, 8, 15] if form == 'pct' else [1, 1, 2, 3, 8, 17, 40]))
        b = digs(rng.choice([1, 1, 2, 3, 8, 17, 40]))
        if form == 'pow':
            a, b = digs(rng.choice([1, 2])), str(rng.randrange(0, 12))
        out.append({'kind': 'num', 'form': form, 'a': a, 'b': b})
    for form, a, b in [('int', '0', ''), ('int', '007', ''), ('dec', '0', '0'), ('dec', '1', '50'), ('dot', '', '0'), ('pct', '0', ''),
                       ('pct', '100', ''), ('pow', '0', '0'), ('pow', '2', '10'), ('dec', '123456789012345678', '9'), ('int', '9' * 30, '')]:
        out.append({'kind': 'num', 'form': form, 'a': a, 'b': b})
    # literal powers around the guard of the production (floor(log2 a) * b >= 1024 -> #NUM!), and far above it
    for a, b in [('2', '1023'), ('2', '1024'), ('3', '646'), ('3', '647'), ('3', '1023'), ('3', '1024'), ('4', '511'), ('4', '512'),
                 ('10', '308'), ('10', '341'), ('10', '342'), ('99', '170'), ('99', '171'), ('1', '99999999'), ('0', '99999999'),
                 ('01', '1024'), ('9', '99999999'), ('2', '9' * 40), ('9' * 40, '8'), ('9' * 40, '7')]:
        out.append({'kind': 'num', 'form': 'pow', 'a': a, 'b': b})
    # (lit) strings
    alpha = 'abc XYZ019,;\\()+-*/&=<>.:{}#!%$\t\né漢字ß \x01'
    for _ in range(500 * sc):
        q = rng.choice(['"', "'"])
        other = "'" if q == '"' else '"'
        n = rng.randrange(0, 12)
        s = ''.join(rng.choice(alpha + other) for _ in range(n))
        out.append({'kind': 'str', 'q': q, 's': s})
    # characters that a normalisation of the source text (NFKC, full-width -> ASCII, case folding, strip, dropping format
    # characters) would rewrite: a literal holds them verbatim
    norm = ('\uff01\uff02\uff07\uff08\uff09\uff0b\uff0c\uff10\uff11\uff19\uff1b\uff1d\uff21\uff3a\uff41\uff5a\uff5e\u3000'
            '\ufb01\ufb06\u00b2\u00bd\u212a\u212b\u017f\u0131\u0130\u00df\u0301\u00a0\u200b\u200d\u00ad\ufeff\u2028\u2029\u0085'
            '\u200f\r\x0b\x0c\u2160\u2460\u33a1\uff76\uff9e')
    for _ in range(300 * sc):
        q = rng.choice(['"', "'"])
        n = rng.randrange(1, 8)
        s = ''.join(rng.choice(norm) if rng.random() < 0.6 else rng.choice('ab 1') for _ in range(n))
        out.append({'kind': 'str', 'q': q, 's': s})
    for s in ['', ' ', '\\', 'a\\', '\\\\', "it's", 'say "hi"', 'x' * 200]:
        for q in ['"', "'"]:
            if q not in s:
                out.append({'kind': 'str', 'q': q, 's': s})
    # (ws) / (sep) on generated formulas
    for _ in range(500 * sc):
        t = c04.gen_top(rng, rng.randrange(1, 5))
        out.append({'kind': 'ws', 't': t, 'seed': rng.randrange(1 << 30)})
    for _ in range(200 * sc):
        n = rng.randrange(1, 6)
        args = [str(rng.randrange(0, 50)) if rng.random() < 0.8 else '"t%d"' % rng.randrange(9) for _ in range(n)]
        out.append({'kind': 'sep', 'args': args, 'seed': rng.randrange(1 << 30)})
    # string arguments that look like separators / operators (values must never be mistaken for tokens)
    for a, b in itertools.product(['","', '";"', '"\\\\ "', '"."', '"&"', '"%"', '"^"', '1'], repeat=2):
        out.append({'kind': 'sep', 'args': [a, b], 'seed': 0})
        out.append({'kind': 'sep', 'args': ['7', a, b], 'seed': 0})
    # (arr) two-row literals
    for _ in range(100 * sc):
        r1 = [str(rng.randrange(0, 50)) for _ in range(rng.randrange(2, 5))]
        r2 = [str(rng.randrange(0, 50)) for _ in range(rng.randrange(1, 5))]
        out.append({'kind': 'rows', 'r1': r1, 'r2': r2})
    # (case) references in every form, in every letter case
    out.extend(case_cases(rng, sc))
    return out


def slot_formula(c):
    body = c['sep'].join(str(i + 1) if b else '' for i, b in enumerate(c['pat']))
    return ('F(%s)' % body) if c['where'] == 'call' else ('{%s}' % body)


def num_text(c):
    f, a, b = c['form'], c['a'], c['b']
    return {'int': a, 'dec': a + '.' + b, 'dot': '.' + b, 'pct': a + '%', 'pow': a + '^' + b}[f]


def formulas(c):
    k = c['kind']
    if k == 'slots':
        return [slot_formula(c)]
    if k == 'slots3':
        return [slot_formula(dict(c, sep=sp)) for sp in SEPS]
    if k == 'num':
        return [num_text(c)]
    if k == 'str':
        return [c['q'] + c['s'] + c['q']]
    if k == 'ws':
        t = c04._fix(c['t'])
        plain = c04.render_spec(t, False)
        r = _random.Random(c['seed'])
        return [plain, c04.add_space(r, plain), ' ' + plain + '\n']
    if k == 'sep':
        r = _random.Random(c['seed'])
        res = []
        for sep in SEPS:
            pad = lambda s: s
            res.append('G(' + sep.join(c['args']) + ')')
            res.append('{' + sep.join(c['args']) + '}')
        res.append('G( ' + ' , '.join(c['args']) + ' )')
        return res
    if k == 'rows':
        return ['{%s;%s}' % (','.join(c['r1']), ','.join(c['r2'])), '{%s;%s}' % ('\\'.join(c['r1']), '\\'.join(c['r2'])),
                'G(%s;%s)' % (','.join(c['r1']), ','.join(c['r2']))]
    if k == 'case':
        r = _random.Random(c['salt'] * 7919 + len(json.dumps(c['refs'])))
        gap = lambda: r.choice(['', '', ' ', ' ', '\t', '\n', '  \n '])
        return [node_text(c['shape'], c['refs'], False), node_text(c['shape'], c['refs'], True),
                node_text(c['shape'], c['refs'], False, gap)]
    return []


def request(c):
    if c['kind'] == 'lex':
        return 'lex ' + enc_str(c['s'])
    if c['kind'] == 'case':
        # the model evaluates the formula AS WRITTEN in an environment that knows only the normalised (upper-case) labels
        return 'eval ' + enc_str(formulas(c)[0]) + ' ' + case_env(c)
    fs = formulas(c)
    env = c04.ENV if c['kind'] == 'ws' else model_env()
    return 'c04.batch ' + ' '.join(enc_str(f) for f in fs) + ' ' + env


def lex_real(s):
    lx, lexmod = ply_lexer()
    from hotxlfp.formulas import error
    lx = lx.clone()
    lx.input(s)
    toks = []
    while True:
        try:
            t = lx.token()
        except error.XLError:
            toks.append('(LEXERROR %s)' % enc_str(s[lx.lexpos:lx.lexpos + 1]))
            break
        if t is None:
            break
        toks.append('(%s %s)' % (t.type, enc_str(t.value)))
    return '(' + ' '.join(toks) + ')'


def impl(c):
    if c['kind'] == 'lex':
        return lex_real(c['s'])
    if c['kind'] == 'case':
        return case_impl(c)
    p = c04.real_parser() if c['kind'] == 'ws' else parser()
    res = []
    for f in formulas(c):
        del _got[:]
        r = p.parse(f)
        res.append((f, r, [list(g) for g in _got]))
    return res


def agree(c, impl_ans, model_ans):
    if c['kind'] == 'lex':
        return impl_ans == model_ans
    m = fx.parse_sexp(model_ans)
    if c['kind'] == 'case':
        return case_agree(c, impl_ans, m)
    if len(m) != len(impl_ans):
        return False
    for (f, rec, got), mm in zip(impl_ans, m):
        if fx.record_matches(mm[1], rec, ulps=1 if c['kind'] == 'num' else 4, rel=1e-9 if c['kind'] == 'ws' else 0.0) is False:
            return False
    return True


def oracle(c, impl_ans):
    k = c['kind']
    if k == 'lex':
        return None
    if k == 'slots':
        f, rec, got = impl_ans[0]
        want = [i + 1 if b else None for i, b in enumerate(c['pat'])]
        if rec['error'] is not None:
            return None          # a rejected call: the claim is about accepted ones
        val = got[0] if c['where'] == 'call' and got else rec['result']
        if c['where'] == 'call' and not got:
            return '%r accepted but the function was not called' % f
        if val != want:
            return '%r passes %r; one argument per slot would be %r' % (f, val, want)
        return None
    if k == 'slots3':
        outs = []
        for f, rec, got in impl_ans:
            if rec['error'] is not None:
                outs.append(('rejected', rec['error']))
            else:
                outs.append(('accepted', got[0] if c['where'] == 'call' and got else rec['result']))
        if any(o != outs[0] for o in outs[1:]):
            return ('the choice of separator changes the outcome: %s' % '; '.join('%r is %s (%r)' % (f, o[0], o[1])
                                                                                  for (f, _r, _g), o in zip(impl_ans, outs)))
        return None
    if k == 'num':
        f, rec, _ = impl_ans[0]
        form, a, b = c['form'], c['a'], c['b']
        if form == 'int':
            q = Fraction(int(a))
        elif form == 'dec':
            q = Fraction(int(a)) + Fraction(int(b), 10 ** len(b))
        elif form == 'dot':
            q = Fraction(int(b), 10 ** len(b))
        elif form == 'pct':
            q = Fraction(int(a), 100)
        elif pow_guard(int(a), int(b)):
            # at least 2^1024: the power is not computed (bounded evaluation time), the answer is #NUM!
            if rec != {'result': None, 'error': '#NUM!'}:
                return 'literal power %r (at least 2^1024) evaluates to %s, expected #NUM!' % (f, short(rec))
            return None
        else:
            q = Fraction(int(a) ** int(b))      # below 2^2047 here
        r = rec['result']
        if rec['error'] is not None or isinstance(r, bool) or not isinstance(r, (int, float)):
            return 'literal %r evaluates to %r' % (f, rec)
        if isinstance(r, int):
            ok = Fraction(r) == q
        elif form == 'pct':
            ok = fx.ulp_close(r, q, 1)
        else:
            try:
                ok = r == q.numerator / q.denominator
            except OverflowError:
                ok = True
        if not ok:
            return 'literal %r evaluates to %r, it spells %s' % (f, r, q)
        return None
    if k == 'str':
        f, rec, _ = impl_ans[0]
        if rec['error'] is not None or rec['result'] != c['s']:
            return 'quoted literal %r evaluates to %r, not to the characters between its quotes' % (f, rec)
        return None
    if k == 'ws':
        base = impl_ans[0][1]
        for f, rec, _ in impl_ans[1:]:
            if not c06_same(base, rec):
                return 'white space changes the outcome: %r -> %r but %r -> %r' % (impl_ans[0][0], base, f, rec)
        return None
    if k == 'sep':
        want = [int(a) if a.isdigit() else a[1:-1] for a in c['args']]
        for f, rec, _ in impl_ans:
            if rec['error'] is not None or rec['result'] != want:
                return '%r evaluates to %r; expected the flat list %r' % (f, rec, want)
        return None
    if k == 'rows':
        want = [[int(x) for x in c['r1']], [int(x) for x in c['r2']]]
        for f, rec, _ in impl_ans:
            if rec['error'] is not None or rec['result'] != want:
                return '%r evaluates to %r; expected the two rows %r' % (f, rec, want)
        return None
    if k == 'case':
        return case_oracle(c, impl_ans)
    return None


# ------------------------------------------------------------------ (case) cell references in every form and letter case
#
# A case is  {'kind': 'case', 'mode': m, 'salt': n, 'refs': [ref…], 'shape': node}.
#   ref    = [corner] (a single cell) or [corner, corner] (a range `corner:corner`)
#   corner = [column absolute 0/1, column letters AS WRITTEN (any mixture of cases), row absolute 0/1, row number >= 1]
#   node   = ['ref', i] | ['sum', i] (`SUM(ref i)`) | ['g', node…] (`G(node,…)`) | ['add', node, node] | ['mul', node, node]
# The two formulas of a case are the shape rendered with the references as written and with every reference upper-cased.
# Listener modes (what the host's callCellValue / callRangeValue listeners answer):
#   'grid'  : the cells of an unbounded sheet, looked up by `row.index` / `col.index` of the cell(s) received
#   'label' : the same sheet, looked up by the `label` text of the cell(s) received, read by the harness's own strict
#             reader (upper-case letters only, as a host keyed by 'B2' would)
#   'echo'  : a text spelling out every field received (label, and index / label / is_absolute of row and column)

CASE_MODES = ['grid', 'label', 'echo']
HOSTS = {'grid': 'host sheet addressed by row.index / col.index', 'label': 'host sheet addressed by the label text',
         'echo': 'host answering with every field it receives'}
CASE_AREA_CAP = 4096
_STRICT_LABEL = None


def sheet_value(salt, r, c):
    """the unbounded sheet: an integer for every cell with non-negative coordinates, nothing elsewhere"""
    if not isinstance(r, int) or not isinstance(c, int) or isinstance(r, bool) or isinstance(c, bool) or r < 0 or c < 0:
        return None
    return ((r + 1) * 7919 + (c + 1) * 104729 + salt * 31) % 1999 - 500


def sheet_block(salt, r1, c1, r2, c2):
    if (r2 - r1 + 1) * (c2 - c1 + 1) > CASE_AREA_CAP:
        return 'too-big:%r,%r,%r,%r' % (r1, c1, r2, c2)
    return [[sheet_value(salt, r, cc) for cc in range(c1, c2 + 1)] for r in range(r1, r2 + 1)]


def col_index_of(letters):
    """the harness's own reading of column letters (bijective base 26, letter case irrelevant): 'A' -> 0, 'AA' -> 26"""
    n = 0
    for ch in letters:
        n = n * 26 + ('abcdefghijklmnopqrstuvwxyz'.index(ch.lower()) + 1)
    return n - 1


def col_letters_of(idx):
    s = ''
    n = idx + 1
    while n > 0:
        n, r = divmod(n - 1, 26)
        s = 'ABCDEFGHIJKLMNOPQRSTUVWXYZ'[r] + s
    return s


def strict_label(label):
    """(row index, column index) of a label a host would use as a key: `$`? UPPER-CASE letters `$`? digits; else None"""
    global _STRICT_LABEL
    import re
    if _STRICT_LABEL is None:
        _STRICT_LABEL = re.compile(r'\A\$?([A-Z]+)\$?([1-9][0-9]*)\Z')
    m = _STRICT_LABEL.match(label) if isinstance(label, str) else None
    if m is None:
        return None
    return int(m.group(2)) - 1, col_index_of(m.group(1))


def corner_text(k, upper):
    return ('$' if k[0] else '') + (k[1].upper() if upper else k[1]) + ('$' if k[2] else '') + str(k[3])


def ref_text(ref, upper):
    return ':'.join(corner_text(k, upper) for k in ref)


def node_text(node, refs, upper, gap=None):
    """text of a reference formula; `gap()` gives the white space put at a token boundary (none by default) - on either side
    of the ':' of a range, of parentheses, commas and operators, never between a function name and its parenthesis"""
    g = gap or (lambda: '')
    t = node[0]

    def rt(ref):
        return (g() + ':' + g()).join(corner_text(k, upper) for k in ref)
    if t == 'ref':
        return g() + rt(refs[node[1]]) + g()
    if t == 'sum':
        return 'SUM(%s%s%s)' % (g(), rt(refs[node[1]]), g())
    if t == 'g':
        return 'G(%s)' % (g() + ',' + g()).join(node_text(x, refs, upper, gap) for x in node[1:])
    if t in ('add', 'mul'):
        return '(%s%s%s%s%s)' % (node_text(node[1], refs, upper, gap), g(), '+' if t == 'add' else '*', g(),
                                 node_text(node[2], refs, upper, gap))
    raise ValueError(node)


def corner_parts(k):
    """what the corner denotes: (row part, column part), each (index, label text, is_absolute)"""
    return (k[3] - 1, str(k[3]), bool(k[2])), (col_index_of(k[1]), k[1].upper(), bool(k[0]))


def compose(row, col):
    return ('$' if col[2] else '') + col_letters_of(col[0]) + ('$' if row[2] else '') + str(row[0] + 1)


def denotes(ref):
    """the cell / the two normalised corners the reference denotes, whatever its letter case:
    ('cell', label, row, col) or ('range', label1, row1, col1, label2, row2, col2)"""
    if len(ref) == 1:
        row, col = corner_parts(ref[0])
        return ('cell', corner_text(ref[0], True), row, col)
    (ra, ca), (rb, cb) = corner_parts(ref[0]), corner_parts(ref[1])
    r1, r2 = (ra, rb) if ra[0] <= rb[0] else (rb, ra)
    c1, c2 = (ca, cb) if ca[0] <= cb[0] else (cb, ca)
    return ('range', compose(r1, c1), r1, c1, compose(r2, c2), r2, c2)


def echo_text(ev):
    def pl(q):
        return '%r/%s/%r' % (q[0], q[1], q[2])
    if ev[0] == 'cell':
        return 'cell:%s|%s|%s' % (ev[1], pl(ev[2]), pl(ev[3]))
    return 'range:%s|%s|%s:%s|%s|%s' % (ev[1], pl(ev[2]), pl(ev[3]), ev[4], pl(ev[5]), pl(ev[6]))


def host_value(mode, salt, ev):
    """the answer of the host's listener to the event it received (ev as recorded by the listener)"""
    if mode == 'echo':
        return echo_text(ev)
    if ev[0] == 'cell':
        if mode == 'grid':
            return sheet_value(salt, ev[2][0], ev[3][0])
        rc = strict_label(ev[1])
        return ('no-such-label:%r' % (ev[1],)) if rc is None else sheet_value(salt, rc[0], rc[1])
    if mode == 'grid':
        r1, c1, r2, c2 = ev[2][0], ev[3][0], ev[5][0], ev[6][0]
        if not all(isinstance(x, int) for x in (r1, c1, r2, c2)):
            return 'no-such-coordinates:%r' % ((r1, c1, r2, c2),)
        return sheet_block(salt, r1, c1, r2, c2)
    a, b = strict_label(ev[1]), strict_label(ev[4])
    if a is None or b is None:
        return 'no-such-label:%r:%r' % (ev[1], ev[4])
    return sheet_block(salt, a[0], a[1], b[0], b[1])


def expected_ref_value(mode, salt, ref):
    """the value the host holds for the cell(s) the reference denotes (computed without the implementation)"""
    return host_value(mode, salt, denotes(ref))


def expected_node(node, c):
    """value of a shape over the sheet ('grid' / 'label' modes), by the harness's own arithmetic on integers"""
    t = node[0]
    if t == 'ref':
        return expected_ref_value(c['mode'], c['salt'], c['refs'][node[1]])
    if t == 'sum':
        v = expected_ref_value(c['mode'], c['salt'], c['refs'][node[1]])
        return v if len(c['refs'][node[1]]) == 1 else sum(x for row in v for x in row)
    if t == 'g':
        return [expected_node(x, c) for x in node[1:]]
    a, b = expected_node(node[1], c), expected_node(node[2], c)
    return a + b if t == 'add' else a * b


_pc = [None]
_cs = {'mode': 'echo', 'salt': 0, 'log': []}


def case_parser():
    if _pc[0] is None:
        common.load_repo()
        import hotxlfp
        p = hotxlfp.Parser()
        p.set_function('G', lambda *a: list(a))

        def part(q):
            return (q.index, q.label, q.is_absolute)

        def on_cell(cell, done):
            ev = ('cell', cell.label, part(cell.row), part(cell.col))
            _cs['log'].append(ev)
            done(host_value(_cs['mode'], _cs['salt'], ev))

        def on_range(start, end, done):
            ev = ('range', start.label, part(start.row), part(start.col), end.label, part(end.row), part(end.col))
            _cs['log'].append(ev)
            done(host_value(_cs['mode'], _cs['salt'], ev))
        p.on('callCellValue', on_cell)
        p.on('callRangeValue', on_range)
        _pc[0] = p
    return _pc[0]


def case_impl(c):
    p = case_parser()
    res = []
    for f in formulas(c):
        _cs['mode'], _cs['salt'], _cs['log'] = c['mode'], c['salt'], []
        r = p.parse(f)
        res.append((f, r, list(_cs['log'])))
    return res


def case_env(c):
    cells, ranges = {}, {}
    for ref in c['refs']:
        d = denotes(ref)
        if d[0] == 'cell':
            cells[d[1]] = host_value(c['mode'], c['salt'], d)
        else:
            ranges[(d[1], d[4])] = host_value(c['mode'], c['salt'], d)
    return fx.env_wire(fns={'G': '(args)'}, cells=cells, ranges=ranges)


def _event_agrees(m, e):
    """an event of the model's log (parsed) vs an event recorded by the listeners"""
    def pl(mp, q):
        return (isinstance(mp, list) and len(mp) == 3 and isinstance(q[0], int) and int(mp[0]) == q[0] and
                common.dec_str(mp[1]) == q[1] and (mp[2] == '1') == bool(q[2]))
    if not isinstance(m, list) or not m or m[0] != e[0]:
        return False
    if e[0] == 'cell':
        return len(m) == 4 and common.dec_str(m[1]) == e[1] and pl(m[2], e[2]) and pl(m[3], e[3])
    return (len(m) == 7 and common.dec_str(m[1]) == e[1] and pl(m[2], e[2]) and pl(m[3], e[3]) and
            common.dec_str(m[4]) == e[4] and pl(m[5], e[5]) and pl(m[6], e[6]))


def case_agree(c, impl_ans, m):
    """model: record and cell/range events of the formula as written; implementation: the same, recorded"""
    if not (isinstance(m, list) and len(m) == 2):
        return False
    f, rec, log = impl_ans[0]
    if fx.record_matches(m[0], rec) is not True:
        return False
    mlog = [e for e in m[1] if isinstance(e, list) and e and e[0] in ('cell', 'range')]
    return len(mlog) == len(log) and all(_event_agrees(a, b) for a, b in zip(mlog, log))


def same_record(r1, r2):
    return r1 == r2 and repr(r1) == repr(r2)


def case_oracle(c, impl_ans):
    (fw, rw, lw), (fu, ru, _), (fs, rs, ls) = impl_ans
    if not same_record(rw, ru):
        return ('cell references are not case-insensitive (%s): %r -> %s but %r -> %s'
                % (HOSTS[c['mode']], fw, short(rw), fu, short(ru)))
    if not same_record(rw, rs) or lw != ls:
        return ('white space between the tokens of a reference formula changes the outcome (%s): %r -> %s but %r -> %s%s'
                % (HOSTS[c['mode']], fw, short(rw), fs, short(rs),
                   '' if lw == ls else '; the host was asked for %s instead of %s' % (short(ls), short(lw))))
    if c['mode'] in ('grid', 'label'):
        want = {'result': expected_node(c['shape'], c), 'error': None}
        if not same_record(rw, want):
            return ('%r (%s) evaluates to %s; the cells it denotes give %s'
                    % (fw, HOSTS[c['mode']], short(rw), short(want)))
    return None


def _mk_corner(rng, col_idx, row, style):
    letters = col_letters_of(col_idx)
    if style == 'lower':
        letters = letters.lower()
    elif style == 'mixed':
        letters = ''.join(rng.choice([ch.lower(), ch]) for ch in letters)
    return [rng.randrange(2), letters, rng.randrange(2), row]


def gen_ref(rng, mode, kind=None):
    kind = kind or rng.choice(['cell', 'range', 'range'])
    n = rng.choice([1, 1, 2, 2, 3])
    col = rng.randrange({1: 0, 2: 26, 3: 702}[n], {1: 26, 2: 702, 3: 18278}[n])
    row = rng.choice([rng.randrange(1, 10), rng.randrange(1, 100), rng.randrange(1, 1048577)])
    styles = ['lower', 'upper', 'mixed', 'lower', 'mixed']
    a = _mk_corner(rng, col, row, rng.choice(styles))
    if kind == 'cell':
        return [a]
    if mode == 'echo' and rng.random() < 0.3:
        col2, row2 = rng.randrange(0, 18278), rng.randrange(1, 1048577)       # anywhere (the echo does not enumerate cells)
    else:
        col2, row2 = max(0, col + rng.randrange(-4, 5)), max(1, row + rng.randrange(-4, 5))
    return [a, _mk_corner(rng, col2, row2, rng.choice(styles))]


def gen_shape(rng, mode, refs):
    """a shape using every reference once; arithmetic only where the host's values are integers"""
    def leaf(i):
        is_cell = len(refs[i]) == 1
        if mode == 'echo':
            return ['ref', i]
        if is_cell:
            return rng.choice([['ref', i], ['ref', i], ['sum', i]])
        return rng.choice([['ref', i], ['sum', i], ['sum', i]])

    def is_int(node):
        return node[0] in ('sum', 'add', 'mul') or (node[0] == 'ref' and len(refs[node[1]]) == 1)
    nodes = [leaf(i) for i in range(len(refs))]
    while len(nodes) > 1:
        a, b = nodes.pop(0), nodes.pop(0)
        if mode != 'echo' and is_int(a) and is_int(b) and rng.random() < 0.6:
            nodes.append([rng.choice(['add', 'mul']), a, b])
        else:
            nodes.append(['g', a, b])
    top = nodes[0]
    if top[0] != 'g' and rng.random() < 0.3:
        top = ['g', top]
    return top


# regression witnesses (formula as written; all of them also lie in the generated space)
CASE_CORPUS = [
    ('sum', ['a1:b2']), ('sum', ['A1:b2']), ('sum', ['a1:B2']), ('sum', ['$a$1:$c$3']), ('sum', ['$A$1:$c$3']), ('sum', ['b$2:$c3']),
    ('sum', ['c3:a1']), ('sum', ['C3:a1']), ('ref', ['a1:b2']), ('ref', ['c1:a3']), ('ref', ['a3:C1']),
    ('gg', ['a1:B2', 'A1:b2']), ('mulsum', ['b2', 'a1:A3']), ('addcells', ['a1', 'b2']), ('addcells', ['a1', 'B2']),
    ('ref', ['a1']), ('ref', ['xfd9']), ('ref', ['$b$2']), ('ref', ['c$3']), ('ref', ['$d4']), ('ref', ['zz10']),
    ('gg', ['xfd9', 'XFD9']), ('gg', ['$b$2', '$B$2']), ('sum', ['aa10:Ab12']), ('sum', ['xFa1:XFD3']), ('ref', ['zz10:ZY9']),
]


def _parse_written(text):
    import re
    ref = []
    for part in text.split(':'):
        m = re.match(r'\A(\$?)([A-Za-z]+)(\$?)([0-9]+)\Z', part)
        ref.append([1 if m.group(1) else 0, m.group(2), 1 if m.group(3) else 0, int(m.group(4))])
    return ref


def case_cases(rng, sc):
    out = []
    # fixed witnesses, under every kind of host
    for what, texts in CASE_CORPUS:
        refs = [_parse_written(t) for t in texts]
        shape = {'sum': ['sum', 0], 'ref': ['ref', 0], 'gg': ['g', ['ref', 0], ['ref', 1]],
                 'mulsum': ['mul', ['ref', 0], ['sum', 1]], 'addcells': ['add', ['ref', 0], ['ref', 1]]}[what]
        for mode in CASE_MODES:
            if mode == 'echo' and what in ('mulsum', 'addcells', 'sum'):
                shape_m = ['g'] + [['ref', i] for i in range(len(refs))]
            else:
                shape_m = shape
            out.append({'kind': 'case', 'mode': mode, 'salt': 1, 'refs': refs, 'shape': shape_m})
    # complete: two seeded one-letter corners; every letter case of each corner x every `$` pattern of each corner x
    # the four corner orders, bare and inside SUM, for every kind of host
    ca, cb = sorted(rng.sample(range(26), 2))
    ra, rb = sorted(rng.sample(range(1, 10), 2))
    salt = rng.randrange(1000)
    for (c1, r1, c2, r2) in [(ca, ra, cb, rb), (cb, rb, ca, ra), (cb, ra, ca, rb), (ca, rb, cb, ra)]:
        for low1, low2 in itertools.product([0, 1], repeat=2):
            for d in itertools.product([0, 1], repeat=4):
                l1, l2 = col_letters_of(c1), col_letters_of(c2)
                ref = [[d[0], l1.lower() if low1 else l1, d[1], r1], [d[2], l2.lower() if low2 else l2, d[3], r2]]
                for mode in CASE_MODES:
                    out.append({'kind': 'case', 'mode': mode, 'salt': salt, 'refs': [ref], 'shape': ['ref', 0]})
                    if mode != 'echo':
                        out.append({'kind': 'case', 'mode': mode, 'salt': salt, 'refs': [ref], 'shape': ['sum', 0]})
    # every `$` pattern and letter case of a single one-letter cell
    for low in (0, 1):
        for d in itertools.product([0, 1], repeat=2):
            l1 = col_letters_of(ca)
            for mode in CASE_MODES:
                out.append({'kind': 'case', 'mode': mode, 'salt': salt, 'refs': [[[d[0], l1.lower() if low else l1, d[1], ra]]],
                            'shape': ['ref', 0]})
    # seeded: 1..3 references with columns of 1..3 letters, each letter in its own case, bare and inside calls
    for _ in range(500 * sc):
        mode = rng.choice(CASE_MODES)
        refs = [gen_ref(rng, mode) for _ in range(rng.choice([1, 1, 2, 2, 3]))]
        out.append({'kind': 'case', 'mode': mode, 'salt': rng.randrange(1000), 'refs': refs, 'shape': gen_shape(rng, mode, refs)})
    # the same range written twice in different cases inside one call: `G(a1:B2, A1:b2)`
    for _ in range(100 * sc):
        mode = rng.choice(CASE_MODES)
        r = gen_ref(rng, mode, 'range')
        r2 = [[k[0], ''.join(rng.choice([ch.lower(), ch.upper()]) for ch in k[1]), k[2], k[3]] for k in r]
        out.append({'kind': 'case', 'mode': mode, 'salt': rng.randrange(1000), 'refs': [r, r2],
                    'shape': ['g', ['ref', 0], ['ref', 1]] if mode == 'echo' or rng.random() < 0.5 else ['g', ['sum', 0], ['sum', 1]]})
    return out


def pow_guard(base, exponent):
    """the reading of ASSUMPTIONS: base > 1 and floor(log2 base) * exponent >= 1024 (then base^exponent >= 2^1024)"""
    if base <= 1:
        return False
    k = 0
    while base >> (k + 1):       # k = floor(log2 base), computed without bit_length (the implementation uses that)
        k += 1
    return k * exponent >= 1024


def short(x, n=200):
    s = repr(x)
    return s if len(s) <= n else s[:n] + '...(%d characters)' % len(s)


def c06_same(r1, r2):
    from . import c06
    return c06.same_outcome(r1, r2)


def nontrivial(c, impl_ans):
    if c['kind'] == 'lex':
        return len(impl_ans) > 2
    return any(rec['error'] is None for _, rec, _ in impl_ans)


def search(rng, ctx, disagreements):
    c2 = dict(ctx)
    c2['scale'] = 10
    return cases(rng, c2)
