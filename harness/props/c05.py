# -*- coding: utf-8 -*-
"""C05 - lexical conventions: literals, whitespace, separators, case, empty arguments"""
import itertools
import random as _random
from fractions import Fraction

from .. import common, fx
from ..common import enc_str
from . import c04

ID = 'C05'
LEAN_MODULES = ['HotXL.Props.C05']
FUNCTIONS = ['hotxlfp.grammarparser.parser:FormulaParser.p_expression_number', 'hotxlfp.grammarparser.parser:FormulaParser.p_expression_string',
             'hotxlfp.grammarparser.parser:FormulaParser.p_expseq_comma', 'hotxlfp.grammarparser.parser:FormulaParser.p_expseq_semicolon',
             'hotxlfp.grammarparser.parser:FormulaParser.p_expseq_backslash', 'hotxlfp.grammarparser.parser:FormulaParser.p_array',
             'hotxlfp.grammarparser.parser:FormulaParser.p_expression_wargs', 'hotxlfp.grammarparser.parser:FormulaParser.p_expression_function',
             'hotxlfp.grammarparser.parser:FormulaParser.p_cell', 'hotxlfp.helper.number:to_number',
             'hotxlfp.grammarparser.lexer:t_WHITESPACE', 'hotxlfp.grammarparser.lexer:t_STRING', 'hotxlfp.grammarparser.lexer:t_FUNCTION',
             'hotxlfp.grammarparser.lexer:t_NUMBER', 'hotxlfp.grammarparser.lexer:t_VARIABLE', 'hotxlfp.grammarparser.lexer:t_RELATIVE_CELL',
             'hotxlfp.grammarparser.lexer:t_error', 'hotxlfp.parser:Parser.call_cell_value']
RULE = ('(lex) token streams of seeded strings over token-rich and arbitrary Unicode alphabets, real ply lexer vs model lexer; '
        '(slots) every present/absent pattern of 1..6 argument slots x 3 separators (complete) + seeded longer ones, through a '
        'recording function; (lit) numeric literals of the five forms with seeded digit strings up to 40 digits, quoted '
        'literals with seeded contents (ASCII, controls, accented/CJK, backslashes) in both quote styles; (ws) white space '
        'inserted at token boundaries of generated formulas; (sep) the three separator styles; (arr) array literal shapes; '
        '(case) cell labels in both cases. Non-trivial = accepted by the parser.')
TRUSTED = ['the regular-expression engine `re` (each token rule has a hand-written matcher; the generated pattern texts are pinned by Props/C05)',
           'float(text) is correctly rounded (a decimal literal is compared with the correctly rounded double of the rational it spells)']
ASSUMPTIONS = ['white space is never inserted between a function name and its parenthesis, nor inside a token',
               'n% is computed as n*0.01 in floating point: compared within 1 ulp of n/100, for n below 2^53',
               'a literal power of at least 2^1024 is #NUM! (bounded evaluation time, C01): precisely, a^b with a > 1 and '
               'floor(log2 a)*b >= 1024 must answer #NUM! without a result; every other a^b (all those below 2^1024, and some '
               'up to 2^2046 such as 3^647) must be the exact integer', 'lone surrogate code points (not representable as Lean Char) are excluded from the lexer comparison']
EXHAUSTIVE = {'quick': True, 'thorough': True}

SEPS = [',', ';', '\\']
TOKENISH = ['SUM(', 'a1', '$B$2', 'C$3', '$d4', 'foo', 'x_1', 'a.b', '12', '3.5', '.5', '"s t"', "'q'", '"a\\"b"', '#N/A', '#DIV/0!',
            '#REF', '{', '}', '&', ' ', '\t', '\n', '.', ':', ';', ',', '\\', '*', '/', '-', '+', '^', '(', ')', '>', '<', '>=',
            '<=', '<>', '"', "'", '!', '=', '%', '#', '@', 'é', '١', ' ', '　', '_', 'A', 'Z9', 'IF(', 'a_b.c(', 'T.DIST(',
            '1e5', 'TRUE', '$', '?', '~', '[', ']', '😀', '\x00', '\x1c', 'ß', '\\"', "\\'"]

_lx = [None]
_p = [None]
_got = []


def ply_lexer():
    if _lx[0] is None:
        common.load_repo()
        import ply.lex as lex
        from hotxlfp.grammarparser import lexer as lexmod
        _lx[0] = (lex.lex(module=lexmod), lexmod)
    return _lx[0]


def parser():
    if _p[0] is None:
        common.load_repo()
        import hotxlfp
        p = hotxlfp.Parser()
        p.set_function('F', lambda *a: (_got.append(list(a)), list(a))[1])
        p.set_function('G', lambda *a: list(a))

        def on_cell(cell, setter):
            setter('cell:' + cell.label)
        p.on('callCellValue', on_cell)
        _p[0] = p
    return _p[0]


MODEL_ENV = None


def model_env():
    global MODEL_ENV
    if MODEL_ENV is None:
        labels = {}
        for lab in ['A1', 'XFD9', '$B$2', 'C$3', '$D4', 'ZZ10']:
            labels[lab] = 'cell:' + lab
        MODEL_ENV = fx.env_wire(fns={'F': '(args)', 'G': '(args)'}, cells=labels)
    return MODEL_ENV


def cases(rng, ctx):
    thorough = ctx['tier'] == 'thorough'
    sc = ctx['scale'] * (10 if thorough else 1)
    out = []
    # (lex)
    for _ in range(1500 * sc):
        n = rng.randrange(0, 9)
        out.append({'kind': 'lex', 's': ''.join(rng.choice(TOKENISH) for _ in range(n))})
    for _ in range(300 * sc):
        n = rng.randrange(0, 12)
        out.append({'kind': 'lex', 's': ''.join(chr(rng.choice([rng.randrange(32, 127), rng.randrange(0, 0x250), rng.randrange(0x2000, 0x3100),
                                                                 rng.randrange(0, 0x11000)])) for _ in range(n)).translate({k: 120 for k in range(0xD800, 0xE000)})})
    # (slots) complete up to 6
    for n in range(1, 7):
        for pat in itertools.product([0, 1], repeat=n):
            if n == 1 and pat == (0,):
                continue      # `F()` has no slot at all
            for sep in SEPS:
                out.append({'kind': 'slots', 'pat': list(pat), 'sep': sep, 'where': 'call'})
                out.append({'kind': 'slots', 'pat': list(pat), 'sep': sep, 'where': 'array'})
    for _ in range(150 * sc):
        n = rng.randrange(7, 14)
        pat = [rng.choice([0, 1, 1]) for _ in range(n)]
        out.append({'kind': 'slots', 'pat': pat, 'sep': rng.choice(SEPS), 'where': rng.choice(['call', 'array'])})
    # (lit) numbers
    def digs(k, lead_nonzero=False):
        s = ''.join(rng.choice('0123456789') for _ in range(k))
        return s
    for _ in range(400 * sc):
        form = rng.choice(['int', 'dec', 'dot', 'pct', 'pow'])
        a = digs(rng.choice([1, 1, 2, 3, 8, 15] if form == 'pct' else [1, 1, 2, 3, 8, 17, 40]))
        b = digs(rng.choice([1, 1, 2, 3, 8, 17, 40]))
        if form == 'pow':
            a, b = digs(rng.choice([1, 2])), str(rng.randrange(0, 12))
        out.append({'kind': 'num', 'form': form, 'a': a, 'b': b})
    for form, a, b in [('int', '0', ''), ('int', '007', ''), ('dec', '0', '0'), ('dec', '1', '50'), ('dot', '', '0'), ('pct', '0', ''),
                       ('pct', '100', ''), ('pow', '0', '0'), ('pow', '2', '10'), ('dec', '123456789012345678', '9'), ('int', '9' * 30, '')]:
        out.append({'kind': 'num', 'form': form, 'a': a, 'b': b})
    # literal powers around the guard of the production (floor(log2 a) * b >= 1024 -> #NUM!), and far above it
    for a, b in [('2', '1023'), ('2', '1024'), ('3', '646'), ('3', '647'), ('3', '1023'), ('3', '1024'), ('4', '511'), ('4', '512'),
                 ('10', '308'), ('10', '341'), ('10', '342'), ('99', '170'), ('99', '171'), ('1', '99999999'), ('0', '99999999'),
                 ('01', '1024'), ('9', '99999999'), ('2', '9' * 40), ('9' * 40, '8'), ('9' * 40, '7')]:
        out.append({'kind': 'num', 'form': 'pow', 'a': a, 'b': b})
    # (lit) strings
    alpha = 'abc XYZ019,;\\()+-*/&=<>.:{}#!%$\t\né漢字ß \x01'
    for _ in range(500 * sc):
        q = rng.choice(['"', "'"])
        other = "'" if q == '"' else '"'
        n = rng.randrange(0, 12)
        s = ''.join(rng.choice(alpha + other) for _ in range(n))
        out.append({'kind': 'str', 'q': q, 's': s})
    for s in ['', ' ', '\\', 'a\\', '\\\\', "it's", 'say "hi"', 'x' * 200]:
        for q in ['"', "'"]:
            if q not in s:
                out.append({'kind': 'str', 'q': q, 's': s})
    # (ws) / (sep) on generated formulas
    for _ in range(500 * sc):
        t = c04.gen_top(rng, rng.randrange(1, 5))
        out.append({'kind': 'ws', 't': t, 'seed': rng.randrange(1 << 30)})
    for _ in range(200 * sc):
        n = rng.randrange(1, 6)
        args = [str(rng.randrange(0, 50)) if rng.random() < 0.8 else '"t%d"' % rng.randrange(9) for _ in range(n)]
        out.append({'kind': 'sep', 'args': args, 'seed': rng.randrange(1 << 30)})
    # string arguments that look like separators / operators (values must never be mistaken for tokens)
    for a, b in itertools.product(['","', '";"', '"\\\\ "', '"."', '"&"', '"%"', '"^"', '1'], repeat=2):
        out.append({'kind': 'sep', 'args': [a, b], 'seed': 0})
        out.append({'kind': 'sep', 'args': ['7', a, b], 'seed': 0})
    # (arr) two-row literals
    for _ in range(100 * sc):
        r1 = [str(rng.randrange(0, 50)) for _ in range(rng.randrange(2, 5))]
        r2 = [str(rng.randrange(0, 50)) for _ in range(rng.randrange(1, 5))]
        out.append({'kind': 'rows', 'r1': r1, 'r2': r2})
    # (case)
    for lab in ['A1', 'XFD9', '$B$2', 'C$3', '$D4', 'ZZ10']:
        out.append({'kind': 'case', 'label': lab})
    return out


def slot_formula(c):
    body = c['sep'].join(str(i + 1) if b else '' for i, b in enumerate(c['pat']))
    return ('F(%s)' % body) if c['where'] == 'call' else ('{%s}' % body)


def num_text(c):
    f, a, b = c['form'], c['a'], c['b']
    return {'int': a, 'dec': a + '.' + b, 'dot': '.' + b, 'pct': a + '%', 'pow': a + '^' + b}[f]


def formulas(c):
    k = c['kind']
    if k == 'slots':
        return [slot_formula(c)]
    if k == 'num':
        return [num_text(c)]
    if k == 'str':
        return [c['q'] + c['s'] + c['q']]
    if k == 'ws':
        t = c04._fix(c['t'])
        plain = c04.render_spec(t, False)
        r = _random.Random(c['seed'])
        return [plain, c04.add_space(r, plain), ' ' + plain + '\n']
    if k == 'sep':
        r = _random.Random(c['seed'])
        res = []
        for sep in SEPS:
            pad = lambda s: s
            res.append('G(' + sep.join(c['args']) + ')')
            res.append('{' + sep.join(c['args']) + '}')
        res.append('G( ' + ' , '.join(c['args']) + ' )')
        return res
    if k == 'rows':
        return ['{%s;%s}' % (','.join(c['r1']), ','.join(c['r2'])), '{%s;%s}' % ('\\'.join(c['r1']), '\\'.join(c['r2'])),
                'G(%s;%s)' % (','.join(c['r1']), ','.join(c['r2']))]
    if k == 'case':
        return [c['label'], c['label'].lower(), 'G(%s,%s)' % (c['label'].lower(), c['label'])]
    return []


def request(c):
    if c['kind'] == 'lex':
        return 'lex ' + enc_str(c['s'])
    fs = formulas(c)
    env = c04.ENV if c['kind'] == 'ws' else model_env()
    return 'c04.batch ' + ' '.join(enc_str(f) for f in fs) + ' ' + env


def lex_real(s):
    lx, lexmod = ply_lexer()
    from hotxlfp.formulas import error
    lx = lx.clone()
    lx.input(s)
    toks = []
    while True:
        try:
            t = lx.token()
        except error.XLError:
            toks.append('(LEXERROR %s)' % enc_str(s[lx.lexpos:lx.lexpos + 1]))
            break
        if t is None:
            break
        toks.append('(%s %s)' % (t.type, enc_str(t.value)))
    return '(' + ' '.join(toks) + ')'


def impl(c):
    if c['kind'] == 'lex':
        return lex_real(c['s'])
    p = c04.real_parser() if c['kind'] == 'ws' else parser()
    res = []
    for f in formulas(c):
        del _got[:]
        r = p.parse(f)
        res.append((f, r, [list(g) for g in _got]))
    return res


def agree(c, impl_ans, model_ans):
    if c['kind'] == 'lex':
        return impl_ans == model_ans
    m = fx.parse_sexp(model_ans)
    if len(m) != len(impl_ans):
        return False
    for (f, rec, got), mm in zip(impl_ans, m):
        if fx.record_matches(mm[1], rec, ulps=1 if c['kind'] == 'num' else 4, rel=1e-9 if c['kind'] == 'ws' else 0.0) is False:
            return False
    return True


def oracle(c, impl_ans):
    k = c['kind']
    if k == 'lex':
        return None
    if k == 'slots':
        f, rec, got = impl_ans[0]
        want = [i + 1 if b else None for i, b in enumerate(c['pat'])]
        if rec['error'] is not None:
            return None          # a rejected call: the claim is about accepted ones
        val = got[0] if c['where'] == 'call' and got else rec['result']
        if c['where'] == 'call' and not got:
            return '%r accepted but the function was not called' % f
        if val != want:
            return '%r passes %r; one argument per slot would be %r' % (f, val, want)
        return None
    if k == 'num':
        f, rec, _ = impl_ans[0]
        form, a, b = c['form'], c['a'], c['b']
        if form == 'int':
            q = Fraction(int(a))
        elif form == 'dec':
            q = Fraction(int(a)) + Fraction(int(b), 10 ** len(b))
        elif form == 'dot':
            q = Fraction(int(b), 10 ** len(b))
        elif form == 'pct':
            q = Fraction(int(a), 100)
        elif pow_guard(int(a), int(b)):
            # at least 2^1024: the power is not computed (bounded evaluation time), the answer is #NUM!
            if rec != {'result': None, 'error': '#NUM!'}:
                return 'literal power %r (at least 2^1024) evaluates to %s, expected #NUM!' % (f, short(rec))
            return None
        else:
            q = Fraction(int(a) ** int(b))      # below 2^2047 here
        r = rec['result']
        if rec['error'] is not None or isinstance(r, bool) or not isinstance(r, (int, float)):
            return 'literal %r evaluates to %r' % (f, rec)
        if isinstance(r, int):
            ok = Fraction(r) == q
        elif form == 'pct':
            ok = fx.ulp_close(r, q, 1)
        else:
            try:
                ok = r == q.numerator / q.denominator
            except OverflowError:
                ok = True
        if not ok:
            return 'literal %r evaluates to %r, it spells %s' % (f, r, q)
        return None
    if k == 'str':
        f, rec, _ = impl_ans[0]
        if rec['error'] is not None or rec['result'] != c['s']:
            return 'quoted literal %r evaluates to %r, not to the characters between its quotes' % (f, rec)
        return None
    if k == 'ws':
        base = impl_ans[0][1]
        for f, rec, _ in impl_ans[1:]:
            if not c06_same(base, rec):
                return 'white space changes the outcome: %r -> %r but %r -> %r' % (impl_ans[0][0], base, f, rec)
        return None
    if k == 'sep':
        want = [int(a) if a.isdigit() else a[1:-1] for a in c['args']]
        for f, rec, _ in impl_ans:
            if rec['error'] is not None or rec['result'] != want:
                return '%r evaluates to %r; expected the flat list %r' % (f, rec, want)
        return None
    if k == 'rows':
        want = [[int(x) for x in c['r1']], [int(x) for x in c['r2']]]
        for f, rec, _ in impl_ans:
            if rec['error'] is not None or rec['result'] != want:
                return '%r evaluates to %r; expected the two rows %r' % (f, rec, want)
        return None
    if k == 'case':
        lab = c['label']
        (f1, r1, _), (f2, r2, _), (f3, r3, _) = impl_ans
        if r1 != r2 or r1['result'] != 'cell:' + lab.upper() or r3['result'] != ['cell:' + lab.upper()] * 2:
            return 'cell reference case matters: %r -> %r, %r -> %r, %r -> %r' % (f1, r1, f2, r2, f3, r3)
        return None
    return None


def pow_guard(base, exponent):
    """the reading of ASSUMPTIONS: base > 1 and floor(log2 base) * exponent >= 1024 (then base^exponent >= 2^1024)"""
    if base <= 1:
        return False
    k = 0
    while base >> (k + 1):       # k = floor(log2 base), computed without bit_length (the implementation uses that)
        k += 1
    return k * exponent >= 1024


def short(x, n=200):
    s = repr(x)
    return s if len(s) <= n else s[:n] + '...(%d characters)' % len(s)


def c06_same(r1, r2):
    from . import c06
    return c06.same_outcome(r1, r2)


def nontrivial(c, impl_ans):
    if c['kind'] == 'lex':
        return len(impl_ans) > 2
    return any(rec['error'] is None for _, rec, _ in impl_ans)


def search(rng, ctx, disagreements):
    c2 = dict(ctx)
    c2['scale'] = 10
    return cases(rng, c2)
