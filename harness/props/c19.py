# -*- coding: utf-8 -*-
"""C19 - cell labels and row/column indices correspond one-to-one (hotxlfp/helper/cell.py)

case kinds: col, idx, row, rowlabel, label (with `pre`: after formulas on the shared parser), formula (oracle only; with key
`wrap` the formula is the one label s put into the pattern wrap - white space around it or parentheses; with key `cellonly`
the formula, a range, is evaluated on a second parser that has a cell listener only: no cell event may be raised)"""
import itertools
import string

from .. import common
from ..common import enc_str

ID = 'C19'
LEAN_MODULES = ['HotXL.Props.C19']
FUNCTIONS = ['hotxlfp.helper.cell:row_label_to_index', 'hotxlfp.helper.cell:row_index_to_label',
             'hotxlfp.helper.cell:column_label_to_index', 'hotxlfp.helper.cell:column_index_to_label',
             'hotxlfp.helper.cell:extract_label', 'hotxlfp.helper.cell:to_label']
RULE = ('col: all column labels of length<=2 in upper case + the 26 lower-case letters (quick) / all 475254 of length<=4 in '
        'both cases (thorough), 600*scale seeded mixed-case ones of length 3,4,5,7,12 and 13 fixed (XFD, XFE, ZZZZ, non-labels '
        'A1, a-b, empty, " A", A_, AB$); idx: column indices -2..3000*scale-1 (thorough: -2..499999), 300*scale seeded ones below '
        '10^3..10^14 and 12 boundary values (judged for n >= 0); row: 1..1999, 1048575..1048577, 10^9, 10^20, 500*scale seeded '
        '(thorough adds every 7th row up to 1048576); rowlabel: 8 non-row strings (model comparison only); label: 1500*scale '
        '(thorough x10) seeded labels of 1..4 letters in both cases x rows below 100 / 1048577 / 10^9 x all four $ patterns, '
        '11 fixed (incl. A0, A01, A00, $a$007), 800*scale strings of length 0..6 over a 20-character junk alphabet and 35 fixed '
        'non-labels (wrong order, empty parts, doubled/trailing $, white space, trailing newline / CR, Arabic digit, Cyrillic A, '
        'characters that str.upper()/lower() turn into ASCII letters: sharp s, dotless i, long s, ligatures, Kelvin sign); '
        'label with `pre`: 400*scale (thorough x5) + 2 fixed labels decomposed after one shared hotxlfp.Parser with grid listeners '
        'has evaluated 1..3 formulas (SUM(x:y), x:y, SUM(x:y)+a) that use the label as corner of ranges written in either order '
        'and case and as single reference; formula (oracle only, same parser, the cell/range events are observed): 300*scale '
        '(thorough x5) label look-alikes whose letters part holds one of 7 non-ASCII characters that case mapping turns into '
        'ASCII letters (30 % also as a range) - no event may be raised; 150*scale ASCII one-label formulas and 250*scale sums of '
        '2..3 references to one address in different $ patterns and cases - exactly one cell event per reference with the '
        'upper-cased label, its recomposition and its $ flags (the cell listener reads the parts through the tuple protocol of '
        'Cell, row, col = cell, and checks that they are the very objects cell.row / cell.col / cell[0] / cell[1] give, and that each '
        'of the two parts, taken apart as a tuple, is exactly the triple (index, label, is_absolute) of its attributes - helper/cell.py '
        'ParsedLabel; a part that is not reports PART<>(index, label, is_absolute) in place of the recomposition, which no expected event '
        'equals); 200*scale '
        'formulas with key wrap + 6 fixed: ONE label (1..3 ASCII letters of either case, row 1..4999, the four $ patterns) with '
        'white space around it or in redundant parentheses, the pattern seeded from a list of 10 (label LF, listed twice, label CR LF, blank label, '
        'label blank, LF label, label LF LF, tab label tab, (label), ( label )); fixed: A1 and $b$2 each followed by LF, by CR LF and in '
        'parentheses - the events observed must be exactly the one cell event of the label (upper-cased label, its recomposition, '
        'its $ flags; no second event, no range event); 120*scale '
        'formulas + 8 fixed (LOG10, log10, Atan2, $LOG$10, ATAN$2, LOG10+A1, SUM(LOG9:LOG10), ATAN2:ATAN2) whose labels spell '
        'function names read from the live registry (45 %: a label-shaped name such as LOG10 / ATAN2, 30 % of these with the row '
        'one off; else an alphabetic ASCII name of at most 4 letters + a row below 300; 30 % in one of the four $ patterns, 40 % in lower case or '
        'capitalised), 70 % alone or as a sum of two, 30 % as corners of SUM(a:b) / a:b - judged like every other label; '
        '250*scale (thorough x5) range formulas SUM(a:b) / a:b / sum(a:b) over labels of 1..4 letters from ABCDXYZabz, rows '
        'below 30 / 1048577, four $ patterns (15 %: a:a): exactly one range event and no cell event, the two corners read by the '
        'range listener through the tuple protocol (row, col = corner, the same objects as corner.row / corner.col) and reported '
        'as label | recomposed parts | row index | column index | row $ | column $ (the part triples are checked by the cell listener only); expected: first corner = smaller row part and '
        'smaller column part, second corner = the larger ones, each part with the $ marker it was written with (a formula is '
        'judged as a range when, inside an optional SUM( ), it is two label-shaped strings around one colon; as a sum when every '
        '+-separated part is label-shaped; other ASCII formulas are not judged); 6 fixed range formulas with key cellonly (SUM(B2:C3), SUM(y1:ab1), SUM(A$9:A$11), '
        'SUM($B$2:C3), B2:C3, SUM(A1:A1)) are evaluated on a SECOND parser of the run that carries the same cell listener and no range '
        'listener (a host that listens to cells only): a range is no cell, the list of observed events must be empty - no cell '
        'event for a corner or for any cell of the block; what the formula evaluates to is ignored. All kinds but formula are compared with the model (label: also on '
        'non-ASCII text). Non-trivial = the implementation returns something other than -1 / empty / []; formula cases always '
        'count. When a proof or the correspondence broke: indices within 30 of a disagreeing one, both cases of a disagreeing '
        'column label, and the whole generator at scale 20.')
TRUSTED = ['CPython str.upper/str.find/int()/str() on ASCII (modelled by hand in Model/Cell.lean)',
           'the regular expression engine `re` for LABEL_EXTRACT_REGEXP (matcher written by hand for the generated pattern; '
           'Props/C19.regexp_is_the_modelled_one pins the pattern text)',
           'pre / formula cases: lexer, grammar and evaluator of hotxlfp.Parser are the route to the label functions and are not '
           'judged themselves (the results of the formulas are ignored; one parser is shared by the whole run; the cellonly cases '
           'use a second one, built with it, with the same on_cell listener and nothing else registered - the two share the event '
           'list, which is emptied before every formula)',
           'the function-name labels are drawn from hotxlfp.formulas.dispatcher._registry_ of the live code (a fixed list of 19 '
           'names when the registry cannot be read)']
ASSUMPTIONS = ['column_label_to_index is compared on ASCII input only (str.upper of non-ASCII text is library behaviour)',
               'labels with a zero row or leading zeros (A0, A01) are neither required to parse nor required to be rejected',
               'a label is $?letters$?digits over ASCII letters and digits, row >= 1: it must decompose to (row-1, bijective base-26 '
               'column, the two $ flags) and recompose to its upper-case spelling; every other string (but the zero-row / leading-zero '
               'ones) must give []; negative column indices and the rowlabel strings are not judged by the oracle',
               'a formula that is a label (or a sum of labels) raises one callCellValue event per reference; a string whose letters '
               'part is not ASCII letters is no cell reference even if str.upper() would make it one; a label that spells the '
               'name of a registered function (LOG10, ATAN2, SUM5) and is written without parentheses is a cell like any other',
               'white space before or after a label - blanks, tabs, LF, CR LF, as a formula read as a line of a file carries - and '
               'redundant parentheses around it are not part of the label: the formula is that one cell reference and raises its '
               'one callCellValue event with the label decomposed as when written alone',
               'a formula a:b or SUM(a:b) over two labels raises exactly one callRangeValue event and no callCellValue event; the '
               'corners handed to the listener are Cells whose tuple protocol (row, col = cell) gives the parts their attributes '
               'give; the first corner carries the smaller row part and the smaller column part (on a tie the one written first), '
               'the second the others, each part keeping its own $ marker',
               'the row and the column part of the Cell handed to a cell listener are triples (index, label, is_absolute): a host may '
               'take one apart as a tuple and gets what the attributes of the same name give',
               'a range is no cell: on a parser whose host listens to callCellValue only, a:b and SUM(a:b) raise no callCellValue '
               'event (not for the corners, not for the cells in between, not for a one-cell range A1:A1)']
EXHAUSTIVE = {'quick': False, 'thorough': True}

UP = string.ascii_uppercase


def _cell():
    common.load_repo()
    from hotxlfp.helper import cell
    return cell


_PARSER = []
_EVENTS = []


def _parser():
    """a hotxlfp.Parser with grid listeners (the evaluator's use of the label functions)"""
    if not _PARSER:
        common.load_repo()
        import hotxlfp
        p = hotxlfp.Parser()
        def on_cell(cell, done):
            from hotxlfp.helper.cell import to_label
            # the parts are read through the tuple protocol of Cell (row, col = cell) and through its attributes
            row, col = cell
            back = to_label(row, col) if (row is cell.row and col is cell.col and cell[0] is row and cell[1] is col) else 'TUPLE<>ATTRIBUTES'
            # a part is the triple (index, label, is_absolute) - helper/cell.py ParsedLabel - and may be taken apart like one
            if any(tuple(pt) != (pt.index, pt.label, pt.is_absolute) for pt in (row, col)):
                back = 'PART<>(index, label, is_absolute)'
            _EVENTS.append('%s|%s|%d|%d' % (cell.label, back, bool(cell.row.is_absolute), bool(cell.col.is_absolute)))
            done(1)
        p.on('callCellValue', on_cell)

        def corner(c):
            from hotxlfp.helper.cell import to_label
            try:
                row, col = c
                if row is not c.row or col is not c.col:
                    return '%s|TUPLE<>ATTRIBUTES' % c.label
                return '%s|%s|%d|%d|%d|%d' % (c.label, to_label(row, col), row.index, col.index, bool(row.is_absolute), bool(col.is_absolute))
            except Exception as e:
                return '%s|EXC %s' % (getattr(c, 'label', '?'), type(e).__name__)

        def on_range(start, end, done):
            _EVENTS.append(corner(start) + '~' + corner(end))
            done([[1, 2], [3, 4]])
        p.on('callRangeValue', on_range)
        _PARSER.append(p)
        # a second parser of a host that listens to CELLS only: a range is no cell - no cell event is raised for it
        q = hotxlfp.Parser()
        q.on('callCellValue', on_cell)
        _PARSER.append(q)
    return _PARSER[0]


def function_names():
    """the registered function names of the live code (sorted), or a fixed list when the registry cannot be read"""
    try:
        common.load_repo()
        from hotxlfp.formulas import dispatcher
        names = sorted(str(n) for n in dispatcher._registry_)
        if names:
            return names
    except Exception:
        pass
    return ['ABS', 'AND', 'ATAN', 'ATAN2', 'DAY', 'IF', 'IMLOG10', 'IMLOG2', 'LOG', 'LOG10', 'MAX', 'MIN', 'N', 'NOT', 'NOW', 'OR',
            'PI', 'SUM', 'T']


# independent reference: bijective base-26 in shortlex order
def ref_index(label):
    n = 0
    for ch in label.upper():
        n = n * 26 + (ord(ch) - 64)
    return n - 1


def ref_label(n):
    s = ''
    n += 1
    while n > 0:
        n, r = divmod(n - 1, 26)
        s = chr(65 + r) + s
    return s


def label_shaped(s):
    """$?letters$?digits with a positive row number without leading zeros (the statement's labels)"""
    i = 0
    if i < len(s) and s[i] == '$':
        i += 1
    j = i
    while j < len(s) and s[j] in string.ascii_letters:
        j += 1
    if j == i:
        return False
    k = j
    if k < len(s) and s[k] == '$':
        k += 1
    d = s[k:]
    return d != '' and all(c in string.digits for c in d) and d[0] != '0'


def shape_loose(s):
    """same shape but any digit string (leading zeros / zero row allowed): the grey area"""
    i = 0
    if i < len(s) and s[i] == '$':
        i += 1
    j = i
    while j < len(s) and s[j] in string.ascii_letters:
        j += 1
    if j == i:
        return False
    k = j
    if k < len(s) and s[k] == '$':
        k += 1
    d = s[k:]
    return d != '' and all(c in string.digits for c in d)


def cases(rng, ctx):
    thorough = ctx['tier'] == 'thorough'
    scale = ctx['scale']
    out = []
    # column labels
    maxlen = 4 if thorough else 2
    for n in range(1, maxlen + 1):
        for tup in itertools.product(UP, repeat=n):
            lab = ''.join(tup)
            out.append({'kind': 'col', 'label': lab})
            if thorough or n <= 1:
                out.append({'kind': 'col', 'label': lab.lower()})
    for _ in range(600 * scale):
        n = rng.choice([3, 3, 4, 4, 5, 7, 12])
        lab = ''.join(rng.choice(string.ascii_letters) for _ in range(n))
        out.append({'kind': 'col', 'label': lab})
    for lab in ['XFD', 'xfd', 'XFE', 'ZZZ', 'AAAA', 'ZZZZ', 'aAzZ', 'A1', 'a-b', '', ' A', 'A_', 'AB$']:
        out.append({'kind': 'col', 'label': lab})
    # column indices
    top = 500000 if thorough else 3000 * scale
    for n in range(-2, top):
        out.append({'kind': 'idx', 'n': n})
    for _ in range(300 * scale):
        out.append({'kind': 'idx', 'n': rng.randrange(0, 10 ** rng.randrange(3, 15))})
    for n in [16383, 16384, 25, 26, 27, 701, 702, 703, 18277, 18278, 475253, 475254]:
        out.append({'kind': 'idx', 'n': n})
    # rows
    rows = list(range(1, 2000)) + [1048575, 1048576, 1048577, 10 ** 9, 10 ** 20]
    rows += [rng.randrange(1, 1048577) for _ in range(500 * scale)]
    if thorough:
        rows += list(range(1, 1048577, 7))
    for n in rows:
        out.append({'kind': 'row', 'n': n})
    for s in ['0', '00', '007', '-3', 'x', '', '1x', '12 ']:
        out.append({'kind': 'rowlabel', 's': s})
    # full labels, four $ patterns, both cases
    for _ in range(1500 * scale * (10 if thorough else 1)):
        n = rng.choice([1, 1, 2, 2, 3, 3, 4])
        col = ''.join(rng.choice(string.ascii_letters) for _ in range(n))
        if rng.random() < 0.3:
            col = col.upper()
        row = str(rng.choice([rng.randrange(1, 100), rng.randrange(1, 1048577), rng.randrange(1, 10 ** 9)]))
        ca, ra = rng.choice(['', '$']), rng.choice(['', '$'])
        out.append({'kind': 'label', 's': ca + col + ra + row})
    for s in ['A1', '$A1', 'A$1', '$A$1', 'xfd1048576', '$xfd$1048576', 'zz99', 'A0', 'A01', 'A00', '$a$007']:
        out.append({'kind': 'label', 's': s})
    # the same decomposition after the evaluator has used the label: the corner of a range written in either order
    # (call_range_value decomposes, reorders and recomposes the corners), a single-cell reference, other spellings
    for _ in range(400 * scale * (5 if thorough else 1)):
        def lab():
            n = rng.choice([1, 1, 2, 3])
            col = ''.join(rng.choice('ABCDXYZ') for _ in range(n))
            row = str(rng.choice([rng.randrange(1, 30), rng.randrange(1, 1048577)]))
            return rng.choice(['', '$']) + col + rng.choice(['', '$']) + row
        a, b = lab(), lab()
        sp = lambda x: x if rng.random() < 0.6 else x.lower()
        pre = []
        for _k in range(rng.randrange(1, 4)):
            x, y = rng.choice([(a, b), (b, a)])
            pre.append(rng.choice(['SUM(%s:%s)', '%s:%s', 'SUM(%s:%s)+%s']) .replace('+%s', '+' + sp(a)) % (sp(x), sp(y)))
        out.append({'kind': 'label', 's': sp(rng.choice([a, b])), 'pre': pre})
    out.append({'kind': 'label', 's': '$B$9', 'pre': ['SUM(D$3:$B$9)']})
    out.append({'kind': 'label', 's': 'A2', 'pre': ['SUM(C7:A2)', 'C7']})
    # references as the evaluator sees them: a whole formula that is one label raises exactly one cell event with that
    # label; a string that only LOOKS like a label after case mapping (dotless i, long s, Kelvin sign, sharp s, ligatures in
    # the letters part) is no cell reference and raises no cell or range event
    special = 'ıſ\u212aßﬁﬆİ'
    for _ in range(300 * scale * (5 if thorough else 1)):
        n = rng.choice([0, 0, 1, 2])
        m = rng.choice([0, 1, 1, 2])
        letters = ''.join(rng.choice(string.ascii_letters) for _ in range(n)) + rng.choice(special) + \
            ''.join(rng.choice(string.ascii_letters) for _ in range(m))
        row = str(rng.randrange(1, 2000))
        out.append({'kind': 'formula', 's': rng.choice(['', '$']) + letters + rng.choice(['', '$']) + row})
        if rng.random() < 0.3:
            out.append({'kind': 'formula', 's': out[-1]['s'] + ':' + rng.choice(['A1', out[-1]['s']])})
    for _ in range(150 * scale):
        col = ''.join(rng.choice(string.ascii_letters) for _ in range(rng.choice([1, 2, 3])))
        out.append({'kind': 'formula', 's': rng.choice(['', '$']) + col + rng.choice(['', '$']) + str(rng.randrange(1, 5000))})
    # a formula that is one label with white space around it (a formula read as a line of a file keeps its newline), or in
    # redundant parentheses: the label is decomposed all the same
    for _ in range(200 * scale):
        col = ''.join(rng.choice(string.ascii_letters) for _ in range(rng.choice([1, 2, 3])))
        lab = rng.choice(['', '$']) + col + rng.choice(['', '$']) + str(rng.randrange(1, 5000))
        out.append({'kind': 'formula', 's': lab, 'wrap': rng.choice(['%s\n', '%s\n', '%s\r\n', ' %s', '%s ', '\n%s', '%s\n\n', '\t%s\t', '(%s)', '( %s )'])})
    for w in ['%s\n', '%s\r\n', '(%s)']:
        out.append({'kind': 'formula', 's': 'A1', 'wrap': w})
        out.append({'kind': 'formula', 's': '$b$2', 'wrap': w})
    # the same address several times in one formula (and, over the run, in one process) with different $ patterns and cases:
    # every reference is decomposed on its own
    for _ in range(250 * scale):
        col = ''.join(rng.choice('ABCXYZ') for _ in range(rng.choice([1, 1, 2])))
        row = str(rng.randrange(1, 40))
        refs = []
        for _k in range(rng.choice([2, 2, 3])):
            c2 = col if rng.random() < 0.6 else col.lower()
            refs.append(rng.choice(['', '$']) + c2 + rng.choice(['', '$']) + row)
        out.append({'kind': 'formula', 's': '+'.join(refs)})
    # labels whose text spells a built-in function name (column LOG row 10, column ATAN row 2, column SUM row 5 ...): written
    # without parentheses they are cells like any other, alone, in sums and as range corners
    fnames = function_names()
    digitnames = [n for n in fnames if label_shaped(n)]
    alphanames = [n for n in fnames if n.isalpha() and n.isascii() and len(n) <= 4]
    for _ in range(120 * scale):
        def fl():
            r = rng.random()
            if r < 0.45 and digitnames:
                x = rng.choice(digitnames)
                if rng.random() < 0.3:           # a neighbour
                    x = x.rstrip(string.digits) + str(int(x[len(x.rstrip(string.digits)):]) + rng.choice([-1, 1]))
                    if not label_shaped(x):
                        x = rng.choice(digitnames)
            else:
                x = rng.choice(alphanames or ['SUM']) + str(rng.randrange(1, 300))
            if rng.random() < 0.3:
                i = len(x.rstrip(string.digits))
                x = rng.choice(['', '$']) + x[:i] + rng.choice(['', '$']) + x[i:]
            return x if rng.random() < 0.6 else rng.choice([x.lower(), x.capitalize()])
        if rng.random() < 0.7:
            out.append({'kind': 'formula', 's': '+'.join(fl() for _k in range(rng.choice([1, 1, 2])))})
        else:
            out.append({'kind': 'formula', 's': rng.choice(['SUM(%s:%s)', '%s:%s']) % (fl(), fl())})
    for f in ['LOG10', 'log10', 'Atan2', '$LOG$10', 'ATAN$2', 'LOG10+1'.replace('+1', '+A1'), 'SUM(LOG9:LOG10)', 'ATAN2:ATAN2']:
        out.append({'kind': 'formula', 's': f})
    # ranges: the corner cells the range listener receives are decomposed like any label (read through the tuple protocol
    # of Cell): the first corner carries the smaller row part and the smaller column part, each with its own $ marker
    for _ in range(250 * scale * (5 if thorough else 1)):
        def lab2():
            col = ''.join(rng.choice('ABCDXYZabz') for _k in range(rng.choice([1, 1, 2, 3, 4])))
            row = str(rng.choice([rng.randrange(1, 30), rng.randrange(1, 1048577)]))
            return rng.choice(['', '$']) + col + rng.choice(['', '$']) + row
        a = lab2()
        b = lab2() if rng.random() < 0.85 else a
        out.append({'kind': 'formula', 's': rng.choice(['SUM(%s:%s)', '%s:%s', 'sum(%s:%s)']) % (a, b)})
    for f in ['SUM(B2:C3)', 'SUM(y1:ab1)', 'SUM(A$9:A$11)', 'SUM($B$2:C3)', 'B2:C3', 'SUM(A1:A1)']:
        out.append({'kind': 'formula', 's': f, 'cellonly': True})
    # non-labels
    # (ß ı ſ ﬁ ﬆ: characters that str.upper() turns into ASCII letters; K: the Kelvin sign, which str.lower() turns into k)
    junk_alphabet = 'Aa1$ -_.:\n\t١éАßıſﬁﬆ\u212a'
    for _ in range(800 * scale):
        n = rng.randrange(0, 7)
        out.append({'kind': 'label', 's': ''.join(rng.choice(junk_alphabet) for _ in range(n))})
    for s in ['', '$', 'A', '1', '1A', 'A1\n', '\nA1', 'A1 ', ' A1', 'A$$1', '$$A1', 'A1$', 'A 1', 'A-1', 'A1.0',
              'A١', 'А1', 'A1\n\n', 'A1\r', '$1', 'A$', '$A$', 'AA', '11', 'A1B2', 'A1:B2',
              'ß1', 'ı7', 'ſ3', 'ﬁ12', '$ß$1', 'Aß1', 'ﬆ$5', '\u212a9', 'a\u212a1']:
        out.append({'kind': 'label', 's': s})
    return out


def request(c):
    k = c['kind']
    if k == 'col':
        if any(ord(ch) > 127 for ch in c['label']):
            return None
        return 'cell.col2idx ' + enc_str(c['label'])
    if k == 'idx':
        return 'cell.idx2col %d' % c['n']
    if k == 'row':
        return 'cell.row2idx ' + enc_str(str(c['n']))
    if k == 'rowlabel':
        return 'cell.row2idx ' + enc_str(c['s'])
    if k == 'label':
        return 'cell.extract ' + enc_str(c['s'])
    return None          # 'formula': oracle only


def _pl(p):
    return '(%d %s %s)' % (p.index, enc_str(p.label), '1' if p.is_absolute else '0')


def impl(c):
    cell = _cell()
    k = c['kind']
    if k == 'col':
        return str(cell.column_label_to_index(c['label']))
    if k == 'idx':
        return enc_str(cell.column_index_to_label(c['n']))
    if k == 'row':
        return str(cell.row_label_to_index(str(c['n'])))
    if k == 'rowlabel':
        return str(cell.row_label_to_index(c['s']))
    if k == 'formula':
        p = _parser()
        if c.get('cellonly'):
            p = _PARSER[1]
        del _EVENTS[:]
        p.parse(c.get('wrap', '%s') % c['s'])
        return 'events %s' % ' '.join(enc_str(e) for e in _EVENTS)
    if k == 'label':
        if c.get('pre'):
            p = _parser()
            for f in c['pre']:
                p.parse(f)
        r = cell.extract_label(c['s'])
        if r == []:
            return 'none'
        row, col = r
        return '(%s %s %s)' % (_pl(row), _pl(col), enc_str(cell.to_label(row, col)))
    raise ValueError(k)


def agree(c, impl_ans, model_ans):
    return impl_ans == model_ans


def oracle(c, impl_ans):
    """the statement of C19, evaluated on the real functions only"""
    cell = _cell()
    k = c['kind']
    if k == 'col':
        lab = c['label']
        if lab and all(ch in string.ascii_letters for ch in lab):
            i = cell.column_label_to_index(lab)
            if i != ref_index(lab):
                return 'column_label_to_index(%r) = %r, bijective base-26 says %r' % (lab, i, ref_index(lab))
            if cell.column_label_to_index(lab.upper()) != i or cell.column_label_to_index(lab.lower()) != i:
                return 'column_label_to_index is case-sensitive on %r' % lab
            back = cell.column_index_to_label(i)
            if back != lab.upper():
                return 'column_index_to_label(column_label_to_index(%r)) = %r' % (lab, back)
        return None
    if k == 'idx':
        n = c['n']
        if n >= 0:
            lab = cell.column_index_to_label(n)
            if lab != ref_label(n):
                return 'column_index_to_label(%d) = %r, bijective base-26 says %r' % (n, lab, ref_label(n))
            if cell.column_label_to_index(lab) != n:
                return 'column_label_to_index(column_index_to_label(%d)) = %r' % (n, cell.column_label_to_index(lab))
        return None
    if k == 'row':
        n = c['n']
        if cell.row_label_to_index(str(n)) != n - 1:
            return 'row_label_to_index(%r) = %r' % (str(n), cell.row_label_to_index(str(n)))
        if cell.row_index_to_label(n - 1) != str(n):
            return 'row_index_to_label(%d) = %r' % (n - 1, cell.row_index_to_label(n - 1))
        return None
    if k == 'rowlabel':
        return None
    if k == 'formula':
        ev = [common.dec_str(t) for t in impl_ans.split(' ')[1:] if t]
        f = c['s']
        if c.get('cellonly'):
            if ev:
                return ('on a parser with a cell listener only, the formula %r (a range, no single cell) raised the cell events (label | recomposed '
                        'parts | row $ | column $) %r' % (f, ev))
            return None
        if c.get('wrap'):
            want = '%s|%s|%d|%d' % (f.upper(), f.upper(), '$' in f.lstrip('$'), f.startswith('$'))
            if ev != [want]:
                return ('the formula %r is the cell label %r with white space or parentheses around it; the cell events (label | recomposed '
                        'parts | row $ | column $) are %r, expected %r' % (c['wrap'] % f, f, ev, [want]))
            return None
        if all(ord(ch) < 128 for ch in f):
            inner = f[4:-1] if f[:4].upper() == 'SUM(' and f.endswith(')') else f
            if inner.count(':') == 1 and all(label_shaped(x) for x in inner.split(':')):
                def parts(x):
                    x = x.upper()
                    body = x.lstrip('$')
                    letters = ''.join(ch for ch in x if ch in string.ascii_letters)
                    digits = ''.join(ch for ch in x if ch in string.digits)
                    return (int(digits) - 1, '$' in body, digits), (ref_index(letters), x.startswith('$'), letters)
                (ra, ca), (rb, cb) = [parts(x) for x in inner.split(':')]
                r0, r1 = (ra, rb) if ra[0] <= rb[0] else (rb, ra)
                c0, c1 = (ca, cb) if ca[0] <= cb[0] else (cb, ca)

                def want_corner(r, c2):
                    lab = ('$' if c2[1] else '') + c2[2] + ('$' if r[1] else '') + r[2]
                    return '%s|%s|%d|%d|%d|%d' % (lab, lab, r[0], c2[0], r[1], c2[1])
                want = [want_corner(r0, c0) + '~' + want_corner(r1, c1)]
                if ev != want:
                    return ('the formula %r holds the range %r; the range events (per corner: label | recomposed parts | row index | '
                            'column index | row $ | column $) are %r, expected %r' % (f, inner, ev, want))
                return None
            labs = f.split('+')
            if all(label_shaped(x) for x in labs):
                want = []
                for x in labs:
                    body = x.lstrip('$')
                    want.append('%s|%s|%d|%d' % (x.upper(), x.upper(), '$' in body, x.startswith('$')))
                if ev != want:
                    return ('the formula %r is made of the cell labels %r; the cell events (label | recomposed parts | row $ | column $) '
                            'are %r, expected %r' % (f, labs, ev, want))
            return None
        if ev:
            return 'the formula %r holds no cell label (its letters part is not ASCII letters), yet cell/range events %r were raised' % (f, ev)
        return None
    if k == 'label':
        s = c['s']
        r = cell.extract_label(s)
        if label_shaped(s):
            if r == []:
                return 'extract_label(%r) = [] for a well-formed label' % s
            row, col = r
            back = cell.to_label(row, col)
            if back != s.upper():
                return 'to_label(*extract_label(%r)) = %r, expected %r' % (s, back, s.upper())
            body = s.lstrip('$')
            col_abs = s.startswith('$')
            row_abs = '$' in body
            if row.is_absolute != row_abs or col.is_absolute != col_abs:
                return 'absolute markers of %r reported as row=%r col=%r' % (s, row.is_absolute, col.is_absolute)
            letters = ''.join(ch for ch in s if ch in string.ascii_letters)
            digits = ''.join(ch for ch in s if ch in string.digits)
            if row.index != int(digits) - 1 or col.index != ref_index(letters):
                return 'extract_label(%r) coordinates (%r, %r)' % (s, row.index, col.index)
        elif not shape_loose(s):
            if r != []:
                return 'extract_label(%r) = %r for a string that is not a cell label' % (s, r)
        return None
    return None


def nontrivial(c, impl_ans):
    return impl_ans not in ('-1', '_', 'none', None)


def search(rng, ctx, disagreements):
    """neighbourhood of the disagreements + a denser sweep"""
    out = []
    for d in disagreements[:50]:
        if d['kind'] == 'idx':
            for dn in range(-30, 31):
                out.append({'kind': 'idx', 'n': d['n'] + dn})
        if d['kind'] == 'col':
            out.append({'kind': 'col', 'label': d['label'].upper()})
            out.append({'kind': 'col', 'label': d['label'].lower()})
    c2 = dict(ctx)
    c2['scale'] = 20
    out += cases(rng, c2)
    return out
