# -*- coding: utf-8 -*-
"""C20 - event emitter: ordered delivery, exact unsubscription, once means once
(hotxlfp/tinyemitter.py, also through hotxlfp.Parser which inherits it)

case kind `script`: a history of operations with the keys on (emitter / parser / debugparser = hotxlfp.Parser(debug=True)),
flavour (function / bound / wrapped / orphan = bound methods of host objects that only the emitter refers to), latectx, rets,
ownnames, snake (the first four names are call_cell_value, call_range_value, call_function, call_variable; on a Parser one
formula is evaluated after every emit of the history), namespec (the event name of every name id as a class of spellings that
Python treats as one dict key: 0 = False = 0.0, '', (), None, 1 = True = 1.0, tuples, bytes ... - names that are not ordinary
non-empty strings), provider (on a Parser: a cell provider under callCellValue beside the history), names, bodies, ops, fuel;
case kind `hostsub` (oracle only): entry i of HOSTSUB on a plain or (key debug) a debug parser - a listener subscribed with
on / once from INSIDE the host function AUDIT while a formula is being evaluated; the log of what it hears against a fixed list"""
import itertools

from .. import common

ID = 'C20'
LEAN_MODULES = ['HotXL.Props.C20']
FUNCTIONS = ['hotxlfp.tinyemitter:Emitter.on', 'hotxlfp.tinyemitter:Emitter.once',
             'hotxlfp.tinyemitter:Emitter.emit', 'hotxlfp.tinyemitter:Emitter.off']
RULE = ('1500*scale (thorough 20000) seeded histories of 1..30 (thorough 1..60) operations on/once/off(name)/off(name,cb)/emit '
        'over 2-3 names x 3-4 callbacks x 2 contexts, callbacks whose bodies (0..3 operations) subscribe/unsubscribe/emit during '
        'delivery (nesting depth 0..3), run on a bare Emitter (4/7), a hotxlfp.Parser (2/7) or a hotxlfp.Parser(debug=True) (1/7, on = '
        'debugparser); callback flavour: plain functions '
        '(3/8), bound methods of host objects fetched anew for every on/once/off (2/8), functools.wraps-decorated versions of '
        'the callback before them (2/8), orphan (1/8): bound methods of host objects to which the harness keeps only a weak '
        'reference, so that nobody but the emitter refers to them - every on/once/off is written with the hook of the object '
        'a subscription still keeps alive, and with that of a NEW object once none does (or none was ever made); with probability 0.4 the context is a mapping bound while empty and filled afterwards '
        '(latectx); with probability 0.5 (ownnames) the first four names are the parser\'s own event names callFunction / '
        'callVariable / callCellValue / callRangeValue instead of n0, n1, ... (on a Parser its constructor has had a chance to '
        'prepare them; the name delivered to the callbacks as first argument stays the index); with probability 0.15 (snake; it '
        'overrides ownnames) the first four names are instead call_cell_value, call_range_value, call_function, call_variable - the '
        'snake_case spellings of the Parser\'s own methods, names like any other - and, when the history runs on a Parser or debug '
        'parser, after EVERY emit operation of the history (those in callback bodies too, not the probe emits) the parser evaluates one '
        'of the 4 formulas A1+1, SUM(A1:B2), SUM(1,2)+va, A1 (picked by the emit\'s argument mod 4; stdout / stderr to a sink), i.e. '
        'does its own work and raises its own events, which are none of these names, between the operations. 4 fixed histories (re-entrant '
        'once, off by callback of a once-listener, off of one of two callbacks, '
        'subscribe/unsubscribe during delivery) in the ten variants plain / bound / wrapped / latectx / rets / on a Parser '
        'under its own event names / on a Parser under the snake names (with the formula after every emit) / orphan / on a debug parser / on a debug parser under its own event names = 40 cases (in 40% of the seeded histories, and in the `rets` variants, the callbacks RETURN '
        'something - True, a label, a count, the emitter itself, a list, 0, None in rotation - which delivery must ignore). Thorough adds every '
        'history of length <= 4 with an emit over 16 operations (2 names x 2 callbacks) for three body assignments (length 1: '
        'empty bodies only), depth 2, bare Emitter. Observed: the log of calls (callback, argument, context, name, depth) and, for '
        'the final subscriptions, two probe emits per name with the bodies switched off. Every history is compared with the '
        'model and the reference emitter unless it makes more than 3000 callback calls (then it is not judged). Non-trivial = '
        'at least one callback was called before the probes; distinct = distinct cases. '
        'Names that are not ordinary non-empty strings (key namespec; 700*scale, thorough 8000, further seeded histories drawn after '
        'the others with 2-4 names, plus the 4 fixed histories under 5 fixed name pairs on a bare Emitter and on a Parser = 40 cases, '
        'plus 9 fixed histories NAMED_CORE: off(name, cb) of a callback subscribed twice beside a once-listener, a once-listener '
        'firing, off(name), each with listeners of two other names in place and probed, under the names 0 1 2 / \'\' closed saved / '
        '2 1 3 / mixed spellings / None callCellValue 0, and a once-listener under 0 or \'\' firing on a Parser and a debug parser '
        'that has a cell provider): every name id of the history stands for one class of the pool NAME_POOL, no class twice in a '
        'history - falsy names (0 = False = 0.0 = -0.0, the empty string, the empty tuple, empty bytes, the empty frozenset (None itself is NOT used as a name: an API may reserve it for `no name given`); '
        'weight 0.38 per name), equal-but-not-identical names (1 = True = 1.0, 2 = 2.0, -1 = -1.0, 10**20 = 1e20, (1, 2) = (1.0, 2) '
        '= (True, 2.0), (sheet, 0) = (sheet, False), two separately built strings evt; 0.20), hashable names that are no strings '
        '(7, -7, 3, 0.5, (0,), ((),), (sheet, 1), (callFunction,), bytes n0, frozenset({1}), (None,); 0.14), strings that only look '
        'like something else (0, False, None, a blank, callfunction, callFunction with a trailing blank, (); 0.05), the parser\'s own '
        'four event names (0.15) and ordinary strings (0.08), at least one name of the history from the first three groups; of a '
        'class a seeded non-empty sample of its spellings is kept and EVERY use of the name (on / once / off / emit, in callback '
        'bodies and probes too) is written with the next spelling in rotation, as an object built for that use - so a listener '
        'subscribed under 0 is unsubscribed under False and emitted to under 0.0. These histories run on the same Emitter / Parser / '
        'debug parser mix, flavours, contexts and return values; on a Parser or debug parser whose namespec contains none of the '
        'parser\'s own names, with probability 0.7 (provider) the parser has, before the history, a cell provider subscribed under '
        'callCellValue (A1 -> 5) and evaluates A1+1 after the subscription, after every emit / off(name) / off(name, cb) of the '
        'history (those in callback bodies too) and after the probes: the result must be 6 each time (stdout / stderr to a sink). '
        'Thorough also runs every history of length <= 3 of that enumeration a second time under the names 0 = False = 0.0 '
        'and the empty string. The model request and the reference emitter see the name ids only. '
        'Kind hostsub (12 cases = the 6 entries of HOSTSUB x hotxlfp.Parser() / hotxlfp.Parser(debug=True); oracle only, no model '
        'request, always non-trivial): a fresh parser with va = 1, vb = 2 and the host function AUDIT, which subscribes one logging '
        'listener to an event with on or once WHILE a formula that calls it is being evaluated and returns 1; the formulas of the '
        'entry are evaluated in order (output to a sink) and the log (first argument of every call of the listener, a cell by its '
        'label) must equal the fixed list - the listener hears every emit of that name from its subscription on, the callFunction '
        'event of the AUDIT call itself included, and nothing before: callFunction/on over AUDIT()+SUM(1,2), SUM(3,4)+ABS(1) -> '
        'AUDIT SUM SUM ABS; callFunction/once over AUDIT()+SUM(1,2), SUM(3,4) -> AUDIT; callFunction/on over SUM(1,2), AUDIT(), '
        'ABS(2) -> AUDIT ABS; callCellValue/on over AUDIT()+A1, B2+A1 -> A1 B2 A1; callVariable/on over AUDIT()+va, vb -> va vb; '
        'and the control `host` (the listener subscribed by the host before the first formula, AUDIT not called) callFunction over '
        'SUM(1,2), ABS(2) -> SUM ABS.')
TRUSTED = ['callbacks are modelled as scripts of emitter operations; callbacks that raise are not modelled',
           'equality (==) of callbacks is modelled by callback ids: plain functions, and bound methods of host objects '
           'fetched anew for every on/once/off (equal, not identical), and functools.wraps-decorated versions of other callbacks; '
           'flavour, late filling of the context, what the callbacks return, the event names used (n0, n1, ..., the '
           'parser\'s own or the snake_case ones, or those of a namespec), the formulas a snake history evaluates between its operations and Emitter / Parser / Parser(debug=True) are not part of the model request: the model answer is the same',
           'namespec: the model identifies event names by name ids; the harness maps every class of spellings to one id and checks '
           '(namespec_ok, asserted over the whole pool at every run) with Python\'s own == and hash that the spellings of a class are '
           'one dict key and that different classes are different keys - so the Lean model and the reference emitter are asked about '
           'the history of ids, and that Python-equal names are one name is a reading (see ASSUMPTIONS), not something the model proves; '
           'which spelling a use takes (rotation over all uses of the run, offset by the id) is fixed by the case, not seeded at run time',
           'provider: Parser.parse of A1+1 with one callCellValue listener that answers 5 for A1 is trusted to evaluate to '
           '{result: 6, error: None} on a plain and on a debug parser (C10\'s subject); the history\'s callbacks are subscribed under '
           'none of the parser\'s names there, so the evaluation calls none of them',
           'flavour orphan: weakref.ref and CPython reference counting decide whether the host object of a callback is still '
           'alive when the next on/once/off is written (an object no subscription holds is gone at once, a new one is made: its '
           'hook equals no subscribed one, and none is subscribed); in the model request these are the same callback ids as in every '
           'other flavour',
           'snake histories on a Parser: Parser.parse of the 4 formulas (no listener of the parser\'s own event names is subscribed, '
           'va is undefined there) is trusted to call none of the history\'s callbacks by itself - a callback it did call would show in '
           'the log against model and reference emitter; what the formulas evaluate to is ignored',
           'hostsub: the expected lists are written by hand from the reading below (not from the model, which has no formulas); they '
           'rely on the evaluation order of the formulas (left to right: AUDIT() before SUM(1,2) in AUDIT()+SUM(1,2)) and on '
           'Parser.call_function raising callFunction after the function has run (so AUDIT\'s own event is heard by the listener it '
           'subscribed) - both are C10\'s subject']
ASSUMPTIONS = ['a once-listener reached first by a nested emit receives that emit (it is called exactly once)',
               'an emit delivers to the subscriptions present when it starts, in subscription order (subscribing / unsubscribing during '
               'delivery takes effect from the next emit; a once-listener that already fired is skipped); off(name, cb) removes every '
               'subscription of cb under that name, once or not',
               'the context (keyword arguments of the call) is the mapping given at subscription itself, not a copy taken then: what the '
               'host puts into it afterwards is delivered',
               'what a callback returns (a truth value, a label, a number, the emitter, a list, None) has no effect on the delivery',
               'on a Parser the event names it uses itself (callFunction, callVariable, callCellValue, callRangeValue) obey the '
               'same on / once / off / emit semantics as any other name, and a parser built with debug=True is an emitter like '
               'any other',
               'a subscription keeps its listener alive: a bound method of an object that nothing else refers to '
               '(parser.on(name, Sheet(rows).cell)) is delivered to as long as it is subscribed, and off(name, obj.hook) written '
               'with the same object removes it',
               'event names are plain keys: names that are the snake_case spellings of the Parser\'s methods (call_cell_value, '
               'call_range_value, call_function, call_variable) obey the same on / once / off / emit semantics on a Parser as any '
               'other name, and the parser\'s own evaluations between the operations neither deliver to them nor disturb their '
               'subscriptions',
               'an event name is any hashable Python object, and names are the same name exactly when Python\'s dict takes them '
               'for the same key (equal with equal hash): 0, False, 0.0 and -0.0 are one name, so are 1, True and 1.0, or (1, 2) and '
               '(1.0, 2); a string built twice is one name; 0 and the string 0, the empty string and the empty tuple, callFunction '
               'and callfunction are different names. This is what the unchanged Emitter._e (a dict keyed by the name) does and the '
               'only reading under which `the listeners of a name` is defined for such names; nothing is demanded about unhashable '
               'names or NaN',
               'a falsy event name (0, False, 0.0, the empty string, the empty tuple, empty bytes, the empty frozenset) is a '
               'name like any other: on / once / off(name) / off(name, cb) / emit under them obey the statement, and in particular '
               'an unsubscription under such a name - written by the host or done by a once-listener when it fires - leaves the '
               'listeners of every other name in place (None itself is not used as a name by the check - an API may reserve it for `no name '
               'given`; an off() without a name, meaning all names, is not part of the statement and not exercised)',
               'on a Parser, listeners the host subscribed under the parser\'s own event names (a cell provider under '
               'callCellValue) are `listeners of another name` for a history under other names: they stay in place and keep '
               'answering the parser\'s evaluations whatever is subscribed, emitted or unsubscribed under the other names',
               'a listener subscribed from inside a host function, while an evaluation of the same parser is in progress, is a '
               'listener from then on: it hears every later emit of that name (on: all of them, in that and in later evaluations; '
               'once: the next one only), on a plain parser and on one built with debug=True alike']
EXHAUSTIVE = {'quick': False, 'thorough': False}

CALL_BUDGET = 3000
PROBE = 999

OWN = ['callFunction', 'callVariable', 'callCellValue', 'callRangeValue']

# ---- event names that are not ordinary non-empty strings -------------------------------------------------------------
# A name is written as a JSON-able spelling: ['int', '0'], ['bool', 'False'], ['float', '-0.0'], ['str', 'text'],
# ['bytes', 'text'], ['none'], ['tuple', [spelling, ...]], ['frozenset', [spelling, ...]].
# A CLASS is a list of spellings that Python treats as one and the same dict key (equal, equal hash): one event name.
# key `namespec` of a script case = one class per name id; every use of the name takes the next spelling of its class.
def I(n):
    return ['int', str(n)]


def F(x):
    return ['float', repr(float(x))]


def B(x):
    return ['bool', str(bool(x))]


def S(t):
    return ['str', t]


def T(*xs):
    return ['tuple', list(xs)]


NAME_POOL = {
    # falsy names: `not name` holds, `name is None` does not (except for None itself)
    'falsy': [[I(0), B(False), F(0.0), F(-0.0)], [S('')], [T()], [['bytes', '']], [['frozenset', []]]],
    # equal but not identical: one key for Python's dict, several objects / types
    'equal': [[I(1), B(True), F(1.0)], [I(2), F(2.0)], [I(-1), F(-1.0)], [I(10 ** 20), F(1e20)],
              [T(I(1), I(2)), T(F(1.0), I(2)), T(B(True), F(2.0))], [S('evt'), S('evt')], [T(S('sheet'), I(0)), T(S('sheet'), B(False))]],
    # hashable names that are no strings
    'nonstr': [[I(7)], [I(-7)], [I(3)], [F(0.5)], [T(I(0))], [T(T())], [T(S('sheet'), I(1))], [T(S('callFunction'))],
               [['bytes', 'n0']], [['frozenset', [I(1)]]], [T(['none'])]],
    # strings that only look like something else
    'looks': [[S('0')], [S('False')], [S('None')], [S(' ')], [S('callfunction')], [S('callFunction ')], [S('()')]],
    # the parser's own four event names and ordinary names, in the same histories
    'own': [[S(n)] for n in OWN],
    'plain': [[S('n0')], [S('n1')], [S('closed')], [S('saved')]],
}
NAME_WEIGHTS = [('falsy', 0.38), ('equal', 0.20), ('nonstr', 0.14), ('looks', 0.05), ('own', 0.15), ('plain', 0.08)]


def name_of(sp):
    """the Python object of a spelling - built anew at every call (equal, not identical, wherever Python allows)"""
    t = sp[0]
    if t == 'int':
        return int(sp[1])
    if t == 'bool':
        return sp[1] == 'True'
    if t == 'float':
        return float(sp[1])
    if t == 'str':
        return ''.join(list(sp[1]))
    if t == 'bytes':
        return bytes(bytearray(sp[1].encode('ascii')))
    if t == 'none':
        return None
    if t == 'tuple':
        return tuple(name_of(x) for x in sp[1])
    if t == 'frozenset':
        return frozenset(name_of(x) for x in sp[1])
    raise ValueError(sp)


def namespec_ok(spec):
    """one class = one dict key, different classes = different keys (else the name ids of the history would not be the names)"""
    keys = []
    for cl in spec:
        objs = [name_of(sp) for sp in cl]
        if not objs or any(o != objs[0] or hash(o) != hash(objs[0]) for o in objs):
            return False
        if any(objs[0] == k for k in keys):
            return False
        keys.append(objs[0])
    return True


def uses_own(spec):
    return any(sp[0] == 'str' and sp[1] in OWN for cl in spec for sp in cl)


def show_names(spec):
    return '[' + ', '.join(' = '.join('%s %r' % (type(name_of(sp)).__name__, name_of(sp)) for sp in cl) for cl in spec) + ']'


PROVIDER_WANT = {'result': 6, 'error': None}
PROVIDER_MARK = ' !provider: '


class Budget(Exception):
    pass


def fmt_op(op):
    return '(' + ' '.join(str(x) for x in op) + ')'


def small_enough(c):
    try:
        run_spec(c)
        return True
    except Budget:
        return False


def request(c):
    if c['kind'] == 'hostsub':
        return None
    if not small_enough(c):
        return None
    bodies = '(' + ' '.join('(' + ' '.join(fmt_op(o) for o in b) + ')' for b in c['bodies']) + ')'
    ops = '(' + ' '.join(fmt_op(o) for o in c['ops']) + ')'
    return 'emitter.run %d %d %s %s' % (c['fuel'], c['names'], bodies, ops)


def run_real(c, make):
    """the history on the real emitter: returns (log, probe logs)"""
    e = make()
    log = []
    depth = [0]
    fuel = c['fuel']
    calls = [0]
    cbs = []
    late = bool(c.get('latectx'))
    # on a Parser the histories may run under the parser's OWN event names (its constructor has had a chance to prepare them)
    own = ['callFunction', 'callVariable', 'callCellValue', 'callRangeValue'] if c.get('ownnames') else None

    if c.get('snake'):
        # names that are the snake_case spellings of the Parser's methods: names like any other
        own = ['call_cell_value', 'call_range_value', 'call_function', 'call_variable']

    spec = c.get('namespec')
    uses = [0]

    def nm(k):
        if spec is not None:
            # names that are not ordinary non-empty strings: every use of name k is written with the next spelling of its class
            # (0, False, 0.0 ... are ONE name), as an object built for this use
            uses[0] += 1
            return name_of(spec[k][(uses[0] + k) % len(spec[k])])
        return own[k] if own is not None and k < len(own) else 'n%d' % k
    rets = bool(c.get('rets'))
    provider = bool(c.get('provider')) and hasattr(e, 'parse') and spec is not None and not uses_own(spec)
    trouble = []

    def sink():
        import contextlib
        import io
        return contextlib.redirect_stderr(io.StringIO()), contextlib.redirect_stdout(io.StringIO())

    def provide(after):
        # the parser's own listener of callCellValue (none of the history's names) must still be in place and be the only one called
        if provider and not trouble:
            a, b = sink()
            with a, b:
                got = e.parse('A1+1')
            if got != PROVIDER_WANT:
                trouble.append('after %s (operation %d of the history, callback bodies included) A1+1 evaluates to %r' % (after, nops[0], got))
    nops = [0]
    if provider:
        e.on('callCellValue', lambda cell, setter: setter({'A1': 5}.get(cell.label)))
        provide('the subscription of the cell provider')

    def do(op):
        k = op[0]
        nops[0] += 1
        if k in ('on', 'once'):
            sub = e.on if k == 'on' else e.once
            if late:
                # the host binds a context mapping that is still empty and fills it afterwards: it is THAT mapping which is bound
                ctx = {}
                sub(nm(op[1]), get(op[2]), ctx)
                ctx['c'] = op[3]
            else:
                sub(nm(op[1]), get(op[2]), {'c': op[3]})
        elif k == 'off':
            e.off(nm(op[1]))
            provide(fmt_op(op))
        elif k == 'offcb':
            e.off(nm(op[1]), get(op[2]))
            provide(fmt_op(op))
        elif k == 'emit':
            e.emit(nm(op[1]), op[1], op[2])
            provide(fmt_op(op))
            if c.get('snake') and spec is None and hasattr(e, 'parse'):
                # between the operations the parser does its own work (and raises its own events, which are none of these names)
                import contextlib
                import io
                with contextlib.redirect_stderr(io.StringIO()), contextlib.redirect_stdout(io.StringIO()):
                    e.parse(['A1+1', 'SUM(A1:B2)', 'SUM(1,2)+va', 'A1'][op[2] % 4])

    def mk(i):
        def cb(name, arg, c=None):
            calls[0] += 1
            if calls[0] > CALL_BUDGET:
                raise Budget()
            log.append((i, arg, c, name, depth[0]))
            if depth[0] < fuel:
                depth[0] += 1
                try:
                    for op in cbody[i]:
                        do(op)
                finally:
                    depth[0] -= 1
            if rets:
                # what a listener returns is nobody's business: a count, a label, a flag, the emitter itself
                return [True, 'handled', i + 1, e, [name], 0, None][(i + calls[0]) % 7]
        return cb
    cbody = c['bodies']
    cbs = [mk(i) for i in range(len(cbody))]
    if c.get('flavour') == 'bound':
        # the callbacks are bound methods of host objects: every `host.hook` is a new object that compares equal
        # to the one subscribed earlier (the way a host normally writes parser.off(name, self.hook))
        class Host(object):
            def __init__(self, f):
                self.f = f

            def hook(self, name, arg, c=None):
                return self.f(name, arg, c)
        hosts = [Host(f) for f in cbs]
        get = lambda i: hosts[i].hook
    elif c.get('flavour') == 'orphan':
        # bound methods of host objects that NOBODY but the emitter refers to (parser.on(name, Sheet(rows).cell)): a
        # subscription keeps its listener - and with it the object - alive; off(name, obj.hook) is written with the same object
        import weakref

        class Host2(object):
            def __init__(self, f):
                self.f = f

            def hook(self, name, arg, c=None):
                return self.f(name, arg, c)
        refs = {}

        def get(i):
            h = refs[i]() if i in refs else None
            if h is None:
                h = Host2(cbs[i])          # no subscription holds one any more (or none was ever made): a new object
                refs[i] = weakref.ref(h)
            return h.hook
    elif c.get('flavour') == 'wrapped':
        # every odd callback is a decorated version (functools.wraps: __wrapped__, copied __dict__/__name__) of the
        # callback before it - a different callback all the same
        import functools
        for i in range(1, len(cbs), 2):
            cbs[i] = functools.wraps(cbs[i - 1])(cbs[i])
        get = lambda i: cbs[i]
    else:
        get = lambda i: cbs[i]
    for op in c['ops']:
        do(op)
    main = list(log)
    del log[:]
    depth[0] = fuel  # bodies off during the probes
    for n in range(c['names']):
        e.emit(nm(n), n, PROBE)
        e.emit(nm(n), n, PROBE)
    provide('the probe emits')
    return main, list(log), trouble


def run_spec(c):
    """the statement of C20 as a reference emitter"""
    subs = {}
    log = []
    fuel = c['fuel']
    depth = [0]
    calls = [0]

    def do(op):
        k = op[0]
        if k in ('on', 'once'):
            subs.setdefault(op[1], []).append({'cb': op[2], 'ctx': op[3], 'once': k == 'once', 'fired': False})
        elif k == 'off':
            subs[op[1]] = []
        elif k == 'offcb':
            subs[op[1]] = [s for s in subs.get(op[1], []) if s['cb'] != op[2]]
        elif k == 'emit':
            for s in list(subs.get(op[1], [])):
                if s['once']:
                    if s['fired']:
                        continue
                    s['fired'] = True
                    subs[op[1]] = [t for t in subs.get(op[1], []) if t is not s]
                log.append((s['cb'], op[2], s['ctx'], op[1], depth[0]))
                calls[0] += 1
                if calls[0] > CALL_BUDGET:
                    raise Budget()
                if depth[0] < fuel:
                    depth[0] += 1
                    for o in c['bodies'][s['cb']]:
                        do(o)
                    depth[0] -= 1
    for op in c['ops']:
        do(op)
    main = list(log)
    del log[:]
    depth[0] = fuel
    for n in range(c['names']):
        do(('emit', n, PROBE))
        do(('emit', n, PROBE))
    return main, list(log)


def show(main, probe):
    f = lambda l: ' '.join('(%s %s %s %s %s)' % tuple('none' if x is None else ('%d' % x if isinstance(x, int) else str(x)) for x in t) for t in l)
    return '((%s) (%s))' % (f(main), f(probe))


def _makers():
    common.load_repo()
    import hotxlfp
    from hotxlfp.tinyemitter import Emitter
    return {'emitter': Emitter, 'parser': hotxlfp.Parser, 'debugparser': lambda: hotxlfp.Parser(debug=True)}


HOSTSUB = [
    # (event, how, formulas, expected log): a listener subscribed from INSIDE a host function that a formula calls is a listener
    # from then on - it hears every later emit of that name (the calling function's own callFunction event included)
    ('callFunction', 'on', ['AUDIT()+SUM(1,2)', 'SUM(3,4)+ABS(1)'], ['AUDIT', 'SUM', 'SUM', 'ABS']),
    ('callFunction', 'once', ['AUDIT()+SUM(1,2)', 'SUM(3,4)'], ['AUDIT']),
    ('callFunction', 'on', ['SUM(1,2)', 'AUDIT()', 'ABS(2)'], ['AUDIT', 'ABS']),
    ('callCellValue', 'on', ['AUDIT()+A1', 'B2+A1'], ['A1', 'B2', 'A1']),
    ('callVariable', 'on', ['AUDIT()+va', 'vb'], ['va', 'vb']),
    ('callFunction', 'host', ['SUM(1,2)', 'ABS(2)'], ['SUM', 'ABS']),
]


def run_hostsub(c):
    common.load_repo()
    import hotxlfp
    ev, how, formulas, _want = HOSTSUB[c['i']]
    p = hotxlfp.Parser(debug=True) if c.get('debug') else hotxlfp.Parser()
    p.set_variable('va', 1)
    p.set_variable('vb', 2)
    log = []

    def listener(first, *rest):
        log.append(getattr(first, 'label', first))

    def audit(*a):
        (p.once if how == 'once' else p.on)(ev, listener)
        return 1
    p.set_function('AUDIT', audit)
    if how == 'host':
        p.on(ev, listener)
    import contextlib
    import io
    with contextlib.redirect_stderr(io.StringIO()), contextlib.redirect_stdout(io.StringIO()):
        for f in formulas:
            p.parse(f)
    return 'hostsub ' + ' '.join(str(x) for x in log)


def impl(c):
    if c['kind'] == 'hostsub':
        return run_hostsub(c)
    make = _makers()[c.get('on', 'emitter')]
    try:
        main, probe, trouble = run_real(c, make)
    except Budget:
        return None
    return show(main, probe) + ''.join(PROVIDER_MARK + t for t in trouble)


def agree(c, impl_ans, model_ans):
    return impl_ans == model_ans


def oracle(c, impl_ans):
    if impl_ans is None:
        return None
    if c['kind'] == 'hostsub':
        ev, how, formulas, want = HOSTSUB[c['i']]
        got = impl_ans.split(' ')[1:]
        if got != want:
            return ('a listener subscribed with %s(%r) from inside the host function AUDIT (called by the first formula that names it) heard %r '
                    'over the formulas %r; every emit of that name from then on is %r' % (how, ev, got, formulas, want))
        return None
    try:
        main, probe = run_spec(c)
    except Budget:
        return None
    exp = show(main, probe)
    names = ''
    if c.get('namespec') is not None:
        names = ' (event names by id: %s)' % show_names(c['namespec'])
    if PROVIDER_MARK in impl_ans:
        impl_ans, why = impl_ans.split(PROVIDER_MARK, 1)
        if exp == impl_ans:
            return ('the parser\'s own listener of callCellValue (A1 -> 5), subscribed before a history that uses none of the parser\'s event '
                    'names, was disturbed by it: %s, not to %r%s' % (why, PROVIDER_WANT, names))
    if exp != impl_ans:
        return 'call log differs from the stated semantics%s: got %s, statement gives %s' % (names, impl_ans[:300], exp[:300])
    return None


def nontrivial(c, impl_ans):
    if c['kind'] == 'hostsub':
        return True
    return impl_ans is not None and not impl_ans.startswith('(() ')


def gen_op(rng, names, ncb, emit_w=3):
    r = rng.random()
    n = rng.randrange(names)
    cb = rng.randrange(ncb)
    ctx = rng.randrange(2)
    if r < 0.28:
        return ['on', n, cb, ctx]
    if r < 0.50:
        return ['once', n, cb, ctx]
    if r < 0.56:
        return ['off', n]
    if r < 0.70:
        return ['offcb', n, cb]
    return ['emit', n, rng.randrange(5)]


def gen_namespec(rng, names):
    """one class of the pool per name id (no class twice), a non-empty sample of its spellings in a seeded order; at least one
    name of the history is falsy, equal-but-not-identical or no string"""
    while True:
        spec = []
        cats = []
        taken = set()
        while len(spec) < names:
            r = rng.random()
            cat = NAME_WEIGHTS[-1][0]
            for k, w in NAME_WEIGHTS:
                if r < w:
                    cat = k
                    break
                r -= w
            i = rng.randrange(len(NAME_POOL[cat]))
            if (cat, i) in taken:
                continue
            taken.add((cat, i))
            cl = NAME_POOL[cat][i]
            spec.append(rng.sample(cl, rng.randrange(1, len(cl) + 1)))
            cats.append(cat)
        if any(k in ('falsy', 'equal', 'nonstr') for k in cats):
            return spec


def gen_named_case(rng, maxlen):
    """a history like any other, under event names that are not ordinary non-empty strings (key namespec)"""
    c = gen_case(rng, maxlen, [2, 3, 3, 4])
    c['ownnames'] = False
    c['snake'] = False
    c['namespec'] = gen_namespec(rng, c['names'])
    if c['on'] != 'emitter' and not uses_own(c['namespec']):
        c['provider'] = rng.random() < 0.7
    return c


def gen_case(rng, maxlen, names_of=(2, 2, 3)):
    names = rng.choice(names_of)
    ncb = rng.choice([3, 4])
    fuel = rng.choice([0, 1, 2, 2, 3])
    bodies = []
    for i in range(ncb):
        k = rng.choice([0, 0, 1, 1, 2, 3])
        bodies.append([gen_op(rng, names, ncb) for _ in range(k)])
    ops = [gen_op(rng, names, ncb) for _ in range(rng.randrange(1, maxlen + 1))]
    return {'kind': 'script', 'on': rng.choice(['emitter', 'emitter', 'emitter', 'emitter', 'parser', 'parser', 'debugparser']), 'fuel': fuel,
            'flavour': rng.choice(['function', 'function', 'function', 'bound', 'bound', 'wrapped', 'wrapped', 'orphan']), 'latectx': rng.random() < 0.4, 'rets': rng.random() < 0.4, 'ownnames': rng.random() < 0.5,
            'names': names, 'bodies': bodies, 'ops': ops, 'snake': rng.random() < 0.15}


CORE = [
    # the re-entrant once of the repaired defect: B re-emits, A is once
    {'kind': 'script', 'on': 'emitter', 'fuel': 2, 'names': 1, 'bodies': [[['emit', 0, 7]], []],
     'ops': [['on', 0, 0, 0], ['once', 0, 1, 1], ['emit', 0, 1], ['emit', 0, 2]]},
    # unsubscribe a once-listener by its callback
    {'kind': 'script', 'on': 'emitter', 'fuel': 1, 'names': 2, 'bodies': [[], []],
     'ops': [['once', 0, 0, 0], ['on', 0, 1, 1], ['once', 0, 0, 1], ['offcb', 0, 0], ['emit', 0, 1]]},
    # unsubscribing one callback leaves another one in place (also when the other is a decorated version of it)
    {'kind': 'script', 'on': 'emitter', 'fuel': 1, 'names': 1, 'bodies': [[], []],
     'ops': [['on', 0, 1, 0], ['on', 0, 0, 1], ['once', 0, 1, 1], ['offcb', 0, 0], ['emit', 0, 1], ['emit', 0, 2]]},
    # subscribe / unsubscribe during delivery takes effect from the next emit
    {'kind': 'script', 'on': 'emitter', 'fuel': 1, 'names': 1, 'bodies': [[['on', 0, 1, 0], ['offcb', 0, 2]], [], []],
     'ops': [['on', 0, 0, 0], ['on', 0, 2, 1], ['emit', 0, 1], ['emit', 0, 2]]},
]


def Z(*cl):
    return [list(x) for x in cl]


# the fixed histories under names that are not ordinary non-empty strings (2 name ids each)
NAMED_SPECS = [
    Z([I(0)], [I(1)]),                                      # a host's numeric event ids, the first of them 0
    Z([S('')], [S('closed')]),                              # the empty text
    Z([I(0), B(False), F(0.0)], [I(1), B(True), F(1.0)]),   # one key, several types
    Z([T()], [['bytes', '']]),                              # an empty tuple, empty bytes
    Z([T(S('sheet'), I(1))], [S('callCellValue')]),         # a tuple beside one of the parser's own names
]
# the unsubscriptions of the statement with listeners of two other names in place: off(name, cb) with a duplicate of cb and a
# once-listener, a once-listener firing, off(name); under the numeric ids 0 1 2, the empty text, mixed spellings
NAMED_CORE = [
    {'kind': 'script', 'on': 'emitter', 'fuel': 1, 'names': 3, 'bodies': [[], [], [], [], []],
     'ops': [['on', 0, 0, 0], ['on', 0, 1, 0], ['once', 0, 2, 1], ['on', 1, 3, 0], ['on', 2, 4, 1], ['on', 0, 0, 1],
             ['emit', 0, 1], ['emit', 1, 1], ['emit', 2, 1], ['offcb', 0, 0], ['emit', 0, 2], ['emit', 1, 2], ['emit', 2, 2],
             ['off', 1], ['emit', 0, 3], ['emit', 1, 3], ['emit', 2, 3]], 'namespec': ns}
    for ns in (Z([I(0)], [I(1)], [I(2)]), Z([S('')], [S('closed')], [S('saved')]), Z([I(2)], [I(1)], [I(3)]),
               Z([I(0), F(0.0), B(False)], [I(1), B(True)], [T()]), Z([['bytes', '']], [S('callCellValue')], [I(0)]))
] + [
    # a once-listener under id 0 fires on a parser whose cell provider must survive that
    {'kind': 'script', 'on': on, 'fuel': 1, 'names': 2, 'bodies': [[], []], 'provider': True,
     'ops': [['once', 0, 0, 0], ['on', 1, 1, 0], ['emit', 0, 1], ['emit', 1, 2], ['off', 0], ['emit', 1, 3]], 'namespec': ns}
    for on in ('parser', 'debugparser') for ns in (Z([I(0)], [I(1)]), Z([S('')], [T()]))
]


def cases(rng, ctx):
    thorough = ctx['tier'] == 'thorough'
    assert all(namespec_ok([cl]) for k in NAME_POOL for cl in NAME_POOL[k]) and namespec_ok([cl for k in sorted(NAME_POOL) for cl in NAME_POOL[k]])
    out = [dict(c) for c in CORE] + [dict(c, flavour='bound') for c in CORE] + [dict(c, flavour='wrapped') for c in CORE] + \
        [dict(c, latectx=True) for c in CORE] + [dict(c, rets=True) for c in CORE] + [dict(c, on='parser', ownnames=True) for c in CORE] + \
        [dict(c, on='parser', snake=True) for c in CORE] + [dict(c, flavour='orphan') for c in CORE] + [dict(c, on='debugparser') for c in CORE] + [dict(c, on='debugparser', ownnames=True) for c in CORE]
    out += [{'kind': 'hostsub', 'i': i} for i in range(len(HOSTSUB))] + [{'kind': 'hostsub', 'i': i, 'debug': True} for i in range(len(HOSTSUB))]
    out += [dict(c, namespec=ns, on=on, provider=(on != 'emitter' and not uses_own(ns)))
            for c in CORE for ns in NAMED_SPECS for on in ('emitter', 'parser')] + [dict(c) for c in NAMED_CORE]
    n = (20000 if thorough else 1500) * ctx['scale']
    maxlen = 60 if thorough else 30
    for _ in range(n):
        out.append(gen_case(rng, maxlen))
    # the histories under names that are not ordinary non-empty strings: drawn AFTER the others (their seeded stream is unchanged)
    for _ in range((8000 if thorough else 700) * ctx['scale']):
        out.append(gen_named_case(rng, maxlen))
    if thorough:
        alphabet = []
        for nm in range(2):
            for cb in range(2):
                alphabet += [['on', nm, cb, 0], ['once', nm, cb, 1], ['offcb', nm, cb]]
            alphabet += [['off', nm], ['emit', nm, 1]]
        body_sets = [[[], []], [[['emit', 0, 2]], [['offcb', 0, 0]]], [[['once', 0, 1, 0]], [['emit', 1, 3], ['off', 0]]]]
        for L in range(1, 5):
            for ops in itertools.product(alphabet, repeat=L):
                if not any(o[0] == 'emit' for o in ops):
                    continue
                for bs in (body_sets if L >= 2 else body_sets[:1]):
                    out.append({'kind': 'script', 'on': 'emitter', 'fuel': 2, 'names': 2, 'bodies': bs, 'ops': list(ops)})
                    if L <= 3:
                        # the same small histories under the falsy names 0 = False = 0.0 and ''
                        out.append({'kind': 'script', 'on': 'emitter', 'fuel': 2, 'names': 2, 'bodies': bs, 'ops': list(ops),
                                    'namespec': Z([I(0), B(False), F(0.0)], [S('')])})
    return out


def shrink(case, msg):
    """delta-debug the op list (then the bodies) while the oracle still fails"""
    def fails(c):
        a = impl(c)
        return bool(oracle(c, a))
    c = dict(case)
    changed = True
    while changed:
        changed = False
        for i in range(len(c['ops'])):
            t = dict(c)
            t['ops'] = c['ops'][:i] + c['ops'][i + 1:]
            if t['ops'] and fails(t):
                c = t
                changed = True
                break
        if changed:
            continue
        for bi, b in enumerate(c['bodies']):
            for i in range(len(b)):
                t = dict(c)
                t['bodies'] = [list(x) for x in c['bodies']]
                del t['bodies'][bi][i]
                if fails(t):
                    c = t
                    changed = True
                    break
            if changed:
                break
        if changed or c.get('namespec') is None:
            continue
        # the names: ordinary ones if the failure does not need them, else one spelling per name where that is enough
        t = dict(c)
        del t['namespec']
        t.pop('provider', None)
        if fails(t):
            c = t
            changed = True
            continue
        for k, cl in enumerate(c['namespec']):
            for sp in (cl if len(cl) > 1 else []):
                t = dict(c)
                t['namespec'] = [list(x) for x in c['namespec']]
                t['namespec'][k] = [sp]
                if fails(t):
                    c = t
                    changed = True
                    break
            if changed:
                break
        if changed:
            continue
        for k, cl in enumerate(c['namespec']):
            if cl != [S('n%d' % k)]:
                t = dict(c)
                t['namespec'] = [list(x) for x in c['namespec']]
                t['namespec'][k] = [S('n%d' % k)]
                if namespec_ok(t['namespec']) and fails(t):
                    c = t
                    changed = True
                    break
    return c, oracle(c, impl(c))
