# -*- coding: utf-8 -*-
"""C20 - event emitter: ordered delivery, exact unsubscription, once means once
(hotxlfp/tinyemitter.py, also through hotxlfp.Parser which inherits it)

case kind `script`: a history of operations with the keys on (emitter / parser / debugparser = hotxlfp.Parser(debug=True)),
flavour (function / bound / wrapped / orphan = bound methods of host objects that only the emitter refers to), latectx, rets,
ownnames, snake (the first four names are call_cell_value, call_range_value, call_function, call_variable; on a Parser one
formula is evaluated after every emit of the history), names, bodies, ops, fuel;
case kind `hostsub` (oracle only): entry i of HOSTSUB on a plain or (key debug) a debug parser - a listener subscribed with
on / once from INSIDE the host function AUDIT while a formula is being evaluated; the log of what it hears against a fixed list"""
import itertools

from .. import common

ID = 'C20'
LEAN_MODULES = ['HotXL.Props.C20']
FUNCTIONS = ['hotxlfp.tinyemitter:Emitter.on', 'hotxlfp.tinyemitter:Emitter.once',
             'hotxlfp.tinyemitter:Emitter.emit', 'hotxlfp.tinyemitter:Emitter.off']
RULE = ('1500*scale (thorough 20000) seeded histories of 1..30 (thorough 1..60) operations on/once/off(name)/off(name,cb)/emit '
        'over 2-3 names x 3-4 callbacks x 2 contexts, callbacks whose bodies (0..3 operations) subscribe/unsubscribe/emit during '
        'delivery (nesting depth 0..3), run on a bare Emitter (4/7), a hotxlfp.Parser (2/7) or a hotxlfp.Parser(debug=True) (1/7, on = '
        'debugparser); callback flavour: plain functions '
        '(3/8), bound methods of host objects fetched anew for every on/once/off (2/8), functools.wraps-decorated versions of '
        'the callback before them (2/8), orphan (1/8): bound methods of host objects to which the harness keeps only a weak '
        'reference, so that nobody but the emitter refers to them - every on/once/off is written with the hook of the object '
        'a subscription still keeps alive, and with that of a NEW object once none does (or none was ever made); with probability 0.4 the context is a mapping bound while empty and filled afterwards '
        '(latectx); with probability 0.5 (ownnames) the first four names are the parser\'s own event names callFunction / '
        'callVariable / callCellValue / callRangeValue instead of n0, n1, ... (on a Parser its constructor has had a chance to '
        'prepare them; the name delivered to the callbacks as first argument stays the index); with probability 0.15 (snake; it '
        'overrides ownnames) the first four names are instead call_cell_value, call_range_value, call_function, call_variable - the '
        'snake_case spellings of the Parser\'s own methods, names like any other - and, when the history runs on a Parser or debug '
        'parser, after EVERY emit operation of the history (those in callback bodies too, not the probe emits) the parser evaluates one '
        'of the 4 formulas A1+1, SUM(A1:B2), SUM(1,2)+va, A1 (picked by the emit\'s argument mod 4; stdout / stderr to a sink), i.e. '
        'does its own work and raises its own events, which are none of these names, between the operations. 4 fixed histories (re-entrant '
        'once, off by callback of a once-listener, off of one of two callbacks, '
        'subscribe/unsubscribe during delivery) in the ten variants plain / bound / wrapped / latectx / rets / on a Parser '
        'under its own event names / on a Parser under the snake names (with the formula after every emit) / orphan / on a debug parser / on a debug parser under its own event names = 40 cases (in 40% of the seeded histories, and in the `rets` variants, the callbacks RETURN '
        'something - True, a label, a count, the emitter itself, a list, 0, None in rotation - which delivery must ignore). Thorough adds every '
        'history of length <= 4 with an emit over 16 operations (2 names x 2 callbacks) for three body assignments (length 1: '
        'empty bodies only), depth 2, bare Emitter. Observed: the log of calls (callback, argument, context, name, depth) and, for '
        'the final subscriptions, two probe emits per name with the bodies switched off. Every history is compared with the '
        'model and the reference emitter unless it makes more than 3000 callback calls (then it is not judged). Non-trivial = '
        'at least one callback was called before the probes; distinct = distinct cases. '
        'Kind hostsub (12 cases = the 6 entries of HOSTSUB x hotxlfp.Parser() / hotxlfp.Parser(debug=True); oracle only, no model '
        'request, always non-trivial): a fresh parser with va = 1, vb = 2 and the host function AUDIT, which subscribes one logging '
        'listener to an event with on or once WHILE a formula that calls it is being evaluated and returns 1; the formulas of the '
        'entry are evaluated in order (output to a sink) and the log (first argument of every call of the listener, a cell by its '
        'label) must equal the fixed list - the listener hears every emit of that name from its subscription on, the callFunction '
        'event of the AUDIT call itself included, and nothing before: callFunction/on over AUDIT()+SUM(1,2), SUM(3,4)+ABS(1) -> '
        'AUDIT SUM SUM ABS; callFunction/once over AUDIT()+SUM(1,2), SUM(3,4) -> AUDIT; callFunction/on over SUM(1,2), AUDIT(), '
        'ABS(2) -> AUDIT ABS; callCellValue/on over AUDIT()+A1, B2+A1 -> A1 B2 A1; callVariable/on over AUDIT()+va, vb -> va vb; '
        'and the control `host` (the listener subscribed by the host before the first formula, AUDIT not called) callFunction over '
        'SUM(1,2), ABS(2) -> SUM ABS.')
TRUSTED = ['callbacks are modelled as scripts of emitter operations; callbacks that raise are not modelled',
           'equality (==) of callbacks is modelled by callback ids: plain functions, and bound methods of host objects '
           'fetched anew for every on/once/off (equal, not identical), and functools.wraps-decorated versions of other callbacks; '
           'flavour, late filling of the context, what the callbacks return, the event names used (n0, n1, ..., the '
           'parser\'s own or the snake_case ones), the formulas a snake history evaluates between its operations and Emitter / Parser / Parser(debug=True) are not part of the model request: the model answer is the same',
           'flavour orphan: weakref.ref and CPython reference counting decide whether the host object of a callback is still '
           'alive when the next on/once/off is written (an object no subscription holds is gone at once, a new one is made: its '
           'hook equals no subscribed one, and none is subscribed); in the model request these are the same callback ids as in every '
           'other flavour',
           'snake histories on a Parser: Parser.parse of the 4 formulas (no listener of the parser\'s own event names is subscribed, '
           'va is undefined there) is trusted to call none of the history\'s callbacks by itself - a callback it did call would show in '
           'the log against model and reference emitter; what the formulas evaluate to is ignored',
           'hostsub: the expected lists are written by hand from the reading below (not from the model, which has no formulas); they '
           'rely on the evaluation order of the formulas (left to right: AUDIT() before SUM(1,2) in AUDIT()+SUM(1,2)) and on '
           'Parser.call_function raising callFunction after the function has run (so AUDIT\'s own event is heard by the listener it '
           'subscribed) - both are C10\'s subject']
ASSUMPTIONS = ['a once-listener reached first by a nested emit receives that emit (it is called exactly once)',
               'an emit delivers to the subscriptions present when it starts, in subscription order (subscribing / unsubscribing during '
               'delivery takes effect from the next emit; a once-listener that already fired is skipped); off(name, cb) removes every '
               'subscription of cb under that name, once or not',
               'the context (keyword arguments of the call) is the mapping given at subscription itself, not a copy taken then: what the '
               'host puts into it afterwards is delivered',
               'what a callback returns (a truth value, a label, a number, the emitter, a list, None) has no effect on the delivery',
               'on a Parser the event names it uses itself (callFunction, callVariable, callCellValue, callRangeValue) obey the '
               'same on / once / off / emit semantics as any other name, and a parser built with debug=True is an emitter like '
               'any other',
               'a subscription keeps its listener alive: a bound method of an object that nothing else refers to '
               '(parser.on(name, Sheet(rows).cell)) is delivered to as long as it is subscribed, and off(name, obj.hook) written '
               'with the same object removes it',
               'event names are plain keys: names that are the snake_case spellings of the Parser\'s methods (call_cell_value, '
               'call_range_value, call_function, call_variable) obey the same on / once / off / emit semantics on a Parser as any '
               'other name, and the parser\'s own evaluations between the operations neither deliver to them nor disturb their '
               'subscriptions',
               'a listener subscribed from inside a host function, while an evaluation of the same parser is in progress, is a '
               'listener from then on: it hears every later emit of that name (on: all of them, in that and in later evaluations; '
               'once: the next one only), on a plain parser and on one built with debug=True alike']
EXHAUSTIVE = {'quick': False, 'thorough': False}

CALL_BUDGET = 3000
PROBE = 999


class Budget(Exception):
    pass


def fmt_op(op):
    return '(' + ' '.join(str(x) for x in op) + ')'


def small_enough(c):
    try:
        run_spec(c)
        return True
    except Budget:
        return False


def request(c):
    if c['kind'] == 'hostsub':
        return None
    if not small_enough(c):
        return None
    bodies = '(' + ' '.join('(' + ' '.join(fmt_op(o) for o in b) + ')' for b in c['bodies']) + ')'
    ops = '(' + ' '.join(fmt_op(o) for o in c['ops']) + ')'
    return 'emitter.run %d %d %s %s' % (c['fuel'], c['names'], bodies, ops)


def run_real(c, make):
    """the history on the real emitter: returns (log, probe logs)"""
    e = make()
    log = []
    depth = [0]
    fuel = c['fuel']
    calls = [0]
    cbs = []
    late = bool(c.get('latectx'))
    # on a Parser the histories may run under the parser's OWN event names (its constructor has had a chance to prepare them)
    own = ['callFunction', 'callVariable', 'callCellValue', 'callRangeValue'] if c.get('ownnames') else None

    if c.get('snake'):
        # names that are the snake_case spellings of the Parser's methods: names like any other
        own = ['call_cell_value', 'call_range_value', 'call_function', 'call_variable']

    def nm(k):
        return own[k] if own is not None and k < len(own) else 'n%d' % k
    rets = bool(c.get('rets'))

    def do(op):
        k = op[0]
        if k in ('on', 'once'):
            sub = e.on if k == 'on' else e.once
            if late:
                # the host binds a context mapping that is still empty and fills it afterwards: it is THAT mapping which is bound
                ctx = {}
                sub(nm(op[1]), get(op[2]), ctx)
                ctx['c'] = op[3]
            else:
                sub(nm(op[1]), get(op[2]), {'c': op[3]})
        elif k == 'off':
            e.off(nm(op[1]))
        elif k == 'offcb':
            e.off(nm(op[1]), get(op[2]))
        elif k == 'emit':
            e.emit(nm(op[1]), op[1], op[2])
            if c.get('snake') and hasattr(e, 'parse'):
                # between the operations the parser does its own work (and raises its own events, which are none of these names)
                import contextlib
                import io
                with contextlib.redirect_stderr(io.StringIO()), contextlib.redirect_stdout(io.StringIO()):
                    e.parse(['A1+1', 'SUM(A1:B2)', 'SUM(1,2)+va', 'A1'][op[2] % 4])

    def mk(i):
        def cb(name, arg, c=None):
            calls[0] += 1
            if calls[0] > CALL_BUDGET:
                raise Budget()
            log.append((i, arg, c, name, depth[0]))
            if depth[0] < fuel:
                depth[0] += 1
                try:
                    for op in cbody[i]:
                        do(op)
                finally:
                    depth[0] -= 1
            if rets:
                # what a listener returns is nobody's business: a count, a label, a flag, the emitter itself
                return [True, 'handled', i + 1, e, [name], 0, None][(i + calls[0]) % 7]
        return cb
    cbody = c['bodies']
    cbs = [mk(i) for i in range(len(cbody))]
    if c.get('flavour') == 'bound':
        # the callbacks are bound methods of host objects: every `host.hook` is a new object that compares equal
        # to the one subscribed earlier (the way a host normally writes parser.off(name, self.hook))
        class Host(object):
            def __init__(self, f):
                self.f = f

            def hook(self, name, arg, c=None):
                return self.f(name, arg, c)
        hosts = [Host(f) for f in cbs]
        get = lambda i: hosts[i].hook
    elif c.get('flavour') == 'orphan':
        # bound methods of host objects that NOBODY but the emitter refers to (parser.on(name, Sheet(rows).cell)): a
        # subscription keeps its listener - and with it the object - alive; off(name, obj.hook) is written with the same object
        import weakref

        class Host2(object):
            def __init__(self, f):
                self.f = f

            def hook(self, name, arg, c=None):
                return self.f(name, arg, c)
        refs = {}

        def get(i):
            h = refs[i]() if i in refs else None
            if h is None:
                h = Host2(cbs[i])          # no subscription holds one any more (or none was ever made): a new object
                refs[i] = weakref.ref(h)
            return h.hook
    elif c.get('flavour') == 'wrapped':
        # every odd callback is a decorated version (functools.wraps: __wrapped__, copied __dict__/__name__) of the
        # callback before it - a different callback all the same
        import functools
        for i in range(1, len(cbs), 2):
            cbs[i] = functools.wraps(cbs[i - 1])(cbs[i])
        get = lambda i: cbs[i]
    else:
        get = lambda i: cbs[i]
    for op in c['ops']:
        do(op)
    main = list(log)
    del log[:]
    depth[0] = fuel  # bodies off during the probes
    for n in range(c['names']):
        e.emit(nm(n), n, PROBE)
        e.emit(nm(n), n, PROBE)
    return main, list(log)


def run_spec(c):
    """the statement of C20 as a reference emitter"""
    subs = {}
    log = []
    fuel = c['fuel']
    depth = [0]
    calls = [0]

    def do(op):
        k = op[0]
        if k in ('on', 'once'):
            subs.setdefault(op[1], []).append({'cb': op[2], 'ctx': op[3], 'once': k == 'once', 'fired': False})
        elif k == 'off':
            subs[op[1]] = []
        elif k == 'offcb':
            subs[op[1]] = [s for s in subs.get(op[1], []) if s['cb'] != op[2]]
        elif k == 'emit':
            for s in list(subs.get(op[1], [])):
                if s['once']:
                    if s['fired']:
                        continue
                    s['fired'] = True
                    subs[op[1]] = [t for t in subs.get(op[1], []) if t is not s]
                log.append((s['cb'], op[2], s['ctx'], op[1], depth[0]))
                calls[0] += 1
                if calls[0] > CALL_BUDGET:
                    raise Budget()
                if depth[0] < fuel:
                    depth[0] += 1
                    for o in c['bodies'][s['cb']]:
                        do(o)
                    depth[0] -= 1
    for op in c['ops']:
        do(op)
    main = list(log)
    del log[:]
    depth[0] = fuel
    for n in range(c['names']):
        do(('emit', n, PROBE))
        do(('emit', n, PROBE))
    return main, list(log)


def show(main, probe):
    f = lambda l: ' '.join('(%s %s %s %s %s)' % tuple('none' if x is None else ('%d' % x if isinstance(x, int) else str(x)) for x in t) for t in l)
    return '((%s) (%s))' % (f(main), f(probe))


def _makers():
    common.load_repo()
    import hotxlfp
    from hotxlfp.tinyemitter import Emitter
    return {'emitter': Emitter, 'parser': hotxlfp.Parser, 'debugparser': lambda: hotxlfp.Parser(debug=True)}


HOSTSUB = [
    # (event, how, formulas, expected log): a listener subscribed from INSIDE a host function that a formula calls is a listener
    # from then on - it hears every later emit of that name (the calling function's own callFunction event included)
    ('callFunction', 'on', ['AUDIT()+SUM(1,2)', 'SUM(3,4)+ABS(1)'], ['AUDIT', 'SUM', 'SUM', 'ABS']),
    ('callFunction', 'once', ['AUDIT()+SUM(1,2)', 'SUM(3,4)'], ['AUDIT']),
    ('callFunction', 'on', ['SUM(1,2)', 'AUDIT()', 'ABS(2)'], ['AUDIT', 'ABS']),
    ('callCellValue', 'on', ['AUDIT()+A1', 'B2+A1'], ['A1', 'B2', 'A1']),
    ('callVariable', 'on', ['AUDIT()+va', 'vb'], ['va', 'vb']),
    ('callFunction', 'host', ['SUM(1,2)', 'ABS(2)'], ['SUM', 'ABS']),
]


def run_hostsub(c):
    common.load_repo()
    import hotxlfp
    ev, how, formulas, _want = HOSTSUB[c['i']]
    p = hotxlfp.Parser(debug=True) if c.get('debug') else hotxlfp.Parser()
    p.set_variable('va', 1)
    p.set_variable('vb', 2)
    log = []

    def listener(first, *rest):
        log.append(getattr(first, 'label', first))

    def audit(*a):
        (p.once if how == 'once' else p.on)(ev, listener)
        return 1
    p.set_function('AUDIT', audit)
    if how == 'host':
        p.on(ev, listener)
    import contextlib
    import io
    with contextlib.redirect_stderr(io.StringIO()), contextlib.redirect_stdout(io.StringIO()):
        for f in formulas:
            p.parse(f)
    return 'hostsub ' + ' '.join(str(x) for x in log)


def impl(c):
    if c['kind'] == 'hostsub':
        return run_hostsub(c)
    make = _makers()[c.get('on', 'emitter')]
    try:
        main, probe = run_real(c, make)
    except Budget:
        return None
    return show(main, probe)


def agree(c, impl_ans, model_ans):
    return impl_ans == model_ans


def oracle(c, impl_ans):
    if impl_ans is None:
        return None
    if c['kind'] == 'hostsub':
        ev, how, formulas, want = HOSTSUB[c['i']]
        got = impl_ans.split(' ')[1:]
        if got != want:
            return ('a listener subscribed with %s(%r) from inside the host function AUDIT (called by the first formula that names it) heard %r '
                    'over the formulas %r; every emit of that name from then on is %r' % (how, ev, got, formulas, want))
        return None
    try:
        main, probe = run_spec(c)
    except Budget:
        return None
    exp = show(main, probe)
    if exp != impl_ans:
        return 'call log differs from the stated semantics: got %s, statement gives %s' % (impl_ans[:300], exp[:300])
    return None


def nontrivial(c, impl_ans):
    if c['kind'] == 'hostsub':
        return True
    return impl_ans is not None and not impl_ans.startswith('(() ')


def gen_op(rng, names, ncb, emit_w=3):
    r = rng.random()
    n = rng.randrange(names)
    cb = rng.randrange(ncb)
    ctx = rng.randrange(2)
    if r < 0.28:
        return ['on', n, cb, ctx]
    if r < 0.50:
        return ['once', n, cb, ctx]
    if r < 0.56:
        return ['off', n]
    if r < 0.70:
        return ['offcb', n, cb]
    return ['emit', n, rng.randrange(5)]


def gen_case(rng, maxlen):
    names = rng.choice([2, 2, 3])
    ncb = rng.choice([3, 4])
    fuel = rng.choice([0, 1, 2, 2, 3])
    bodies = []
    for i in range(ncb):
        k = rng.choice([0, 0, 1, 1, 2, 3])
        bodies.append([gen_op(rng, names, ncb) for _ in range(k)])
    ops = [gen_op(rng, names, ncb) for _ in range(rng.randrange(1, maxlen + 1))]
    return {'kind': 'script', 'on': rng.choice(['emitter', 'emitter', 'emitter', 'emitter', 'parser', 'parser', 'debugparser']), 'fuel': fuel,
            'flavour': rng.choice(['function', 'function', 'function', 'bound', 'bound', 'wrapped', 'wrapped', 'orphan']), 'latectx': rng.random() < 0.4, 'rets': rng.random() < 0.4, 'ownnames': rng.random() < 0.5,
            'names': names, 'bodies': bodies, 'ops': ops, 'snake': rng.random() < 0.15}


CORE = [
    # the re-entrant once of the repaired defect: B re-emits, A is once
    {'kind': 'script', 'on': 'emitter', 'fuel': 2, 'names': 1, 'bodies': [[['emit', 0, 7]], []],
     'ops': [['on', 0, 0, 0], ['once', 0, 1, 1], ['emit', 0, 1], ['emit', 0, 2]]},
    # unsubscribe a once-listener by its callback
    {'kind': 'script', 'on': 'emitter', 'fuel': 1, 'names': 2, 'bodies': [[], []],
     'ops': [['once', 0, 0, 0], ['on', 0, 1, 1], ['once', 0, 0, 1], ['offcb', 0, 0], ['emit', 0, 1]]},
    # unsubscribing one callback leaves another one in place (also when the other is a decorated version of it)
    {'kind': 'script', 'on': 'emitter', 'fuel': 1, 'names': 1, 'bodies': [[], []],
     'ops': [['on', 0, 1, 0], ['on', 0, 0, 1], ['once', 0, 1, 1], ['offcb', 0, 0], ['emit', 0, 1], ['emit', 0, 2]]},
    # subscribe / unsubscribe during delivery takes effect from the next emit
    {'kind': 'script', 'on': 'emitter', 'fuel': 1, 'names': 1, 'bodies': [[['on', 0, 1, 0], ['offcb', 0, 2]], [], []],
     'ops': [['on', 0, 0, 0], ['on', 0, 2, 1], ['emit', 0, 1], ['emit', 0, 2]]},
]


def cases(rng, ctx):
    thorough = ctx['tier'] == 'thorough'
    out = [dict(c) for c in CORE] + [dict(c, flavour='bound') for c in CORE] + [dict(c, flavour='wrapped') for c in CORE] + \
        [dict(c, latectx=True) for c in CORE] + [dict(c, rets=True) for c in CORE] + [dict(c, on='parser', ownnames=True) for c in CORE] + \
        [dict(c, on='parser', snake=True) for c in CORE] + [dict(c, flavour='orphan') for c in CORE] + [dict(c, on='debugparser') for c in CORE] + [dict(c, on='debugparser', ownnames=True) for c in CORE]
    out += [{'kind': 'hostsub', 'i': i} for i in range(len(HOSTSUB))] + [{'kind': 'hostsub', 'i': i, 'debug': True} for i in range(len(HOSTSUB))]
    n = (20000 if thorough else 1500) * ctx['scale']
    maxlen = 60 if thorough else 30
    for _ in range(n):
        out.append(gen_case(rng, maxlen))
    if thorough:
        alphabet = []
        for nm in range(2):
            for cb in range(2):
                alphabet += [['on', nm, cb, 0], ['once', nm, cb, 1], ['offcb', nm, cb]]
            alphabet += [['off', nm], ['emit', nm, 1]]
        body_sets = [[[], []], [[['emit', 0, 2]], [['offcb', 0, 0]]], [[['once', 0, 1, 0]], [['emit', 1, 3], ['off', 0]]]]
        for L in range(1, 5):
            for ops in itertools.product(alphabet, repeat=L):
                if not any(o[0] == 'emit' for o in ops):
                    continue
                for bs in (body_sets if L >= 2 else body_sets[:1]):
                    out.append({'kind': 'script', 'on': 'emitter', 'fuel': 2, 'names': 2, 'bodies': bs, 'ops': list(ops)})
    return out


def shrink(case, msg):
    """delta-debug the op list (then the bodies) while the oracle still fails"""
    def fails(c):
        a = impl(c)
        return bool(oracle(c, a))
    c = dict(case)
    changed = True
    while changed:
        changed = False
        for i in range(len(c['ops'])):
            t = dict(c)
            t['ops'] = c['ops'][:i] + c['ops'][i + 1:]
            if t['ops'] and fails(t):
                c = t
                changed = True
                break
        if changed:
            continue
        for bi, b in enumerate(c['bodies']):
            for i in range(len(b)):
                t = dict(c)
                t['bodies'] = [list(x) for x in c['bodies']]
                del t['bodies'][bi][i]
                if fails(t):
                    c = t
                    changed = True
                    break
            if changed:
                break
    return c, oracle(c, impl(c))
