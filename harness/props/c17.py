# -*- coding: utf-8 -*-
"""C17 - rounding and integer functions meet their specs; radix conversions invert

case kinds (judged by the oracle and compared with the model unless noted):
  round      ROUND/ROUNDUP/ROUNDDOWN(number, int digits); `guarded` = far-away digits, each call budgeted; `nomodel` = oracle only
  cf         CEILING/FLOOR and their .MATH/.PRECISE names, one or two arguments
  unary      INT/EVEN/ODD/SIGN            div        QUOTIENT/MOD            fact       FACT/FACTDOUBLE (budgeted)
  hexrt      HEX2DEC(DEC2HEX(n))          hexout     HEX2DEC/DEC2HEX outside the 40-bit range: an error
  basert     DECIMAL(BASE(n,r),r) (budgeted)         baseguard  BASE with radix outside 2..36 / negative number: an error
  roman      ROMAN(n, 0..4) and ARABIC(ROMAN(n)) (budgeted)       complex    IMREAL/IMAGINARY(COMPLEX(a,b))
             (key `fl`: the number is handed over as the equal float, written n.0 in the model's formulas)
  formula    fixed formula text with the expected value or error, through Parser.parse (budgeted); among them 18 on signed /
             padded numeric TEXT arguments and seeded HEX2DEC(DEC2HEX("-n")) with n written as text
  hex, base, arabic, misc   model correspondence only (the oracle is silent); misc does not count as non-trivial
a budgeted call that does not return fails the oracle in every kind (the correspondence-only ones too)
"""
import math
import sys
from fractions import Fraction

from .. import common, fx
from ..common import enc_str

ID = 'C17'
LEAN_MODULES = ['HotXL.Props.C17']
_MT = ['_place_beyond', 'ROUND', 'ROUNDUP', 'ROUNDDOWN', 'CEILING', 'FLOOR', 'INT', 'EVEN', 'ODD', 'QUOTIENT', 'MOD', 'SIGN', 'FACT',
       'FACTDOUBLE', 'BASE', 'DECIMAL', 'ROMAN', 'ARABIC']
_EN = ['HEX2DEC', 'DEC2HEX', 'COMPLEX', 'IMREAL', 'IMAGINARY', 'DELTA']
FUNCTIONS = ['hotxlfp.formulas.mathtrig:%s' % n for n in _MT] + ['hotxlfp.formulas.engineering:%s' % n for n in _EN] + \
    ['hotxlfp.formulas.utils:parse_number', 'hotxlfp.formulas.utils:parse_complex', 'hotxlfp.formulas.utils:any_is_error',
     'hotxlfp.helper.number:to_number']
RULE = ('seeded counts are quick / thorough (one number: both tiers) and are multiplied by scale, fixed lists and grids '
        'are not.  round: ROUND/ROUNDUP/ROUNDDOWN x digits -6..6 on 1500 / 12000 seeded numbers per function (ints '
        '-30..30, ints below 10^8, k*10^j with k < 2000 and j 1..6, dyadic fractions k/2^j with k < 2^20 and j 1..10, '
        'exact ties (2k+1)*10^j/2 and (2k+1)/8, decimal fractions below 10^4 with 1..4 places, (5%) a number of 10^3..10^9 a hair away from a whole one (n +- 2^-j, j 1..12, or n(1 +- 10^-u), u 9.1..13), 13 specials such as 0, '
        '0.0, +-0.5, +-1e-7, 0.1, 1000.1; either sign) plus a grid of 282 per function (every digits x multiples of '
        '10^-digits, the ints next to them, eighths); cf: CEILING/FLOOR (2000 / 15000 each; the .MATH and .PRECISE names '
        '1/5 each; 8% one-argument) on the same numbers x significance (80% one of 30 fixed ints / dyadic / decimal '
        'values of either sign, 18% a seeded number, 2% 0); unary: INT/EVEN/ODD/SIGN on 24 fixed values (-6..6, 0.0, '
        '+-0.5, +-1e-9, +-3.999, ...), on 10 Python ints beyond 2^53 (+-(2^53+1), +-12345678901234567, 10^20+1, -(10^20)-3, 10^30+7, '
        '2^64-1 and a seeded odd int of 2^53..2^63 of either sign, drawn per function: judged in exact integer arithmetic like any other int, so a detour through a double shows) and 800 / 6000 seeded numbers each; div: QUOTIENT/MOD on a 10 x 11 grid of all sign '
        'combinations incl. divisors 0 and 0.0 and 1500 / 12000 seeded pairs each (3% divisor 0); fact: FACT on 0..175, '
        'FACTDOUBLE on 0..175 and 290..306 (both range ends: 170!/171, 300!!/301), 34 fixed arguments each (fractions '
        'next to the ends: 170.5, 170.9, 300.9, ...; negatives; huge ones 10^6 .. 10^30, 1e300, 1.5e308, 2^1024, which '
        'must be errors at once) and 40 / 400 seeded each (0..399, around both ends, eighths, 10^3..10^39, 1e3..1e299).  '
        'round at far-away places (guarded: each call budgeted): digits 307..310, 323, 324, 400, 1000, 1023..1026, '
        '1073..1076, 1100, 1101, 5000, 10^6, 10^15, 10^30, their negatives and -1030..-1033, -1329..-1331, -2001, -2002 '
        '(53 values at and beyond the shortcuts of the code: digits > 1074, -digits > max(1024, bit length)) x 31 '
        'numbers: 0, 0.0, ints of either sign up to 2^53, TRUE, dyadic fractions, +-2^-1022 (smallest normal), 5e-324 '
        '(smallest denormal) and 11 ints beyond the doubles (+-10^310, +-2^1024, 2^1024-1, 2^1030-1, +-2^1030, 10^400, '
        '7*10^330, 2^2000: bit lengths 1024..2001, digits on both sides of -bit length) - all 1643 pairs for ROUND, for '
        'ROUNDUP/ROUNDDOWN the 2262 pairs within the region where the float intermediates of the code neither overflow, '
        'underflow nor lose digits (see TRUSTED); plus 60 / 600 seeded per function (number as above or an int below '
        '10^39, 15% an int in 2^1000..2^1099; digits +- one of 300..329, 1015..1109, 330..4999, 10^4..10^39; '
        'ROUNDUP/ROUNDDOWN pairs outside that region get digits redrawn beyond a shortcut: 1076..6075 or -(max(1024, bit '
        'length) + 1..50)).  hexrt: HEX2DEC(DEC2HEX(n)) on 43 boundary values (+-2^39+-3, +-2^40+-3, 0+-3, 15, 16, +-255, '
        '+-256, +-10^12), 10^5 / 10^6 seeded n of the 40-bit range and 300 seeded +-n in 2^39..2^44; hexout: 6 HEX2DEC '
        'texts of more than 40 bits or with a minus sign, 6 DEC2HEX numbers outside the range.  basert: '
        'DECIMAL(BASE(n,r),r) for every r in 2..36 x 70 / 610 distinct n (60 / 600 times scale, plus 10) in 0..2^39-1 (0, '
        '1, r-1, r, r+1, r^2-1, r^2, a power of r, 2^39-2, 2^39-1 - two pairs of them coincide for r = 2 -, the rest '
        'seeded with bit lengths 1..39 until the count is reached); baseguard: BASE on 9 fixed pairs, 250 / 2000 radices '
        'outside 2..36 (14 values -10^6..10^6 incl. 0, 1, 37, 1.5, 0.5, 36.5, 1.999) x +-n below 10^6 (30% negative), 150 '
        '/ 1000 negative n above -10^9 with a radix in 2..36.  roman: ROMAN(n,form) for ALL 1..3999 x forms 0..4 (complete) with '
        'ARABIC(ROMAN(n)); the same six calls once more with n handed over as the equal FLOAT (key fl: float(n) in the direct calls, '
        'n.0 in the formulas sent to the model) for every 37th n (1, 38, .., 3997: 109), the 8 fixed 1, 4, 9, 49, 499, 1994, 3888, '
        '3999 and 60 x scale seeded n, duplicates dropped (about 174 numbers at scale 1): same oracle (every form denotes n, ARABIC gives the int n back).  complex: IMREAL/IMAGINARY(COMPLEX(a,b)) on a 9 x 6 grid of ints (0, +-1, .., +-(2^53-1)) and '
        '400 / 3000 seeded pairs below 10^1..10^14 in magnitude.  formula: 104 fixed formulas with expected value or error '
        '(the statement\'s named behaviours, the repaired defects, the range ends of FACT/FACTDOUBLE, far-away digits up '
        'to 10^15; 18 of them on numbers arriving as signed or padded numeric TEXT, which are the integer they spell: DEC2HEX("-54") = '
        'FFFFFFFFCA, HEX2DEC(DEC2HEX("-54")) = -54, HEX2DEC(DEC2HEX(" -1 ")) = -1, DEC2HEX("+255") = FF, HEX2DEC(DEC2HEX("-549755813888")) '
        '= -2^39, ROUND(1234.5,"-2") = 1200, ROUNDUP(1234.5,"-2") = 1300, ROUNDDOWN("1234.5","-2") = 1200, BASE("255","16") = FF, '
        'DECIMAL(BASE("255",16),"16") = 255, ROMAN("499","0") = CDXCIX, ARABIC(ROMAN("1994")) = 1994, QUOTIENT("-7","2") = -3, MOD("-7","3") '
        '= 2, FACT("5") = 120, EVEN("-3") = -4, CEILING("-5.5","2") = -4, FLOOR("-5.5","-2") = -4) + 40 x scale seeded '
        'HEX2DEC(DEC2HEX("x")) = x with x a negative int in -(2^39-1)..-1 written as text in the formula (144 formula cases at scale 1), '
        'through Parser.parse.  Correspondence only (oracle silent): hex (HEX2DEC on 400 / 3000 seeded hex '
        'texts of 1..11 characters in either case and 17 fixed ones - blank, padded, sign, underscore, 0x/0b prefix, '
        'tab/newline, 40-bit edge values; DEC2HEX(n, places -1..12) 300 / 2000, n half of the 40-bit range, half of 1..39 '
        'bits), base (BASE with places -1..44, fractional n, float or half-integral radix, float places: 200 / 1500 - a '
        'seeded n of 1..39 bits and a radix in 2..36; 50% int places -1..44, 20% n + 0.0 / 0.5 / 0.25, 10% the radix as a '
        'float, 10% n mod 1000 with radix + 0.5 (36 stays 36), 10% float places 0.0..44.0; DECIMAL on 200 / 1500 seeded '
        'texts of 1..8 digits of the radix, letters in lower case, each character with probability 10% drawn from the '
        'digits plus the next one (radix 36: plus "A"), and on 32 fixed (text, radix) pairs: radix 0/1/37/-2/float/text, '
        'prefixes, sign, blanks, underscores, non-texts, 40-bit edge values), arabic (500 / 4000 seeded near-numerals: a '
        'classic numeral, half of them with one symbol inserted, or 0..6 random symbols, 15% in lower case; 29 fixed: '
        'empty, MMMM, IIII, IC, trailing newlines, non-texts, repeated subtractive pairs) and misc (812 fixed: ROMAN with '
        'numbers/forms out of range (19 pairs: also fractional, logical, text, blank ones) and with the form omitted (6 '
        'numbers), IMREAL/IMAGINARY on 29 texts and 5 non-texts, COMPLEX (6 pairs), DELTA (11 pairs), float digits beyond '
        'the shortcuts (1074.5, 1075.0, -1024.5, -1025.0, +-5000.25, +-1e300 x 0, 3, -2.5, 0.0 per ROUND* function; not '
        'guarded: not budgeted), ROUND* of 1234.5678 and 1234 with digits 2.0, -1.0, 0.0, 1.5, TRUE, DEC2HEX with 9 '
        '(number, places) and BASE with 9 (number, radix, places) triples - float, text, logical, blank, error, too small '
        'places -, and the argument coercions of every function - 15 odd arguments in each position: numeric and padded '
        'text, logicals, blank, error values, underscore/0x text; wrong arity: no argument, and 4 arguments where two '
        'were varied, 3 where one was).  Texts given to int(text, radix) are ASCII.  Budget: every '
        'BASE/DECIMAL/ROMAN/ARABIC/FACT/FACTDOUBLE call of every kind but formula (base, arabic and misc too; not the '
        'inner ROMAN(n) with the form omitted whose value is handed to ARABIC in the roman kind), every guarded round '
        'call and every formula case (the whole parse) runs under 100000 line events (all Python frames of the call) AND '
        '5 s of processor time of the process (0.5 s once 5 calls have not returned); exceeding either counts as "does '
        'not return": an oracle failure (in every kind, the correspondence-only ones included; a formula case whatever it '
        'was expected to give) and a disagreement; once BASE or one of the five ROMAN forms has not returned, the DECIMAL '
        'resp. ARABIC call of that case is not made.  Model: every case is compared with the Lean model (hexrt/basert as '
        'one evaluated formula, the inner value read from the model\'s call log - a log of fewer than two calls is a '
        'disagreement; roman/complex/formula as formula batches - in the complex kind the IMREAL/IMAGINARY values are '
        'compared and judged, the value of COMPLEX itself is neither; the rest as direct builtin calls; floats within 4 '
        'ulp, ints and types exact, model "no opinion" never a disagreement) except ROUND(float, digits > 2000) (40 grid '
        'pairs and the seeded ones alike: oracle only) and IMREAL/IMAGINARY("1_0") (misc: neither).  search (a proof or '
        'the correspondence broke, no oracle failure yet): all kinds but hexrt and roman regenerated at scale 4, oracle '
        'only, stops at the first failure.  Non-trivial = every distinct case of every kind but misc (no weights: a case '
        'counts once), which includes the correspondence-only kinds hex / base / arabic, CEILING/FLOOR with significance '
        '0 and calls that did not return. Route cell: every thirteenth rounding / CEILING-FLOOR / INT-EVEN-ODD-SIGN / QUOTIENT-MOD case, and every second one with a zero among its arguments, once more as the formula NAME(A1,B1,...) over cells answered by the host\'s callCellValue listener (a zero is a number, not a blank; an error entry of the record is taken as that error value): judged by the same oracle and compared with the same model answer.')
TRUSTED = ['Python float arithmetic is modelled by exact rational arithmetic (results compared within 4 ulp; where an argument '
           'is a float and the scaled value within 2^-48 (relative) of an integer, ROUNDUP/ROUNDDOWN/CEILING/FLOOR/QUOTIENT '
           'may land one unit from the model\'s result, MOD within 8 ulp of it or one divisor away; for ROUNDUP/ROUNDDOWN this excuse '
           '(noise_excuse) is granted only when digits is an int (not a logical) with |digits| <= 400: further out there is no noise to '
           'excuse and 10^digits is not formed); float OVERFLOW is not '
           'modelled: ROUNDUP/ROUNDDOWN of a float whose scaled magnitude |x|*10^digits exceeds the double range raise in the '
           'code (#ERROR!), and so does EVERY float (0.0 too) with an int digits in 309..1074 or -1024..-309 (10**|digits| '
           'does not convert to a float); ROUNDUP of a number whose quotient by 10^-digits underflows to 0.0 returns 0; ints '
           'beyond 2^53 lose digits in abs(i) / 10**k and in the float result for digits >= 0 - such ROUNDUP/ROUNDDOWN inputs '
           'are not generated in the far-away stream (reported as candidate findings).  Kept there: digits beyond a shortcut; '
           'the int 0; floats with |digits| <= 308 and - digits 0..22 - an exact product x*10^digits, - digits > 22 - |x| < '
           '1e-290 and x*10^digits < 1e307, - digits < 0, ROUNDUP - a quotient of at least 2^-1000; ints up to 2^53 for digits '
           '>= 0, for digits < 0 ints whose quotient is below 2^52 and integral or more than 1/1000 from an integer, not below '
           '2^-1000 for ROUNDUP.  ROUND is not filtered',
           'ROUND(float, digits > 2000) is judged by the oracle only (the executable model would compute 10^digits)',
           'Python builtins round(), math.ceil/floor, int(text, base), hex(), str.rjust, complex() as described in the model '
           'files',
           'sys.settrace line-event counting as the termination observer (budget %d line events per budgeted call, counted '
           'over all Python frames of the call), plus an interval timer on the processor time of the process (ITIMER_PROF: '
           'SIGPROF after %d s, a tenth of that once five calls have not returned - counted per process, never reset; raised '
           'into the call) for the calls whose work sits in C (big-integer powers and factorials); processor time, not '
           'wall-clock, so that a loaded machine does not turn a fast call into a hang; outside the main thread only line '
           'events are counted' % (100000, 5),
           'the budget exception is a BaseException: Parser.call_function and Parser.parse catch Exception only and let it '
           'through',
           'underscores in the text of a float are not modelled (float("1_0") = 10.0): IMREAL/IMAGINARY of a text with an '
           'underscore is not sent to the model (and, being misc, not judged)',
           'not budgeted, so trusted to return: ROUND/ROUNDUP/ROUNDDOWN outside the guarded far-away stream (digits -6..6; '
           'every misc call, float digits beyond the shortcuts included), CEILING/FLOOR, INT/EVEN/ODD/SIGN, QUOTIENT/MOD, HEX2DEC/DEC2HEX, COMPLEX/IMREAL/IMAGINARY, DELTA and the inner '
           'ROMAN(n) of ARABIC(ROMAN(n))',
           'the value COMPLEX(a,b) itself is neither judged nor compared in the complex kind (only what IMREAL/IMAGINARY '
           'make of it; COMPLEX is compared with the model on the misc arguments)']
ASSUMPTIONS = ['a float argument is judged by the exact value of the double (TRUE as 1); a result may differ from the exact '
               'multiple by 2 ulp of the result; whether a ROUND*/CEILING/FLOOR/MOD result is an int or a float is left to the '
               'model correspondence',
               'ROUND: any multiple within half a unit (inclusive) is accepted, so an exact tie may go either way; '
               'ROUNDUP/ROUNDDOWN: the multiple m with |x| <= |m| < |x| + unit resp. |x| - unit < |m| <= |x|, not of the '
               'opposite sign; the fixed formulas pin the half-even results of the code (ROUND(2.5,0) = 2, ROUND(25,-1) = 20, '
               'ROUND(-1.25,1) = -1.2)',
               'the documented range of FACT / FACTDOUBLE ends where the result stops being an XL number (a finite double): '
               'from the first n on with n! (n!!, and every later one) beyond the largest double - 171 and 301, computed by '
               'the oracle itself - an error is demanded ("arguments outside the documented range give an error rather than a '
               'value"), fractions (171.5) included; below it the exact int of the truncated argument (FACT(170.9) = 170!); '
               'every negative argument (-0.5 too): an error',
               'ROUND/ROUNDUP/ROUNDDOWN: where every multiple of 10^-digits the statement admits is beyond the largest double '
               '(ROUNDUP of a non-zero number with digits < -308; any of the three on an int itself beyond the doubles) an '
               'error is accepted as well as the exact integer; for |digits| > 1100 the oracle does not form 10^digits: digits '
               '> 1100 demands the number itself (every double is a multiple of 2^-1074, hence of 10^-digits; within 2 ulp for '
               'an inexact input; an error is not accepted, not for an int beyond the doubles either), digits < -1100 '
               'demands 0 (ROUNDUP of a non-zero number: an error, or the exact int +-10^-digits while -digits <= 10000) for '
               'numbers below 10^1000 in magnitude (larger ones are not generated)',
               'for inputs whose scaled value is not exactly representable (floats whose denominator exceeds 2^12: decimal '
               'fractions) the bounds are relaxed by 2 ulp of the input (CEILING/FLOOR: of input plus result; MOD: 4 ulp of '
               'number plus divisor; QUOTIENT: the nearest integer is accepted when the quotient is within 2^-48 of it)',
               'documented side of CEILING: above the number, but below (away from zero) for a negative number with negative '
               'significance; of FLOOR: below, but above (toward zero) for a negative number with negative significance; '
               'FLOOR(positive number, negative significance) must be #NUM!; one argument means significance 1; the '
               '.MATH/.PRECISE names are judged like the plain ones',
               'CEILING(positive number, negative significance) may be the upward multiple (as the code does) or #NUM! (as '
               'Excel does)',
               'CEILING/FLOOR with significance 0 are not judged (the statement quantifies over significances of either sign)',
               'INT/EVEN/ODD/SIGN/QUOTIENT must return ints; EVEN(0) = 0, ODD(0) = 1; MOD has the sign of the divisor, is '
               'smaller than it in magnitude and number - MOD is an integral multiple of the divisor; a zero divisor (0 or '
               '0.0) must give an error',
               '"an error" is any error value (the code is not compared, not for the fixed formulas either) except #NUM! for '
               'FLOOR / CEILING of a positive number with negative significance; the expected value of a fixed formula is '
               'compared with == (2.0 = 2), logicals rejected',
               'HEX2DEC(DEC2HEX(n)) = n (an int) for -2^39 <= n < 2^39; outside it DEC2HEX must give an error (HEX2DEC of that '
               'is not judged); HEX2DEC of a text of more than 40 bits or with a minus sign must give an error',
               'a number that arrives as numeric text - with a sign, with blanks around it - is the number it spells for every '
               'function of this property (DEC2HEX("-54") is DEC2HEX(-54), ROUND(x,"-2") is ROUND(x,-2), digits / radix / form / '
               'divisor / significance arguments alike); judged on the 18 fixed formulas and the seeded HEX2DEC(DEC2HEX("-n")) only',
               'ARABIC(ROMAN(n, form)) = n is demanded for the classic form 0 only (form omitted); every form 0..4 must denote '
               'n under the additive/subtractive reading (a symbol before a larger one is subtracted) - how concise a form is '
               'is not judged',
               'a whole number 1..3999 that arrives as a float (the result of a division or of ROUND, a host float) is that '
               'number for ROMAN: the same numerals as for the int; a Python int beyond 2^53 is an exact number for '
               'INT/EVEN/ODD/SIGN (judged like every other int argument, no tolerance)',
               'COMPLEX parts are judged for |a|,|b| < 2^53 (a complex number stores doubles); IMREAL/IMAGINARY must return '
               'them as ints',
               'DECIMAL(BASE(n,r),r) = n is demanded for n < 2^39 (DECIMAL applies the 40-bit two\'s-complement adjustment '
               'above); BASE must give a non-empty string of the digits 0-9A-Z (upper case) below the radix; a radix outside '
               '2..36 (fractional ones such as 1.5 and 36.5 too) or a negative number (-0.5 too) must give an error of any '
               'kind',
               'a budgeted call that exceeds a budget is a failure ("every call terminates"); a fixed formula that does not '
               'return is turned into the error record "does not return (budget exceeded)", which fails the oracle whether a '
               'value or an error was expected (and fails the correspondence unless the model has no opinion)']
EXHAUSTIVE = {'quick': False, 'thorough': False}

BUDGET = 100000
WALL = 5          # seconds of processor time (ITIMER_PROF) per budgeted call (C-level work does not produce line events)
DBL_MAX = Fraction(sys.float_info.max)
ERRS = ['#ERROR!', '#DIV/0!', '#NAME?', '#N/A', '#NULL!', '#NUM!', '#REF!', '#VALUE!']
H = 1 << 39
W = 1 << 40


# --------------------------------------------------------------------------- the implementation

_p = [None]


_cellvals = {}
CELL_NAMES = ['A1', 'B1', 'C1', 'D1']


def parser():
    if _p[0] is None:
        common.load_repo()
        import hotxlfp
        _p[0] = hotxlfp.Parser()
        # route cell: the arguments as values of the cells A1.. answered by the host's listener (0, 0.0 and FALSE are values)
        _p[0].on('callCellValue', lambda cell, setter: setter(_cellvals.get(cell.label)))
    return _p[0]


def call_cells(name, args):
    """the call written as a formula over cells; -> the value, the error value, or HANG"""
    p = parser()
    _cellvals.clear()
    for lab, a in zip(CELL_NAMES, args):
        _cellvals[lab] = dec_arg(a)
    st, rec = budgeted(lambda: p.parse('%s(%s)' % (name, ','.join(CELL_NAMES[:len(args)]))))
    if st == 'hang':
        return HANG
    if rec['error'] is not None:
        from hotxlfp.formulas import error
        return error.from_message(rec['error'])
    return rec['result']


class StepBudgetExceeded(BaseException):
    """not an Exception: `Parser.call_function` / `parse` must not swallow it"""


_HANGS = [0]


def budgeted(f):
    """run f() counting line events (budget BUDGET) under a processor-time timer (WALL s); -> ('ok', value) | ('hang', steps)"""
    count = [0]

    def tr(frame, event, arg):
        if event == 'line':
            count[0] += 1
            if count[0] > BUDGET:
                raise StepBudgetExceeded()
        return tr
    def on_alarm(signum, frame):
        raise StepBudgetExceeded()
    old = sys.gettrace()
    armed = False
    try:
        import signal
        # processor time of this process, not wall-clock: a loaded machine must not turn a fast call into a "hang"
        old_handler = signal.signal(signal.SIGPROF, on_alarm)
        # once five calls have not returned the verdict stands: the remaining ones get a tenth of the budget
        signal.setitimer(signal.ITIMER_PROF, WALL if _HANGS[0] < 5 else WALL / 10.0)
        armed = True
    except (ValueError, AttributeError, ImportError):
        pass          # not the main thread / no SIGPROF or setitimer: line events only
    sys.settrace(tr)
    try:
        return ('ok', f())
    except StepBudgetExceeded:
        _HANGS[0] += 1
        return ('hang', count[0])
    finally:
        sys.settrace(old)
        if armed:
            signal.setitimer(signal.ITIMER_PROF, 0)
            signal.signal(signal.SIGPROF, old_handler)


def dec_arg(a):
    if isinstance(a, dict):
        from hotxlfp.formulas import error
        return error.from_message(a['e'])
    return a


def call(name, args, traced=False):
    """the registered builtin through the real `Parser.call_function` (an exception inside the
    function becomes the error value); -> the value, or ('hang', steps)"""
    p = parser()
    vals = [dec_arg(a) for a in args]
    if traced:
        st, v = budgeted(lambda: p.call_function(name, vals))
        if st == 'hang':
            return HANG
        return v
    return p.call_function(name, vals)


class _Hang(object):
    def __repr__(self):
        return '<no result within %d line events / %d s>' % (BUDGET, WALL)


HANG = _Hang()
TRACED = {'BASE', 'DECIMAL', 'ROMAN', 'ARABIC', 'FACT', 'FACTDOUBLE'}


def is_err(v, code=None):
    from hotxlfp.formulas import error
    return isinstance(v, error.XLError) and (code is None or str(v) == code)


def lit(v):
    """formula text of an int / dyadic float / string argument"""
    if isinstance(v, bool):
        return 'TRUE' if v else 'FALSE'
    if isinstance(v, int):
        return str(v)
    if isinstance(v, float):
        r = repr(v)
        if 'e' in r or 'E' in r:
            r = '%.20f' % v
        return r
    if isinstance(v, str):
        return '"' + v + '"'
    raise ValueError(v)


def formulas_of(c):
    k = c['kind']
    if k == 'hexrt':
        return ['HEX2DEC(DEC2HEX(%d))' % c['n']]
    if k == 'basert':
        return ['DECIMAL(BASE(%d,%d),%d)' % (c['n'], c['r'], c['r'])]
    if k == 'roman':
        nt = '%d.0' % c['n'] if c.get('fl') else '%d' % c['n']          # fl: the number arrives as the equal float
        return ['ROMAN(%s,%d)' % (nt, f) for f in range(5)] + ['ARABIC(ROMAN(%s))' % nt]
    if k == 'complex':
        return ['IMREAL(COMPLEX(%d,%d))' % (c['a'], c['b']), 'IMAGINARY(COMPLEX(%d,%d))' % (c['a'], c['b'])]
    if k == 'formula':
        return [c['f']]
    return None


def request(c):
    fs = formulas_of(c)
    if fs is not None:
        if c['kind'] in ('hexrt', 'basert'):
            return 'eval %s %s' % (enc_str(fs[0]), fx.env_wire())
        return 'c04.batch ' + ' '.join(enc_str(f) for f in fs) + ' ' + fx.env_wire()
    if c.get('nomodel'):
        return None
    if c['fn'] in ('IMREAL', 'IMAGINARY') and any(isinstance(a, str) and '_' in a for a in c['args']):
        return None          # float('1_0') = 10.0: underscores in float text are not modelled
    return 'fn %s %s' % (enc_str(c['fn']), ' '.join(fx.to_wire(dec_arg(a)) for a in c['args']))


def impl(c):
    k = c['kind']
    if k == 'hexrt':
        t = call('DEC2HEX', [c['n']])
        return [t, call('HEX2DEC', [t])]
    if k == 'basert':
        t = call('BASE', [c['n'], c['r']], traced=True)
        if t is HANG:
            return [HANG, None]
        return [t, call('DECIMAL', [t, c['r']], traced=True)]
    if k == 'roman':
        n = float(c['n']) if c.get('fl') else c['n']
        out = [call('ROMAN', [n, f], traced=True) for f in range(5)]
        if any(o is HANG for o in out):
            return out + [None]
        return out + [call('ARABIC', [call('ROMAN', [n])], traced=True)]
    if k == 'complex':
        z = call('COMPLEX', [c['a'], c['b']])
        return [z, call('IMREAL', [z]), call('IMAGINARY', [z])]
    if k == 'formula':
        st, r = budgeted(lambda: parser().parse(c['f']))
        if st == 'hang':
            return {'result': None, 'error': 'does not return (budget exceeded)'}
        return r
    if c.get('via') == 'cell':
        return call_cells(c['fn'], c['args'])
    return call(c['fn'], c['args'], traced=c['fn'] in TRACED or bool(c.get('guarded')))


# --------------------------------------------------------------------------- model correspondence

def rec_of(v):
    if is_err(v):
        return {'result': None, 'error': str(v)}
    return {'result': v, 'error': None}


def model_value(m):
    """`(raise tag)` of a builtin is the error value `tag` after call_function"""
    if isinstance(m, list) and len(m) == 2 and m[0] == 'raise':
        return ['e', m[1]]
    return m


def near_integer(q, bits=48):
    k = round(q)
    return abs(q - k) <= Fraction(1, 1 << bits) * max(1, abs(k))


def noise_excuse(c, v, m):
    """model (exact rationals) and implementation (doubles) may take different sides when the
    scaled value is within 2^-48 of an integer: then a result one unit away from the model's is the
    same code on a perturbed input, not a modelling error"""
    try:
        fn, a = c['fn'], c['args']
        if not (isinstance(m, list) and m and m[0] in ('i', 'f')) or isinstance(v, bool) or not isinstance(v, (int, float)):
            return False
        mv = Fraction(int(m[1]), int(m[2])) if m[0] == 'f' else Fraction(int(m[1]))
        if (m[0] == 'i') != isinstance(v, int):
            return False
        if fn in ('ROUNDUP', 'ROUNDDOWN'):
            x, d = Fraction(a[0]), a[1]
            if not isinstance(a[0], float):
                return False          # ints are exact in the model AND should be exact in the code
            if isinstance(d, bool) or not isinstance(d, int) or abs(d) > 400:
                return False          # no noise to excuse that far out (and 10^digits is not formed)
            unit = Fraction(10) ** (-d)
            scaled = abs(x) / unit
        elif fn.split('.')[0] in ('CEILING', 'FLOOR'):
            if not (isinstance(a[0], float) or isinstance(a[1], float)):
                return False
            x, s = Fraction(a[0]), Fraction(a[1] if len(a) > 1 else 1)
            unit = abs(s)
            scaled = abs(x) / unit
        elif fn == 'QUOTIENT':
            if not (isinstance(a[0], float) or isinstance(a[1], float)):
                return False
            unit = 1
            scaled = Fraction(a[0]) / Fraction(a[1])
        elif fn == 'MOD':
            if not (isinstance(a[0], float) or isinstance(a[1], float)):
                return False
            unit = abs(Fraction(a[1]))
            scaled = Fraction(a[0]) / Fraction(a[1])
            # a remainder next to 0 or next to the divisor
            if near_integer(scaled):
                tol = 8 * Fraction(math.ulp(max(abs(a[0]), abs(a[1]))))
                return abs(Fraction(v) - mv) <= tol or abs(abs(Fraction(v) - mv) - unit) <= tol
            return False
        else:
            return False
        if not near_integer(scaled):
            return False
        tol = 4 * Fraction(math.ulp(float(max(abs(mv), abs(Fraction(v)), 1e-300))))
        return abs(abs(Fraction(v) - mv) - unit) <= tol
    except Exception:
        return False


def val_agrees(m, v):
    m = model_value(m)
    if isinstance(v, complex):
        return (isinstance(m, list) and len(m) == 4 and m[0] == 'a' and m[1] == ['o', 'complex'] and
                fx.value_matches(m[2], v.real) and fx.value_matches(m[3], v.imag))
    return fx.value_matches(m, v, ulps=4)


def agree(c, impl_ans, model_ans):
    k = c['kind']
    m = fx.parse_sexp(model_ans)
    if k in ('hexrt', 'basert'):
        rec, events = m
        first, second = impl_ans
        if first is HANG or second is HANG:
            return False
        # the second call's argument in the model's log is the first call's value
        inner = events[1][2][0] if len(events) > 1 else None
        if inner is None or val_agrees(inner, first) is False:
            return False
        return fx.record_matches(rec, rec_of(second)) is not False
    if k == 'roman':
        vals = impl_ans
        if any(v is HANG for v in vals):
            return False
        return all(fx.record_matches(mm[1], rec_of(v)) is not False for mm, v in zip(m, vals))
    if k == 'complex':
        z, re, im = impl_ans
        return fx.record_matches(m[0][1], rec_of(re)) is not False and fx.record_matches(m[1][1], rec_of(im)) is not False
    if k == 'formula':
        return fx.record_matches(m[0][1], impl_ans, ulps=4) is not False
    if impl_ans is HANG:
        return False
    r = val_agrees(m, impl_ans)
    if r is False:
        return noise_excuse(c, impl_ans, model_value(m))
    return True


# --------------------------------------------------------------------------- the oracle (statement only)

def is_num(v):
    return isinstance(v, (int, float)) and not isinstance(v, bool) and not (isinstance(v, float) and (math.isnan(v) or math.isinf(v)))


def exact_input(*xs):
    """ints and short dyadic fractions: every scaling the functions do is exact in doubles"""
    for x in xs:
        if isinstance(x, float) and Fraction(x).denominator > (1 << 12):
            return False
    return True


def ulpf(v):
    try:
        return Fraction(math.ulp(float(v))) if v != 0 else Fraction(0)
    except OverflowError:
        return Fraction(0)          # a Python int beyond the doubles is exact


def snap(r, unit):
    """the multiple of `unit` the (float) result stands for, or None if it is none within 2 ulp"""
    R = Fraction(r)
    k = round(R / unit)
    if abs(R - k * unit) <= 2 * ulpf(r):
        return k * unit
    return None


def sgn(q):
    return (q > 0) - (q < 0)


def o_round_far(c, r):
    """|digits| > 1100, without forming 10^digits"""
    fn, (x, d) = c['fn'], c['args']
    X = Fraction(x)
    if abs(X) >= 10 ** 1000:
        return None
    if d > 0:
        # every double (a multiple of 2^-1074) and every int is a multiple of 10^-digits: the number itself is demanded
        if not is_num(r):
            return '%s(%r,%r) = %r is not a number' % (fn, x, d, r)
        e = 0 if exact_input(x) else 2 * ulpf(x)
        if abs(Fraction(r) - X) > e:
            return '%s(%r,%r) = %r, expected the number itself (no digit that far to the right)' % (fn, x, d, r)
        return None
    # one unit is at least 10^1101, more than twice the number: the multiples are 0, +-unit, ...
    if fn == 'ROUNDUP' and X != 0:
        if is_err(r):
            return None
        if is_num(r) and isinstance(r, int) and -d <= 10000 and r == sgn(X) * 10 ** (-d):
            return None
        return 'ROUNDUP(%r,%r) = %r, expected an error (one unit of that place, 10^%d, is beyond the XL numbers)' % (x, d, r, -d)
    if not is_num(r) or r != 0:
        return '%s(%r,%r) = %r, expected 0 (the multiple of 10^%d within reach)' % (fn, x, d, r, -d)
    return None


def admitted(fn, X, U):
    """the multiples of U the statement admits for X (magnitudes)"""
    q = abs(X) / U
    if fn == 'ROUNDUP':
        return [math.ceil(q) * U]
    if fn == 'ROUNDDOWN':
        return [math.floor(q) * U]
    lo, hi = math.floor(q) * U, math.ceil(q) * U
    return [m for m in (lo, hi) if abs(m - abs(X)) <= U / 2]


def o_round(c, r):
    fn, (x, d) = c['fn'], c['args']
    if isinstance(d, bool) or not isinstance(d, int):
        return None          # a non-integral `digits` is not in the statement: correspondence only
    if abs(d) > 1100:
        return o_round_far(c, r)
    X = Fraction(x)
    U = Fraction(10) ** (-d)
    if is_err(r) and all(m > DBL_MAX for m in admitted(fn, X, U)):
        return None          # every admitted multiple is beyond the XL numbers: an error rather than a value
    if not is_num(r):
        return '%s(%r,%r) = %r is not a number' % (fn, x, d, r)
    R = snap(r, U)
    if R is None:
        return '%s(%r,%r) = %r is not a multiple of 10^%d' % (fn, x, d, r, -d)
    e = 0 if exact_input(x) else 2 * ulpf(x)
    if fn == 'ROUND':
        if abs(R - X) > U / 2 + e:
            return 'ROUND(%r,%r) = %r is more than half a unit (10^%d) away from the number' % (x, d, r, -d)
        return None
    if R != 0 and X != 0 and sgn(R) != sgn(X):
        return '%s(%r,%r) = %r has the wrong sign' % (fn, x, d, r)
    if fn == 'ROUNDUP':
        if not (abs(X) - e <= abs(R) and (abs(R) < abs(X) + U + e if e else abs(R) < abs(X) + U)):
            return 'ROUNDUP(%r,%r) = %r, expected the multiple m of 10^%d with |x| <= |m| < |x| + 10^%d' % (x, d, r, -d, -d)
    else:
        if not ((abs(X) - U - e < abs(R) if e else abs(X) - U < abs(R)) and abs(R) <= abs(X) + e):
            return 'ROUNDDOWN(%r,%r) = %r, expected the multiple m of 10^%d with |x| - 10^%d < |m| <= |x|' % (x, d, r, -d, -d)
    return None


def o_cf(c, r):
    fn, a = c['fn'], c['args']
    x = a[0]
    s = a[1] if len(a) > 1 else 1
    base = fn.split('.')[0]
    if s == 0:
        return None
    X, S = Fraction(x), Fraction(s)
    if base == 'FLOOR' and X > 0 and S < 0:
        return None if is_err(r, '#NUM!') else '%s(%r,%r) = %r, documented: #NUM!' % (fn, x, s, r)
    if base == 'CEILING' and X > 0 and S < 0 and is_err(r, '#NUM!'):
        return None
    if not is_num(r):
        return '%s(%r,%r) = %r is not a number' % (fn, x, s, r)
    R = snap(r, abs(S))
    if R is None:
        return '%s(%r,%r) = %r is not a multiple of the significance' % (fn, x, s, r)
    e = 0 if exact_input(x, s) else 2 * (ulpf(x) + ulpf(r))
    if not (abs(R - X) < abs(S) + e if e else abs(R - X) < abs(S)):
        return '%s(%r,%r) = %r is not adjacent to the number (a whole significance away)' % (fn, x, s, r)
    if base == 'CEILING':
        up = (X >= 0) or S > 0
    else:
        up = (X < 0 and S < 0)
    if up and R < X - e:
        return '%s(%r,%r) = %r lies below the number; documented side: above' % (fn, x, s, r)
    if not up and R > X + e:
        return '%s(%r,%r) = %r lies above the number; documented side: below' % (fn, x, s, r)
    return None


def o_unary(c, r):
    fn, (x,) = c['fn'], c['args']
    X = Fraction(x)
    if not (isinstance(r, int) and not isinstance(r, bool)):
        return '%s(%r) = %r is not an integer' % (fn, x, r)
    if fn == 'INT':
        if r != math.floor(X):
            return 'INT(%r) = %r, floor is %r' % (x, r, math.floor(X))
    elif fn == 'SIGN':
        if r != sgn(X):
            return 'SIGN(%r) = %r' % (x, r)
    elif fn in ('EVEN', 'ODD'):
        par = 0 if fn == 'EVEN' else 1
        if r % 2 != par:
            return '%s(%r) = %r has the wrong parity' % (fn, x, r)
        if not (abs(X) <= abs(r) < abs(X) + 2):
            return '%s(%r) = %r is not the nearest such integer at or beyond the number' % (fn, x, r)
        if X != 0 and sgn(r) != sgn(X):
            return '%s(%r) = %r has the wrong sign' % (fn, x, r)
        if X == 0 and r != par:
            return '%s(0) = %r, expected %d' % (fn, r, par)
    return None


def o_div(c, r):
    fn, (n, d) = c['fn'], c['args']
    N, D = Fraction(n), Fraction(d)
    if D == 0:
        return None if is_err(r) else '%s(%r,0) = %r, a zero divisor must give an error' % (fn, n, r)
    exact = exact_input(n, d)
    if fn == 'QUOTIENT':
        q = N / D
        want = math.floor(q) if q >= 0 else math.ceil(q)
        if isinstance(r, int) and not isinstance(r, bool):
            if r == want:
                return None
            if not exact and near_integer(q) and r == round(q):
                return None
        return 'QUOTIENT(%r,%r) = %r, truncated quotient is %r' % (n, d, r, want)
    if not is_num(r):
        return 'MOD(%r,%r) = %r is not a number' % (n, d, r)
    R = Fraction(r)
    if R != 0 and sgn(R) != sgn(D):
        return 'MOD(%r,%r) = %r does not have the sign of the divisor' % (n, d, r)
    tol = 0 if exact else 4 * (ulpf(n) + ulpf(d))
    if not (abs(R) < abs(D) or (tol and abs(R) <= abs(D))):
        return 'MOD(%r,%r) = %r is not smaller than the divisor in magnitude' % (n, d, r)
    q = (N - R) / D
    if abs(q - round(q)) * abs(D) > tol:
        return 'MOD(%r,%r) = %r: number - MOD is not an integer multiple of the divisor' % (n, d, r)
    return None


def _dfact(n):
    want = 1
    while n > 1:
        want *= n
        n -= 2
    return want


def _range_end(f):
    """the first n from which on f(n) is beyond the largest double (f(n) and f(n+1): both parities of n!!)"""
    n = 0
    while f(n) <= DBL_MAX or f(n + 1) <= DBL_MAX:
        n += 1
    return n


FACT_END = {'FACT': _range_end(math.factorial), 'FACTDOUBLE': _range_end(_dfact)}


def o_fact(c, r):
    fn, (x,) = c['fn'], c['args']
    if x < 0:
        return None if is_err(r) else '%s(%r) = %r, a negative argument must give an error' % (fn, x, r)
    if x >= FACT_END[fn]:
        if is_err(r):
            return None
        return '%s(%r) = %s, beyond the documented range (the result is no XL number from %d on) an error is expected' % (
            fn, x, repr(r)[:60], FACT_END[fn])
    n = int(x)
    if fn == 'FACT':
        want = math.factorial(n)
    else:
        want = 1
        k = n
        while k > 1:
            want *= k
            k -= 2
    if not (isinstance(r, int) and not isinstance(r, bool) and r == want):
        return '%s(%r) = %r, expected %d' % (fn, x, r, want)
    return None


SYM = {'I': 1, 'V': 5, 'X': 10, 'L': 50, 'C': 100, 'D': 500, 'M': 1000}


def denote(text):
    """additive/subtractive reading: a symbol placed before a larger one is subtracted"""
    total = 0
    for i, ch in enumerate(text):
        v = SYM.get(ch)
        if v is None:
            return None
        if i + 1 < len(text) and SYM.get(text[i + 1], 0) > v:
            total -= v
        else:
            total += v
    return total


def oracle(c, ans):
    k = c['kind']
    if k != 'formula' and (ans is HANG or (isinstance(ans, list) and any(a is HANG for a in ans))):
        return '%s: the call did not return within %d line events (every call must terminate)' % (describe(c), BUDGET)
    if k == 'round':
        return o_round(c, ans)
    if k == 'cf':
        return o_cf(c, ans)
    if k == 'unary':
        return o_unary(c, ans)
    if k == 'div':
        return o_div(c, ans)
    if k == 'fact':
        return o_fact(c, ans)
    if k == 'hexrt':
        n = c['n']
        t, back = ans
        if -H <= n < H:
            if not (isinstance(back, int) and not isinstance(back, bool) and back == n):
                return 'HEX2DEC(DEC2HEX(%d)) = %r (DEC2HEX gave %r)' % (n, back, t)
        elif not is_err(t):
            return 'DEC2HEX(%d) = %r, outside the 40-bit range an error is expected' % (n, t)
        return None
    if k == 'hexout':
        return None if is_err(ans) else '%s(%r) = %r, outside the 40-bit range an error is expected' % (c['fn'], c['args'][0], ans)
    if k == 'basert':
        n, r = c['n'], c['r']
        t, back = ans
        if not (isinstance(t, str) and t and all(ch in '0123456789ABCDEFGHIJKLMNOPQRSTUVWXYZ'[:r] for ch in t)):
            return 'BASE(%d,%d) = %r is not a digit string of radix %d with letter digits above 9' % (n, r, t, r)
        if not (isinstance(back, int) and not isinstance(back, bool) and back == n):
            return 'DECIMAL(BASE(%d,%d),%d) = %r (BASE gave %r)' % (n, r, r, back, t)
        return None
    if k == 'baseguard':
        return None if is_err(ans) else 'BASE(%r,%r) = %r, expected an error (radix outside 2..36 or negative number)' % (
            c['args'][0], c['args'][1], ans)
    if k == 'roman':
        n = c['n']
        for f in range(5):
            t = ans[f]
            if not isinstance(t, str) or denote(t) != n:
                return 'ROMAN(%d,%d) = %r does not denote %d' % (n, f, t, n)
        if not (isinstance(ans[5], int) and ans[5] == n):
            return 'ARABIC(ROMAN(%d)) = %r' % (n, ans[5])
        return None
    if k == 'complex':
        z, re, im = ans
        if not (isinstance(re, int) and re == c['a'] and isinstance(im, int) and im == c['b']):
            return 'IMREAL/IMAGINARY(COMPLEX(%d,%d)) = %r, %r' % (c['a'], c['b'], re, im)
        return None
    if k == 'formula':
        if isinstance(ans.get('error'), str) and ans['error'].startswith('does not return'):
            return '%s does not return within the budget' % c['f']
        if 'want' in c:
            w = c['want']
            if isinstance(w, dict):
                if ans['error'] is None:
                    return '%s = %r, an error is expected' % (c['f'], ans)
            elif ans['error'] is not None or ans['result'] != w or isinstance(ans['result'], bool):
                return '%s = %r, expected %r' % (c['f'], ans, w)
        return None
    return None       # misc / arabic / hex / base (BASE with places or float arguments, DECIMAL texts): correspondence only


def describe(c):
    fs = formulas_of(c)
    if fs:
        return fs[0]
    return '%s(%s)' % (c['fn'], ', '.join(repr(a) for a in c['args']))


def nontrivial(c, ans):
    k = c['kind']
    if k in ('misc',):
        return False
    if k == 'formula':
        return 'want' in c
    if ans is HANG:
        return True
    return True


# --------------------------------------------------------------------------- generators

def gen_number(rng):
    r = rng.random()
    if r < 0.18:
        v = rng.randrange(-30, 31)
    elif r < 0.30:
        v = rng.choice([1, -1]) * rng.randrange(1, 10 ** rng.randrange(2, 9))
    elif r < 0.40:
        v = rng.choice([1, -1]) * rng.randrange(1, 2000) * 10 ** rng.randrange(1, 7)
    elif r < 0.62:
        v = rng.choice([1, -1]) * rng.randrange(1, 1 << rng.randrange(2, 21)) / float(1 << rng.randrange(1, 11))
    elif r < 0.72:
        # exact ties for some digit count: (2k+1)/2 * 10^j as a dyadic number
        v = rng.choice([1, -1]) * (2 * rng.randrange(0, 500) + 1) * 10 ** rng.randrange(0, 5) / 2.0
        if rng.random() < 0.5:
            v = rng.choice([1, -1]) * (2 * rng.randrange(0, 50) + 1) / 8.0     # .125 .375 …: ties at 2 digits
    elif r < 0.90:
        v = rng.choice([1, -1]) * round(rng.uniform(0, 10 ** rng.randrange(0, 5)), rng.randrange(1, 5))
    elif r < 0.95:
        # a large number a hair away from a whole one (relative distance 1e-9 .. 1e-13): the fraction still counts
        n = rng.randrange(10 ** 3, 10 ** rng.randrange(4, 10))
        if rng.random() < 0.5:
            v = n + rng.choice([1, -1]) * 2.0 ** -rng.randrange(1, 13)          # exact in doubles
        else:
            v = n * (1 + rng.choice([1, -1]) * 10 ** -rng.uniform(9.1, 13))
        v = rng.choice([1, -1]) * v
    else:
        v = rng.choice([0, 0.0, 0.5, -0.5, 1.0, -1.0, 2.5, -2.5, 1e-7, -1e-7, 0.1, 0.7, 1000.1])
    return v


SIGS = [1, -1, 2, -2, 3, -3, 5, -5, 7, -7, 10, -10, 100, -100, 0.5, -0.5, 0.25, -0.25, 2.5, -2.5, 0.125, 1.5, -1.5,
        0.1, -0.1, 0.3, -0.3, 0.01, 1.1, -0.7]


def cases(rng, ctx):
    thorough = ctx['tier'] == 'thorough'
    sc = ctx['scale']
    out = []

    def add(kind, fn, *args, **kw):
        d = {'kind': kind, 'fn': fn, 'args': list(args)}
        d.update(kw)
        out.append(d)

    # ---- fixed cases (the statement's named behaviours and the repaired defects)
    for f, want in [('ROUND(2.5,0)', 2.0), ('ROUND(25,-1)', 20), ('ROUND(-1.25,1)', -1.2), ('ROUNDUP(3,0)', 3.0), ('ROUNDUP(-3.21,1)', -3.3),
                    ('ROUNDDOWN(-3.29,1)', -3.2), ('ROUNDUP(31415,-2)', 31500), ('CEILING(-5.5,2)', -4), ('CEILING(-5.5,-2)', -6),
                    ('FLOOR(-5.5,2)', -6), ('FLOOR(-5.5,-2)', -4), ('FLOOR(5.5,-2)', {'e': '#NUM!'}), ('CEILING(2.5)', 3), ('FLOOR(2.5)', 2),
                    ('CEILING.MATH(6.3,2)', 8), ('FLOOR.PRECISE(6.3,2)', 6), ('INT(-0.5)', -1), ('EVEN(-0.5)', -2), ('ODD(0)', 1),
                    ('EVEN(0)', 0), ('ODD(-2)', -3), ('QUOTIENT(-7,2)', -3), ('MOD(-7,3)', 2), ('MOD(7,-3)', -2), ('MOD(1,0)', {'e': '#DIV/0!'}),
                    ('QUOTIENT(1,0)', {'e': '#DIV/0!'}), ('SIGN(-0.5)', -1), ('FACT(5)', 120), ('FACT(0)', 1), ('FACTDOUBLE(7)', 105),
                    ('FACTDOUBLE(8)', 384), ('FACT(-1)', {'e': '#NUM!'}), ('FACTDOUBLE(-1)', {'e': '#NUM!'}), ('BASE(255,16)', 'FF'),
                    ('BASE(35,36)', 'Z'), ('BASE(0,2)', '0'), ('BASE(5,2,8)', '00000101'), ('DECIMAL("FF",16)', 255), ('DECIMAL("zz",36)', 1295),
                    ('DECIMAL(BASE(549755813887,36),36)', 549755813887), ('ROMAN(499,0)', 'CDXCIX'), ('ROMAN(499,4)', 'ID'),
                    ('ARABIC("MCMXCIV")', 1994), ('ARABIC("mcmxciv")', 1994), ('ARABIC(ROMAN(3999))', 3999), ('HEX2DEC("FF")', 255),
                    ('HEX2DEC("FFFFFFFFFF")', -1), ('DEC2HEX(-1)', 'FFFFFFFFFF'), ('DEC2HEX(255,4)', '00FF'),
                    ('HEX2DEC(DEC2HEX(-549755813888))', -549755813888), ('DEC2HEX(549755813888)', {'e': '#NUM!'}),
                    ('DEC2HEX(-549755813889)', {'e': '#NUM!'}), ('HEX2DEC("10000000000")', {'e': '#NUM!'}),
                    ('IMREAL(COMPLEX(3,-4))', 3), ('IMAGINARY(COMPLEX(3,-4))', -4), ('IMREAL("3+4i")', 3), ('IMAGINARY("3-4i")', -4),
                    ('DELTA(1,1)', 1), ('DELTA(1,2)', 0), ('ROUND("2.5",0)', 2.0), ('INT("5")', {'e': '#VALUE!'}),
                    ('ROUNDUP(300000,-5)', 300000), ('ROUNDUP(-700000,-5)', -700000), ('ROUNDDOWN(300000,-5)', 300000),
                    ('ROUNDUP(300000.5,-5)', 400000), ('ROUNDDOWN(12345678,-5)', 12300000), ('ROUNDUP(3,-5)', 100000)]:
        out.append({'kind': 'formula', 'f': f, 'want': want})
    for name, args in [('BASE', [5, 1]), ('BASE', [-5, 2]), ('BASE', [5, 0]), ('BASE', [5, -3]), ('BASE', [5, 37]), ('BASE', [0, 1]),
                       ('BASE', [5, 1.5]), ('BASE', [-0.5, 2]), ('BASE', [5, 1000])]:
        add('baseguard', name, *args)

    # ---- ROUND / ROUNDUP / ROUNDDOWN
    n = (12000 if thorough else 1500) * sc
    for fn in ('ROUND', 'ROUNDUP', 'ROUNDDOWN'):
        for _ in range(n):
            add('round', fn, gen_number(rng), rng.randrange(-6, 7))
        # every digit count on exact multiples and on ints next to them
        for d in range(-6, 7):
            for k in (1, 3, 7, 12, 600, 1999):
                if d <= 0:
                    m = k * 10 ** (-d)
                    for x in (m, -m, m + 1, m - 1, -m - 1):
                        add('round', fn, x, d)
                else:
                    add('round', fn, k / 8.0, d)
                    add('round', fn, -k / 8.0, d)

    # ---- CEILING / FLOOR
    n = (15000 if thorough else 2000) * sc
    for base in ('CEILING', 'FLOOR'):
        for _ in range(n):
            fn = base + rng.choice(['', '', '', '.MATH', '.PRECISE'])
            if rng.random() < 0.08:
                add('cf', fn, gen_number(rng))
            else:
                s = rng.choice(SIGS) if rng.random() < 0.8 else (gen_number(rng) if rng.random() < 0.9 else 0)
                add('cf', fn, gen_number(rng), s)

    # ---- INT EVEN ODD SIGN
    n = (6000 if thorough else 800) * sc
    for fn in ('INT', 'EVEN', 'ODD', 'SIGN'):
        for x in list(range(-6, 7)) + [0.0, 0.5, -0.5, 1.5, -1.5, 2.0, -2.0, 1e-9, -1e-9, 3.999, -3.999]:
            add('unary', fn, x)
        # Python ints beyond the doubles' 53 bits (ids, nanosecond time stamps): exact, never through a float
        for x in [2 ** 53 + 1, -(2 ** 53) - 1, 12345678901234567, -12345678901234567, 10 ** 20 + 1, -(10 ** 20) - 3, 10 ** 30 + 7, 2 ** 64 - 1,
                  rng.randrange(2 ** 53, 2 ** 63) | 1, -(rng.randrange(2 ** 53, 2 ** 63) | 1)]:
            add('unary', fn, x)
        for _ in range(n):
            add('unary', fn, gen_number(rng))

    # ---- QUOTIENT MOD
    n = (12000 if thorough else 1500) * sc
    for fn in ('QUOTIENT', 'MOD'):
        for a in (-7, -6, -1, 0, 1, 6, 7, 7.5, -7.5, 0.5):
            for b in (-3, -2, -1, 1, 2, 3, 0.5, -0.5, 2.5, 0, 0.0):
                add('div', fn, a, b)
        for _ in range(n):
            d = gen_number(rng) if rng.random() < 0.97 else 0
            add('div', fn, gen_number(rng), d)

    # ---- FACT FACTDOUBLE: the whole documented range, both range ends, huge arguments (an error at once)
    for fn in ('FACT', 'FACTDOUBLE'):
        for k in list(range(0, 176)) + (list(range(290, 307)) if fn == 'FACTDOUBLE' else []):
            add('fact', fn, k)
        for x in (-1, -0.5, -170, 0.5, 5.9, 3.0, 10.999, 1e-9, 169.5, 170.0, 170.5, 170.9, 170.99999999999997, 171.0, 171.5, 172.25,
                  299.5, 300.0, 300.5, 300.9, 300.99999999999994, 301.0, 301.5, 302.0, 1000, 10 ** 6, 10 ** 15, 10 ** 30, 1e15, 1e300,
                  1.5e308, 2 ** 1024, -10 ** 15, -1e300):
            add('fact', fn, x)
        for _ in range((400 if thorough else 40) * sc):
            add('fact', fn, rng.choice([rng.randrange(0, 400), rng.randrange(160, 180), rng.randrange(295, 305),
                                        rng.randrange(0, 3200) / 8.0, 10 ** rng.randrange(3, 40), float(10 ** rng.randrange(3, 300))]))
    for f, want in [('FACT(170.9)', math.factorial(170)), ('FACT(171)', {'e': '#NUM!'}), ('FACT(1000000000000000)', {'e': '#NUM!'}),
                    ('FACTDOUBLE(300)', FACT300), ('FACTDOUBLE(301)', {'e': '#NUM!'}), ('ROUND(7,-309)', 0), ('ROUNDDOWN(7,-309)', 0),
                    ('ROUNDUP(7,-1025)', {'e': '#NUM!'}), ('ROUNDUP(0,-1025)', 0), ('ROUNDUP(3,1075)', 3), ('ROUNDDOWN(2.5,1075)', 2.5),
                    ('ROUNDUP(7,-309)', 10 ** 309), ('ROUND(1' + '0' * 310 + ',-309)', 10 ** 310), ('ROUNDDOWN(1' + '0' * 310 + ',-309)', 10 ** 310),
                    ('ROUND(1' + '0' * 310 + ',-1031)', 0), ('ROUNDUP(1' + '0' * 310 + ',-1031)', {'e': '#NUM!'}),
                    ('ROUND(0,-1000000000000000)', 0), ('ROUNDUP(1,-1000000000000000)', {'e': '#NUM!'}),
                    ('ROUNDDOWN(1,1000000000000000)', 1)]:
        out.append({'kind': 'formula', 'f': f, 'want': want})

    # ---- ROUND / ROUNDUP / ROUNDDOWN at and beyond the shortcuts for far-away places (each call budgeted):
    #      digits > 1074 -> the number; -digits > max(1024, bit length of an int) -> 0 (ROUNDUP of a non-zero number: #NUM!)
    tiny = 2.0 ** -1022
    denorm = 5e-324
    far = [307, 308, 309, 310, 323, 324, 400, 1000, 1023, 1024, 1025, 1026, 1073, 1074, 1075, 1076, 1100, 1101, 5000, 10 ** 6,
           10 ** 15, 10 ** 30]
    nums = [0, 0.0, 1, -1, 3, -7, 12345, -300000, 10 ** 15, -(2 ** 53), 2.5, -2.5, 0.125, -0.375, 1234.5, -1234.0625, True]
    big = [10 ** 310, -10 ** 310, 2 ** 1024, 2 ** 1024 - 1, -(2 ** 1024), 2 ** 1030 - 1, 2 ** 1030, -(2 ** 1030), 10 ** 400,
           7 * 10 ** 330, 2 ** 2000]

    def ok_dir(fn, x, d):
        """is ROUNDUP / ROUNDDOWN(x, d) free of float overflow / underflow / digit loss in the code (see TRUSTED)?"""
        if d > 1074:
            return True
        size = abs(x).bit_length() if isinstance(x, int) else 0
        if -d > max(1024, size):
            return True
        if x == 0:
            return isinstance(x, int) or -308 <= d <= 308
        if isinstance(x, float):
            if not -308 <= d <= 308:
                return False      # 10**|digits| does not convert to a float: OverflowError
            if d > 22:
                # 10**d is not a double: the scaled value carries a rounding error of the size of the unit
                return abs(x) < 1e-290 and abs(x) * 10.0 ** d < 1e307
            if d >= 0:
                return Fraction(abs(x)) * 10 ** d == Fraction(abs(x) * float(10 ** d))
            return fn == 'ROUNDDOWN' or Fraction(abs(x)) / 10 ** (-d) >= Fraction(1, 2 ** 1000)    # abs(x) / 10**k must not underflow (ROUNDUP)
        if d >= 0:
            return abs(x) <= 2 ** 53
        q = Fraction(abs(x), 10 ** (-d))
        if q < Fraction(1, 2 ** 1000):
            return fn == 'ROUNDDOWN'      # abs(x) / 10**k underflows: harmless below (floor), 0 instead of one unit for ROUNDUP
        if q >= 2 ** 52:
            return False          # a float cannot hold the quotient's digits
        frac = abs(q - round(q))
        return frac == 0 or frac > Fraction(1, 1000)

    for fn in ('ROUND', 'ROUNDUP', 'ROUNDDOWN'):
        for d in far + [-v for v in far] + [-1030, -1031, -1032, -1033, -1329, -1330, -1331, -2001, -2002]:
            for x in nums + big + [tiny, -tiny, denorm]:
                if fn != 'ROUND' and not ok_dir(fn, x, d):
                    continue
                add('round', fn, x, d, guarded=True, nomodel=(fn == 'ROUND' and isinstance(x, float) and d > 2000))
        for _ in range((600 if thorough else 60) * sc):
            x = gen_number(rng) if rng.random() < 0.6 else rng.choice([1, -1]) * rng.randrange(0, 10 ** rng.randrange(1, 40))
            if rng.random() < 0.15:
                x = rng.choice([1, -1]) * rng.randrange(2 ** 1000, 2 ** rng.randrange(1001, 1100))
            d = rng.choice([1, -1]) * rng.choice([rng.randrange(300, 330), rng.randrange(1015, 1110), rng.randrange(330, 5000),
                                                  10 ** rng.randrange(4, 40)])
            if fn != 'ROUND' and not ok_dir(fn, x, d):
                d = rng.choice([1076 + rng.randrange(0, 5000), -(max(1024, abs(x).bit_length() if isinstance(x, int) else 0) + 1 + rng.randrange(0, 50))])
            add('round', fn, x, d, guarded=True, nomodel=(fn == 'ROUND' and isinstance(x, float) and d > 2000))
        # float `digits` beyond the shortcuts (correspondence only: they compare before the type of `digits` matters)
        for x in (0, 3, -2.5, 0.0):
            for d in (1074.5, 1075.0, -1024.5, -1025.0, 1e300, -1e300, 5000.25, -5000.25):
                add('misc', fn, x, d)

    # ---- HEX2DEC(DEC2HEX(n))
    bnd = set()
    for b in (H, -H, W, -W, 0):
        for dl in range(-3, 4):
            bnd.add(b + dl)
    bnd |= {1, -1, 15, 16, 255, 256, -255, -256, H - 1, -H, 10 ** 12, -10 ** 12}
    for x in sorted(bnd):
        out.append({'kind': 'hexrt', 'n': x})
    # numbers arriving as numeric TEXT (signed, padded): the integer they spell, as everywhere
    for f, want in [('DEC2HEX("-54")', 'FFFFFFFFCA'), ('HEX2DEC(DEC2HEX("-54"))', -54), ('HEX2DEC(DEC2HEX(" -1 "))', -1), ('DEC2HEX("+255")', 'FF'),
                    ('HEX2DEC(DEC2HEX("-549755813888"))', -549755813888), ('ROUND(1234.5,"-2")', 1200.0), ('ROUNDUP(1234.5,"-2")', 1300),
                    ('ROUNDDOWN("1234.5","-2")', 1200), ('BASE("255","16")', 'FF'), ('DECIMAL(BASE("255",16),"16")', 255),
                    ('ROMAN("499","0")', 'CDXCIX'), ('ARABIC(ROMAN("1994"))', 1994), ('QUOTIENT("-7","2")', -3), ('MOD("-7","3")', 2),
                    ('FACT("5")', 120), ('EVEN("-3")', -4), ('CEILING("-5.5","2")', -4), ('FLOOR("-5.5","-2")', -4)]:
        out.append({'kind': 'formula', 'f': f, 'want': want})
    for _ in range(40 * sc):
        x = -rng.randrange(1, H)
        out.append({'kind': 'formula', 'f': 'HEX2DEC(DEC2HEX("%d"))' % x, 'want': x})
    n = (1000000 if thorough else 100000) * sc
    for _ in range(n):
        out.append({'kind': 'hexrt', 'n': rng.randrange(-H, H)})
    for _ in range(300 * sc):
        out.append({'kind': 'hexrt', 'n': rng.choice([1, -1]) * rng.randrange(H, 1 << 44)})
    for t in ['10000000000', '10000000001', 'FFFFFFFFFFF', '-1', '-FF', '123456789ABC']:
        add('hexout', 'HEX2DEC', t)
    for x in (H, -H - 1, W, -W, 1 << 50, -(1 << 50)):
        add('hexout', 'DEC2HEX', x)
    for _ in range((3000 if thorough else 400) * sc):
        ln = rng.randrange(1, 12)
        t = ''.join(rng.choice('0123456789abcdefABCDEF') for _ in range(ln))
        add('hex', 'HEX2DEC', t)
    for t in ['', ' ff ', '0xff', '0XFF', 'f_f', 'ff_', '_ff', 'g', '+ff', '-0', '0x', 'f f', '\tff\n', '0b1', 'FFFFFFFFFF', '8000000000', '7FFFFFFFFF']:
        add('hex', 'HEX2DEC', t)
    for _ in range((2000 if thorough else 300) * sc):
        x = rng.randrange(-H, H) if rng.random() < 0.5 else rng.randrange(0, 1 << rng.randrange(1, 40))
        add('hex', 'DEC2HEX', x, rng.randrange(-1, 13))

    # ---- DECIMAL(BASE(n, r), r)
    per = (600 if thorough else 60) * sc
    for r in range(2, 37):
        ns = {0, 1, r - 1, r, r + 1, r * r, r * r - 1, H - 1, H - 2, r ** (int(math.log(H, r)) - 1)}
        while len(ns) < per + 10:
            ns.add(rng.randrange(0, 1 << rng.randrange(1, 40)))
        for x in sorted(ns):
            if 0 <= x < H:
                out.append({'kind': 'basert', 'n': x, 'r': r})
    for _ in range((2000 if thorough else 250) * sc):
        r = rng.choice([-10 ** 6, -36, -2, -1, 0, 1, 37, 38, 100, 10 ** 6, 1.5, 0.5, 36.5, 1.999])
        x = rng.randrange(0, 10 ** 6) if rng.random() < 0.7 else -rng.randrange(1, 10 ** 6)
        add('baseguard', 'BASE', x, r)
    for _ in range((1000 if thorough else 150) * sc):
        add('baseguard', 'BASE', -rng.randrange(1, 10 ** 9), rng.randrange(2, 37))
    for _ in range((1500 if thorough else 200) * sc):
        # correspondence only: places, float arguments
        r = rng.randrange(2, 37)
        x = rng.randrange(0, 1 << rng.randrange(1, 40))
        q = rng.random()
        if q < 0.5:
            add('base', 'BASE', x, r, rng.randrange(-1, 45))
        elif q < 0.7:
            add('base', 'BASE', x + rng.choice([0.0, 0.5, 0.25]), r)
        elif q < 0.8:
            add('base', 'BASE', x, float(r))
        elif q < 0.9:
            add('base', 'BASE', x % 1000, r + 0.5 if r < 36 else r)
        else:
            add('base', 'BASE', x, r, float(rng.randrange(0, 45)))
    for _ in range((1500 if thorough else 200) * sc):
        r = rng.randrange(2, 37)
        ln = rng.randrange(1, 9)
        t = ''.join(rng.choice('0123456789abcdefghijklmnopqrstuvwxyzABCDEFGHIJKLMNOPQRSTUVWXYZ'[:r + (rng.random() < 0.1)]) for _ in range(ln))
        add('base', 'DECIMAL', t, r)
    for t, r in [('101', 0), ('0x1F', 0), ('0b101', 2), ('0o17', 8), ('0X1f', 16), ('010', 0), ('00', 0), ('101', 1), ('101', 37),
                 ('101', -2), ('', 2), (' 101 ', 2), ('-101', 2), ('+101', 2), ('1_0', 2), ('1__0', 2), ('_10', 2), ('10_', 2),
                 (101, 2), (102, 2), (True, 36), (None, 36), ('8000000000', 16), ('7FFFFFFFFF', 16), ('FFFFFFFFFF', 16), ('101', 2.0),
                 ('101', '2'), ('101', 'x'), ('0b', 2), ('0x_1', 16), ('z', 36), ('Z', 35)]:
        add('base', 'DECIMAL', t, r)

    # ---- ROMAN / ARABIC: complete
    for x in range(1, 4000):
        out.append({'kind': 'roman', 'n': x})
    # ... and the same whole numbers arriving as floats (the result of a division, of ROUND, a host float)
    for x in sorted(set(list(range(1, 4000, 37)) + [1, 4, 9, 49, 499, 1994, 3888, 3999] + [rng.randrange(1, 4000) for _ in range(60 * sc)])):
        out.append({'kind': 'roman', 'n': x, 'fl': True})
    for _ in range((4000 if thorough else 500) * sc):
        q = rng.random()
        if q < 0.5:
            t = classic_roman(rng.randrange(1, 4000))
            if rng.random() < 0.5:
                i = rng.randrange(0, len(t) + 1)
                t = t[:i] + rng.choice('MDCLXVI') + t[i:]
        else:
            t = ''.join(rng.choice('MDCLXVI') for _ in range(rng.randrange(0, 7)))
        if rng.random() < 0.15:
            t = t.lower()
        add('arabic', 'ARABIC', t)
    for t in ['', 'MMMM', 'MMMMM', 'IIII', 'VV', 'IC', 'XM', 'XIV\n', 'XIV\n\n', ' XIV', 'xiv', 'A', 14, True, None, 'MMMMCMXCIX', 'CMCM', 'DD', 'IVI', 'IXI',
              'XCX', 'XLX', 'CDC', 'LXL', 'VIV', 'DCD', 'CMD', 'XCL', 'IXV']:
        add('arabic', 'ARABIC', t)
    for x, f in [(0, 0), (4000, 0), (-1, 0), (5, 5), (5, -1), (499, True), (499, False), (499.5, 0), (0.5, 0), (499, 1.0), (499, 1.5), (999, 0.5),
                 ('499', 0), (499, '2'), ('x', 0), (True, 0), (None, 0), (3999.5, 4), (1e-3, 2)]:
        add('misc', 'ROMAN', x, f)
    for x in (1, 4, 9, 499, 1999, 3999):
        add('misc', 'ROMAN', x)

    # ---- COMPLEX
    for a in (0, 1, -1, 3, -4, 10 ** 6, -10 ** 6, (1 << 53) - 1, -(1 << 53) + 1):
        for b in (0, 1, -1, 7, -12345, (1 << 53) - 1):
            out.append({'kind': 'complex', 'a': a, 'b': b})
    for _ in range((3000 if thorough else 400) * sc):
        m = 10 ** rng.randrange(1, 15)
        out.append({'kind': 'complex', 'a': rng.randrange(-m, m), 'b': rng.randrange(-m, m)})
    for t in ['3+4i', '3-4i', '-3-4i', 'i', '-i', '+i', '3', '-3', '4i', '-4i', '3+i', '3-i', '1.5+2.5i', ' 3 + 4i ', '3+4j', '3+4J', '3+4I',
              '', 'x', '3+4', '3++4i', '1-2-3i', '.5i', '5.i', '3.7-4.9i', 'ii', '3i4', '+', '-']:
        add('misc', 'IMREAL', t)
        add('misc', 'IMAGINARY', t)
    for v in (None, 5, 1.5, True, {'e': '#N/A'}):
        add('misc', 'IMREAL', v)
        add('misc', 'IMAGINARY', v)
    for a, b in [(1.5, 2), ('3', '4'), ('x', 1), (1, None), ({'e': '#N/A'}, 1), (True, False)]:
        add('misc', 'COMPLEX', a, b, nomodel=False)
    for a, b in [(1, 1), (1, 1.0), (1, 2), ('1', 1), (1.5, 1.5), (0, 0.0), ('x', 1), (None, 0), (True, 1), ({'e': '#DIV/0!'}, 1), (0.1, 0.1)]:
        add('misc', 'DELTA', a, b)

    # ---- argument coercion of every function (correspondence only)
    odd_args = ['12', '1.5', ' 7 ', '-3', 'abc', '', True, False, None, {'e': '#N/A'}, {'e': '#DIV/0!'}, '1_0', '0x10', '+4', '2.']
    for fn in ('ROUND', 'ROUNDUP', 'ROUNDDOWN', 'CEILING', 'FLOOR', 'QUOTIENT', 'MOD', 'BASE', 'DELTA', 'COMPLEX'):
        for a in odd_args:
            add('misc', fn, a, 2)
            add('misc', fn, 17, a)
        add('misc', fn)
        add('misc', fn, 1, 2, 3, 4)
    for fn in ('INT', 'EVEN', 'ODD', 'SIGN', 'FACT', 'FACTDOUBLE', 'DEC2HEX', 'HEX2DEC', 'ARABIC', 'IMREAL', 'IMAGINARY', 'CEILING', 'FLOOR', 'ROMAN'):
        for a in odd_args:
            add('misc', fn, a)
        add('misc', fn)
        add('misc', fn, 1, 2, 3)
    for fn in ('ROUND', 'ROUNDUP', 'ROUNDDOWN'):
        for d in (2.0, -1.0, 0.0, 1.5, True):
            add('misc', fn, 1234.5678, d, nomodel=(d == 1.5 and fn == 'ROUND' and False))
            add('misc', fn, 1234, d)
    for a, b in [(255, 2.0), (255, 1.5), (255, '4'), (255, {'e': '#N/A'}), (-1, 4), (255, True), (1.5, 4), (-1.5, 2), (255, 1)]:
        add('misc', 'DEC2HEX', a, b)
    for a, b, pl in [(255, 16, '4'), (255, 16, 'x'), (255, 16, None), (255, 16, True), (255, 1, -1), (0, 2, 8), (0, 2, -1), (255, 16, 1), (255, 16, 2.5)]:
        add('misc', 'BASE', a, b, pl)
    # route cell: the same calls with their arguments as values of cells answered by the host's listener - every thirteenth
    # rounding / ceiling / unary / division case, and every second one with a zero or FALSE among its arguments
    routed = []
    for i, c in enumerate(out):
        if c['kind'] in ('round', 'cf', 'unary', 'div') and 1 <= len(c.get('args', [])) <= 4 and not c.get('guarded'):
            zero = any(isinstance(a, (int, float)) and a == 0 for a in c['args'])
            if i % 13 == 0 or (zero and i % 2 == 0):
                routed.append(dict(c, via='cell'))
    return out + routed


FACT300 = _dfact(300)


def classic_roman(n):
    out = ''
    for v, t in [(1000, 'M'), (900, 'CM'), (500, 'D'), (400, 'CD'), (100, 'C'), (90, 'XC'), (50, 'L'), (40, 'XL'), (10, 'X'),
                 (9, 'IX'), (5, 'V'), (4, 'IV'), (1, 'I')]:
        while n >= v:
            out += t
            n -= v
    return out


def search(rng, ctx, disagreements):
    c2 = dict(ctx)
    c2['scale'] = 4
    return [c for c in cases(rng, c2) if c['kind'] not in ('hexrt', 'roman')]


def shrink(case, msg):
    return case, msg
