# -*- coding: utf-8 -*-
"""C14 - date and time functions agree with the proleptic Gregorian calendar

Reference calendar of the oracle: Python's `datetime.date` (toordinal / fromordinal / weekday) and
`calendar.monthrange` - never the Lean model, never hotxlfp's own helpers.

Case kinds (see RULE for pools and counts):
  ymd, hms, iso, serial, shorty, pair, wtype, edate   model comparison + oracle; a seeded sample of them is repeated with a
                                                       'tz' key = the process time zone during the implementation call (TZS)
                                                       (an iso case with an 'off' key - the text carries a UTC offset -,
                                                       with a 'frac' key - a fraction of a second is written after the
                                                       seconds - or with a 'us' key - the argument is a host datetime
                                                       carrying that many microseconds, not text - is oracle only:
                                                       request -> None; so is a serial case with a 'text' key - the
                                                       serial is handed over as numeric text, str(s))
  misc, formula                                        model comparison only (type juggling, wrong arity, end-to-end formulas)
  sw_dates, sw_serial, sw_pairs, sw_edate              sharded direct-call sweeps, oracle only (request -> None)
  sw_model (thorough)                                  the Lean model's calendar against datetime on every day 1900..9999
"""
import calendar
import datetime
import json
import os

from .. import common, fx

ID = 'C14'
LEAN_MODULES = ['HotXL.Props.C14']
_DT = 'hotxlfp.formulas.dateandtime:'
FUNCTIONS = [_DT + n for n in ('DATE', 'TIME', 'DATEVALUE', 'TIMEVALUE', 'YEAR', 'MONTH', 'DAY', 'HOUR', 'MINUTE', 'SECOND',
                               'DAYS', 'DATEDIF', 'EDATE', 'WEEKDAY')] + \
            ['hotxlfp.formulas.utils:parse_date', 'hotxlfp.formulas.utils:serialize_date', 'hotxlfp.formulas.utils:parse_number',
             'hotxlfp.formulas.utils:any_is_error', 'hotxlfp.formulas.utils:epoch_seconds', 'hotxlfp.helper.number:to_number']
RULE = ('quick ~32 800 cases (~118 900 at scale 5), thorough ~322 000; counts below: quick, thorough in brackets; seeded '
        'counts x scale (5 in quick when a modelled function changed or the Lean build broke); duplicates dropped. every case '
        'but the sw_* shards, the iso cases with a UTC offset, a fraction of a second or microseconds and the serial cases with key text is compared with the Lean model (ints, text, errors exact; floats within 4 ulp or 1e-9 relative; '
        'date-times within 2 us + 2^-49 relative; a model answer `(o ..)` = no opinion, not compared); (a)-(h) and the sweeps '
        'are also judged by the oracle (datetime, exact ints). seeded date = uniform day of 1900-01-01..9999-12-31. (a) ymd: '
        'YEAR/MONTH/DAY/WEEKDAY(type absent,1,2,3) of DATE(y,m,d) on every day of 1900, 1904, 2000, 2100, 2400, 9999; the '
        'first and last day of every month of the 81 century years, 1901, 1903, 1904, 1996, 2096, 2104, 9996, 9999 and 150 '
        '(1500) seeded years; 1500 (20000) seeded dates; every 11th of these as one array formula through Parser.parse with '
        'variables, the rest as direct calls of the builtins (a raised exception = the error value); 16 fixed triples: 14 '
        'invalid or outside 1900..9999 (29 Feb of common years, 30 Feb, 31 Apr, month 13/0/-1, day 0/32, years '
        '10000/-1899/-1900: model only) and the valid 8099-12-31, 8100-01-01. (b) hms: HOUR/MINUTE/SECOND of TIME(h,m,s): '
        'thorough all 86 400 triples, quick a lattice (all hours x {0,1,29,30,58,59}^2 = 864) + 600 seeded; 5 out-of-range '
        'triples (hour 24, -1, minute 60, second 60) model only. (c) iso: the six components read from ISO text of the 23 '
        'SPECIAL_DATES + 500 (6000) seeded dates, five forms in turn: YYYY-MM-DD alone, with T or a blank + HH:MM:SS, with T '
        'or a blank + HH:MM (absent parts must read 0); seeded time of day, every 7th from {00:00:00, 23:59:59, 12:00:00, '
        '00:00:01}; every second one of the T forms (T + HH:MM:SS, T + HH:MM) with a year in 1901..9998 is given once more with '
        'a UTC offset appended to the text (key off: one of Z, +00:00, +05:00, -05:00, +09:30, -11:00, +14:00, -00:30; about 100 '
        '(1200) cases), oracle only: the six components read must be the ones written (a time of day in its own zone, no shift '
        'to UTC or to the local zone) and WEEKDAY of the text under the types 1, 2, 3 that of the written date; every third date whose form is one of the two '
        'with seconds (T or a blank + HH:MM:SS; 2 of every 15 dates) and whose year is in 1901..9998 is given once more with a '
        'fraction of a second, seeded from .5 .750 .600 .999 .999999 .499 .001 .500000, half of the time written after the '
        'seconds of the text (key frac; before the offset, which these cases do not have), else as a datetime object with that many '
        'microseconds handed to the six functions instead of text (key us); about 70 (810) cases, oracle only: the six '
        'components must be the ones written - the second is not rounded up, 23:59:59.999999 stays second 59 of the same day. (d) serial: YEAR/MONTH/DAY of whole-day serials 61..2958465 = ymd of 1899-12-30 + serial days: 15 fixed '
        '(61..63, 366/367, 1 Jan, 29 Feb, 1 Mar 2000, 1 Jan, 28 Feb, 1 Mar 2100, 2958100/01, 2958464/65), the month ends of '
        '1900, 2000, 2100, 9999 and 40 (400) seeded years, 1200 (20000) seeded; key text (oracle only, request -> None): the same three '
        'functions called directly on the serial as numeric TEXT str(s) - what a cell or variable holding "2020" hands over -: 17 fixed '
        '(61, 62, 366, 367, 1000, 1900, 1999, 2000, 2020, 2024, 9999, 10000, 36526, 251231, 991231, 100101, 2958465: 1..4 digits look '
        'like a year, 6 like yymmdd) + 40 x scale seeded in 61..9999 + 40 x scale seeded in 61..2958465 (both tiers; 97 at scale 1 before duplicates are dropped): '
        'YEAR/MONTH/DAY must be the ymd of 1899-12-30 + s days, exact ints, as for the number. (e) shorty: DATE(y,m,d) for 0 <= y < 1900 = '
        'DATE(1900+y,m,d) = datetime(1900+y,m,d): y in {0, 1, 99, 100, 119, 120, 500, 1000, 1898, 1899} x {1 Jan, 28 Feb, 29 '
        'Feb, 1 Mar, 31 Dec} (29 Feb of a common year: model only) + 300 (3000) seeded valid ones. (f) pair: DAYS(b,a) and '
        'DATEDIF(a,b) d/m/y/ym (md, yd model-compared only) on 2500 (30000) seeded pairs of whole dates in either order (30 % '
        'independent, 30 % within +-800 days, 40 % borrow neighbourhood: year +-3, any month, day of month +-1); per boundary '
        '(1 Jan of the 81 century years, 9999-12-31) 6 (60) seeded pairs within +-400 days; all pairs within +-3 days of a '
        'boundary (thorough every boundary; quick 1900, 2000, 9999-12-31, each other one with probability 0.08); all 23x23 '
        'pairs of SPECIAL_DATES. (g) wtype: WEEKDAY(date, t) on SPECIAL_DATES + 30 (200) seeded dates x 19 types: 1, 2, 3, '
        '1.0, 2.0, 3.0 (true weekday), 0, 4, 11, 17, -1, 1.5, 2.5 (#NUM!), "1", "", "x", blank, TRUE, FALSE (model only). (h) '
        'edate: SPECIAL_DATES (month ends, 29 Feb, 1900-01-01, 9999-12-31, ..), the last day of Jan, Feb, Mar, Dec of 1900, '
        '2000, 2023, 2024, 9999 and 150 (1500) seeded dates, each x offsets 0, +-1, +-11, +-12, +-13, 24, +-119999, +-120000, '
        'those landing on 1899-12, 1900-01, 1900-02, 9999-11, 9999-12, 10000-01, 6 seeded in +-120000, 6 in +-40, 8 landing '
        'inside 1900-01..9999-12; offsets outside -120000..120000 are dropped. (i) misc, compared with the model only: direct '
        'calls with juggled types - YEAR..SECOND, DATEVALUE, TIMEVALUE, WEEKDAY on 52 values (13 date-times incl. year 1, '
        '1899-12-31, times of day, microseconds; blank, logicals, serials below 61, fractions, negatives, 2958465/66, 1e12, '
        'numeric / ISO / impossible-date text, 3 errors, lists) and with 0 and 3 arguments; DATE and TIME on 500 (4000) seeded '
        'triples from a pool of 30 (numbers, logicals, blank, text, floats, error, list, date-time; TIME also 23, 24, 59, 60) '
        'and with 2 and 4 arguments; DATEDIF (20 units: the six in lower / upper / mixed case, wrong text, non-text) and DAYS '
        'on 700 (6000) seeded pairs from a pool of 22 and on all 13x13 date-time pairs (d, md, yd, YM); DATEDIF md / yd on 600 '
        '(6000) seeded whole-date pairs; EDATE on 22 starts (blank = default-date branch) x 28 month values, blank start x '
        'offsets -40..40 and 60 (300, not scaled) seeded, wrong arity; WEEKDAY on the 52 values x 8 types. (j) formula: 49 '
        'fixed + 150 (1500) seeded formulas from 10 templates (components of DATE, WEEKDAY, EDATE, DAY(EDATE), DATEDIF '
        'd/m/y/ym, DAYS, YEAR of ISO text, DAY of a serial) end-to-end through Parser.parse, result or error vs the model '
        'evaluator. (k) time zones: 400 (3000) seeded cases of (a)-(h) are run a second time while the process sits in one of '
        '4 POSIX zones (TZ + time.tzset around the implementation call, restored afterwards): CET-1CEST and EST5EDT with '
        'daylight saving, XYZ-9 and NPT-5:45 fixed; same model answer and same oracle (naive date-times must not be read in '
        'the local zone). (l) sweeps: direct calls, oracle only, one case per shard (it reports the number of failing inputs '
        'and the first 5); all shards of a run are computed at the first one, in up to 8 forked processes. sw_dates = (a) with '
        'results of exact type int: thorough ALL 2 958 464 dates 1900..9999 (81 shards); quick the month ends of all years '
        '1900..9999 (6 shards) and every day of the decades 1900s, 2000s, 2100s, 9990s + 60 seeded ones. sw_serial = (d): '
        'thorough every serial 61..2958465 (30 shards), quick every 97th (30 500). sw_pairs = DAYS and DATEDIF d/m/y/ym on ALL '
        'ordered pairs within +-w days of a boundary: thorough w=400 at all 82 boundaries, quick w=25 at 1900, 2000, 2100, '
        '2400, 9999-12-31. sw_edate = seeded (date, offset) pairs, thorough 16 x 60000, quick 4 x 15000 (30 % of the dates in '
        'the last 4 days of a month; offsets 50 % in +-120000, 30 % landing between 14 months before 1900-01 and 14 months '
        'after 9999-12, 20 % in +-30). sw_model (thorough, 27 shards, own driver batch): the MODEL\'s YEAR, MONTH, DAY (at the '
        'last microsecond of the day) and WEEKDAY type 3 against datetime on every day 1900..9999; a mismatch is a model '
        'disagreement. search (a proof or the correspondence broke, no failing input yet): the quick generator again at scale '
        '4 without misc / formula, oracle only, stops at the first failure. no time or step budget; shrink is the identity. '
        'Non-trivial = ymd / shorty with a valid date in range, hms in range, wtype with a numeric type, misc answered by a '
        'number or date-time, formula without error; every iso, serial, pair, edate case counts; a sweep shard counts as one '
        'case (no weight).')
TRUSTED = ['Python\'s datetime.date / calendar.monthrange as the reference proleptic Gregorian calendar of the oracle (the '
           'Lean transcription of _ymd2ord/_ord2ymd is proved lawful for all years and compared with datetime on every day '
           '1900..9999 by sw_model in the thorough tier)',
           'dateutil.parser.parse on text other than ISO-8601 YYYY-MM-DD[(T| )HH:MM[:SS]] is library behaviour (not modelled); '
           'that includes the same text followed by a UTC offset (Z, +hh:mm, -hh:mm) or with a fraction written after the seconds '
           '(.5 .. .999999): those iso cases, and the ones that hand over a datetime with microseconds, are judged by the oracle only '
           '(the model is not asked: request -> None)',
           'numeric text as a serial (serial cases with key text): how YEAR / MONTH / DAY read a digit string - as a number, or '
           'through dateutil as a year or a yymmdd date - is library behaviour and not modelled; these cases are judged by the oracle '
           'only (request -> None), by direct calls through call()',
           'float arithmetic of serialize_date / epoch_seconds on date-times with a non-dyadic time of day (model: exact '
           'rationals): the model comparison accepts floats within 4 ulp or 1e-9 relative and date-times within 2 microseconds '
           '+ 2^-49 of the microsecond count since 1900-01-01; the oracle compares exactly',
           'DATEDIF units d / yd truncate a FLOAT difference of serials: for date-times exactly n days apart with a non-dyadic '
           'time of day the float difference can be n - 1e-11 and the implementation returns n - 1 (the model, exact '
           'rationals, returns n); such inputs are outside the statement (whole dates) and are not generated',
           'TODAY / NOW read the clock: parameters, not modelled',
           'direct calls go through call(): an exception raised by a builtin becomes the error value via error.from_message, '
           'as in Parser.call_function; only every 11th ymd case and the formula cases pass through Parser.parse itself',
           'the process time zone is switched with os.environ[\'TZ\'] + time.tzset() (POSIX zone strings honoured by the C '
           'library) and restored after each call; sweeps and model answers are not produced under another zone',
           'sweeps run in forked worker processes (multiprocessing, at most 8) and are cached per shard; a crash of a shard is '
           'raised as a harness error, not a verdict; misc and formula cases have no oracle, the Lean model is their only judge']
ASSUMPTIONS = ['"calendar difference in days" (DAYS, DATEDIF unit d) is read on dates from 1 March 1900 on (both operands): '
               'dates before 1 March 1900 follow Excel\'s 1900 system with its phantom 29 Feb and hotxlfp\'s 1900-01-01 -> 0; '
               'property C13 governs them (there DAYS/DATEDIF d are compared with the model only); units m, y, ym are '
               'component-based and judged everywhere',
               'DAYS(end, start) is the signed calendar difference; "#NUM! when the start is later than the end" is read for '
               'DATEDIF (the code of DAYS has no such check), for all four units d, m, y, ym and also before 1 March 1900',
               'whole-day dates only in the oracle for DAYS/DATEDIF (date-times with a time of day are compared with the model '
               'only)',
               'whole months = 12 * year difference + month difference, less 1 when the end\'s day of month is smaller than '
               'the start\'s; whole years less 1 when the end\'s (month, day) is smaller; ym = whole months mod 12',
               'ISO text means zero-padded YYYY-MM-DD optionally followed by T or a blank and HH:MM[:SS]; absent time parts '
               'read 0; a UTC offset after the time (Z, +hh:mm, -hh:mm) does not move the reading: year .. second are the ones '
               'written and WEEKDAY is the weekday of the written date; a fraction of a second - written after the seconds of the '
               'text or carried as microseconds by a date-time the host hands over - is dropped, not rounded: SECOND is the '
               'written second and no component carries over',
               'DATEDIF units md, yd and EDATE\'s default-date branch (blank start date) are outside the statement: model '
               'comparison only',
               'DATEDIF of two equal dates is 0 (d, m, y, ym all agree with that)',
               'components, weekdays and DATEDIF results must be Python ints (no bool, no float); DAYS may be an int or a '
               'float equal to the day count; DATE (years 0..1899) and EDATE results must be date-times at midnight',
               'WEEKDAY without a type = type 1 (Sunday 1 .. Saturday 7), 2 = Monday 1 .. Sunday 7, 3 = Monday 0 .. Sunday 6; '
               'floats 1.0, 2.0, 3.0 count as 1, 2, 3; every other number (0, 4, 11, 17, -1, 1.5, 2.5; Excel\'s types 11..17 '
               'included) must give #NUM!; text, blank and logical types are not judged',
               'a whole-day serial s in 61..2958465 means 1899-12-30 + s days (serials below 61 belong to C13: model '
               'comparison only); the same serial arriving as numeric text (the digits of s, no sign, no blanks, no fraction) '
               'means the same day: a digit string is a number to the date functions, never a year or a date written without '
               'separators',
               'EDATE: start a whole date 1900..9999, offset a whole number in -120000..120000; #NUM! exactly when the target '
               'YEAR is outside 1900..9999, else the target month with the day clamped to its length',
               'DATE with 0 <= y < 1900 is judged only where (1900+y, m, d) is a valid date; invalid (y,m,d), years outside '
               '0..9999 and h, m, s outside 0..23 / 0..59 / 0..59 are outside the statement: model comparison only',
               'the answers do not depend on the time zone of the process (same oracle under the 4 zones of TZS)']
EXHAUSTIVE = {'quick': False, 'thorough': False}

D = datetime.datetime
MIN_ORD = datetime.date(1900, 1, 1).toordinal()
MAX_ORD = datetime.date(9999, 12, 31).toordinal()
BASE_ORD = datetime.date(1899, 12, 30).toordinal()
MARCH_1900 = datetime.date(1900, 3, 1)
FULL_YEARS = [1900, 1904, 2000, 2100, 2400, 9999]

F_YMD = '{YEAR(DATE(yy,mm,dd)),MONTH(DATE(yy,mm,dd)),DAY(DATE(yy,mm,dd)),WEEKDAY(DATE(yy,mm,dd)),WEEKDAY(DATE(yy,mm,dd),1),WEEKDAY(DATE(yy,mm,dd),2),WEEKDAY(DATE(yy,mm,dd),3)}'
F_HMS = '{HOUR(TIME(hh,mm,ss)),MINUTE(TIME(hh,mm,ss)),SECOND(TIME(hh,mm,ss))}'
F_ISO = '{YEAR(tx),MONTH(tx),DAY(tx),HOUR(tx),MINUTE(tx),SECOND(tx)}'
F_SER = '{YEAR(sn),MONTH(sn),DAY(sn)}'
F_PAIR = '{DAYS(b,a),DATEDIF(a,b,"d"),DATEDIF(a,b,"m"),DATEDIF(a,b,"y"),DATEDIF(a,b,"ym"),DATEDIF(a,b,"md"),DATEDIF(a,b,"yd")}'


# ----------------------------------------------------------------------------- the implementation

_mods = {}


def _m():
    if not _mods:
        common.load_repo()
        import hotxlfp
        from hotxlfp.formulas import dateandtime, error
        _mods['dt'] = dateandtime
        _mods['error'] = error
        _mods['hotxlfp'] = hotxlfp
        _mods['parser'] = hotxlfp.Parser()
    return _mods


def call(name, *args):
    """a builtin called the way Parser.call_function calls it: a raised exception is the error value"""
    m = _m()
    try:
        return getattr(m['dt'], name)(*args)
    except Exception as e:        # noqa
        return m['error'].from_message(e)


def is_err(v, code=None):
    e = _m()['error']
    return isinstance(v, e.XLError) and (code is None or str(v) == code)


def enc(v):
    e = _m()['error']
    if isinstance(v, datetime.datetime):
        return {'dt': [v.year, v.month, v.day, v.hour, v.minute, v.second, v.microsecond]}
    if isinstance(v, e.XLError):
        return {'err': str(v)}
    if isinstance(v, list):
        return [enc(x) for x in v]
    return v


def dec(x):
    if isinstance(x, dict):
        if 'dt' in x:
            return D(*x['dt'])
        return _m()['error'].from_message(x['err'])
    if isinstance(x, list):
        return [dec(y) for y in x]
    return x


def plain(v):
    """implementation answers made comparable / printable"""
    if isinstance(v, list):
        return [plain(x) for x in v]
    return v


# ----------------------------------------------------------------------------- reference (the statement)

def valid(y, m, d):
    return 1 <= m <= 12 and 1 <= d <= calendar.monthrange(y, m)[1]


def ref_wd(date, t):
    wd = date.weekday()          # Monday = 0
    if t == 3:
        return wd
    if t == 2:
        return wd + 1
    return (wd + 1) % 7 + 1      # Sunday = 1 .. Saturday = 7


def ref_pair(a, b):
    """(days, months, years, ym) for dates a <= b"""
    days = b.toordinal() - a.toordinal()
    months = 12 * (b.year - a.year) + (b.month - a.month) - (1 if b.day < a.day else 0)
    years = b.year - a.year - (1 if (b.month, b.day) < (a.month, a.day) else 0)
    return days, months, years, months % 12


def ref_edate(y, m, d, n):
    """None = #NUM!, else (y', m', d')"""
    y2, m0 = divmod(12 * y + (m - 1) + n, 12)
    m2 = m0 + 1
    if not 1900 <= y2 <= 9999:
        return None
    return (y2, m2, min(d, calendar.monthrange(y2, m2)[1]))


def same_int(v, k):
    return isinstance(v, int) and not isinstance(v, bool) and v == k


def same_num(v, k):
    return isinstance(v, (int, float)) and not isinstance(v, bool) and v == k


# ----------------------------------------------------------------------------- case generation

def _month_ends(y):
    out = []
    for m in range(1, 13):
        out.append((y, m, 1))
        out.append((y, m, calendar.monthrange(y, m)[1]))
    return out


def _rand_date(rng, lo=MIN_ORD, hi=MAX_ORD):
    d = datetime.date.fromordinal(rng.randint(lo, hi))
    return (d.year, d.month, d.day)


def _boundaries():
    return [datetime.date(y, 1, 1).toordinal() for y in range(1900, 10000, 100)] + [MAX_ORD]


SPECIAL_DATES = [(1900, 1, 1), (1900, 1, 2), (1900, 2, 28), (1900, 3, 1), (1900, 12, 31), (1904, 2, 29), (1999, 12, 31), (2000, 2, 29),
                 (2000, 3, 1), (2019, 1, 31), (2020, 1, 31), (2020, 2, 29), (2020, 3, 31), (2020, 12, 31), (2100, 2, 28), (2100, 3, 1),
                 (2400, 2, 29), (9999, 1, 31), (9999, 12, 1), (9999, 12, 31), (2023, 5, 30), (2023, 8, 31), (2024, 10, 31)]

_SWEEPS = []


def cases(rng, ctx):
    _m()
    thorough = ctx['tier'] == 'thorough'
    scale = ctx.get('scale', 1)
    out = []
    seen = set()

    def add(c):
        k = json.dumps(c, sort_keys=True)
        if k not in seen:
            seen.add(k)
            out.append(c)

    # (a) ymd
    for y in FULL_YEARS:
        for o in range(datetime.date(y, 1, 1).toordinal(), datetime.date(y, 12, 31).toordinal() + 1):
            dd = datetime.date.fromordinal(o)
            add({'kind': 'ymd', 'y': dd.year, 'm': dd.month, 'd': dd.day})
    years = set(range(1900, 10000, 100)) | {1901, 1903, 1904, 1996, 2096, 2104, 9996, 9999}
    years |= set(rng.sample(range(1900, 10000), (1500 if thorough else 150) * scale))
    for y in sorted(years):
        for (yy, mm, dd) in _month_ends(y):
            add({'kind': 'ymd', 'y': yy, 'm': mm, 'd': dd})
    for _ in range((20000 if thorough else 1500) * scale):
        y, m, d = _rand_date(rng)
        add({'kind': 'ymd', 'y': y, 'm': m, 'd': d})
    for i, c in enumerate(out):
        if i % 11 == 0:
            c['via'] = 'parse'
    # invalid calendar dates and years outside 1900..9999: model comparison only (DATE(-1899,1,1) is year 1, the constructor
    # refuses the others); 8099-12-31 and 8100-01-01 are valid dates and are judged by the oracle like the rest
    for (y, m, d) in [(1900, 2, 29), (2100, 2, 29), (2001, 2, 29), (2000, 2, 30), (2020, 4, 31), (2020, 13, 1), (2020, 0, 1), (2020, 1, 0),
                      (2020, 1, 32), (2020, -1, 1), (10000, 1, 1), (9999, 12, 32), (8100, 1, 1), (8099, 12, 31), (-1899, 1, 1), (-1900, 1, 1)]:
        add({'kind': 'ymd', 'y': y, 'm': m, 'd': d})

    # (e) short years
    for y in [0, 1, 99, 100, 119, 120, 1899, 1898, 500, 1000]:
        for (m, d) in [(1, 1), (2, 28), (2, 29), (3, 1), (12, 31)]:
            add({'kind': 'shorty', 'y': y, 'm': m, 'd': d})
    for _ in range((3000 if thorough else 300) * scale):
        y = rng.randint(0, 1899)
        m = rng.randint(1, 12)
        add({'kind': 'shorty', 'y': y, 'm': m, 'd': rng.randint(1, calendar.monthrange(1900 + y, m)[1])})

    # (b) hms
    if thorough:
        for h in range(24):
            for mi in range(60):
                for s in range(60):
                    add({'kind': 'hms', 'h': h, 'mi': mi, 's': s})
    else:
        lat = [0, 1, 29, 30, 58, 59]
        for h in range(24):
            for mi in lat:
                for s in lat:
                    add({'kind': 'hms', 'h': h, 'mi': mi, 's': s})
        for _ in range(600 * scale):
            add({'kind': 'hms', 'h': rng.randint(0, 23), 'mi': rng.randint(0, 59), 's': rng.randint(0, 59)})
    for (h, mi, s) in [(24, 0, 0), (0, 60, 0), (0, 0, 60), (-1, 0, 0), (23, 59, 60)]:
        add({'kind': 'hms', 'h': h, 'mi': mi, 's': s})

    # (c) iso text
    iso_dates = list(SPECIAL_DATES) + [_rand_date(rng) for _ in range((6000 if thorough else 500) * scale)]
    for i, (y, m, d) in enumerate(iso_dates):
        form = i % 5
        h, mi, s = rng.randint(0, 23), rng.randint(0, 59), rng.randint(0, 59)
        if i % 7 == 0:
            h, mi, s = rng.choice([(0, 0, 0), (23, 59, 59), (12, 0, 0), (0, 0, 1)])
        add({'kind': 'iso', 'y': y, 'm': m, 'd': d, 'h': h, 'mi': mi, 's': s, 'form': form})
        if form in (1, 2) and i % 3 == 0 and 1900 < y < 9999:
            # the same date-time with a fraction of a second: written after the seconds of the ISO text ('frac'), or carried as
            # microseconds by a datetime the host hands over ('us'): the components are the ones written, no rounding up
            fr = rng.choice(['.5', '.750', '.600', '.999', '.999999', '.499', '.001', '.500000'])
            if rng.random() < 0.5:
                add({'kind': 'iso', 'y': y, 'm': m, 'd': d, 'h': h, 'mi': mi, 's': s, 'form': form, 'frac': fr})
            else:
                add({'kind': 'iso', 'y': y, 'm': m, 'd': d, 'h': h, 'mi': mi, 's': s, 'form': form, 'us': int(float('0' + fr) * 1000000)})
        if form in (1, 3) and i % 2 == 0 and 1900 < y < 9999:
            # the same ISO text with a UTC offset (Z, +hh:mm, -hh:mm): the components read are the ones written - a time of
            # day in its own zone - and the weekday is that of the written date (oracle only)
            add({'kind': 'iso', 'y': y, 'm': m, 'd': d, 'h': h, 'mi': mi, 's': s, 'form': form,
                 'off': rng.choice(['Z', '+00:00', '+05:00', '-05:00', '+09:30', '-11:00', '+14:00', '-00:30'])})

    # (d) serials
    ser = [61, 62, 63, 366, 367, 36526, 36585, 36586, 73050, 73109, 73110, 2958465, 2958464, 2958101, 2958100]
    for y in sorted(rng.sample(range(1900, 10000), (400 if thorough else 40) * scale)) + [1900, 2000, 2100, 9999]:
        for (yy, mm, dd) in _month_ends(y):
            s = datetime.date(yy, mm, dd).toordinal() - BASE_ORD
            if s >= 61:
                ser.append(s)
    ser += [rng.randint(61, 2958465) for _ in range((20000 if thorough else 1200) * scale)]
    for s in ser:
        add({'kind': 'serial', 's': s})
    # the same whole-day serials arriving as numeric TEXT (a cell or variable holding "2020"): a serial all the same, whatever the
    # digits look like (1..4 digits look like a year, 6 like yymmdd); oracle only
    for s in [61, 62, 366, 367, 1000, 1900, 1999, 2000, 2020, 2024, 9999, 10000, 36526, 251231, 991231, 100101, 2958465] + \
            [rng.randint(61, 9999) for _ in range(40 * scale)] + [rng.randint(61, 2958465) for _ in range(40 * scale)]:
        add({'kind': 'serial', 's': s, 'text': True})

    # (f) pairs
    npairs = (30000 if thorough else 2500) * scale
    for _ in range(npairs):
        a = _rand_date(rng)
        r = rng.random()
        if r < 0.3:
            b = _rand_date(rng)
        elif r < 0.6:
            oa = datetime.date(*a).toordinal()
            ob = min(MAX_ORD, max(MIN_ORD, oa + rng.randint(-800, 800)))
            bd = datetime.date.fromordinal(ob)
            b = (bd.year, bd.month, bd.day)
        else:
            # same day-of-month neighbourhood: the borrow cases
            y2 = min(9999, max(1900, a[0] + rng.randint(-3, 3)))
            m2 = rng.randint(1, 12)
            d2 = min(calendar.monthrange(y2, m2)[1], max(1, a[2] + rng.randint(-1, 1)))
            b = (y2, m2, d2)
        add({'kind': 'pair', 'a': list(a), 'b': list(b)})
    for bo in _boundaries():
        lo, hi = max(MIN_ORD, bo - 400), min(MAX_ORD, bo + 400)
        for _ in range((60 if thorough else 6) * scale):
            a = datetime.date.fromordinal(rng.randint(lo, hi))
            b = datetime.date.fromordinal(rng.randint(lo, hi))
            add({'kind': 'pair', 'a': [a.year, a.month, a.day], 'b': [b.year, b.month, b.day]})
        near = range(max(MIN_ORD, bo - 3), min(MAX_ORD, bo + 3) + 1)
        if thorough or bo in (_boundaries()[0], _boundaries()[1], _boundaries()[-1]) or rng.random() < 0.08:
            for oa in near:
                for ob in near:
                    a = datetime.date.fromordinal(oa)
                    b = datetime.date.fromordinal(ob)
                    add({'kind': 'pair', 'a': [a.year, a.month, a.day], 'b': [b.year, b.month, b.day]})
    for a in SPECIAL_DATES:
        for b in SPECIAL_DATES:
            add({'kind': 'pair', 'a': list(a), 'b': list(b)})

    # (g) weekday: other types
    other = [0, 4, 11, -1, 2.5, '1', None, True, False, 1.0, 2.0, 3.0, 1, 2, 3, 17, 1.5, '', 'x']
    wd_dates = SPECIAL_DATES + [_rand_date(rng) for _ in range((200 if thorough else 30) * scale)]
    for dt in wd_dates:
        for t in other:
            add({'kind': 'wtype', 'd': list(dt), 't': t})

    # (h) edate
    ed_dates = SPECIAL_DATES + [(y, m, calendar.monthrange(y, m)[1]) for y in (1900, 2000, 2023, 2024, 9999) for m in (1, 2, 3, 12)]
    ed_dates += [_rand_date(rng) for _ in range((1500 if thorough else 150) * scale)]
    for (y, m, d) in ed_dates:
        tot = 12 * y + (m - 1)
        offs = [0, 1, -1, 11, -11, 12, -12, 13, -13, 24, 120000, -120000, 119999, -119999,
                1900 * 12 - tot, 1900 * 12 - tot - 1, 1900 * 12 - tot + 1, 9999 * 12 + 11 - tot, 9999 * 12 + 12 - tot, 9999 * 12 + 10 - tot]
        offs += [rng.randint(-120000, 120000) for _ in range(6)]
        offs += [rng.randint(-40, 40) for _ in range(6)]
        lo_n, hi_n = 1900 * 12 - tot, 9999 * 12 + 11 - tot
        offs += [rng.randint(lo_n, hi_n) for _ in range(8)]
        for n in offs:
            if -120000 <= n <= 120000:
                add({'kind': 'edate', 'd': [y, m, d], 'n': n})

    # (i) misc: model comparison only
    for c in misc_cases(rng, thorough, scale):
        add(c)

    # (j) formulas end to end
    for f in formula_cases(rng, thorough, scale):
        add({'kind': 'formula', 'f': f})

    # sweeps (direct calls, oracle only)
    del _SWEEPS[:]
    sw = []
    if thorough:
        for y0 in range(1900, 10000, 100):
            sw.append({'kind': 'sw_dates', 'y0': y0, 'y1': y0 + 99, 'mode': 'all'})
        for s0 in range(61, 2958466, 100000):
            sw.append({'kind': 'sw_serial', 's0': s0, 's1': min(2958465, s0 + 99999)})
        for bo in _boundaries():
            sw.append({'kind': 'sw_pairs', 'o': bo, 'w': 400})
        for k in range(16):
            sw.append({'kind': 'sw_edate', 'seed': ctx.get('seed', 0) * 1000 + k, 'n': 60000})
        for y0 in range(1900, 10000, 300):
            sw.append({'kind': 'sw_model', 'y0': y0, 'y1': min(9999, y0 + 299)})
    else:
        for y0 in range(1900, 10000, 1350):
            sw.append({'kind': 'sw_dates', 'y0': y0, 'y1': min(9999, y0 + 1349), 'mode': 'ends'})
        for y0 in sorted(rng.sample(range(1900, 9990, 10), 60 * scale)) + [1900, 2000, 2100, 9990]:
            sw.append({'kind': 'sw_dates', 'y0': y0, 'y1': y0 + 9, 'mode': 'all'})
        sw.append({'kind': 'sw_serial', 's0': 61, 's1': 2958465, 'step': 97})
        for bo in [_boundaries()[0], _boundaries()[1], _boundaries()[2], _boundaries()[5], _boundaries()[-1]]:
            sw.append({'kind': 'sw_pairs', 'o': bo, 'w': 25})
        for k in range(4):
            sw.append({'kind': 'sw_edate', 'seed': ctx.get('seed', 0) * 1000 + k, 'n': 15000 * scale})
    # the same questions while the PROCESS sits in another time zone (naive date-times must not be read in it): a seeded
    # sample of the cases above, in a zone east of UTC with daylight saving, one west of it, and two fixed offsets (TZS)
    plain = [c for c in out if c['kind'] in ('ymd', 'serial', 'pair', 'wtype', 'edate', 'hms', 'iso', 'shorty')]
    for c in rng.sample(plain, min(len(plain), (3000 if thorough else 400) * scale)):
        c2 = dict(c)
        c2['tz'] = rng.choice(TZS)
        add(c2)
    for c in sw:
        add(c)
        _SWEEPS.append(c)
    return out


def misc_cases(rng, thorough, scale):
    e = _m()['error']
    dts = [D(1900, 1, 1), D(1900, 1, 1, 0, 0, 1), D(1900, 2, 28, 18, 0), D(1900, 3, 1), D(2020, 1, 31, 6, 0), D(2020, 2, 29, 12, 0), D(2021, 3, 1),
           D(1999, 12, 31, 23, 59, 59), D(9999, 12, 31, 12, 0), D(2020, 1, 1, 12, 0, 0, 500000), D(1, 1, 1), D(1899, 12, 31), D(1899, 12, 31, 18)]
    odd = [None, True, False, 0, 1, 2, 59, 60, 61, 60.5, 0.5, 0.25, 1.75, -1, -0.5, 2958465, 2958466, 2958465.5, 3000000, 43831, 43831.75, '43831', ' 61 ', '61.5', '1_000',
           '2020-02-29', '2020-02-29T13:14:15', '2020-02-29 13:14', '1900-01-01', '9999-12-31 23:59:59', '2021-02-29', '0000-01-01',
           e.NOT_AVAILABLE, e.NUM, e.VALUE, [1], [], [D(2020, 1, 1)], 10 ** 12]
    out = []
    one = ['YEAR', 'MONTH', 'DAY', 'HOUR', 'MINUTE', 'SECOND', 'DATEVALUE', 'TIMEVALUE', 'WEEKDAY']
    for f in one:
        for v in dts + odd:
            out.append({'kind': 'misc', 'fn': f, 'args': [enc(v)]})
        out.append({'kind': 'misc', 'fn': f, 'args': []})
        out.append({'kind': 'misc', 'fn': f, 'args': [1, 2, 3]})
    nums = [2020, 2, 29, 0, 1, -1, 12, 13, 31, 1900, 1899, 9999, 10000, 8099, 8100, True, False, None, '5', '2020', ' 7 ', '1.5', 'x', '', 1.0, 2020.0, 0.5,
            e.DIV_ZERO, [1], D(2020, 1, 1)]
    for _ in range((4000 if thorough else 500) * scale):
        out.append({'kind': 'misc', 'fn': 'DATE', 'args': [enc(rng.choice(nums)) for _ in range(3)]})
        out.append({'kind': 'misc', 'fn': 'TIME', 'args': [enc(rng.choice(nums + [23, 24, 59, 60])) for _ in range(3)]})
    for f in ('DATE', 'TIME'):
        out.append({'kind': 'misc', 'fn': f, 'args': [1, 2]})
        out.append({'kind': 'misc', 'fn': f, 'args': [1, 2, 3, 4]})
    units = ['d', 'm', 'y', 'ym', 'md', 'yd', 'D', 'M', 'Y', 'YM', 'Md', 'yD', 'x', '', 'dd', 5, None, True, e.NUM, 1.5]
    pool2 = dts + [61, 43831, 43831.5, '2020-02-29', None, e.NOT_AVAILABLE, 'x1x', -1, True]
    for _ in range((6000 if thorough else 700) * scale):
        a, b = rng.choice(pool2), rng.choice(pool2)
        out.append({'kind': 'misc', 'fn': 'DATEDIF', 'args': [enc(a), enc(b), enc(rng.choice(units))]})
        out.append({'kind': 'misc', 'fn': 'DAYS', 'args': [enc(a), enc(b)]})
    for a in dts:
        for b in dts:
            out.append({'kind': 'misc', 'fn': 'DAYS', 'args': [enc(b), enc(a)]})
            for u in ('d', 'md', 'yd', 'YM'):
                out.append({'kind': 'misc', 'fn': 'DATEDIF', 'args': [enc(a), enc(b), u]})
    # md / yd on whole dates
    for _ in range((6000 if thorough else 600) * scale):
        a = _rand_date(rng)
        y2 = min(9999, max(1900, a[0] + rng.randint(0, 5)))
        m2 = rng.randint(1, 12)
        b = (y2, m2, rng.randint(1, calendar.monthrange(y2, m2)[1]))
        for u in ('md', 'yd'):
            out.append({'kind': 'misc', 'fn': 'DATEDIF', 'args': [enc(D(*a)), enc(D(*b)), u]})
    months = [None, 0, 1, -1, 11, 12, 13, -12, -13, 1.9, -1.9, 0.5, True, False, '1', ' 2 ', '-3', '1.5', 'x', '', e.NUM, [1], D(2020, 1, 1), 120000, -120000, 97201, 97200, -22801]
    starts = [None] + dts + [61, 43831.5, '2020-01-31', e.NOT_AVAILABLE, 'x1x', -1, True, [1]]
    for s in starts:
        for n in months:
            out.append({'kind': 'misc', 'fn': 'EDATE', 'args': [enc(s), enc(n)]})
    for n in list(range(-40, 41)) + [rng.randint(-120000, 120000) for _ in range(300 if thorough else 60)]:
        out.append({'kind': 'misc', 'fn': 'EDATE', 'args': [None, n]})
    out.append({'kind': 'misc', 'fn': 'EDATE', 'args': [1]})
    out.append({'kind': 'misc', 'fn': 'EDATE', 'args': []})
    out.append({'kind': 'misc', 'fn': 'DATEDIF', 'args': [1, 2]})
    out.append({'kind': 'misc', 'fn': 'DAYS', 'args': [1]})
    out.append({'kind': 'misc', 'fn': 'WEEKDAY', 'args': [1, 2, 3]})
    for v in dts + odd:
        for t in (1, 2, 3, 4, None, '2', 2.0, True):
            out.append({'kind': 'misc', 'fn': 'WEEKDAY', 'args': [enc(v), enc(t)]})
    return out


def formula_cases(rng, thorough, scale):
    fs = ['YEAR(DATE(2020,2,29))', 'MONTH(DATE(2020,2,29))', 'DAY(DATE(2020,2,29))', 'DATE(2020,2,29)', 'DATE(119,5,6)', 'DATE(2021,2,29)',
          'TIME(1,2,3)', 'HOUR(TIME(23,59,58))', 'MINUTE(TIME(23,59,58))', 'SECOND(TIME(23,59,58))', 'TIME("1",2,3)',
          'WEEKDAY(DATE(1900,1,1))', 'WEEKDAY(DATE(1900,1,1),2)', 'WEEKDAY(DATE(1900,1,1),3)', 'WEEKDAY(DATE(1900,1,1),4)', 'WEEKDAY(DATE(1900,1,1),)',
          'EDATE(DATE(2020,1,31),1)', 'EDATE(DATE(2019,1,31),1)', 'EDATE(DATE(2020,3,31),-1)', 'EDATE(DATE(1900,1,31),-1)', 'EDATE(DATE(9999,12,1),1)',
          'EDATE(DATE(2020,1,31),-120000)', 'EDATE(DATE(2020,1,15),-13)', 'YEAR(EDATE(DATE(2020,1,15),-13))', 'MONTH(EDATE(DATE(2020,1,15),-13))',
          'DAYS(DATE(2021,3,1),DATE(2020,2,29))', 'DATEDIF(DATE(2020,1,31),DATE(2020,3,1),"m")', 'DATEDIF(DATE(2020,1,31),DATE(2021,1,30),"y")',
          'DATEDIF(DATE(2020,1,31),DATE(2021,1,30),"ym")', 'DATEDIF(DATE(2020,1,31),DATE(2021,1,30),"d")', 'DATEDIF(DATE(2021,1,31),DATE(2020,1,30),"d")',
          'DATEDIF(DATE(2020,1,31),DATE(2021,1,30),"D")', 'YEAR("2020-02-29")', 'HOUR("2020-02-29T13:14:15")', 'SECOND("2020-02-29 13:14:15")',
          'YEAR(61)', 'MONTH(61)', 'DAY(61)', 'YEAR(2958465)', 'DAY(2958465)', 'YEAR(2958466)', 'DATEVALUE(DATE(2020,1,1))', 'TIMEVALUE(TIME(12,0,0))',
          'EDATE(,1)', 'EDATE(,)', 'EDATE(DATE(2020,1,31),)', 'YEAR()', 'DATE(1,2)', 'DAYS(DATE(2020,1,2),DATE(2020,1,1))']
    for _ in range((1500 if thorough else 150) * scale):
        y, m, d = _rand_date(rng)
        n = rng.randint(-200, 200)
        y2, m2, d2 = _rand_date(rng)
        fs.append(rng.choice([
            'YEAR(DATE(%d,%d,%d))' % (y, m, d), 'MONTH(DATE(%d,%d,%d))' % (y, m, d), 'DAY(DATE(%d,%d,%d))' % (y, m, d),
            'WEEKDAY(DATE(%d,%d,%d),%d)' % (y, m, d, rng.randint(1, 3)), 'EDATE(DATE(%d,%d,%d),%d)' % (y, m, d, n),
            'DAY(EDATE(DATE(%d,%d,%d),%d))' % (y, m, d, n),
            'DATEDIF(DATE(%d,%d,%d),DATE(%d,%d,%d),"%s")' % (y, m, d, y2, m2, d2, rng.choice(['d', 'm', 'y', 'ym'])),
            'DAYS(DATE(%d,%d,%d),DATE(%d,%d,%d))' % (y, m, d, y2, m2, d2),
            'YEAR("%04d-%02d-%02d")' % (y, m, d), 'DAY(%d)' % rng.randint(61, 2958465)]))
    return fs


# ----------------------------------------------------------------------------- requests to the model

def _fn(name, args):
    return 'fn %s%s' % (common.enc_str(name), ''.join(' ' + fx.to_wire(a) for a in args))


def _ev(formula, variables):
    return 'eval %s %s' % (common.enc_str(formula), fx.env_wire(variables=variables))


def iso_text(c):
    base = '%04d-%02d-%02d' % (c['y'], c['m'], c['d'])
    f = c['form']
    if f == 0:
        return base
    sep = 'T' if f in (1, 3) else ' '
    if f in (1, 2):
        return base + sep + '%02d:%02d:%02d' % (c['h'], c['mi'], c['s']) + c.get('frac', '') + c.get('off', '')
    return base + sep + '%02d:%02d' % (c['h'], c['mi']) + c.get('off', '')


def iso_expect(c):
    f = c['form']
    if f == 0:
        return [c['y'], c['m'], c['d'], 0, 0, 0]
    if f in (1, 2):
        return [c['y'], c['m'], c['d'], c['h'], c['mi'], c['s']]
    return [c['y'], c['m'], c['d'], c['h'], c['mi'], 0]


def request(c):
    k = c['kind']
    if k == 'ymd':
        return _ev(F_YMD, {'yy': c['y'], 'mm': c['m'], 'dd': c['d']})
    if k == 'shorty':
        return _fn('DATE', [c['y'], c['m'], c['d']])
    if k == 'hms':
        return _ev(F_HMS, {'hh': c['h'], 'mm': c['mi'], 'ss': c['s']})
    if k == 'iso':
        if c.get('off') or c.get('frac') or c.get('us') is not None:
            return None          # text with a UTC offset or a fraction of a second, a host datetime with microseconds: oracle only
        return _ev(F_ISO, {'tx': iso_text(c)})
    if k == 'serial':
        if c.get('text'):
            return None
        return _ev(F_SER, {'sn': c['s']})
    if k == 'pair':
        return _ev(F_PAIR, {'a': D(*c['a']), 'b': D(*c['b'])})
    if k == 'wtype':
        return _fn('WEEKDAY', [D(*c['d']), c['t']])
    if k == 'edate':
        return _fn('EDATE', [D(*c['d']), c['n']])
    if k == 'misc':
        return _fn(c['fn'], [dec(a) for a in c['args']])
    if k == 'formula':
        return _ev(c['f'], {})
    if k == 'sw_model':
        return _fn('YEAR', [D(c['y0'], 1, 1)])       # the sweep itself runs inside impl (own driver batch)
    return None


# ----------------------------------------------------------------------------- running the implementation

def _parse(formula, variables):
    p = _m()['parser']
    for k, v in variables.items():
        p.set_variable(k, v)
    return p.parse(formula)


TZS = ['CET-1CEST,M3.5.0,M10.5.0/3', 'EST5EDT,M3.2.0,M11.1.0', 'XYZ-9', 'NPT-5:45']


def impl(c):
    import contextlib
    import time
    tz = c.get('tz')
    if tz is None:
        return _impl(c)
    old = os.environ.get('TZ')
    os.environ['TZ'] = tz
    time.tzset()
    try:
        return _impl(c)
    finally:
        if old is None:
            os.environ.pop('TZ', None)
        else:
            os.environ['TZ'] = old
        time.tzset()


def _impl(c):
    k = c['kind']
    if k == 'ymd':
        if c.get('via') == 'parse':
            r = _parse(F_YMD, {'yy': c['y'], 'mm': c['m'], 'dd': c['d']})
            return r['result'] if r['error'] is None else ['!' + r['error']]
        dt = call('DATE', c['y'], c['m'], c['d'])
        return [call('YEAR', dt), call('MONTH', dt), call('DAY', dt), call('WEEKDAY', dt), call('WEEKDAY', dt, 1),
                call('WEEKDAY', dt, 2), call('WEEKDAY', dt, 3)]
    if k == 'shorty':
        return call('DATE', c['y'], c['m'], c['d'])
    if k == 'hms':
        t = call('TIME', c['h'], c['mi'], c['s'])
        return [call('HOUR', t), call('MINUTE', t), call('SECOND', t)]
    if k == 'iso':
        t = iso_text(c)
        if c.get('us') is not None:
            t = datetime.datetime(c['y'], c['m'], c['d'], c['h'], c['mi'], c['s'], c['us'])
        res = [call(f, t) for f in ('YEAR', 'MONTH', 'DAY', 'HOUR', 'MINUTE', 'SECOND')]
        if c.get('off'):
            res += [call('WEEKDAY', t, ty) for ty in (1, 2, 3)]
        return res
    if k == 'serial':
        return [call(f, str(c['s']) if c.get('text') else c['s']) for f in ('YEAR', 'MONTH', 'DAY')]
    if k == 'pair':
        a, b = D(*c['a']), D(*c['b'])
        return [call('DAYS', b, a)] + [call('DATEDIF', a, b, u) for u in ('d', 'm', 'y', 'ym', 'md', 'yd')]
    if k == 'wtype':
        return call('WEEKDAY', D(*c['d']), c['t'])
    if k == 'edate':
        return call('EDATE', D(*c['d']), c['n'])
    if k == 'misc':
        return call(c['fn'], *[dec(a) for a in c['args']])
    if k == 'formula':
        return _parse(c['f'], {})
    if k.startswith('sw_'):
        return sweep_result(c)
    raise ValueError(c)


def agree(c, impl_ans, model_ans):
    k = c['kind']
    m = fx.parse_sexp(model_ans)
    if k == 'sw_model':
        return not impl_ans.get('model_bad')
    if k in ('ymd', 'hms', 'iso', 'serial', 'pair', 'formula'):
        rec = m[0]
        if k == 'formula':
            r = fx.record_matches(rec, impl_ans, ulps=4, rel=1e-9)
            return r is not False
        if impl_ans and isinstance(impl_ans[0], str) and impl_ans[0].startswith('!'):
            return rec[2] == fx.ERR_TAGS.get(impl_ans[0][1:])
        r = fx.record_matches(rec, {'result': impl_ans, 'error': None}, ulps=4, rel=1e-9)
        return r is not False
    # fn requests: a value, or `(raise tag)`
    if isinstance(m, list) and m and m[0] == 'raise':
        return is_err(impl_ans, fx.TAG_ERR.get(m[1]))
    r = fx.value_matches(m, impl_ans, 4, 1e-9)
    return r is not False


# ----------------------------------------------------------------------------- the oracle (statement)

def oracle(c, ans):
    k = c['kind']
    if k == 'ymd':
        y, m, d = c['y'], c['m'], c['d']
        if not (1900 <= y <= 9999 and valid(y, m, d)):
            return None
        if isinstance(ans[0], str):
            return 'DATE(%d,%d,%d) components: %r' % (y, m, d, ans)
        dd = datetime.date(y, m, d)
        want = [y, m, d, ref_wd(dd, 1), ref_wd(dd, 1), ref_wd(dd, 2), ref_wd(dd, 3)]
        if not (len(ans) == 7 and all(same_int(a, w) for a, w in zip(ans, want))):
            return 'YEAR/MONTH/DAY/WEEKDAY(default,1,2,3) of DATE(%d,%d,%d) = %r, the calendar gives %r' % (y, m, d, ans, want)
        return None
    if k == 'shorty':
        y, m, d = c['y'], c['m'], c['d']
        if not (0 <= y < 1900 and valid(1900 + y, m, d)):
            return None
        want = call('DATE', 1900 + y, m, d)
        if not (isinstance(ans, datetime.datetime) and ans == D(1900 + y, m, d) and ans == want):
            return 'DATE(%d,%d,%d) = %r, expected the date %d-%02d-%02d' % (y, m, d, ans, 1900 + y, m, d)
        return None
    if k == 'hms':
        h, mi, s = c['h'], c['mi'], c['s']
        if not (0 <= h < 24 and 0 <= mi < 60 and 0 <= s < 60):
            return None
        if not (same_int(ans[0], h) and same_int(ans[1], mi) and same_int(ans[2], s)):
            return 'HOUR/MINUTE/SECOND of TIME(%d,%d,%d) = %r' % (h, mi, s, ans)
        return None
    if k == 'iso':
        want = iso_expect(c)
        if not all(same_int(a, w) for a, w in zip(ans, want)):
            return 'components of %r = %r, expected %r' % (iso_text(c), ans[:6], want)
        if c.get('off'):
            wd = datetime.date(c['y'], c['m'], c['d']).weekday()          # Monday = 0
            wantw = [(wd + 1) % 7 + 1, wd + 1, wd]
            if not all(same_int(a, w) for a, w in zip(ans[6:], wantw)):
                return 'WEEKDAY of %r under the types 1, 2, 3 = %r, expected %r' % (iso_text(c), ans[6:], wantw)
        return None
    if k == 'serial':
        s = c['s']
        if not 61 <= s <= 2958465:
            return None
        dd = datetime.date.fromordinal(BASE_ORD + s)
        want = [dd.year, dd.month, dd.day]
        if not all(same_int(a, w) for a, w in zip(ans, want)):
            return 'YEAR/MONTH/DAY(%s) = %r, 1899-12-30 + %d days is %r' % (repr(str(s)) if c.get('text') else s, ans, s, want)
        return None
    if k == 'pair':
        return pair_oracle(datetime.date(*c['a']), datetime.date(*c['b']), ans)
    if k == 'wtype':
        t = c['t']
        dd = datetime.date(*c['d'])
        if isinstance(t, (int, float)) and not isinstance(t, bool) and t in (1, 2, 3):
            if not same_int(ans, ref_wd(dd, int(t))):
                return 'WEEKDAY(%s, %r) = %r, the true weekday numbering gives %d' % (dd, t, ans, ref_wd(dd, int(t)))
            return None
        if isinstance(t, (int, float)) and not isinstance(t, bool):
            if not is_err(ans, '#NUM!'):
                return 'WEEKDAY(%s, %r) = %r, expected #NUM! for a numbering type other than 1, 2, 3' % (dd, t, ans)
        return None
    if k == 'edate':
        y, m, d = c['d']
        n = c['n']
        want = ref_edate(y, m, d, n)
        if want is None:
            if not is_err(ans, '#NUM!'):
                return 'EDATE(%04d-%02d-%02d, %d) = %r, expected #NUM! (target year outside 1900..9999)' % (y, m, d, n, ans)
            return None
        if not (isinstance(ans, datetime.datetime) and ans == D(*want)):
            return 'EDATE(%04d-%02d-%02d, %d) = %r, expected %04d-%02d-%02d' % ((y, m, d, n, ans) + want)
        return None
    if k.startswith('sw_'):
        if ans.get('bad'):
            return '%s: %d failing inputs, first: %s' % (k, ans.get('nbad', len(ans['bad'])), ans['bad'][0])
        return None
    return None


def pair_oracle(a, b, ans):
    """ans = [DAYS(b,a), DATEDIF(a,b,'d'), 'm', 'y', 'ym', ...]"""
    days = b.toordinal() - a.toordinal()
    late = a >= MARCH_1900 and b >= MARCH_1900     # before 1 March 1900 Excel's 1900 system (C13) governs the day count
    if late and not same_num(ans[0], days):
        return 'DAYS(%s, %s) = %r, the calendar difference is %d days' % (b, a, ans[0], days)
    if a > b:
        for u, v in zip(('d', 'm', 'y', 'ym'), ans[1:5]):
            if not is_err(v, '#NUM!'):
                return 'DATEDIF(%s, %s, "%s") = %r, expected #NUM! (start later than end)' % (a, b, u, v)
        return None
    want = ref_pair(a, b)
    for u, v, w in zip(('d', 'm', 'y', 'ym'), ans[1:5], want):
        if u == 'd' and not late:
            continue
        if not same_int(v, w):
            return 'DATEDIF(%s, %s, "%s") = %r, the calendar gives %d' % (a, b, u, v, w)
    return None


def nontrivial(c, ans):
    k = c['kind']
    if k == 'ymd':
        return 1900 <= c['y'] <= 9999 and valid(c['y'], c['m'], c['d'])
    if k == 'hms':
        return 0 <= c['h'] < 24 and 0 <= c['mi'] < 60 and 0 <= c['s'] < 60
    if k == 'misc':
        return isinstance(ans, (int, float, datetime.datetime)) and not isinstance(ans, bool)
    if k == 'formula':
        return ans.get('error') is None
    if k == 'wtype':
        return isinstance(c['t'], (int, float)) and not isinstance(c['t'], bool)
    if k == 'shorty':
        return valid(1900 + c['y'], c['m'], c['d'])
    return True


# ----------------------------------------------------------------------------- sweeps (direct calls, sharded)

_cache = {}


def _key(c):
    return json.dumps(c, sort_keys=True)


def sweep_result(c):
    k = _key(c)
    if k in _cache:
        return _cache[k]
    todo = [s for s in _SWEEPS if _key(s) not in _cache]
    if c not in todo:
        todo = [c] + todo
    nproc = max(1, min(8, (os.cpu_count() or 2) - 1, len(todo)))
    if nproc > 1 and len(todo) > 1:
        import multiprocessing
        ctxm = multiprocessing.get_context('fork')
        # heavy shards first
        order = sorted(todo, key=lambda s: -_weight(s))
        with ctxm.Pool(nproc) as pool:
            res = pool.map(_run_sweep, order, chunksize=1)
        for s, r in zip(order, res):
            _cache[_key(s)] = r
    else:
        for s in todo:
            _cache[_key(s)] = _run_sweep(s)
    return _cache[k]


def _weight(s):
    k = s['kind']
    if k == 'sw_pairs':
        return (2 * s['w'] + 1) ** 2 * 6
    if k == 'sw_dates':
        return (s['y1'] - s['y0'] + 1) * (366 if s['mode'] == 'all' else 24) * 8
    if k == 'sw_serial':
        return (s['s1'] - s['s0']) // s.get('step', 1) * 3
    if k == 'sw_edate':
        return s['n']
    if k == 'sw_model':
        return (s['y1'] - s['y0'] + 1) * 366 * 6
    return 1


def _run_sweep(c):
    try:
        return _run_sweep_inner(c)
    except Exception as e:      # a crash of the sweep is a harness matter, reported as such
        import traceback
        raise RuntimeError('sweep %r crashed: %s' % (c, traceback.format_exc()))


def _run_sweep_inner(c):
    m = _m()
    dt = m['dt']
    k = c['kind']
    bad = []
    n = 0

    def note(msg):
        bad.append(msg)

    if k == 'sw_dates':
        DATE, YEAR, MONTH, DAY, WEEKDAY = dt.DATE, dt.YEAR, dt.MONTH, dt.DAY, dt.WEEKDAY
        for y in range(c['y0'], c['y1'] + 1):
            if c['mode'] == 'all':
                dates = [(y, mm, dd) for mm in range(1, 13) for dd in range(1, calendar.monthrange(y, mm)[1] + 1)]
            else:
                dates = _month_ends(y)
            o = datetime.date(y, 1, 1).toordinal() - 1
            for (yy, mm, dd) in dates:
                n += 1
                try:
                    v = DATE(yy, mm, dd)
                    got = (YEAR(v), MONTH(v), DAY(v), WEEKDAY(v), WEEKDAY(v, 1), WEEKDAY(v, 2), WEEKDAY(v, 3))
                except Exception as e:      # noqa
                    got = ('raised %r' % e,)
                ref = datetime.date(yy, mm, dd)
                want = (yy, mm, dd, ref_wd(ref, 1), ref_wd(ref, 1), ref_wd(ref, 2), ref_wd(ref, 3))
                if got != want or not all(type(g) is int for g in got):
                    if len(bad) < 5:
                        note('YEAR/MONTH/DAY/WEEKDAY(default,1,2,3) of DATE(%d,%d,%d) = %r, calendar %r' % (yy, mm, dd, got, want))
                    else:
                        bad.append(None)
    elif k == 'sw_serial':
        YEAR, MONTH, DAY = dt.YEAR, dt.MONTH, dt.DAY
        for s in range(c['s0'], c['s1'] + 1, c.get('step', 1)):
            n += 1
            try:
                got = (YEAR(s), MONTH(s), DAY(s))
            except Exception as e:      # noqa
                got = ('raised %r' % e,)
            ref = datetime.date.fromordinal(BASE_ORD + s)
            want = (ref.year, ref.month, ref.day)
            if got != want or not all(type(g) is int for g in got):
                if len(bad) < 5:
                    note('YEAR/MONTH/DAY(%d) = %r, 1899-12-30 + %d days = %r' % (s, got, s, want))
                else:
                    bad.append(None)
    elif k == 'sw_pairs':
        lo, hi = max(MIN_ORD, c['o'] - c['w']), min(MAX_ORD, c['o'] + c['w'])
        dates = [datetime.date.fromordinal(o) for o in range(lo, hi + 1)]
        dts = [D(x.year, x.month, x.day) for x in dates]
        for i, a in enumerate(dates):
            for j, b in enumerate(dates):
                n += 1
                A, B = dts[i], dts[j]
                ans = [call('DAYS', B, A)] + [call('DATEDIF', A, B, u) for u in ('d', 'm', 'y', 'ym')]
                msg = pair_oracle(a, b, ans)
                if msg:
                    if len(bad) < 5:
                        note(msg)
                    else:
                        bad.append(None)
    elif k == 'sw_edate':
        import random
        rng = random.Random(c['seed'])
        for _ in range(c['n']):
            n += 1
            y, mm, dd = _rand_date(rng)
            if rng.random() < 0.3:
                dd = calendar.monthrange(y, mm)[1] - rng.randint(0, 3)
            r = rng.random()
            tot = 12 * y + mm - 1
            if r < 0.5:
                off = rng.randint(-120000, 120000)
            elif r < 0.8:
                off = rng.randint(max(-120000, 1900 * 12 - tot - 14), min(120000, 9999 * 12 + 11 - tot + 14))
            else:
                off = rng.randint(-30, 30)
            ans = call('EDATE', D(y, mm, dd), off)
            want = ref_edate(y, mm, dd, off)
            ok = is_err(ans, '#NUM!') if want is None else (isinstance(ans, datetime.datetime) and ans == D(*want))
            if not ok:
                if len(bad) < 5:
                    note('EDATE(%04d-%02d-%02d, %d) = %r, expected %r' % (y, mm, dd, off, ans, want if want else '#NUM!'))
                else:
                    bad.append(None)
    elif k == 'sw_model':
        return _model_sweep(c)
    else:
        raise ValueError(c)
    nbad = len(bad)
    return {'n': n, 'nbad': nbad, 'bad': [b for b in bad if b][:5]}


def _model_sweep(c):
    """the Lean model's calendar against datetime on every day of the years y0..y1 (own driver batch)"""
    drv = common.Driver()
    try:
        reqs = []
        want = []
        o0 = datetime.date(c['y0'], 1, 1).toordinal()
        o1 = datetime.date(c['y1'], 12, 31).toordinal()
        us_day = 86400 * 1000000
        names = [common.enc_str(x) for x in ('YEAR', 'MONTH', 'DAY', 'WEEKDAY')]
        for o in range(o0, o1 + 1):
            dd = datetime.date.fromordinal(o)
            us = (o - MIN_ORD) * us_day
            reqs.append('fn %s (d %d)' % (names[0], us))
            reqs.append('fn %s (d %d)' % (names[1], us))
            reqs.append('fn %s (d %d)' % (names[2], us + us_day - 1))
            reqs.append('fn %s (d %d) (i 3)' % (names[3], us))
            want += ['(i %d)' % dd.year, '(i %d)' % dd.month, '(i %d)' % dd.day, '(i %d)' % dd.weekday()]
        out = drv.query(reqs)
    finally:
        drv.close()
    bad = []
    for r, a, w in zip(reqs, out, want):
        if a != w:
            bad.append('%s -> %s, datetime gives %s' % (r, a, w))
            if len(bad) >= 5:
                break
    return {'n': len(reqs) // 4, 'nbad': 0, 'bad': [], 'model_bad': bad}


# ----------------------------------------------------------------------------- search / shrink

def search(rng, ctx, disagreements):
    c2 = dict(ctx)
    c2['tier'] = 'quick'
    c2['scale'] = 4
    return [c for c in cases(rng, c2) if c['kind'] not in ('misc', 'formula')]


def shrink(case, msg):
    return case, msg
