# -*- coding: utf-8 -*-
"""C18 - lookup functions return the addressed element or an error, never another one
(CHOOSE, INDEX, MATCH of hotxlfp/formulas/lookupandreference.py)

case kinds: choose (CHOOSE(i,v1..vn); a value may be an array, written as a literal or handed over in a variable,
src = lit / var), index (INDEX on a variable / literal / range value, src = var / lit / range),
match (MATCH(x,A[,t]); with `pre` a criteria function or a MATCH in another letter case is evaluated first on the same
array and text), im (INDEX(A,MATCH(x,A,0))), fn (direct call of one of the three functions, model comparison only);
an index / match / im case with key `asep` is written with that separator (',' ';' or '\\') between the arguments of the
call(s) instead of the comma; a text written in a formula (lit_value) is delimited by " unless it contains one, then by '"""
import itertools

from .. import common, fx
from ..common import enc_str

ID = 'C18'
LEAN_MODULES = ['HotXL.Props.C18']
FUNCTIONS = ['hotxlfp.formulas.lookupandreference:CHOOSE', 'hotxlfp.formulas.lookupandreference:MATCH',
             'hotxlfp.formulas.lookupandreference:INDEX', 'hotxlfp.formulas.utils:parse_number',
             'hotxlfp.helper.number:to_number']
RULE = ('formulas evaluated by one shared hotxlfp.Parser (kinds choose, index, match, im) and direct calls (kind fn); every case is '
        'also put to the Lean model. '
        'CHOOSE (903 cases): n = 1..8 and 253..256 pairwise distinct literal values (numbers; text); n <= 8: ALL ints i in -10..n+10, '
        'n >= 253: i in -3..3 and 250..261; the 13 odd spellings below and a blank slot as i on 3 values; CHOOSE(1) without values; '
        'array values (328 cases): one array (flat of length 1, 2, 3, 5, or 2x2, 2x3; both fills) as the ONLY value with ALL i in '
        '-2..cols+3, and the three values (that array, 7, a flat array of length 2) with i in 0..4, each written with array literals '
        '(src lit) and with the arrays handed over in list-valued variables Wa, Wc (src var) - an array is one value, chosen whole. '
        'INDEX: arrays of every shape 1..8 x 1..8 and every flat length 1..8 in both fills (thorough, 105168 cases; quick: flat 1, 3, 8 in '
        'both fills, 1x1, 2x3, 3x2, 1x8, 8x1, 8x8 and 2*scale seeded shapes in one fill each, about 10000), filled with pairwise distinct '
        'numbers (ints, negatives, 0, dyadic fractions) or pairwise distinct text (distinct ignoring case, 2+ characters), supplied as a '
        'list-valued variable; for each array ALL index pairs (r, c) with r in -10..rows+10 (flat: length+10), c in -10..cols+10 and ALL '
        'single indices, in the forms INDEX(A,r,c), INDEX(A,r), INDEX(A,r,), INDEX(A,,c), INDEX(A), INDEX(A,), INDEX(A,,); '
        'the same sweeps on array literals (flat 1..8 with , (odd length) or ; (even length), two-row 2x2..2x8, both fills) and on range '
        'values A1:.. set by a callRangeValue listener (all 72 shapes 0..8 x 1..8 in thorough, 6 fixed + 4*scale seeded in quick, fill '
        'seeded): complete for the literals flat 3 and 2x2 (thorough: all of width <= 3) and the ranges flat 4 and 3x4, else 12*scale '
        '(quick) / 60*scale (thorough) seeded entries of the sweep per array; 13 odd index spellings (TRUE, FALSE, "2", "1.0", " 1 ", 4/2, '
        '2^1, 1.5, 0.0, -0.5, "x", "", 1/0) as row or column index beside omitted / blank / 1 / 2 / 0 on flat 3 (both fills), 2x3 numbers, '
        '3x2 text (468 cases); a scalar (5, "abc") in place of the array, r in -2..3, c omitted or -2..3 (84 cases). '
        'MATCH type 1 / -1: ALL non-decreasing arrays of length 0..4 (quick, 126 arrays) / 0..7 (thorough, 792) over {-2,-0.5,0,1,3} with '
        'ALL of 11 lookup values (each item, between items, below, above), type 1 on the array, -1 on the reversed array, type omitted '
        'for lengths <= 2; seeded (quick / thorough, each times scale): 300 / 3000 sorted arrays of length 1..12 over 5 number pools with '
        'duplicates, ints as floats, 0 spelt 0 / 0.0 / -0.0, lookup value an item, item+0.5, below or above, type 1 / -1 / omitted, 30% as '
        'literals where writable; 120 / 600 sorted arrays of length 1..6 of lower-case text with "" (variable / literal / range); '
        '200 / 1500 unsorted or mixed number/text arrays of length 0..8 with types 1, -1, 0, omitted, 2, "0", TRUE, 1.0. '
        'MATCH type 0 (seeded, array as variable 50%, literal 25%, range 25%): 300 / 2500 numeric arrays of length 1..9 with duplicates, '
        'int/float spellings, present and absent values; 500 / 4000 arrays of length 1..8 over 15 words in mixed case (with "") and a '
        'lookup text that is an item in original / upper / lower / swapped case (35%), an item with 1-2 stretches replaced by * or '
        'characters by ? (25%) or one of 26 patterns or the words (40%); 40% of these text cases carry `pre`: COUNTIF / SUMIF / COUNTIFS / '
        'AVERAGEIF(A,x) or MATCH(UPPER(x) / LOWER(x),A,0) is evaluated first on the same parser, array and text and its answer dropped - '
        'the MATCH has to answer as it does alone (the model sees the MATCH only); one fixed such case (COUNTIF, then "ap*" in '
        '{"Banana","Apple","apricot"}). INDEX(A,MATCH(x,A,0)) (kind im): each numeric type-0 case whose x occurs; each of the 15 words in '
        'a shuffled array of all of them (variable; case-swapped via literal); each item of the distinct flat arrays of length 1..8 in '
        'both fills (MATCH(x,A,0) alone as well). 12 fixed pairs (text among numbers, numbers among text, "1" and 1, two-dimensional and '
        'empty lookup arrays, logicals) with types 0, 1, -1. '
        'Direct calls (kind fn, 800 / 6000 times scale): INDEX / MATCH / CHOOSE on 0..5 arguments from 25 odd values (blank, logicals, '
        'ints, floats, text numerals, text, "A*", empty, flat, nested, ragged and mixed lists): model comparison only (value, or tag of '
        'the exception raised). '
        'Argument separators (key asep; added after the formula cases above, index i in the list built so far): an index, match or '
        'im case without `pre` is given once more with the arguments of its call(s) separated by a seeded one of ";" and "\\" '
        'instead of the comma (INDEX(A;r;c), INDEX(A\\\\c) with an empty slot for a blank row, MATCH(x;A;t), INDEX(A;MATCH(x;A;0))) '
        'when it is an INDEX case with a blank row or column slot and i is divisible by 5, or any other one and i is divisible by '
        '20; of the cases whose array is a literal only those with a flat literal written with commas take part (the literal '
        'keeps its commas); about 1050 cases quick, 8400 thorough; + 18 fixed INDEX cases: the 3x3 array 1..9 with blank '
        'row and column 2, the 2x3 array 1..6 with blank row and column 3, the 3x3 array with row 2 and blank column, each '
        'as variable and as range, written with each of "," ";" "\\". Same oracle and same model request form as the comma cases '
        '(the model is sent the formula as written). '
        'Quote-edge and # texts (133 cases, after the separator cases, so none of them takes another separator): 6 flat text arrays - '
        '{5\', 6\', 7\'}, {\'80s, \'90s, \'00s}, {say "hi", bye, "quoted"}, {#FF0000, #00FF00, #0000FF}, {#1, #42, #N/A!, #n/a}, '
        '{it\'s, \', \'\'a}: texts whose own first or last character is a quote character and texts that begin with # (colour codes, '
        'ticket numbers, near-error-codes), 19 elements in all; for every element x at position i: MATCH(x,A,0), INDEX(A,MATCH(x,A,0)) and '
        'INDEX(A,i), each with array and x as variables (src var) and written in the formula (src lit), and CHOOSE(i,v1..vn) with the '
        'values written in the formula: the element itself, at its own position. lit_value writes a text between " " unless the text '
        'contains a ", then between \' \' (asserted not to contain one: a text holding both quote characters is never written). '
        'Whole numbers beyond 2^53 (36 cases): ids = 2^53-9, 2^53-8, 2^53+1, 2^53+3, 9999999999999999, 12345678901234567 as a flat '
        'array; MATCH(x,ids,0) and INDEX(ids,MATCH(x,ids,0)) for every id x with array and x as variables (src var) and written '
        'in the formula (src lit); INDEX({ids},i) on the literal and CHOOSE(i,ids..) for every i in 1..6: the id itself must come '
        'back, not a neighbour that is the same double. '
        'Totals about 22600 cases in quick (41900 at scale 5), 164400 in thorough. '
        'Model comparison of every case: same error tag or value of identical type (floats within 4 ulp); model answers without opinion '
        'are skipped. When a proof or the correspondence broke and no case failed: the thorough family at scale 2 without the fn cases, '
        'oracle only, up to the first failure. A failing INDEX case is shrunk to a smaller array of the same fill that still fails. '
        'No time or step budgets. Non-trivial = no error and: CHOOSE gave a value / INDEX gave something other than the whole '
        'array (element, row, column) / MATCH found a position / INDEX(MATCH) gave a value; fn cases never count. Lookup values through a cell (key xvia): 6 small arrays holding a zero, FALSE or an empty text, every element looked up with MATCH and INDEX(MATCH) as the value of cell Z9 answered by the callCellValue listener of the host (the model gets the same cell): the value it is, not a blank.')
TRUSTED = ['Python list/str subscripting, ==, <, > on int/float/bool/str/list (modelled by hand in Model/Fn/Lookup.lean)',
           'fnmatch.fnmatch on patterns without "[" (modelled as globMatch; Props/C18.glob_spec characterises it); '
           'os.path.normcase is the identity on Linux; str.lower on ASCII',
           'the oracle\'s own reference: index_wants (acceptable answers per index pair), ref_glob (* = any sequence, ? = one character, '
           'on lower-cased text), Python <=, >=, max, min, == on numbers and on lower-case ASCII text for types 1 / -1',
           'one hotxlfp.Parser serves all formula cases: variables A and X (Wa, Wc for array values of CHOOSE) are overwritten per case, range values come from a table '
           'refilled per case through the callRangeValue listener; Parser.parse turns an exception into an error record; array '
           'literals read back as the written values (-0.0 and exponents are kept out of literals; a text is written between the quote '
           'character it does not contain - " by default - and a text holding both is not generated; that the other quote character, '
           'also as first or last character, and a leading # are ordinary characters of a quoted literal is C05\'s subject and is '
           'exercised here through the answers only)',
           'model comparison by fx.record_matches / value_matches: error records by tag, values of identical type, floats sent as exact '
           'fractions and compared within 4 ulp, model answers "(o ..)" (no opinion) never compared; exceptions of direct calls are '
           'mapped to a tag by error.from_message',
           'common.run_check: a disagreement that vanishes when the case runs alone in a fresh interpreter is reported with the '
           'shortest prefix of the run that reproduces it (a `pre` case carries its history in itself)']
ASSUMPTIONS = ['a blank argument slot is the same as an omitted index',
               'the arguments of a call may be separated by "," ";" or "\\" alike: INDEX / MATCH / INDEX(MATCH) written with ";" '
               'or "\\" are the same calls, and an empty slot between two such separators is a blank argument slot',
               'a whole number beyond 2^53, written in the formula or handed over by the host as a Python int, is itself: MATCH '
               'type 0 finds it at its own position only (2^53+1 does not equal its neighbour that is the same double), and INDEX / '
               'CHOOSE / INDEX(MATCH) hand back that int',
               'a text is the element it is whatever it looks like: one whose first or last character is a quote character (5\', \'80s, '
               '"quoted") and one that begins with # (#FF0000, #42, #N/A!, #n/a - no error value, no wildcard) is found by MATCH type 0 '
               'at its own position and handed back unchanged by INDEX / CHOOSE / INDEX(MATCH), written in the formula or handed over '
               'by the host',
               'index 0 or an omitted index selects the whole row / column / array; a negative index or a position outside the array '
               'gives an error (any error value), never an element counted from the end or from another row',
               'the element handed back is the identical Python value (same type: 1 is neither 1.0 nor TRUE; lists item by item); a '
               'record with both result and error set is wrong',
               'a flat list is one-dimensional and is addressed by position through a single index; with both indices it is read '
               'as one column (INDEX(v,r,1) = v[r], INDEX(v,r,0) = v[r]; INDEX(v,0,0) and INDEX(v,0,1) = v, flat or as one-element '
               'rows, or an error); for the remaining index pairs on a flat list an error or the element of the one-row reading '
               '(r = 0 or 1, 1 <= c <= length) are both accepted, never anything else',
               'a nested list is two-dimensional even with a single row or column (for those a single index >= 1 may also address '
               'by position or give an error)',
               'a whole column is accepted as a flat list or as a list of one-element rows; a whole row is the row list, the whole '
               'array the array as supplied',
               'a scalar in the place of the array is a 1x1 array',
               'INDEX with no index at all (INDEX(A), INDEX(A,), INDEX(A,,)): the statement is silent, any answer is accepted; an index '
               'that is not an integer literal (logical, text, fraction, quotient, power): an error or a part of the array (the array, a '
               'row, a column, an element), never anything else',
               'CHOOSE with an index that is not an integer literal: an error or the value addressed by the integer it denotes (TRUE, '
               '"1.0", " 1 ", 1.5 -> 1; "2", 4/2, 2^1 -> 2); FALSE, 0.0, -0.5, "x", "", 1/0 and a blank index: an error; outside '
               '1..n or without values: an error (any)',
               'MATCH with the type omitted is type 1',
               'MATCH on a flat array of numbers only or of text only gives an error or an int position 1..length; "no such item" is '
               '#N/A exactly',
               'MATCH type 0: the FIRST matching position; equality: numbers by value (1 = 1.0), text ignoring case with * and ? as '
               'wildcards, a number never equals text (#N/A); the lookup text contains no "[" '
               '(fnmatch would read "[seq]" as a character class: MATCH("[a]",{"[a]"},0) is #N/A - kept out of the generator on purpose)',
               'MATCH type 0 of text in a non-empty array of numbers gives an error (any); types 1 / -1 between text and numbers, on '
               'unsorted arrays or on text that is not lower-case ASCII are judged only as "an error or a position inside the array"; '
               'arrays mixing numbers and text, logicals (as item or lookup value), two-dimensional lookup arrays and types other than '
               '0, 1, -1 (2, "0", TRUE, 1.0) are left to the model comparison',
               'MATCH types 1 / -1 on an array sorted non-decreasingly / non-increasingly: a position holding the largest item <= x / the '
               'smallest item >= x (among equal items any position; 0 = 0.0 = -0.0), an error is wrong there; #N/A when no such item '
               'exists (also on the empty array)',
               'sorted text for types 1/-1 is lower-case ASCII (code-point order = Excel order there)',
               'INDEX(A,MATCH(x,A,0)) = x is read with the same equality (a number equal to x by value, a text equal ignoring case: '
               '"Apple" for x = "apple"); judged only when x occurs in A and has no wildcard characters * ? [',
               'CHOOSE takes at most 254 values: with more of them an index inside 1..n may give the addressed value or an error',
               'a CHOOSE value that is an array (an array literal or a list-valued variable) is ONE value: CHOOSE(1,{v1..vm}) is the '
               'whole array as supplied (lists item by item, nested for a two-row literal) and every other index is an error - the items '
               'of the array are never addressed as if they were the values']
EXHAUSTIVE = {'quick': False, 'thorough': True}

_p = [None]
_rangeval = {}


def parser():
    if _p[0] is None:
        common.load_repo()
        import hotxlfp
        p = hotxlfp.Parser()

        def on_range(start, end, setter):
            setter(_rangeval.get((start.label, end.label)))
        p.on('callRangeValue', on_range)
        # xvia cell: the lookup value as the value of cell Z9 answered by the host's listener (0, FALSE and '' are values)
        p.on('callCellValue', lambda cell, setter: setter(_cellval.get(cell.label)))
        _p[0] = p
    return _p[0]


_cellval = {}


def _mod():
    common.load_repo()
    from hotxlfp.formulas import lookupandreference
    return lookupandreference


# --------------------------------------------------------------------------- data

NUMPOOL = [7, -3, 0, 12, 0.5, -2.25, 100, 41, 5, -8, 19, 1.75, 64, 33, -1, 2, 90, 27, -0.125, 58]


def num_fill(n):
    """n pairwise distinct numbers (0, negatives and dyadic fractions among them)"""
    out = list(NUMPOOL[:n])
    k = 200
    while len(out) < n:
        out.append(k)
        k += 3
    return out


def text_fill(n):
    """n pairwise distinct texts, distinct even ignoring case, longer than one character"""
    base = ['abc', 'De', 'xyz', 'Hello', 'k9', 'two words', 'QQ', 'mm-1']
    return [(base[i % len(base)] + ('' if i < len(base) else str(i))) for i in range(n)]


def make_array(rows, cols, kind):
    """rows = 0 -> flat list of `cols` items"""
    n = max(rows, 1) * cols
    vals = num_fill(n) if kind == 'num' else text_fill(n)
    if rows == 0:
        return vals
    return [vals[i * cols:(i + 1) * cols] for i in range(rows)]


def shape(a):
    """(rows, cols); rows = 0 for a flat list"""
    if a and isinstance(a[0], list):
        return len(a), len(a[0])
    return 0, len(a)


def col_label(i):
    return 'ABCDEFGHIJ'[i]


def lit_value(v):
    if isinstance(v, bool):
        return 'TRUE' if v else 'FALSE'
    if isinstance(v, int):
        return str(v)
    if isinstance(v, float):
        s = repr(v)
        assert 'e' not in s and 'n' not in s
        return s
    if isinstance(v, str):
        if '"' not in v:
            return '"' + v + '"'
        assert "'" not in v
        return "'" + v + "'"
    raise ValueError(v)


def litable(vals):
    """can these scalars be written as literals that read back as the same values?"""
    for v in vals:
        if isinstance(v, float) and (str(v) == '-0.0' or 'e' in repr(v)):
            return False
        if isinstance(v, str) and '"' in v:
            return False
    return True


def lit_array(a, sep=','):
    rows, cols = shape(a)
    if rows == 0:
        return '{' + sep.join(lit_value(v) for v in a) + '}'
    assert rows == 2 and cols >= 2
    return '{' + ','.join(lit_value(v) for v in a[0]) + ';' + ','.join(lit_value(v) for v in a[1]) + '}'


def array_term(c):
    """(text of the array operand, variables, ranges)"""
    a = c['arr']
    src = c.get('src', 'var')
    if src == 'var':
        return 'A', {'A': a}, {}
    if src == 'lit':
        return lit_array(a, c.get('sep', ',')), {}, {}
    rows, cols = shape(a)
    if rows == 0:
        end = 'A%d' % max(cols, 1)
    else:
        end = '%s%d' % (col_label(cols - 1), rows)
    return 'A1:' + end, {}, {('A1', end): a}


def spec_text(s):
    if isinstance(s, dict):
        return s['raw']
    if s in ('omit', 'blank'):
        return ''
    return str(s)


def formula_of(c):
    """-> (formula, variables, ranges)"""
    k = c['kind']
    if k == 'choose':
        # a value that is an array is written as an array literal, or (src var) handed over in a variable
        vs, parts = {}, []
        for j, v in enumerate(c['vals']):
            if isinstance(v, list):
                if c.get('src') == 'var':
                    vs['W%s' % 'abcdefgh'[j]] = v
                    parts.append('W%s' % 'abcdefgh'[j])
                else:
                    parts.append(lit_array(v))
            else:
                parts.append(lit_value(v))
        return 'CHOOSE(' + ','.join([spec_text(c['i'])] + parts) + ')', vs, {}
    at, vs, rs = array_term(c)
    sp = c.get('asep', ',')          # the separator the call's arguments are written with
    if k == 'index':
        r, cc = c['r'], c['c']
        if cc == 'omit':
            if r == 'omit':
                f = 'INDEX(%s)' % at
            else:
                f = 'INDEX(%s%s%s)' % (at, sp, spec_text(r))
        else:
            f = 'INDEX(%s%s%s%s%s)' % (at, sp, spec_text(r), sp, spec_text(cc))
        return f, vs, rs
    x = c['x']
    if c.get('xvia') == 'cell':
        xt = 'Z9'
        _cellval['Z9'] = x
    elif c.get('src', 'var') == 'lit':
        xt = lit_value(x)
    else:
        xt = 'X'
        vs = dict(vs)
        vs['X'] = x
    if k == 'match':
        if c['t'] == 'omit':
            return 'MATCH(%s%s%s)' % (xt, sp, at), vs, rs
        return 'MATCH(%s%s%s%s%s)' % (xt, sp, at, sp, c['t']), vs, rs
    if k == 'im':
        return 'INDEX(%s%sMATCH(%s%s%s%s0))' % (at, sp, xt, sp, at, sp), vs, rs
    raise ValueError(k)


# --------------------------------------------------------------------------- cases

# evaluated before a wildcard MATCH, on the same array and text (array, text)
PRE_FORMS = ['COUNTIF(@A,@X)', 'SUMIF(@A,@X)', 'COUNTIFS(@A,@X)', 'AVERAGEIF(@A,@X)', 'MATCH(UPPER(@X),@A,0)', 'MATCH(LOWER(@X),@A,0)']

def index_sweep(a, src='var', sep=','):
    rows, cols = shape(a)
    out = []

    def add(r, c):
        d = {'kind': 'index', 'src': src, 'arr': a, 'r': r, 'c': c}
        if src == 'lit':
            d['sep'] = sep
        out.append(d)
    top_r = (rows if rows else cols) + 10
    top_c = cols + 10
    for r in range(-10, top_r + 1):
        add(r, 'omit')
        add(r, 'blank')
        for c in range(-10, top_c + 1):
            add(r, c)
    for c in range(-10, top_c + 1):
        add('blank', c)
    add('omit', 'omit')
    add('blank', 'omit')
    add('blank', 'blank')
    return out


ODD_SPECS = [{'raw': 'TRUE'}, {'raw': 'FALSE'}, {'raw': '"2"'}, {'raw': '"1.0"'}, {'raw': '4/2'}, {'raw': '1.5'}, {'raw': '"x"'},
             {'raw': '1/0'}, {'raw': '0.0'}, {'raw': '-0.5'}, {'raw': '""'}, {'raw': '2^1'}, {'raw': '" 1 "'}]

ODD_DENOTES = {'TRUE': 1, '"2"': 2, '4/2': 2, '2^1': 2, '"1.0"': 1, '" 1 "': 1, '1.5': 1}

MATCH_ALPHABET = [-2, -0.5, 0, 1, 3]
MATCH_X = [-3, -2, -1, -0.5, -0.25, 0, 0.5, 1, 2, 3, 4]
WORDS = ['apple', 'Apple', 'APRICOT', 'banana', 'Band', 'b', 'abc', 'abd', 'a-c', 'xyz', 'Hello World', 'hello', 'k9', '', 'zz top']
PATTERNS = ['a*', 'A*', '*a', '?', '??', 'ab?', 'a?c', '*', 'b*a', 'B?ND', '*an*', 'h*o w*', 'x?', '?9', 'a*c', '*z*p', 'q*', '???', 'ap*t',
            'a**e', '*?', '?*', 'banana?', 'HELLO', 'aPPle', 'nothing']


def cases(rng, ctx):
    thorough = ctx['tier'] == 'thorough'
    scale = ctx['scale']
    out = []

    # ---- CHOOSE
    ns = list(range(1, 9)) + [253, 254, 255, 256]
    for n in ns:
        for kind in ('num', 'text'):
            vals = make_array(0, n, kind)
            if n > 8:
                idxs = list(range(-3, 4)) + list(range(250, 262))
            else:
                idxs = list(range(-10, n + 11))
            for i in idxs:
                out.append({'kind': 'choose', 'vals': vals, 'i': i})
    for sp in ODD_SPECS + [{'raw': ''}]:
        out.append({'kind': 'choose', 'vals': make_array(0, 3, 'num'), 'i': sp})
    out.append({'kind': 'choose', 'vals': [], 'i': 1})
    # values that are arrays are chosen whole: CHOOSE(i, {v1..vm}) has ONE value (i = 1 addresses it, every other i is an error)
    for shp in [(0, 1), (0, 2), (0, 3), (0, 5), (2, 2), (2, 3)]:
        for kind in ('num', 'text'):
            a = make_array(shp[0], shp[1], kind)
            for src in ('lit', 'var'):
                for i in range(-2, shp[1] + 4):
                    out.append({'kind': 'choose', 'vals': [a], 'i': i, 'src': src})
                b = make_array(0, 2, kind)
                for i in range(0, 5):
                    out.append({'kind': 'choose', 'vals': [a, 7, b], 'i': i, 'src': src})

    # ---- INDEX, complete index sweeps on variables
    if thorough:
        shapes = [(0, n) for n in range(1, 9)] + [(r, c) for r in range(1, 9) for c in range(1, 9)]
        kinds_of = lambda i: ['num', 'text']
    else:
        shapes = [(0, 1), (0, 3), (0, 8), (1, 1), (2, 3), (3, 2), (1, 8), (8, 1), (8, 8)]
        for _ in range(2 * scale):
            shapes.append((rng.randrange(0, 9), rng.randrange(1, 9)))
        kinds_of = lambda i: ['num', 'text'] if i < 3 else [['num', 'text'][i % 2]]
    for i, (r, c) in enumerate(shapes):
        for kind in kinds_of(i):
            out += index_sweep(make_array(r, c, kind))
    # literals and ranges: seeded index pairs (complete sweeps for a few small ones)
    lit_shapes = [(0, n) for n in range(1, 9)] + [(2, c) for c in range(2, 9)]   # {a;b} is a flat list
    per = (60 if thorough else 12) * scale
    for (r, c) in lit_shapes:
        for kind in ('num', 'text'):
            a = make_array(r, c, kind)
            sw = index_sweep(a, 'lit', ';' if (r == 0 and c % 2 == 0) else ',')
            out += sw if (thorough and c <= 3) or (r, c) in ((0, 3), (2, 2)) else rng.sample(sw, min(per, len(sw)))
    rg_shapes = [(r, c) for r in range(0, 9) for c in range(1, 9)]
    if not thorough:
        rg_shapes = [(0, 4), (1, 1), (1, 5), (5, 1), (3, 4), (8, 8)] + rng.sample(rg_shapes, 4 * scale)
    for (r, c) in rg_shapes:
        kind = rng.choice(['num', 'text'])
        sw = index_sweep(make_array(r, c, kind), 'range')
        out += sw if (r, c) in ((0, 4), (3, 4)) else rng.sample(sw, min(per, len(sw)))
    # odd index spellings
    for a in (make_array(0, 3, 'num'), make_array(0, 3, 'text'), make_array(2, 3, 'num'), make_array(3, 2, 'text')):
        for sp in ODD_SPECS:
            for other in ('omit', 'blank', 1, 2, 0):
                out.append({'kind': 'index', 'src': 'var', 'arr': a, 'r': sp, 'c': other})
                if other != 'omit':
                    out.append({'kind': 'index', 'src': 'var', 'arr': a, 'r': other, 'c': sp})
    # a scalar in the place of the array
    for v in (5, 'abc'):
        for r in range(-2, 4):
            for c in ['omit'] + list(range(-2, 4)):
                out.append({'kind': 'index', 'src': 'var', 'arr': v, 'r': r, 'c': c})

    # ---- MATCH types 1 / -1: all sorted arrays over the alphabet
    maxlen = 7 if thorough else 4
    for n in range(0, maxlen + 1):
        for combo in itertools.combinations_with_replacement(MATCH_ALPHABET, n):
            asc = list(combo)
            for x in MATCH_X:
                out.append({'kind': 'match', 'src': 'var', 'arr': asc, 'x': x, 't': 1})
                out.append({'kind': 'match', 'src': 'var', 'arr': asc[::-1], 'x': x, 't': -1})
                if n <= 2:
                    out.append({'kind': 'match', 'src': 'var', 'arr': asc, 'x': x, 't': 'omit'})
    zeros = [0, 0.0, -0.0]
    for _ in range((3000 if thorough else 300) * scale):
        n = rng.randrange(1, 13)
        pool = rng.choice([[-2, -1, 0, 1, 2], [0, 1], [-1, 0], [-5, -2.5, 0, 0.25, 3, 10], list(range(-6, 7))])
        arr = sorted(rng.choice(pool) for _ in range(n))
        arr = [rng.choice(zeros) if v == 0 else (float(v) if rng.random() < 0.2 else v) for v in arr]
        x = rng.choice(pool + [min(pool) - 1, max(pool) + 1, rng.choice(pool) + 0.5])
        t = rng.choice([1, -1, 1, -1, 'omit'])
        src = 'lit' if rng.random() < 0.3 and litable(arr + [x]) else 'var'
        if t == -1:
            arr = arr[::-1]
        out.append({'kind': 'match', 'src': src, 'arr': arr, 'x': x, 't': t})
    # sorted lower-case text (with the empty text)
    lows = ['', 'a', 'ab', 'abc', 'b', 'ba', 'k', 'zz']
    for _ in range((600 if thorough else 120) * scale):
        n = rng.randrange(1, 7)
        arr = sorted(rng.choice(lows) for _ in range(n))
        x = rng.choice(lows + ['aa', 'c', 'zzz', 'a '])
        t = rng.choice([1, -1])
        if t == -1:
            arr = arr[::-1]
        out.append({'kind': 'match', 'src': rng.choice(['var', 'lit', 'range']), 'arr': arr, 'x': x, 't': t})
    # unsorted / mixed (model comparison; the oracle judges type 0 on pure arrays, else only excludes nonsense results)
    for _ in range((1500 if thorough else 200) * scale):
        n = rng.randrange(0, 9)
        pool = rng.choice([[-2, -1, 0, 1, 2, 0.5], [0, 1, 'a', ''], ['a', 'B', 'c', '', 3], [0, 0.0, '', 5, -5]])
        arr = [rng.choice(pool) for _ in range(n)]
        x = rng.choice(pool + [7, 'zz'])
        out.append({'kind': 'match', 'src': 'var', 'arr': arr, 'x': x, 't': rng.choice([1, -1, 0, 'omit', 2, '"0"', 'TRUE', '1.0'])})

    # ---- MATCH type 0, numbers
    for _ in range((2500 if thorough else 300) * scale):
        n = rng.randrange(1, 10)
        pool = rng.choice([[1, 2, 3], [0, 1, -1, 0.5, 2.0], list(range(-4, 5)), [10, 20, 30, 40, 50, 60]])
        arr = [rng.choice(pool) for _ in range(n)]
        arr = [float(v) if (isinstance(v, int) and rng.random() < 0.15) else v for v in arr]
        x = rng.choice(pool + [99, -99, 0.25])
        if rng.random() < 0.2 and isinstance(x, int):
            x = float(x)
        src = rng.choice(['var', 'var', 'lit', 'range'])
        out.append({'kind': 'match', 'src': src, 'arr': arr, 'x': x, 't': 0})
        if x in arr:
            out.append({'kind': 'im', 'src': src, 'arr': arr, 'x': x})
    # ---- MATCH type 0, text with wildcards
    for _ in range((4000 if thorough else 500) * scale):
        n = rng.randrange(1, 9)
        arr = [rng.choice(WORDS) for _ in range(n)]
        r = rng.random()
        if r < 0.35:
            x = rng.choice(arr)
            x = rng.choice([x, x.upper(), x.lower(), x.swapcase()])
        elif r < 0.6:
            w = list(rng.choice(arr))
            for _ in range(rng.randrange(1, 3)):
                if w:
                    i = rng.randrange(len(w))
                    j = rng.randrange(i, len(w) + 1)
                    if rng.random() < 0.5:
                        w[i:j] = ['*']
                    else:
                        w[i] = '?'
            x = ''.join(w)
            if rng.random() < 0.3:
                x = x.upper()
        else:
            x = rng.choice(PATTERNS + WORDS)
        src = rng.choice(['var', 'var', 'lit', 'range'])
        d = {'kind': 'match', 'src': src, 'arr': arr, 'x': x, 't': 0}
        if rng.random() < 0.4:
            # the same text first serves as the criterion of a criteria function (which matches wildcards
            # case-sensitively), or as a lookup value in another letter case, in the same process
            d['pre'] = rng.choice(PRE_FORMS)
        out.append(d)
    out.append({'kind': 'match', 'src': 'lit', 'arr': ['Banana', 'Apple', 'apricot'], 'x': 'ap*', 't': 0, 'pre': 'COUNTIF(@A,@X)'})
    for w in WORDS:
        arr = WORDS[:]
        rng.shuffle(arr)
        out.append({'kind': 'im', 'src': 'var', 'arr': arr, 'x': w})
        out.append({'kind': 'im', 'src': 'lit', 'arr': arr, 'x': w.swapcase()})
    for kind in ('num', 'text'):
        for n in range(1, 9):
            a = make_array(0, n, kind)
            for x in a:
                out.append({'kind': 'im', 'src': rng.choice(['var', 'lit', 'range']), 'arr': a, 'x': x})
                out.append({'kind': 'match', 'src': 'var', 'arr': a, 'x': x, 't': 0})
    # text in numbers, numbers in text, two-dimensional / empty lookup arrays, logicals (mostly model comparison)
    for x, arr in [('a', [1, 2]), (1, ['a', 'b']), ('1', [1]), (1, ['1']), (1, [[1, 2], [3, 4]]), ('a', [['a']]), (0, []), ('', []),
                   ('a', []), (5, []), (True, [1, 2]), (1, [True])]:
        for t in (0, 1, -1):
            out.append({'kind': 'match', 'src': 'var', 'arr': arr, 'x': x, 't': t})

    # ---- the same calls written with ';' or '\\' between the arguments (an omitted row or column is then an empty slot between
    #      two of those): every fifth INDEX case with a blank slot, every twentieth other formula case
    extra = []
    for i, c in enumerate(out):
        if c['kind'] not in ('index', 'match', 'im') or c.get('pre'):
            continue
        if c.get('src') == 'lit' and c.get('sep', ',') != ',':
            continue
        blank = c['kind'] == 'index' and 'blank' in (c['r'], c['c'])
        if (blank and i % 5 == 0) or (not blank and i % 20 == 0):
            d = dict(c)
            d['asep'] = rng.choice([';', '\\'])
            if d.get('src') == 'lit':
                # a literal keeps a separator of its own kind: commas inside, ';' or '\\' between the arguments
                if shape(d['arr'])[0]:
                    continue
            extra.append(d)
    out += extra
    for arr, r, cc in [([[1, 2, 3], [4, 5, 6], [7, 8, 9]], 'blank', 2), ([[1, 2, 3], [4, 5, 6]], 'blank', 3), ([[1, 2, 3], [4, 5, 6], [7, 8, 9]], 2, 'blank')]:
        for sp in (',', ';', '\\'):
            for src in ('var', 'range'):
                out.append({'kind': 'index', 'src': src, 'arr': arr, 'r': r, 'c': cc, 'asep': sp})
    # ---- texts whose own first or last character is a quote character, and texts that begin with '#' (colour codes, ticket
    #      numbers): they are the elements they are, written in the formula or handed over by the host
    for arr in (["5'", "6'", "7'"], ["'80s", "'90s", "'00s"], ['say "hi"', 'bye', '"quoted"'], ['#FF0000', '#00FF00', '#0000FF'],
                ['#1', '#42', '#N/A!', '#n/a'], ["it's", "'", "''a"]):
        for i, x in enumerate(arr):
            for src in ('var', 'lit'):
                out.append({'kind': 'match', 'src': src, 'arr': arr, 'x': x, 't': 0})
                out.append({'kind': 'im', 'src': src, 'arr': arr, 'x': x})
                out.append({'kind': 'index', 'src': src, 'arr': arr, 'r': i + 1, 'c': 'omit', 'sep': ','})
            out.append({'kind': 'choose', 'vals': arr, 'i': i + 1})
    # ---- the lookup value as the value of a cell answered by the host's listener: a zero, FALSE or an empty text is the value it is
    for arr in ([0, 1, 2], [5, 0, 7], ['', 'a', 'b'], ['x', '', 'y'], [False, True], [0.0, 1.5]):
        for x in arr:
            out.append({'kind': 'match', 'src': 'var', 'arr': arr, 'x': x, 't': 0, 'xvia': 'cell'})
            out.append({'kind': 'im', 'src': 'var', 'arr': arr, 'x': x, 'xvia': 'cell'})
    # ---- whole numbers beyond 2^53 (ids): written in the formula or handed over by the host, they are themselves
    B = 2 ** 53
    ids = [B - 9, B - 8, B + 1, B + 3, 9999999999999999, 12345678901234567]
    for x in ids:
        for src in ('var', 'lit'):
            out.append({'kind': 'match', 'src': src, 'arr': ids, 'x': x, 't': 0})
            out.append({'kind': 'im', 'src': src, 'arr': ids, 'x': x})
    for i in range(1, len(ids) + 1):
        out.append({'kind': 'index', 'src': 'lit', 'arr': ids, 'r': i, 'c': 'omit', 'sep': ','})
        out.append({'kind': 'choose', 'vals': ids, 'i': i})

    # ---- direct calls on odd arguments (model comparison only)
    vals = [None, True, False, 0, 1, 2, -1, 1.5, 2.0, '1', '2', 'abc', '', [], [1, 2, 3], ['abc', 'de'], [[1, 2], [3, 4]],
            [[1, 2], 'xyz'], [[1], [2, 3]], ['xyz', [1, 2]], [None, 1], [[]], 3, 0.0, 'A*']
    for _ in range((6000 if thorough else 800) * scale):
        name = rng.choice(['INDEX', 'MATCH', 'CHOOSE'])
        k = rng.choice([0, 1, 2, 2, 3, 3, 3, 4, 5]) if name != 'CHOOSE' else rng.randrange(0, 6)
        out.append({'kind': 'fn', 'name': name, 'args': [rng.choice(vals) for _ in range(k)]})
    return out


# --------------------------------------------------------------------------- running

def request(c):
    if c['kind'] == 'fn':
        return 'fn %s %s' % (enc_str(c['name']), ' '.join(fx.to_wire(v) for v in c['args']))
    f, vs, rs = formula_of(c)
    cells = {'Z9': c['x']} if c.get('xvia') == 'cell' else None
    return 'eval %s %s' % (enc_str(f), fx.env_wire(variables=vs, ranges=rs, cells=cells))


def impl(c):
    if c['kind'] == 'fn':
        from hotxlfp.formulas import error
        fn = getattr(_mod(), c['name'])
        try:
            return ('ok', fn(*c['args']))
        except Exception as e:
            return ('raise', fx.ERR_TAGS.get(str(error.from_message(e)), 'error'))
    f, vs, rs = formula_of(c)
    p = parser()
    for k, v in vs.items():
        p.set_variable(k, v)
    _rangeval.clear()
    _rangeval.update(rs)
    if c.get('pre'):
        at = array_term(c)[0]
        xt = lit_value(c['x']) if c.get('src', 'var') == 'lit' else 'X'
        p.parse(c['pre'].replace('@A', at).replace('@X', xt))
    return p.parse(f)


def agree(c, impl_ans, model_ans):
    m = fx.parse_sexp(model_ans)
    if c['kind'] == 'fn':
        if isinstance(m, list) and m and m[0] == 'raise':
            return impl_ans == ('raise', m[1])
        if impl_ans[0] != 'ok':
            return False
        return fx.value_matches(m, impl_ans[1]) is not False
    return fx.record_matches(m[0], impl_ans) is not False


# --------------------------------------------------------------------------- oracle

def same(a, b):
    """identical Python values: same type, same value (lists item by item)"""
    if isinstance(a, list) or isinstance(b, list):
        return isinstance(a, list) and isinstance(b, list) and len(a) == len(b) and all(same(x, y) for x, y in zip(a, b))
    return type(a) == type(b) and a == b


def is_error(rec):
    return rec['result'] is None and rec['error'] is not None


def is_na(rec):
    return rec['result'] is None and rec['error'] == '#N/A'


def is_value(rec, v):
    return rec['error'] is None and same(rec['result'], v)


def ref_glob(pat, s):
    """reference glob: * = any sequence, ? = any one character (position-set simulation)"""
    states = {0}

    def close(st):
        st = set(st)
        changed = True
        while changed:
            changed = False
            for i in list(st):
                if i < len(pat) and pat[i] == '*' and i + 1 not in st:
                    st.add(i + 1)
                    changed = True
        return st
    states = close(states)
    for ch in s:
        nxt = set()
        for i in states:
            if i < len(pat):
                if pat[i] == '*':
                    nxt.add(i)
                elif pat[i] == '?' or pat[i] == ch:
                    nxt.add(i + 1)
        states = close(nxt)
        if not states:
            return False
    return len(pat) in states


ERR = object()      # "an error record"


def fits(rec, want):
    if want is ERR:
        return is_error(rec)
    return is_value(rec, want)


def norm_spec(s):
    """index spec -> None (omitted / blank) | int | 'odd'"""
    if s in ('omit', 'blank'):
        return None
    if isinstance(s, dict):
        return 'odd'
    return s


def whole_column(a, c):
    col = [row[c - 1] for row in a]
    return [col, [[v] for v in col]]


def index_wants(a, r, c):
    """-> list of acceptable answers (ERR or values) for INDEX(a, r, c), r/c int or None;
    the first entry is the primary reading.  [] = the statement is silent."""
    if r is None and c is None:
        return []
    if (r is not None and r < 0) or (c is not None and c < 0):
        return [ERR]
    if not isinstance(a, list):
        # a scalar is a 1x1 array
        a = [[a]]
    rows, cols = shape(a)
    if rows > 0:
        r0 = r is None or r == 0
        c0 = c is None or c == 0
        if r0 and c0:
            wants = [a]
        elif r0:
            wants = whole_column(a, c) if c <= cols else [ERR]
        elif c0:
            wants = [a[r - 1]] if r <= rows else [ERR]
        else:
            wants = [a[r - 1][c - 1]] if (r <= rows and c <= cols) else [ERR]
        # a single index on a one-row / one-column nested array may also address by position (or fail)
        if (r is None) != (c is None) and (rows == 1 or cols == 1):
            i = r if c is None else c
            flat = a[0] if rows == 1 else [row[0] for row in a]
            if i >= 1:
                wants = wants + ([flat[i - 1]] if i <= len(flat) else []) + [ERR]
        return wants
    n = cols
    if r is None or c is None:
        i = r if c is None else c
        if i == 0:
            return [a]
        return [a[i - 1]] if i <= n else [ERR]
    # both indices on a flat list: one column (primary) or one row
    col_reading = None
    if c in (0, 1):
        if r == 0:
            col_reading = [a, [[v] for v in a], ERR]          # whole column (an error is tolerated)
        else:
            col_reading = [a[r - 1]] if r <= n else [ERR]
    else:
        col_reading = [ERR]
    if col_reading != [ERR]:
        return col_reading
    wants = [ERR]
    if r in (0, 1) and 1 <= c <= n:
        wants.append(a[c - 1])
    return wants


def show_want(w):
    return 'an error' if w is ERR else repr(w)


def oracle(c, rec):
    k = c['kind']
    if k == 'fn':
        return None
    f = formula_of(c)[0]
    if rec['error'] is not None and rec['result'] is not None:
        return '%s: both result and error set: %r' % (f, rec)

    if k == 'choose':
        vals = c['vals']
        i = c['i']
        if isinstance(i, dict):
            # not an integer literal: an error, or the value the denoted integer addresses - nothing else
            k2 = ODD_DENOTES.get(i['raw'])
            ok = is_error(rec) or (k2 is not None and 1 <= k2 <= len(vals) and is_value(rec, vals[k2 - 1]))
            return None if ok else '%s gives %r: neither an error nor the addressed value' % (f, rec)
        n = len(vals)
        if 1 <= i <= n and n <= 254:
            if not is_value(rec, vals[i - 1]):
                return '%s gives %r, expected value number %d = %r' % (f, rec, i, vals[i - 1])
        elif not (1 <= i <= n):
            if not is_error(rec):
                return '%s gives %r, expected an error (index %d outside 1..%d)' % (f, rec, i, n)
        elif not (is_error(rec) or is_value(rec, vals[i - 1])):
            return '%s gives %r: neither an error nor value number %d' % (f, rec, i)
        return None

    if k == 'index':
        a = c['arr']
        r, cc = norm_spec(c['r']), norm_spec(c['c'])
        if r == 'odd' or cc == 'odd':
            # odd spellings: an error or one of the elements / rows / columns / the array - never anything else
            if is_error(rec):
                return None
            cands = [a]
            if isinstance(a, list):
                cands += a
                if shape(a)[0] > 0:
                    cands += [v for row in a for v in row]
                    cands += [[row[j] for row in a] for j in range(shape(a)[1])]
            if any(is_value(rec, v) for v in cands):
                return None
            return '%s gives %r: neither an error nor a part of the array' % (f, rec)
        wants = index_wants(a, r, cc)
        if not wants:
            return None
        if any(fits(rec, w) for w in wants):
            return None
        return '%s on %r gives %r, expected %s' % (f, a, rec, ' or '.join(show_want(w) for w in wants))

    if k == 'match':
        arr, x, t = c['arr'], c['x'], c['t']
        if t == 'omit':
            t = 1
        if t not in (0, 1, -1):
            return None
        flat = isinstance(arr, list) and all(not isinstance(v, list) for v in arr)
        if not flat:
            return None
        nums = all(isinstance(v, (int, float)) and not isinstance(v, bool) for v in arr)
        texts = all(isinstance(v, str) for v in arr)
        xnum = isinstance(x, (int, float)) and not isinstance(x, bool)
        xtext = isinstance(x, str)
        if not ((nums or texts) and (xnum or xtext)):
            return None
        n = len(arr)
        # whatever happens: an error or a position inside the array
        if not is_error(rec):
            p = rec['result']
            if not (type(p) is int and 1 <= p <= n):
                return '%s on %r, x=%r gives %r: neither an error nor a position 1..%d' % (f, arr, x, rec, n)
        if t == 0:
            if xtext and nums and n > 0:
                return None if is_error(rec) else '%s: text looked up among numbers gives %r' % (f, rec)
            if xtext:
                if '[' in x:
                    return None
                hits = [i for i, v in enumerate(arr) if ref_glob(x.lower(), v.lower())]
            else:
                hits = [i for i, v in enumerate(arr) if not isinstance(v, str) and v == x]
            if hits:
                if not is_value(rec, hits[0] + 1):
                    return '%s on %r, x=%r gives %r, expected the first matching position %d' % (f, arr, x, rec, hits[0] + 1)
            elif not is_na(rec):
                return '%s on %r, x=%r gives %r, expected #N/A (no item matches)' % (f, arr, x, rec)
            return None
        # types 1 / -1: only on arrays sorted the right way, items and lookup value of one kind
        if (nums and not xnum) or (texts and not xtext):
            return None
        if texts and any(v != v.lower() or any(ord(ch) > 127 for ch in v) for v in arr + [x]):
            return None
        if t == 1:
            sorted_ok = all(arr[i] <= arr[i + 1] for i in range(n - 1))
            cand = [v for v in arr if v <= x]
            best = max(cand) if cand else None
            what = 'the largest item <= x'
        else:
            sorted_ok = all(arr[i] >= arr[i + 1] for i in range(n - 1))
            cand = [v for v in arr if v >= x]
            best = min(cand) if cand else None
            what = 'the smallest item >= x'
        if not sorted_ok:
            return None
        if not cand:
            if not is_na(rec):
                return '%s on %r, x=%r gives %r, expected #N/A (%s does not exist)' % (f, arr, x, rec, what)
            return None
        if is_error(rec):
            return '%s on %r, x=%r gives %r, expected a position of %s = %r' % (f, arr, x, rec, what, best)
        if arr[rec['result'] - 1] != best:
            return '%s on %r, x=%r gives position %r holding %r, but %s is %r' % (
                f, arr, x, rec['result'], arr[rec['result'] - 1], what, best)
        return None

    if k == 'im':
        arr, x = c['arr'], c['x']
        if isinstance(x, str):
            if any(ch in x for ch in '*?['):
                return None
            occurs = any(isinstance(v, str) and v.lower() == x.lower() for v in arr)
            if not occurs:
                return None
            ok = rec['error'] is None and isinstance(rec['result'], str) and rec['result'].lower() == x.lower()
        else:
            occurs = any(not isinstance(v, (str, bool)) and v == x for v in arr)
            if not occurs:
                return None
            ok = rec['error'] is None and isinstance(rec['result'], (int, float)) and not isinstance(rec['result'], bool) \
                and rec['result'] == x
        if not ok:
            return '%s on %r, x=%r gives %r, expected x itself (x occurs in the array)' % (f, arr, x, rec)
        return None
    return None


def nontrivial(c, rec):
    k = c['kind']
    if k == 'fn':
        return False
    if k == 'choose':
        return rec['error'] is None
    if k == 'index':
        return rec['error'] is None and rec['result'] is not None and not same(rec['result'], c['arr'])
    return rec['error'] is None


def search(rng, ctx, disagreements):
    c2 = dict(ctx)
    c2['tier'] = 'thorough'
    c2['scale'] = 2
    return [c for c in cases(rng, c2) if c['kind'] != 'fn']


def shrink(c, msg):
    """try smaller arrays of the same kind for INDEX failures"""
    if c['kind'] != 'index' or not isinstance(c['arr'], list):
        return c, msg
    rows, cols = shape(c['arr'])
    kind = 'text' if isinstance((c['arr'][0][0] if rows else c['arr'][0]), str) else 'num'
    best = (c, msg)
    for r2 in ([0] if rows == 0 else range(1, rows + 1)):
        for c2 in range(1, cols + 1):
            if (r2, c2) == (rows, cols):
                continue
            if c.get('src') == 'lit' and (r2 not in (0, 2) or (r2 == 2 and c2 < 2)):
                continue
            d = dict(c)
            d['arr'] = make_array(r2, c2, kind)
            m = oracle(d, impl(d))
            if m:
                return d, m
    return best
