# -*- coding: utf-8 -*-
"""C07 - comparisons form a consistent total order with number < text < logical

A case carries its operands itself (so a replay file is self-describing).  An operand is one of
    {'v': x}                     a Python int / float / str / bool / None injected as a variable
    {'v': x, 'sub': 'sub'|'enum'}  the same int / float / str injected as an instance of a SUBCLASS of its type (_SubInt,
                                 _SubFloat, _SubStr); 'enum' on an int: as a member of an enum.IntEnum (see var_value)
    {'d': [y, m, d, H, M, S, us]}  a naive datetime injected as a variable
    {..., 'via': 'cell'|'fn'}    the same host value (any of the three forms above) reaching the comparison by another ROUTE:
                                 'cell' = answered by the host's callCellValue listener (the formula says A1 for the left,
                                 B1 for the right operand), 'fn' = returned by a host function (GX() left, GY() right)
    {'v': text, 'lit': True}     the text WRITTEN in the formula as a quoted literal (delimited by the quote character it does
                                 not contain) instead of arriving as a variable
    {'e': 'formula text'}        an operand BORN IN THE FORMULA: a number literal or a small computation
                                 (`0.1+0.2`), written in parentheses in the comparison; a plain unsigned literal is worth
                                 the number it spells (digits: that integer; a decimal: the nearest double), any other text
                                 what the real implementation evaluates it to on its own
and a case is {'kind': 'pair', 'a': opnd, 'b': opnd, 'tz': None | POSIX-TZ-string} or
{'kind': 'triple', 'a', 'b', 'c', 'tz'}.  With 'tz' the implementation is run while the PROCESS time zone
(os.environ['TZ'] + time.tzset()) is that zone; the oracle and the model request are the same as without.

A pair is evaluated with all six operators (and `>` with the operands swapped) and judged by the oracle; when both operands
are variables (re-typed, re-routed and quoted-literal texts count as variables here) it is also compared with the Lean model.  A triple is judged for transitivity by the oracle only.
Streams of cases(): the fixed WITNESSES, (1) the general pool, (2) clusters of nearly equal numbers / date-times, (2b) cases of
(1)-(2) with operands re-typed to subclass instances / enum members, (2c) pairs of (1) and cases of (1)-(2b) with operands
re-routed through the cell listener / a host function, (2d) all ordered pairs of 16 texts with one or both written as quoted
literals, (3) the date-related pool and clusters under a process zone.
"""
import contextlib
import datetime
import decimal
import itertools
import json
import math
import os
import time
from fractions import Fraction

from .. import common, fx

ID = 'C07'
LEAN_MODULES = ['HotXL.Props.C07']
FUNCTIONS = ['hotxlfp.formulas.operators:ExcelComparator.__init__', 'hotxlfp.formulas.operators:ExcelComparator.convert_other',
             'hotxlfp.formulas.operators:ExcelComparator.__lt__', 'hotxlfp.formulas.operators:ExcelComparator.__gt__',
             'hotxlfp.formulas.operators:ExcelComparator.__eq__', 'hotxlfp.formulas.operators:ExcelComparator.__ge__',
             'hotxlfp.formulas.operators:ExcelComparator.__le__', 'hotxlfp.formulas.operators:evaluate_logic',
             'hotxlfp.formulas.operators:_both_plain_numbers',
             'hotxlfp.formulas.utils:serialize_date', 'hotxlfp.formulas.utils:parse_date', 'hotxlfp.formulas.utils:epoch_seconds',
             'hotxlfp.grammarparser.parser:FormulaParser.p_expression_logical_operator']
RULE = ('Cases are pairs (all six operators < = > <= >= <> on the two operands, and > with the operands swapped) and triples '
        '(transitivity); an operand is a variable (int, float, str, logical, blank, naive date-time) or is born in the formula (a '
        'number literal or a small computation, in parentheses; a plain unsigned literal is valued independently of the '
        'implementation - digits as that integer, a decimal as the nearest double -, every other text at what the implementation '
        'evaluates it to alone).  First 4 fixed witnesses (`0.3` / `0.30000000000000016` / '
        '`0.30000000000000032` as a pair and a triple; 2021-03-14 02:30 and the number 44269.125 against 2021-03-14 03:15 under '
        'EST5EDT).  '
        '(1) GENERAL POOL of 40 scalars: 11 numbers (ints, negative and fractional numbers, floats equal to ints, 10^12), 15 texts '
        '(empty, one space, numeric-looking, "TRUE", mixed case, prefixes of each other, non-ASCII), TRUE, FALSE, blank, 8 dates and '
        'date-times (Jan, Feb and 1 March 1900, Jan 2020) and 3 host-supplied date-times before 1900 (1899-06-01 12:00, 1850-01-01, '
        '1899-12-31 18:00: negative serials): all 1600 ordered pairs; triples: quick 3000*scale seeded, thorough all '
        '64000.  '
        '(2) NEARLY EQUAL NUMBERS: 12 fixed clusters of 4..7 distinct numbers a few ulps apart (0.3 / 0.1+0.2 / 0.30000000000000016 / '
        '0.30000000000000032 / 0.29999999999999993 and negatives, around 1.0 and -1.0, +-1e15 with ints one apart and floats 0.125 '
        'apart, 1e-15, 123456.789, 0 with -0.0, denormals and 1e-300, +-2^53 with ints and floats one unit apart such as '
        '9007199254740992 / 9007199254740993 / 9007199254740994.0, the date serial 44269.125 with doubles 1 and 8 ulps away and the '
        'date-times 2021-03-14 03:00, 1 us later, 3 us earlier), each once with every member a variable and once with every number '
        'that can be written (ints; floats with 1e-25 < |x| < 1e22, so not 0.0, -0.0, 5e-324, 1e-300) as a positional literal inside '
        'the formula; 9 fixed clusters of 5..7 literals and computations with their values as variables (`0.1+0.2` vs `0.3`, '
        '`0-0.1-0.2`, `9007199254740992+1`, `999999999999999.9+0.1`, `1/3*3`, `1-0.9+0.9`, `0.001*0.000000000001`, `4.35*100` vs '
        '`435`, `1.1*1.1` vs `1.21`, `44269.125` vs its date-time); 5 fixed date-time clusters of 12 (a date-time, the same 1, 3, 6, '
        '10 microseconds, 1 ms and 1 s later, and 5 doubles: its serial rounded, 8 ulps and 2 resolutions either side; at 2021-03-14 '
        '02:30, 2020-01-15 12:00, 1900-01-01, 1900-02-28 23:59:59.999995, 9999-12-31 23:59:58); seeded, with n = 8*scale (quick) / '
        '100 (thorough): n number clusters of 6 or 8 (centre: any magnitude 1e-12..1e16 / a decimal of up to 4 digits with 1..4 '
        'places / an int up to 1e15 / an int 2^53..2^62, either sign; its float and 5 (ints: 4) of the doubles 1, 2, 3, 4, 8, 16 '
        'ulps either side, for ints also c-1, c, c+1; each member that can be written is a literal with probability 0.3), n/2 '
        'clusters of 5 of a computed operand (`p+q`, `p-q`, `p*q` of decimals of 1..3 digits with 1..2 places), the literal of its '
        'exact decimal value, the double of that and 2 of the doubles 1, 2 ulps either side (literal or variable), n/2 date-time '
        'clusters of 10 (as the fixed ones with 4 of the 6 offsets) at seeded date-times (1 in 6 within 1900-01-01..1900-03-02, 1 in '
        '6 within 2080..9992, else March 1900..2078; time of day a multiple of 1/8192 day, whole seconds, or microseconds); per '
        'cluster, duplicates dropped, ALL ordered pairs (an operand against itself included) and ALL ordered triples; plus seeded '
        'pairs (150*scale / 2000) of a cluster member against a pool member (60%) or a member of any cluster, and seeded triples '
        '(300*scale / 3000) of two cluster members and a pool member (50%) or a third cluster member.  '
        '(2b) HOST SUBTYPES: a seeded sample of 400*scale (thorough 4000*scale) of the zone-free cases so far; each variable operand '
        'holding an int, float or str (not a logical, blank, date-time or formula-born operand) is with probability 0.6 replaced by '
        'the same value as an instance of a subclass of int / float / str or (ints, 1 in 3) as a member of an IntEnum; the case is '
        'added when at least one operand was replaced.  '
        '(2c) ROUTES: an operand with key `via` is the same host value not as a variable but answered by the parser\'s '
        'callCellValue listener (via = cell: the formula says A1 for a left, B1 for a right operand) or returned by a host function '
        'without arguments (via = fn: GX() left, GY() right); the harness stores the value for the label / name just before the '
        'evaluation.  For each of the two routes every one of the 1600 ordered pairs of the general pool draws once: 25% the left '
        'operand re-routed that way, 25% the right one, 10% both (the left that way, the right by a seeded one of the two routes), '
        '40% no case (about 960 pairs per route); plus a seeded sample of 300*scale (thorough 3000*scale) of the zone-free cases so '
        'far that have no re-routed operand (re-typed ones of (2b) included), each operand that is not born in the formula re-routed '
        'with probability 0.5 by a seeded route, added when at least one was (pairs and triples; in a triple the route of an operand '
        'is used on whichever side of a comparison it stands; cases with a quoted-literal operand of (2d) are not in this sample).  About 2150 such cases in quick, 4300 in thorough.  '
        '(2d) TEXT LITERALS: 16 texts T (C:\\temp, C:temp, a\\z, az, ab, 50\\%, 50%, it\'s, say "hi", " a", "a ", the empty text, A, a, 10, 9: '
        'backslashes, a quote of either kind, leading and trailing blanks, case, digits), all 256 ordered pairs, each once: 40% the left '
        'operand WRITTEN in the formula as a quoted literal (delimited by " unless the text contains one, then by \') and the right '
        'one the variable y, 30% the right one written and the left the variable x, 30% both written; a written text is worth exactly '
        'the characters between its quotes (a backslash is a character like any other) and is judged by the same oracle as the variable.  '
        '(3) PROCESS TIME ZONE: per zone (quick: EST5EDT,M3.2.0,M11.1.0; thorough: also AEST-10AEDT,M10.1.0,M4.1.0/3 and '
        'CET-1CEST,M3.5.0,M10.5.0/3) a date-related pool of 48: 25 dates and date-times (the 5 of 1900, 1969-12-31 21:00, 1970-01-01, '
        '2020-01-15 00:00 and 12:00, 1 Jan and 1 July 2021 12:00, and for both transition days of the zone in 2021 01:30, 02:00, '
        '02:15, 02:30, 03:00, 03:15 and 02:30 the day before, e.g. 2021-03-14 and 2021-11-07 for EST5EDT), 18 numbers (1 and every '
        'serial of those that is a double), blank, "", "a", TRUE, FALSE: all 2304 pairs once without a zone and once while the '
        'process time zone is that POSIX TZ rule; triples under the zone only (quick 1500*scale seeded, thorough all 110592).  Plus '
        'seeded clusters (4*scale / 40) of 7 under a zone seeded from the three (also in quick): 5 date-times within 00:00..04:59 of '
        'a transition day of a year 1971..2037, one date-time six months away, the number for 01:30 / 03:00 / 04:30 / 07:30 of that '
        'day; and (2*scale / 10) seeded date-time clusters of 10 as in (2) under a seeded zone; all pairs and triples of each.  '
        'About 39900 cases in quick (106900 at scale 5), 554900 in thorough.  '
        'MODEL: a pair whose operands are both variables (re-typed ones are sent as the plain value, re-routed ones and texts written as '
        'quoted literals (2d) as the plain '
        'variable x / y holding the value; with or without zone) is also '
        'answered by the Lean model, the six formulas x<op>y in one request (about 10600 pairs quick, 30100 thorough); all six records '
        'must match (same logical, or same error; a model answer "no opinion" decides nothing); pairs for which the statement accepts '
        'more than one answer (below the resolution of a double serial) are not compared.  Pairs with an operand born in the formula '
        'and all triples are judged by the oracle only; triples containing a blank are not judged.  '
        'When a proof or the correspondence broke and no input failed, search() runs the thorough case list on the oracle alone up '
        'to the first failure.  No time or step budget; each (operator, operands, zone) is evaluated once per run and cached.  '
        'Non-trivial = the operand descriptions are pairwise different (as Python dicts: variables 1, 1.0 and TRUE, or 0, 0.0 and '
        'FALSE, count as the same; a literal, a re-typed, a re-routed or a quoted-literal operand differs from the plain variable of the same value); identical '
        'cases count once.')
TRUSTED = ['Python comparison of int/float/str/bool values (modelled: exact rationals, code-point lexicographic order); the oracle '
           'itself orders by Fraction(value) and by the list of code points',
           'os.environ["TZ"] + time.tzset() is how the process time zone is set (glibc POSIX TZ rules, no tz database needed); the '
           'previous zone is restored after every evaluation, also on exceptions.  The harness\'s own reference (Excel serial of a '
           'naive datetime) is plain timedelta/Fraction arithmetic and never consults the zone; the Lean model has no time zone, so '
           'the same model answer is compared with the implementation\'s answer under every zone',
           'an operand born in the formula that is a computation or a signed literal (`0.1+0.2`, `-0.3`) is given the value '
           'Parser.parse returns for that text alone; a plain unsigned literal (`0.30000000000000016`, `435`) is valued by the '
           'harness itself: int(text) for digits, float(text) - the correctly rounded double - for a decimal; such pairs are judged by the oracle only (the model computes literals and arithmetic in exact decimal rationals, '
           'so it has no opinion on float rounding).  Literals are positional decimals made from repr(x) and checked to read back as '
           'x with float(); neighbouring doubles come from math.nextafter, ulps from math.ulp',
           'variables reach the model as exact values: ints as ints, floats as the rational they hold, text, logicals, blank, '
           'date-times as microseconds since 1900-01-01; an instance of a subclass of int/float/str and an IntEnum member are sent '
           'as the plain value (the model has no host types), so the model answers for the plain value; an operand re-routed '
           'through the cell listener or a host function (2c) is sent as the variable x / y holding the value (the request has '
           'no cell and no function), so the model answers for the variable; likewise a text written as a quoted literal (2d) is '
           'sent as the variable x / y holding the text: the model never sees the quoted spelling, that the literal is worth its '
           'characters is judged by the oracle and through the agreement with that answer',
           'text_literal (2d) delimits by " unless the text contains ", then by \' (asserted not to occur in it): none of the 16 '
           'texts holds both quote characters',
           'routes (2c): the one parser has one callCellValue listener, which answers setter(value stored for the label) - '
           'None, i.e. blank, for a label nothing was stored for -, and the host functions GX / GY, which return the value '
           'stored under their name; the store (_route) is written by ev() just before the parse and never cleared; the '
           'listener and the functions are also present, unused, in every evaluation without a route',
           'one Parser instance serves the whole run (variables x, y set with set_variable before each parse) and answers are cached '
           'per (operator, operands, zone): a comparison whose answer depended on earlier evaluations would be seen only through the '
           'harness\'s fresh-interpreter probe of model disagreements']
ASSUMPTIONS = ['the order is rank first - number (ints, floats, dates and date-times by serial) < text < logical - then value: numbers '
               'by exact value (1 = 1.0), text by code points (case-sensitive, "A" < "a", a prefix before its extensions, "" first), '
               'FALSE < TRUE; a logical never equals a number (TRUE <> 1)',
               'text that spells a number is text for comparison purposes (as in the code and in Excel)',
               '"consistent" is read as: each of the six operators answers a logical (no error); exactly one of <, =, > holds; <= is '
               '"< or =", >= is "> or =", <> is "not ="; a<b holds exactly when b>a does (evaluated with the operands swapped)',
               '"numbers order numerically" is judged EXACTLY (the rational value of the int / double); no tolerance: two doubles one '
               'ulp apart are different numbers, and an int beyond 2^53 differs from the nearest double unless equal to it',
               '"dates (by serial)": the order of the exact Excel-1900 serials (days since 1899-12-30, one less before 1 March 1900 - '
               'no 29 Feb 1900 -, and 1900-01-01T00:00 itself = 0, as in the code; so 1900-01-01 12:00 = 1.5; a date-time before 1900, '
               'which only a host can supply, has the negative serial the same rule gives and orders as that number).  The code holds a '
               'serial in a double computed from milliseconds since 1970: when a date-time whose exact serial is NOT a double is '
               'compared with a different number or date-time closer than max(4 ulp of the larger magnitude, 2.5 microseconds), then '
               'against another date-time "=" is accepted besides the exact answer (never the inverted order), and against a number '
               '(or a blank, read as 0) any of <, =, > is accepted (the double serial may fall on either side); the consistency of '
               'the six operators is still demanded.  Everything else, including a date-time with a representable serial against '
               'the doubles next to it, is exact',
               'a blank compares as 0 against a number or date-time, as "" against text, as FALSE against a logical, and equals a '
               'blank (pairs only)',
               'a host value that is an instance of a subclass of int, float or str, or a member of an IntEnum, is that number / '
               'text: it must compare exactly as the plain value does',
               'the route does not matter: a host value answered by the cell listener or returned by a host function is the '
               'same operand as that value held by a variable (an empty text stays an empty text, a logical a logical, a blank '
               'a blank) and is judged by the same oracle with the same expected answers',
               'a text written in the formula as a quoted literal is the text between its quotes, character for character (C05: no '
               'escape sequences, a backslash, the other quote and blanks are ordinary characters, no trimming or case folding), and '
               'compares exactly as that text held by a variable does',
               'transitivity is demanded of <, >, =, <= and >= on non-blank values, across ranks and without any tolerance (also '
               'below the resolution of a serial): <= is exactly "< or =" of a total order, so it is transitive whenever the '
               'statement holds; <> is not transitive and is not tested in triples']
EXHAUSTIVE = {'quick': False, 'thorough': True}

D = datetime.datetime
TD = datetime.timedelta
CMPS = ['<', '=', '>', '<=', '>=', '<>']
TRANS = ['<', '<=', '=', '>=', '>']
TZ_MAIN = 'EST5EDT,M3.2.0,M11.1.0'
TZS = [TZ_MAIN, 'AEST-10AEDT,M10.1.0,M4.1.0/3', 'CET-1CEST,M3.5.0,M10.5.0/3']
US_DAY = 86400 * 10 ** 6


# --------------------------------------------------------------------------- operands

def V(x):
    if isinstance(x, datetime.datetime):
        return {'d': [x.year, x.month, x.day, x.hour, x.minute, x.second, x.microsecond]}
    return {'v': x}


def E(text):
    return {'e': text}


def okey(o):
    return json.dumps(o, sort_keys=True)


class _SubInt(int):
    """a host number type derived from int (an id type, a unit type)"""


class _SubFloat(float):
    """a host number type derived from float (numpy.float64 is one)"""


class _SubStr(str):
    """a host text type derived from str"""


def var_value(o):
    if 'd' in o:
        return D(*o['d'])
    v = o['v']
    sub = o.get('sub')
    if sub is None or isinstance(v, bool) or v is None:
        return v
    # the same value as an instance of a SUBCLASS of its type: it is that number / text all the same
    if isinstance(v, int):
        if sub == 'enum':
            import enum
            return enum.IntEnum('Code', {'MEMBER': v}).MEMBER
        return _SubInt(v)
    if isinstance(v, float):
        return _SubFloat(v)
    if isinstance(v, str):
        return _SubStr(v)
    return v


def step(x, k):
    """the double k ulps above (k>0) / below (k<0) x"""
    x = float(x)
    for _ in range(abs(k)):
        x = math.nextafter(x, math.inf if k > 0 else -math.inf)
    return x


def lit(x):
    """formula text of a number literal that reads back as exactly x (no exponent form: the lexer has none)"""
    if isinstance(x, int):
        return str(x)
    s = format(decimal.Decimal(repr(x)), 'f')
    if '.' not in s:
        s += '.0'
    assert float(s) == x, (x, s)
    return s


def writable(x):
    return isinstance(x, int) or (x == x and 1e-25 < abs(x) < 1e22)


# --------------------------------------------------------------------------- the statement's reference order

def ref_serial(d):
    """exact Excel-1900 serial of a naive datetime (as C13 states it); pure timedelta arithmetic, no time zone"""
    if d == D(1900, 1, 1):
        return Fraction(0)
    delta = d - D(1899, 12, 30)
    s = Fraction(delta.days) + Fraction(delta.seconds * 1000000 + delta.microseconds, US_DAY)
    if d < D(1900, 3, 1):
        s -= 1
    return s


def representable(q):
    return Fraction(float(q)) == q


def key(v):
    """the order the statement describes: key = (rank, value)"""
    if isinstance(v, bool):
        return (2, int(v))
    if isinstance(v, (int, float)):
        return (0, Fraction(v))
    if isinstance(v, datetime.datetime):
        return (0, ref_serial(v))
    if isinstance(v, str):
        return (1, [ord(ch) for ch in v])
    raise ValueError(v)


def fuzzy(v):
    """a date-time whose exact serial is not a double"""
    return isinstance(v, datetime.datetime) and not representable(ref_serial(v))


def resolution(q):
    return max(4 * Fraction(math.ulp(float(q))), Fraction(5, 2 * US_DAY))


def as_like(blank_other):
    """a blank compares as 0, as empty text or as FALSE according to the other operand"""
    o = blank_other
    if o is None:
        return None
    if isinstance(o, bool):
        return False
    if isinstance(o, str):
        return ''
    return 0


# --------------------------------------------------------------------------- pools and clusters

def pool():
    return [0, 1, -1, 2, -7, 10 ** 12, 0.5, -2.25, 2.0, 1e-3, 0.0,
            '', 'a', 'A', 'ab', 'b', '1', '10', '2', '-1', ' ', 'TRUE', 'é', 'z', 'abc', 'abd',
            True, False, None,
            D(1900, 1, 1), D(1900, 1, 2), D(1900, 2, 28), D(1900, 3, 1), D(2020, 1, 15), D(2020, 1, 15, 12, 0), D(2020, 1, 16),
            D(1900, 1, 1, 12, 0),
            # date-times before the base day (host-supplied: DATE() cannot build them): their serials are negative numbers
            D(1899, 6, 1, 12, 0), D(1850, 1, 1), D(1899, 12, 31, 18, 0)]


def fixed_number_clusters():
    """distinct numbers a few ulps apart, as Python values"""
    p53 = 2 ** 53
    s3 = 44269.125     # serial of 2021-03-14 03:00
    return [
        [0.3, 0.1 + 0.2, 0.30000000000000016, 0.30000000000000032, 0.29999999999999993],
        [-0.3, -(0.1 + 0.2), -0.30000000000000016, -0.30000000000000032],
        [1, 1.0, step(1.0, -1), step(1.0, 1), step(1.0, 2), step(1.0, 4)],
        [-1, step(-1.0, 1), step(-1.0, -1), step(-1.0, -3)],
        [10 ** 15, 1e15, 1e15 + 0.125, 1e15 + 0.25, 1e15 - 0.125, 10 ** 15 + 1, 10 ** 15 - 1],
        [-10 ** 15, -1e15 - 0.125, -1e15 + 0.125, -10 ** 15 - 1, -1e15 - 0.5],
        [1e-15, step(1e-15, 1), step(1e-15, 2), step(1e-15, -1), step(1e-15, 5)],
        [p53, p53 + 1, float(p53), float(p53) + 2, p53 - 1, p53 + 2, float(p53 - 1)],
        [-p53, -p53 - 1, -float(p53) - 2, -p53 + 1, -float(p53)],
        [0, -0.0, 5e-324, -5e-324, 1e-300, -1e-300, 1e-15],
        [123456.789, step(123456.789, 1), step(123456.789, 2), step(123456.789, 3), step(123456.789, -1)],
        [s3, step(s3, 1), step(s3, -1), step(s3, 8), D(2021, 3, 14, 3, 0), D(2021, 3, 14, 3, 0, 0, 1), D(2021, 3, 14, 2, 59, 59, 999997)],
    ]


def fixed_formula_clusters():
    """the same classes with the operands born in the formula (literals and computations)"""
    return [
        [E('0.3'), E('0.1+0.2'), E('0.30000000000000016'), E('0.30000000000000032'), V(0.3), V(0.1 + 0.2)],
        [E('-0.3'), E('0-0.1-0.2'), E('-0.30000000000000016'), E('-0.30000000000000032'), V(-0.3)],
        [E('9007199254740992'), E('9007199254740993'), E('9007199254740992.0'), E('9007199254740993.0'), E('9007199254740994.0'),
         E('9007199254740992+1'), V(float(2 ** 53))],
        [E('1000000000000000'), E('1000000000000000.1'), E('1000000000000000.25'), E('1000000000000001'), E('999999999999999.9'),
         E('999999999999999.9+0.1')],
        [E('1'), E('1.0000000000000002'), E('0.9999999999999999'), E('1/3*3'), E('1.0000000000000004'), E('1-0.9+0.9'), V(1.0)],
        [E('0.000000000000001'), E(lit(step(1e-15, 1))), E(lit(step(1e-15, 2))), E('0.001*0.000000000001'), V(1e-15)],
        [E('4.35*100'), E('435'), E('434.99999999999994'), E('435.00000000000006'), V(435.0)],
        [E('1.1*1.1'), E('1.21'), E('1.2100000000000002'), E('1.2100000000000004'), V(1.21)],
        [E('44269.125'), E(lit(step(44269.125, 1))), E(lit(step(44269.125, -2))), V(D(2021, 3, 14, 3, 0)), V(44269.125)],
    ]


def random_number_cluster(rng):
    k = rng.randrange(4)
    if k == 0:        # any magnitude
        c = rng.choice([-1, 1]) * rng.uniform(1, 10) * 10.0 ** rng.randint(-12, 15)
    elif k == 1:      # short decimals (what a user types)
        c = rng.choice([-1, 1]) * rng.randint(1, 9999) / 10.0 ** rng.randint(1, 4)
    elif k == 2:      # whole numbers below 2^53: int and float forms
        c = rng.choice([-1, 1]) * rng.randint(1, 10 ** rng.randint(1, 15))
    else:             # whole numbers beyond 2^53: ints one apart, floats several apart
        c = rng.choice([-1, 1]) * rng.randrange(2 ** 53, 2 ** 62)
    vals = []
    if isinstance(c, int):
        vals += [c, c + 1, c - 1]
    f = float(c)
    vals.append(f)
    for u in rng.sample([-16, -8, -4, -3, -2, -1, 1, 2, 3, 4, 8, 16], 4 if isinstance(c, int) else 5):
        vals.append(step(f, u))
    out = []
    for v in vals:
        if writable(v) and rng.random() < 0.3:
            out.append(E(lit(v)))
        else:
            out.append(V(v))
    return out


def dec_text(q):
    return format(q, 'f')


def random_computed_cluster(rng):
    """`p op q` of two short decimals, the decimal value of that, and the doubles around it"""
    Dec = decimal.Decimal
    kp, kq = rng.randint(1, 2), rng.randint(1, 2)
    p = Dec(rng.randint(1, 999)).scaleb(-kp)
    q = Dec(rng.randint(1, 999)).scaleb(-kq)
    op = rng.choice('+-*')
    if op == '-' and q > p:
        p, q = q, p
    exact = {'+': p + q, '-': p - q, '*': p * q}[op]
    if exact == 0:
        exact = p
    f = float(exact)
    out = [E('%s%s%s' % (dec_text(p), op, dec_text(q))), E(dec_text(exact)), V(f)]
    for u in rng.sample([-2, -1, 1, 2], 2):
        v = step(f, u)
        out.append(E(lit(v)) if rng.random() < 0.5 else V(v))
    return out


def datetime_cluster(base, rng=None):
    """date-times microseconds apart and the doubles next to the serial of the first"""
    offs = [0, 1, 3, 6, 10, 1000, 10 ** 6]
    if rng is not None:
        offs = [0] + sorted(rng.sample(offs[1:], 4))
    out = [V(base + TD(microseconds=o)) for o in offs]
    q = ref_serial(base)
    s = float(q)
    r = resolution(q)
    out += [V(s), V(step(s, 8)), V(step(s, -8)), V(float(q + 2 * r)), V(float(q - 2 * r))]
    return out


def random_datetime(rng):
    k = rng.randrange(6)
    if k == 0:       # Jan/Feb 1900 (the serials without the 29 Feb 1900 shift)
        d = D(1900, 1, 1) + TD(days=rng.randrange(0, 61))
    elif k == 1:     # far future: a double serial resolves tens of microseconds only
        d = D(2080, 1, 1) + TD(days=rng.randrange(0, 2890000))
    else:
        d = D(1900, 3, 1) + TD(days=rng.randrange(0, 65000))
    t = rng.randrange(3)
    if t == 0:       # a time of day whose serial is a double: whole multiples of 1/8192 day
        d += TD(microseconds=rng.randrange(8192) * 10546875)
    elif t == 1:
        d += TD(seconds=rng.randrange(86400))
    else:
        d += TD(seconds=rng.randrange(86400), microseconds=rng.randrange(10 ** 6))
    return d


def rule_day(year, m, w, dow):
    """the day `Mm.w.d` of a POSIX TZ rule: week w (5 = last) of month m, day d (0 = Sunday)"""
    first = datetime.date(year, m, 1)
    delta = (dow - (first.weekday() + 1) % 7) % 7
    day = first + datetime.timedelta(days=delta + 7 * (w - 1))
    while day.month != m:
        day -= datetime.timedelta(days=7)
    return D(day.year, day.month, day.day)


def tz_rules(tz):
    """[(m, w, d)] of the two transitions named in the TZ string"""
    out = []
    for part in tz.split(',')[1:]:
        m, w, d = part.split('/')[0][1:].split('.')
        out.append((int(m), int(w), int(d)))
    return out


def tz_pool(tz, year=2021):
    """the date-related pool: dates and date-times in and around the skipped / repeated hours of `tz`,
    the numbers equal to their serials (where a double can hold them), blank, a text, the logicals"""
    dts = [D(1900, 1, 1), D(1900, 1, 2), D(1900, 2, 28), D(1900, 3, 1), D(1900, 1, 1, 12, 0), D(1969, 12, 31, 21, 0), D(1970, 1, 1),
           D(2020, 1, 15), D(2020, 1, 15, 12, 0), D(year, 1, 1, 12, 0), D(year, 7, 1, 12, 0)]
    for m, w, dow in tz_rules(tz):
        t = rule_day(year, m, w, dow)
        dts += [t + TD(hours=1, minutes=30), t + TD(hours=2), t + TD(hours=2, minutes=15), t + TD(hours=2, minutes=30),
                t + TD(hours=3), t + TD(hours=3, minutes=15), t - TD(hours=21, minutes=30)]
    vals = list(dts)
    nums = {0, 1, 61}
    for d in dts:
        s = ref_serial(d)
        if representable(s):
            nums.add(int(s) if s.denominator == 1 else float(s))
    vals += sorted(nums)
    vals += [None, '', 'a', True, False]
    return [V(v) for v in vals]


def tz_cluster(rng, tz):
    """date-times of one night around a transition day of a seeded year, a date-time of the other season, and a number of
    that day (01:30, 03:00, 04:30 or 07:30 as a serial)"""
    year = rng.randint(1971, 2037)
    m, w, dow = rng.choice(tz_rules(tz))
    t = rule_day(year, m, w, dow)
    dts = set()
    while len(dts) < 5:
        dts.add(t + TD(hours=rng.choice([0, 1, 1, 2, 2, 2, 3, 3, 4]), minutes=rng.choice([0, 15, 30, 45, rng.randrange(60)]),
                       seconds=rng.choice([0, 0, rng.randrange(60)])))
    dts = sorted(dts)
    out = [V(d) for d in dts]
    out.append(V(D(year, (m + 5) % 12 + 1, 15, 12, 0)))           # the other season
    s = ref_serial(t) + Fraction(rng.choice([1, 2, 3, 5]), 16)     # 01:30, 03:00, 04:30, 07:30 as a number
    out.append(V(float(s)))
    return out


def _pairs(cl, tz=None):
    return [{'kind': 'pair', 'a': a, 'b': b, 'tz': tz} for a in cl for b in cl]


def _triples(cl, tz=None):
    return [{'kind': 'triple', 'a': a, 'b': b, 'c': c, 'tz': tz} for a in cl for b in cl for c in cl]


# regression witnesses of changes the earlier sweep missed (the generators reach their classes on their own)
WITNESSES = [
    {'kind': 'pair', 'a': E('0.3'), 'b': E('0.30000000000000016'), 'tz': None},
    {'kind': 'triple', 'a': E('0.30000000000000032'), 'b': E('0.30000000000000016'), 'c': E('0.3'), 'tz': None},
    {'kind': 'pair', 'a': V(D(2021, 3, 14, 2, 30)), 'b': V(D(2021, 3, 14, 3, 15)), 'tz': TZ_MAIN},
    {'kind': 'pair', 'a': V(44269.125), 'b': V(D(2021, 3, 14, 3, 15)), 'tz': TZ_MAIN},
]


def cases(rng, ctx):
    thorough = ctx['tier'] == 'thorough'
    scale = ctx['scale']
    out = list(WITNESSES)
    # (1) the general pool
    G = [V(v) for v in pool()]
    out += _pairs(G)
    triples = list(itertools.product(G, repeat=3))
    if not thorough:
        triples = rng.sample(triples, 3000 * scale)
    out += [{'kind': 'triple', 'a': a, 'b': b, 'c': c, 'tz': None} for a, b, c in triples]
    # (2) nearly equal numbers and date-times
    clusters = [[V(v) for v in cl] for cl in fixed_number_clusters()]
    clusters += [[E(lit(v)) if (isinstance(v, (int, float)) and writable(v)) else V(v) for v in cl] for cl in fixed_number_clusters()]
    clusters += fixed_formula_clusters()
    clusters += [datetime_cluster(D(2021, 3, 14, 2, 30)), datetime_cluster(D(2020, 1, 15, 12, 0)), datetime_cluster(D(1900, 1, 1)),
                 datetime_cluster(D(1900, 2, 28, 23, 59, 59, 999995)), datetime_cluster(D(9999, 12, 31, 23, 59, 58))]
    n_rand = 100 if thorough else 8 * scale
    for _ in range(n_rand):
        clusters.append(random_number_cluster(rng))
    for _ in range(n_rand // 2):
        clusters.append(random_computed_cluster(rng))
    for _ in range(n_rand // 2):
        clusters.append(datetime_cluster(random_datetime(rng), rng))
    members = []
    for cl in clusters:
        # drop duplicates inside a cluster (two roads to the same operand)
        seen, uniq = set(), []
        for o in cl:
            if okey(o) not in seen:
                seen.add(okey(o))
                uniq.append(o)
        out += _pairs(uniq)
        out += _triples(uniq)
        members += uniq
    # cluster members against the general pool (rank, blank) and against members of other clusters
    for _ in range(2000 if thorough else 150 * scale):
        a = rng.choice(members)
        b = rng.choice(G) if rng.random() < 0.6 else rng.choice(members)
        if rng.random() < 0.5:
            a, b = b, a
        out.append({'kind': 'pair', 'a': a, 'b': b, 'tz': None})
    for _ in range(3000 if thorough else 300 * scale):
        t = [rng.choice(members), rng.choice(members), rng.choice(G) if rng.random() < 0.5 else rng.choice(members)]
        rng.shuffle(t)
        out.append({'kind': 'triple', 'a': t[0], 'b': t[1], 'c': t[2], 'tz': None})
    # (2b) host values that are instances of SUBCLASSES of int / float / str (enum members, unit types, numpy-style floats):
    # a seeded share of the pairs and triples above with one or more operands re-typed
    def retype(o):
        if 'v' in o and not isinstance(o['v'], bool) and isinstance(o['v'], (int, float, str)):
            o2 = dict(o)
            o2['sub'] = rng.choice(['sub', 'sub', 'enum'])
            return o2
        return o
    base = [c for c in out if c.get('tz') is None]
    for c in rng.sample(base, min(len(base), (4000 if thorough else 400) * scale)):
        c2 = dict(c)
        keys = ['a', 'b'] + (['c'] if c['kind'] == 'triple' else [])
        for k in keys:
            if rng.random() < 0.6:
                c2[k] = retype(c[k])
        if any(c2[k] is not c[k] for k in keys):
            out.append(c2)
    # (2c) other routes by which the same host value reaches the comparison: answered by the host's cell listener, returned by a
    # host function (what arrives is the value - an empty text is an empty text, a logical a logical). All pairs of the general
    # pool with the left, the right or both operands re-routed (a seeded share), and a seeded share of the other pairs and triples
    def reroute(o, via=None):
        if 'e' in o:
            return o
        return dict(o, via=via or rng.choice(['cell', 'fn']))
    for via in ('cell', 'fn'):
        for a in G:
            for b in G:
                r = rng.random()
                if r < 0.25:
                    out.append({'kind': 'pair', 'a': reroute(a, via), 'b': b, 'tz': None})
                elif r < 0.5:
                    out.append({'kind': 'pair', 'a': a, 'b': reroute(b, via), 'tz': None})
                elif r < 0.6:
                    out.append({'kind': 'pair', 'a': reroute(a, via), 'b': reroute(b), 'tz': None})
    # (2d) texts WRITTEN in the formula as quoted literals (a backslash, a quote of the other kind, blanks are characters like any
    # other) against the same and neighbouring texts arriving as variables
    T = ['C:\\temp', 'C:temp', 'a\\z', 'az', 'ab', '50\\%', '50%', "it's", 'say "hi"', ' a', 'a ', '', 'A', 'a', '10', '9']
    for a in T:
        for b in T:
            r = rng.random()
            if r < 0.4:
                out.append({'kind': 'pair', 'a': dict(V(a), lit=True), 'b': V(b), 'tz': None})
            elif r < 0.7:
                out.append({'kind': 'pair', 'a': V(a), 'b': dict(V(b), lit=True), 'tz': None})
            else:
                out.append({'kind': 'pair', 'a': dict(V(a), lit=True), 'b': dict(V(b), lit=True), 'tz': None})
    base = [c for c in out if c.get('tz') is None and not any('via' in c[k] or 'lit' in c[k] for k in ('a', 'b'))]
    for c in rng.sample(base, min(len(base), (3000 if thorough else 300) * scale)):
        c2 = dict(c)
        keys = ['a', 'b'] + (['c'] if c['kind'] == 'triple' else [])
        for k in keys:
            if rng.random() < 0.5:
                c2[k] = reroute(c[k])
        if any(c2[k] is not c[k] for k in keys):
            out.append(c2)
    # (3) the date-related part once more under a process time zone with daylight saving
    zones = TZS if thorough else [TZ_MAIN]
    for tz in zones:
        T = tz_pool(tz)
        out += _pairs(T)                       # as is ...
        out += _pairs(T, tz)                   # ... and under the zone
        tr = list(itertools.product(T, repeat=3))
        if not thorough:
            tr = rng.sample(tr, 1500 * scale)
        out += [{'kind': 'triple', 'a': a, 'b': b, 'c': c, 'tz': tz} for a, b, c in tr]
    for _ in range(40 if thorough else 4 * scale):
        tz = rng.choice(TZS)
        cl = tz_cluster(rng, tz)
        out += _pairs(cl, tz)
        out += _triples(cl, tz)
    for _ in range(10 if thorough else 2 * scale):
        tz = rng.choice(TZS)
        cl = datetime_cluster(random_datetime(rng), rng)
        out += _pairs(cl, tz)
        out += _triples(cl, tz)
    return out


# --------------------------------------------------------------------------- model request

def request(c):
    if c['kind'] != 'pair':
        return None
    if 'e' in c['a'] or 'e' in c['b']:
        return None           # float rounding of literals / arithmetic: the model has no opinion
    env = fx.env_wire(variables={'x': var_value(c['a']), 'y': var_value(c['b'])})
    return 'c04.batch ' + ' '.join(common.enc_str('x' + op + 'y') for op in CMPS) + ' ' + env


# --------------------------------------------------------------------------- the implementation

_p = [None]


_route = {}


def parser():
    if _p[0] is None:
        common.load_repo()
        import hotxlfp
        p = hotxlfp.Parser()
        # the routes of (2c): the cells A1 / B1 answered by a listener, the host functions GX() / GY()
        p.on('callCellValue', lambda cell, setter: setter(_route.get(cell.label)))
        p.set_function('GX', lambda: _route.get('GX'))
        p.set_function('GY', lambda: _route.get('GY'))
        _p[0] = p
    return _p[0]


@contextlib.contextmanager
def process_tz(tz):
    """run the body while the process time zone is `tz`; the previous zone comes back whatever happens"""
    if tz is None:
        yield
        return
    old = os.environ.get('TZ')
    os.environ['TZ'] = tz
    time.tzset()
    try:
        yield
    finally:
        if old is None:
            os.environ.pop('TZ', None)
        else:
            os.environ['TZ'] = old
        time.tzset()


_cache = {}
_opval = {}


def ev(op, a, b, tz, ka=None, kb=None):
    k = (op, ka or okey(a), kb or okey(b), tz)
    r = _cache.get(k)
    if r is None:
        p = parser()
        if 'e' in a:
            ta = '(' + a['e'] + ')'
        elif a.get('lit'):
            ta = text_literal(a['v'])
        elif a.get('via'):
            ta = 'A1' if a['via'] == 'cell' else 'GX()'
            _route[ta[:2]] = var_value(a)
        else:
            ta = 'x'
            p.set_variable('x', var_value(a))
        if 'e' in b:
            tb = '(' + b['e'] + ')'
        elif b.get('lit'):
            tb = text_literal(b['v'])
        elif b.get('via'):
            tb = 'B1' if b['via'] == 'cell' else 'GY()'
            _route[tb[:2]] = var_value(b)
        else:
            tb = 'y'
            p.set_variable('y', var_value(b))
        with process_tz(tz):
            r = p.parse(ta + op + tb)
        _cache[k] = r
    return r


def operand_value(o):
    """the Python value of an operand; for one born in the formula: what the implementation evaluates its text to"""
    if 'e' not in o:
        return var_value(o)
    t = o['e']
    # a plain literal denotes the number it spells (an integer exactly, a decimal as the nearest double), whatever the
    # implementation makes of it; only a computation is taken at the value the implementation gives it
    import re as _re
    if _re.fullmatch(r'[0-9]+', t):
        return int(t)
    if _re.fullmatch(r'[0-9]+\.[0-9]+|\.[0-9]+', t):
        return float(t)
    if t not in _opval:
        _opval[t] = parser().parse(t)
    rec = _opval[t]
    v = rec['result']
    if rec['error'] is not None or isinstance(v, bool) or not isinstance(v, (int, float)):
        raise ValueError('operand %r does not evaluate to a number: %r' % (t, rec))
    return v


def text_literal(v):
    """the text as a quoted literal (delimited by the quote character it does not contain)"""
    q = '"' if '"' not in v else "'"
    assert q not in v
    return q + v + q


def show(o):
    if 'e' in o:
        return '`%s`' % o['e']
    if o.get('lit'):
        return 'the literal %s' % text_literal(o['v'])
    if o.get('via'):
        return '%r (%s)' % (var_value(o), 'answered by the cell listener' if o['via'] == 'cell' else 'returned by a host function')
    return repr(var_value(o))


def impl(c):
    if c['kind'] == 'pair':
        ka, kb = okey(c['a']), okey(c['b'])
        return [ev(op, c['a'], c['b'], c.get('tz'), ka, kb) for op in CMPS]
    return None


def agree(c, impl_ans, model_ans):
    if len(described(var_value(c['a']), var_value(c['b']))) > 1:
        return True           # below the resolution of a double serial: the model's exact serial decides nothing here
    m = fx.parse_sexp(model_ans)
    for rec, mm in zip(impl_ans, m):
        if fx.record_matches(mm[1], rec) is False:
            return False
    return True


# --------------------------------------------------------------------------- the statement

def truth(rec):
    if rec['error'] is not None or not isinstance(rec['result'], bool):
        return None
    return rec['result']


def described(a, b):
    """-> list of acceptable (<, =, >) answers for the values a, b (the first is the exact one)"""
    a2 = as_like(b) if a is None else a
    b2 = as_like(a) if b is None else b
    if a2 is None and b2 is None:
        return [(False, True, False)]
    ka, kb = key(a2), key(b2)
    want = [(ka < kb, ka == kb, ka > kb)]
    if ka[0] == 0 and kb[0] == 0 and ka != kb and (fuzzy(a2) or fuzzy(b2)):
        if abs(ka[1] - kb[1]) < resolution(max(abs(ka[1]), abs(kb[1]))):
            # below the resolution of a double serial (see ASSUMPTIONS): two date-times may share a serial (serials never
            # invert: every step of the computation is monotone); against a NUMBER the double serial may fall on either side
            want.append((False, True, False))
            if not (isinstance(a2, datetime.datetime) and isinstance(b2, datetime.datetime)):
                want += [(True, False, False), (False, False, True)]
    return want


def oracle(c, impl_ans):
    tz = c.get('tz')
    where = '' if tz is None else ' [process TZ=%s]' % tz
    if c['kind'] == 'pair':
        oa, ob = c['a'], c['b']
        ka, kb = okey(oa), okey(ob)
        try:
            a, b = operand_value(oa), operand_value(ob)
        except ValueError:
            return None       # an operand text that is not a number here: outside the generated class, not judged
        recs = [ev(op, oa, ob, tz, ka, kb) for op in CMPS]
        lt, eq, gt, le, ge, ne = [truth(r) for r in recs]
        sa, sb = show(oa), show(ob)
        if None in (lt, eq, gt, le, ge, ne):
            return 'comparison of %s and %s does not give a logical: %r%s' % (sa, sb, recs, where)
        if [lt, eq, gt].count(True) != 1:
            return 'trichotomy fails for %s, %s: <:%r =:%r >:%r%s' % (sa, sb, lt, eq, gt, where)
        if le != (lt or eq) or ge != (gt or eq) or ne != (not eq):
            return 'derived relations wrong for %s, %s: <=:%r >=:%r <>:%r with <:%r =:%r >:%r%s' % (sa, sb, le, ge, ne, lt, eq, gt, where)
        rev = truth(ev('>', ob, oa, tz, kb, ka))
        if lt != rev:
            return 'a<b is %r but b>a is %r for a=%s, b=%s%s' % (lt, rev, sa, sb, where)
        want = described(a, b)
        if (lt, eq, gt) not in want:
            return '%s vs %s: got (<,=,>) = %r, the described order gives %r%s' % (sa, sb, (lt, eq, gt), want[0], where)
        return None
    ops = [c['a'], c['b'], c['c']]
    try:
        vals = [operand_value(o) for o in ops]
    except ValueError:
        return None
    if None in vals:
        return None           # transitivity is stated for non-blank values
    k = [okey(o) for o in ops]
    for op in TRANS:
        if truth(ev(op, ops[0], ops[1], tz, k[0], k[1])) and truth(ev(op, ops[1], ops[2], tz, k[1], k[2])) \
                and not truth(ev(op, ops[0], ops[2], tz, k[0], k[2])):
            s = [show(o) for o in ops]
            return 'not transitive: %s %s %s and %s %s %s but not %s %s %s%s' % (s[0], op, s[1], s[1], op, s[2], s[0], op, s[2], where)
    return None


def nontrivial(c, impl_ans):
    if c['kind'] == 'pair':
        return c['a'] != c['b']
    return c['a'] != c['b'] and c['b'] != c['c'] and c['a'] != c['c']


def search(rng, ctx, disagreements):
    c2 = dict(ctx)
    c2['tier'] = 'thorough'
    return cases(rng, c2)
