# -*- coding: utf-8 -*-
"""C07 - comparisons form a consistent total order with number < text < logical"""
import datetime
import itertools
from fractions import Fraction

from .. import common, fx
from . import c06

ID = 'C07'
LEAN_MODULES = ['HotXL.Props.C07']
FUNCTIONS = ['hotxlfp.formulas.operators:ExcelComparator.__init__', 'hotxlfp.formulas.operators:ExcelComparator.convert_other',
             'hotxlfp.formulas.operators:ExcelComparator.__lt__', 'hotxlfp.formulas.operators:ExcelComparator.__gt__',
             'hotxlfp.formulas.operators:ExcelComparator.__eq__', 'hotxlfp.formulas.operators:ExcelComparator.__ge__',
             'hotxlfp.formulas.operators:ExcelComparator.__le__', 'hotxlfp.formulas.operators:evaluate_logic',
             'hotxlfp.formulas.operators:_both_plain_numbers',
             'hotxlfp.grammarparser.parser:FormulaParser.p_expression_logical_operator']
RULE = ('all ordered pairs (all six operators) and all triples (transitivity) from a pool of scalars: ints, negative and '
        'fractional numbers, floats equal to ints, text (empty, numeric-looking, mixed case, prefixes of each other, non-ASCII), '
        'logicals, blank, dates and date-times; quick: all pairs + seeded triples, thorough: all triples. '
        'Non-trivial = the two operands are of different kinds or unequal.')
TRUSTED = ['Python comparison of int/float/str/bool values (modelled: exact rationals, code-point lexicographic order)']
ASSUMPTIONS = ['text that spells a number is text for comparison purposes (as in the code and in Excel)']
EXHAUSTIVE = {'quick': False, 'thorough': True}

D = datetime.datetime
CMPS = ['<', '=', '>', '<=', '>=', '<>']


def pool():
    return [0, 1, -1, 2, -7, 10 ** 12, 0.5, -2.25, 2.0, 1e-3, 0.0,
            '', 'a', 'A', 'ab', 'b', '1', '10', '2', '-1', ' ', 'TRUE', 'é', 'z', 'abc', 'abd',
            True, False, None,
            D(1900, 1, 1), D(1900, 1, 2), D(1900, 2, 28), D(1900, 3, 1), D(2020, 1, 15), D(2020, 1, 15, 12, 0), D(2020, 1, 16),
            D(1900, 1, 1, 12, 0)]


def cases(rng, ctx):
    P = pool()
    n = len(P)
    out = [{'kind': 'pair', 'i': i, 'j': j} for i in range(n) for j in range(n)]
    triples = list(itertools.product(range(n), repeat=3))
    if ctx['tier'] != 'thorough':
        triples = rng.sample(triples, 3000 * ctx['scale'])
    out += [{'kind': 'triple', 'i': i, 'j': j, 'k': k} for i, j, k in triples]
    return out


def request(c):
    if c['kind'] != 'pair':
        return None
    P = pool()
    env = fx.env_wire(variables={'x': P[c['i']], 'y': P[c['j']]})
    return 'c04.batch ' + ' '.join(common.enc_str('x' + op + 'y') for op in CMPS) + ' ' + env


_p = [None]


def vname(i):
    return 'v_' + chr(97 + i // 26) + chr(97 + i % 26)


def parser():
    if _p[0] is None:
        common.load_repo()
        import hotxlfp
        p = hotxlfp.Parser()
        for i, v in enumerate(pool()):
            p.set_variable(vname(i), v)
        _p[0] = p
    return _p[0]


_cache = {}


def ev(op, i, j):
    k = (op, i, j)
    if k not in _cache:
        _cache[k] = parser().parse('%s%s%s' % (vname(i), op, vname(j)))
    return _cache[k]


def impl(c):
    if c['kind'] == 'pair':
        return [ev(op, c['i'], c['j']) for op in CMPS]
    return None


def agree(c, impl_ans, model_ans):
    m = fx.parse_sexp(model_ans)
    for rec, mm in zip(impl_ans, m):
        if fx.record_matches(mm[1], rec) is False:
            return False
    return True


# the order the statement describes: key = (rank, value)
def key(v):
    if isinstance(v, bool):
        return (2, int(v))
    if isinstance(v, (int, float)):
        return (0, Fraction(v))
    if isinstance(v, datetime.datetime):
        return (0, c06.ref_serial(v))
    if isinstance(v, str):
        return (1, [ord(ch) for ch in v])
    raise ValueError(v)


def as_like(blank_other):
    """a blank compares as 0, as empty text or as FALSE according to the other operand"""
    o = blank_other
    if o is None:
        return None
    if isinstance(o, bool):
        return False
    if isinstance(o, str):
        return ''
    return 0


def truth(rec):
    if rec['error'] is not None or not isinstance(rec['result'], bool):
        return None
    return rec['result']


def oracle(c, impl_ans):
    P = pool()
    if c['kind'] == 'pair':
        i, j = c['i'], c['j']
        a, b = P[i], P[j]
        lt, eq, gt, le, ge, ne = [truth(ev(op, i, j)) for op in CMPS]
        if None in (lt, eq, gt, le, ge, ne):
            return 'comparison of %r and %r does not give a logical: %r' % (a, b, [ev(op, i, j) for op in CMPS])
        if [lt, eq, gt].count(True) != 1:
            return 'trichotomy fails for %r, %r: <:%r =:%r >:%r' % (a, b, lt, eq, gt)
        if le != (lt or eq) or ge != (gt or eq) or ne != (not eq):
            return 'derived relations wrong for %r, %r: <=:%r >=:%r <>:%r with <:%r =:%r >:%r' % (a, b, le, ge, ne, lt, eq, gt)
        if lt != truth(ev('>', j, i)):
            return 'a<b is %r but b>a is %r for a=%r, b=%r' % (lt, truth(ev('>', j, i)), a, b)
        # the described order
        a2 = as_like(b) if a is None else a
        b2 = as_like(a) if b is None else b
        if a2 is None and b2 is None:
            want = (False, True, False)
        else:
            ka, kb = key(a2), key(b2)
            want = (ka < kb, ka == kb, ka > kb)
        if (lt, eq, gt) != want:
            return '%r vs %r: got (<,=,>) = %r, the described order gives %r' % (a, b, (lt, eq, gt), want)
        return None
    i, j, k = c['i'], c['j'], c['k']
    if None in (P[i], P[j], P[k]):
        return None
    if truth(ev('<', i, j)) and truth(ev('<', j, k)) and not truth(ev('<', i, k)):
        return 'not transitive: %r < %r < %r but not %r < %r' % (P[i], P[j], P[k], P[i], P[k])
    return None


def nontrivial(c, impl_ans):
    P = pool()
    if c['kind'] == 'pair':
        return c['i'] != c['j']
    return len({c['i'], c['j'], c['k']}) == 3


def search(rng, ctx, disagreements):
    c2 = dict(ctx)
    c2['tier'] = 'thorough'
    return cases(rng, c2)
