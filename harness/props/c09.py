# -*- coding: utf-8 -*-
"""C09 - names resolve to what was registered; unknown names are #NAME?"""
import datetime
import os
import re

from .. import common, fx
from ..common import enc_str

ID = 'C09'
LEAN_MODULES = ['HotXL.Props.C09']
FUNCTIONS = ['hotxlfp.parser:Parser.__init__', 'hotxlfp.parser:Parser.parse',
             'hotxlfp.parser:Parser.set_variable', 'hotxlfp.parser:Parser.set_function',
             'hotxlfp.parser:Parser.call_variable', 'hotxlfp.parser:Parser.call_function',
             'hotxlfp.formulas:Dispatcher.get_for', 'hotxlfp.formulas:Dispatcher.register_for',
             'hotxlfp.formulas:get_for', 'hotxlfp.formulas:is_supported', 'hotxlfp.formulas:supported',
             'hotxlfp.grammarparser.parser:FormulaParser.p_expression_function',
             'hotxlfp.grammarparser.parser:FormulaParser.p_expression_wargs',
             'hotxlfp.grammarparser.parser:FormulaParser.p_expression_varseq',
             'hotxlfp.grammarparser.parser:FormulaParser.p_variable',
             'hotxlfp.grammarparser.parser:FormulaParser.p_variable_seq',
             'hotxlfp.grammarparser.parser:FormulaParser.p_error',
             'hotxlfp.grammarparser.lexer:t_FUNCTION', 'hotxlfp.grammarparser.lexer:t_VARIABLE',
             'hotxlfp.grammarparser.lexer:t_ABSOLUTE_CELL', 'hotxlfp.grammarparser.lexer:t_MIXED_CELL',
             'hotxlfp.grammarparser.lexer:t_RELATIVE_CELL', 'hotxlfp.grammarparser.lexer:t_XLERROR',
             'hotxlfp.grammarparser.lexer:t_error']
RULE = ('(var) seeded names of the VARIABLE shape ^(?![A-Za-z]+[0-9])(?:[A-Za-z][A-Za-z_0-9]+|[A-Za-z_]+)$, lengths 1..12, both '
        'regex alternatives, names of builtins / of TRUE FALSE NULL / extensions of them, each bound by set_variable to a value of '
        'every kind (int, big int, float incl. nan/inf, text incl. empty, logical, None, list, nested list, datetime, tuple, dict, '
        'set, bytes, complex, object, function, each of the nine error values), also set twice; oracle: parse(name)[result] IS the '
        'value. (unkvar/predef) never-set names -> exactly #NAME?; TRUE FALSE NULL. (fn) call trees over seeded FUNCTION-shaped '
        'names (incl. dotted, cell-like, builtin names SUM IF PI) bound to recording callables, 0..4 argument slots with literals, '
        'variables, arrays, blank slots, row pairs, nested calls, three separators; oracle: one recorded call per call site, in '
        'post-order, arguments identical to the evaluated arguments, value of the call site = what the callable returned. '
        '(doc) every bullet under "Supported Formulas" of SUPPORTED_FORMULAS.md (complete). (unk) a call of a seeded unregistered '
        'name with 0..3 arguments, or an unknown variable, placed in the hole of a seeded context: each side of each of the 11 '
        'binary operators, unary minus, every argument index of builtin and custom calls (IFERROR, ISERROR, IF, SUM ...), array '
        'elements, row pairs, depth <= 4 quick / 7 thorough, anything after the hole (error literals, 1/0, other unknown calls); '
        'reachability of the hole is confirmed by running the same formula with a recording function in the hole. '
        'Non-trivial = the name was resolved / the hole was reached.')
TRUSTED = ['the reading of SUPPORTED_FORMULAS.md: the bullets between the heading "Supported Formulas" and the next heading',
           'values that have no wire form (tuple, dict, set, object, function, nan ...) are judged by the oracle only; the model '
           'carries them as opaque `other` values']
ASSUMPTIONS = ['names are compared exactly (case-sensitive): the never-set variable `true` is not `TRUE`; calls of lower-case '
               'spellings of registered function names (sum(1)) are compared with the model but not judged by the oracle',
               'a value evaluated before the unknown call may be an error VALUE (1/0, NA()); only a RAISED error (an error '
               'literal, an earlier unknown name) may pre-empt #NAME?, and none is generated before the hole',
               'a custom function that raises is outside the statement (C08 covers it)']
EXHAUSTIVE = {'quick': False, 'thorough': False}

VAR_RE = re.compile(r'(?![A-Za-z]+[0-9])(?:[A-Za-z][A-Za-z_0-9]+|[A-Za-z_]+)')
FN_RE = re.compile(r'(?:[A-Za-z][A-Za-z_0-9.]+|[A-Za-z.]+)')
LETTERS = 'abcdefghijklmnopqrstuvwxyzABCDEFGHIJKLMNOPQRSTUVWXYZ'
DIGITS = '0123456789'
CODES = ['#NULL!', '#DIV/0!', '#VALUE!', '#REF!', '#NAME?', '#NUM!', '#N/A', '#GETTING_DATA', '#ERROR!']
BINOPS = ['+', '-', '*', '/', '&', '=', '<>', '<', '>', '<=', '>=']
SEPS = [',', ';', '\\']
NAME_REC = {'result': None, 'error': '#NAME?'}


def hx():
    common.load_repo()
    import hotxlfp
    return hotxlfp


def documented_names():
    out = []
    inside = False
    with open(os.path.join(common.REPO, 'SUPPORTED_FORMULAS.md'), encoding='utf-8') as f:
        for line in f:
            h = re.match(r'^\s*#+\s*(.*?)\s*$', line)
            if h:
                inside = h.group(1).lower().startswith('supported')
                continue
            m = re.match(r'^\s*[-*]\s+`?([A-Za-z0-9_.]+)`?\s*$', line)
            if m and inside:
                out.append(m.group(1))
    return out


# ------------------------------------------------------------------ values

class Token(object):
    """an arbitrary host object"""

    def __init__(self, k=0):
        self.k = k

    def __repr__(self):
        return 'Token(%d)' % self.k


def mkval(spec):
    from hotxlfp.formulas import error
    k = spec[0]
    if k == 'int':
        return int(spec[1])
    if k == 'float':
        return float.fromhex(spec[1])
    if k == 'str':
        return spec[1]
    if k == 'bool':
        return bool(spec[1])
    if k == 'none':
        return None
    if k == 'list':
        return [mkval(x) for x in spec[1]]
    if k == 'tuple':
        return tuple(mkval(x) for x in spec[1])
    if k == 'date':
        return datetime.datetime(*spec[1])
    if k == 'err':
        return error.from_message(spec[1])
    if k == 'dict':
        return {'a': 1}
    if k == 'set':
        return {1, 2}
    if k == 'bytes':
        return b'ab'
    if k == 'complex':
        return 1 + 2j
    if k == 'object':
        return Token(7)
    if k == 'plainobject':
        return object()
    if k == 'fn':
        return lambda *a: 1
    if k == 'nan':
        return float('nan')
    if k == 'inf':
        return float('inf')
    if k == 'type':
        return int
    raise ValueError(spec)


def gen_value(rng, depth=2):
    r = rng.random()
    if r < 0.14:
        return ['int', str(rng.choice([0, 1, -1, 7, 42, -1000, 2 ** 31, 2 ** 63, 10 ** 30, -10 ** 25, rng.randrange(-10 ** 6, 10 ** 6)]))]
    if r < 0.26:
        return ['float', float(rng.choice([0.0, -0.0, 1.0, 2.5, -0.125, 1e300, 1e-300, 0.1, 3.0, rng.randrange(-4096, 4096) / 64.0])).hex()]
    if r < 0.38:
        return ['str', rng.choice(['', 'a', 'abc', 'TRUE', '12', ' ', 'x y', '#N/A', 'é', '日本', '"', "it's", 'a,b', '=1+1'])]
    if r < 0.46:
        return ['bool', rng.random() < 0.5]
    if r < 0.52:
        return ['none']
    if r < 0.64 and depth > 0:
        return ['list', [gen_value(rng, depth - 1) for _ in range(rng.randrange(0, 4))]]
    if r < 0.70:
        return ['date', [rng.randrange(1900, 2100), rng.randrange(1, 13), rng.randrange(1, 29), rng.randrange(24), rng.randrange(60),
                         rng.randrange(60), rng.choice([0, 0, 500000])]]
    if r < 0.80:
        return ['err', rng.choice(CODES)]
    if r < 0.85 and depth > 0:
        return ['tuple', [gen_value(rng, depth - 1) for _ in range(rng.randrange(0, 3))]]
    return [rng.choice(['dict', 'set', 'bytes', 'complex', 'object', 'plainobject', 'fn', 'nan', 'inf', 'type'])]


# ------------------------------------------------------------------ names

def gen_varname(rng):
    while True:
        n = rng.randrange(1, 13)
        r = rng.random()
        if r < 0.35:
            s = ''.join(rng.choice(LETTERS + '_') for _ in range(n))
        elif r < 0.55:
            s = ''.join(rng.choice(LETTERS) for _ in range(n))
        else:
            s = rng.choice(LETTERS) + ''.join(rng.choice(LETTERS + '____' + DIGITS) for _ in range(n - 1))
        if VAR_RE.fullmatch(s):
            return s


SPECIAL_VARS = ['SUM', 'PI', 'IF', 'sum', 'TRUEx', 'xTRUE', 'TRUE_', 'FALSEy', 'NULLz', 'true', 'null', 'a_1', '_x', '_', '__', 'x', 'X',
                'a_1b2', 'rate_x1', 'A_1', 'ab_12', 'e', 'E', 'Abc', 'aB', 'zzzzzzzzzzzz', 'a_2345678901', 'NOSUCH', 'ID', 'x_', 'T', 'N']


def gen_fname(rng, avoid=()):
    hxm = hx()
    while True:
        n = rng.randrange(1, 11)
        r = rng.random()
        if r < 0.3:
            s = ''.join(rng.choice(LETTERS) for _ in range(n))
        elif r < 0.45:
            s = ''.join(rng.choice(LETTERS + '..') for _ in range(n))
        else:
            s = rng.choice(LETTERS) + ''.join(rng.choice(LETTERS + '__..' + DIGITS) for _ in range(n))
        if FN_RE.fullmatch(s) and s not in avoid and not hxm.formulas.is_supported(s):
            return s


SPECIAL_FNS = ['F', 'f', 'a.b', 'X_1', 'A1', 'ab12', 'LOG11', '.', '..', 'a.', 'x.y.z', 'Zz9_.q', 'SUMX', 'sum', 'Sum', 'iF', 'TRUEX', 'NOSUCH']
SHADOWED = ['SUM', 'IF', 'PI', 'IFERROR', 'TRUE', 'NA', 'CEILING.MATH']


# ------------------------------------------------------------------ trees (JSON lists)
#  ['n', digits] | ['d', a, b] | ['s', text] | ['v', name] | 'blank' | ['neg', t] | ['bin', op, l, r]
#  ['call', name, sep, [slot...]] | ['rows', name, [slot...], [slot...]] | ['arr', sep, [elem...]] | ['HOLE'] | ['raw', text]

def atomic(t):
    return t == 'blank' or t[0] in ('n', 'd', 's', 'v', 'call', 'rows', 'arr', 'HOLE', 'raw')


def render(t, hole=None):
    if t == 'blank':
        return ''
    k = t[0]
    if k == 'n':
        return t[1]
    if k == 'd':
        return t[1] + '.' + t[2]
    if k == 's':
        return '"' + t[1] + '"'
    if k == 'v':
        return t[1]
    if k == 'raw':
        return t[1]
    if k == 'HOLE':
        return hole
    if k == 'neg':
        s = render(t[1], hole)
        return '-' + (s if atomic(t[1]) else '(' + s + ')')
    if k == 'bin':
        l, r = render(t[2], hole), render(t[3], hole)
        return (l if atomic(t[2]) else '(' + l + ')') + t[1] + (r if atomic(t[3]) else '(' + r + ')')
    if k == 'call':
        return t[1] + '(' + t[2].join(render(x, hole) for x in t[3]) + ')'
    if k == 'rows':
        return t[1] + '(' + ','.join(render(x, hole) for x in t[2]) + ';' + ','.join(render(x, hole) for x in t[3]) + ')'
    if k == 'arr':
        return '{' + t[1].join(render(x, hole) for x in t[2]) + '}'
    raise ValueError(t)


def gen_slots(rng, n, mk):
    """n expressions in an argument list, with blank slots where the grammar allows them:
    any number in front, at most one between two expressions, at most one at the end"""
    if n == 0:
        return []
    out = []
    if rng.random() < 0.15:
        out += ['blank'] * rng.randrange(1, 3)
    for i in range(n):
        if i and rng.random() < 0.15:
            out.append('blank')
        out.append(mk())
    if rng.random() < 0.1:
        out.append('blank')
    return out


def gen_lit(rng):
    r = rng.random()
    if r < 0.5:
        return ['n', str(rng.randrange(0, 1000))]
    if r < 0.65:
        return ['d', str(rng.randrange(0, 100)), rng.choice(['5', '25', '125', '0', '75'])]
    return ['s', rng.choice(['', 'a', 'abc', 'x y', ',', ';', '1', 'TRUE', 'é'])]


# ---- (fn) call trees

def gen_calltree(rng, depth, fnames, vnames):
    def arg(d):
        r = rng.random()
        if d > 0 and r < 0.35:
            return call(d - 1)
        if r < 0.5 and vnames:
            return ['v', rng.choice(vnames)]
        if r < 0.6:
            return ['arr', rng.choice(SEPS), [gen_lit(rng) for _ in range(rng.randrange(1, 4))]]
        if r < 0.65 and d > 0:
            return ['arr', ',', [call(d - 1), gen_lit(rng)]]
        return gen_lit(rng)

    def call(d):
        name = rng.choice(fnames)
        if rng.random() < 0.08:
            return ['rows', name, [arg(d) for _ in range(rng.randrange(2, 4))], [arg(d) for _ in range(rng.randrange(2, 4))]]
        n = rng.choice([0, 1, 1, 2, 2, 3, 4])
        # a single separator-free slot list of one expression never mentions the separator
        return ['call', name, rng.choice(SEPS), gen_slots(rng, n, lambda: arg(d))]
    return call(depth)


def count_calls(t, names):
    """call sites of the given (custom) names"""
    if t == 'blank':
        return 0
    k = t[0]
    if k == 'call':
        return (1 if t[1] in names else 0) + sum(count_calls(x, names) for x in t[3])
    if k == 'rows':
        return (1 if t[1] in names else 0) + sum(count_calls(x, names) for x in t[2] + t[3])
    if k == 'arr':
        return sum(count_calls(x, names) for x in t[2])
    if k == 'neg':
        return count_calls(t[1], names)
    if k == 'bin':
        return count_calls(t[2], names) + count_calls(t[3], names)
    return 0


# ---- (unk) safe expressions and contexts

VARS_UNK = {'va': 53, 'vb': 2.5, 'v_c': 'txt', 'flag': True}


def gen_num(rng, depth):
    """numeric-typed expression that evaluates without raising"""
    if depth <= 0 or rng.random() < 0.3:
        r = rng.random()
        if r < 0.6:
            return ['n', str(rng.randrange(1, 60))]
        if r < 0.75:
            return ['d', str(rng.randrange(0, 30)), rng.choice(['5', '25'])]
        return ['v', rng.choice(['va', 'vb'])]
    r = rng.random()
    if r < 0.1:
        return ['neg', gen_num(rng, depth - 1)]
    if r < 0.2:
        return ['call', 'ID', ',', [gen_num(rng, depth - 1)]]
    if r < 0.3:
        return ['call', 'SUM', rng.choice(SEPS), [gen_num(rng, depth - 1) for _ in range(rng.randrange(1, 4))]]
    if r < 0.36:
        return ['call', 'IF', ',', [gen_safe(rng, 0), gen_num(rng, depth - 1), gen_num(rng, depth - 1)]]
    if r < 0.42:
        return ['bin', '/', gen_num(rng, depth - 1), ['n', str(rng.randrange(0, 9))]]      # x/0 is an error VALUE
    return ['bin', rng.choice(['+', '-', '*']), gen_num(rng, depth - 1), gen_num(rng, depth - 1)]


def gen_safe(rng, depth):
    """any expression that evaluates without raising (its value may be an error value)"""
    r = rng.random()
    if r < 0.55:
        return gen_num(rng, depth)
    if r < 0.7:
        return ['bin', rng.choice(['=', '<>', '<', '>', '<=', '>=']), gen_num(rng, depth - 1), gen_num(rng, depth - 1)]
    if r < 0.8:
        return ['bin', '&', gen_num(rng, depth - 1), rng.choice([['s', 'a'], ['v', 'v_c'], gen_num(rng, depth - 1)])]
    if r < 0.86:
        return ['s', rng.choice(['', 'abc', 'x'])]
    if r < 0.9:
        return ['v', rng.choice(['TRUE', 'FALSE', 'NULL', 'flag', 'v_c'])]
    if r < 0.95:
        return ['arr', rng.choice(SEPS), [gen_num(rng, 0) for _ in range(rng.randrange(1, 4))]]
    return ['call', 'NA', ',', []]


def gen_after(rng, depth):
    """what stands after the hole is never evaluated: anything that parses"""
    r = rng.random()
    if r < 0.6:
        return gen_safe(rng, depth)
    if r < 0.7:
        return ['raw', rng.choice(['#REF!', '#N/A', '#DIV/0!', '#NULL!'])]
    if r < 0.8:
        return ['call', 'OTHERUNKNOWN', ',', [['n', '2']]]
    if r < 0.9:
        return ['v', 'another_unknown']
    return ['neg', ['s', 'a']]


ENCLOSING = ['SUM', 'IF', 'IFERROR', 'ISERROR', 'ISERR', 'ISNA', 'IFNA', 'ERROR.TYPE', 'AND', 'OR', 'NOT', 'MAX', 'CONCATENATE', 'COUNT',
             'ISBLANK', 'G', 'ID', 'CHOOSE', 'T', 'N']


def gen_ctx(rng, depth):
    if depth <= 0:
        return ['HOLE']
    r = rng.random()
    inner = lambda: gen_ctx(rng, depth - 1)
    if r < 0.1:
        return ['neg', inner()]
    if r < 0.28:
        return ['bin', rng.choice(BINOPS), inner(), gen_after(rng, 1)]
    if r < 0.46:
        return ['bin', rng.choice(BINOPS), gen_safe(rng, 1), inner()]
    if r < 0.8:
        n = rng.randrange(1, 5)
        i = rng.randrange(n)
        slots = [gen_safe(rng, 1) for _ in range(i)] + [inner()] + [gen_after(rng, 1) for _ in range(n - 1 - i)]
        if rng.random() < 0.12:
            slots = ['blank'] + slots
        return ['call', rng.choice(ENCLOSING), rng.choice(SEPS), slots]
    if r < 0.92:
        n = rng.randrange(1, 4)
        i = rng.randrange(n)
        return ['arr', rng.choice(SEPS), [gen_num(rng, 0) for _ in range(i)] + [inner()] + [gen_after(rng, 0) for _ in range(n - 1 - i)]]
    if rng.random() < 0.5:
        return ['rows', rng.choice(ENCLOSING), [inner(), gen_after(rng, 0)], [gen_after(rng, 0), gen_after(rng, 0)]]
    return ['rows', rng.choice(ENCLOSING), [gen_safe(rng, 0), gen_safe(rng, 0)], [gen_safe(rng, 0), inner()]]


def systematic_ctxs():
    one, two = ['n', '1'], ['n', '2']
    out = [['HOLE'], ['neg', ['HOLE']], ['neg', ['neg', ['HOLE']]]]
    for op in BINOPS:
        out.append(['bin', op, ['HOLE'], one])
        out.append(['bin', op, two, ['HOLE']])
        out.append(['bin', op, ['bin', op, one, ['HOLE']], two])
    for name in ENCLOSING:
        for n in (1, 2, 3):
            for i in range(n):
                out.append(['call', name, ',', [one] * i + [['HOLE']] + [two] * (n - 1 - i)])
    for sep in SEPS:
        out.append(['arr', sep, [['HOLE']]])
        out.append(['arr', sep, [one, ['HOLE'], two]])
        out.append(['call', 'SUM', sep, [one, ['arr', sep, [two, ['HOLE']]]]])
    out.append(['call', 'IFERROR', ',', [['bin', '+', one, ['HOLE']], ['n', '0']]])
    out.append(['call', 'IFERROR', ',', [['call', 'IFERROR', ',', [['HOLE'], one]], two]])
    out.append(['call', 'ISERROR', ',', [['call', 'SUM', ',', [one, ['call', 'ID', ',', [['HOLE']]]]]]])
    out.append(['call', 'IF', ',', [['v', 'TRUE'], one, ['HOLE']]])       # both branches are evaluated (no laziness)
    out.append(['call', 'IF', ',', [['v', 'FALSE'], ['HOLE'], one]])
    out.append(['rows', 'G', [['HOLE'], one], [two, one]])
    out.append(['rows', 'G', [two, one], [one, ['HOLE']]])
    out.append(['bin', '+', ['bin', '/', one, ['n', '0']], ['HOLE']])     # an error VALUE before the hole
    out.append(['bin', '&', ['call', 'NA', ',', []], ['HOLE']])
    out.append(['call', 'SUM', ',', [['bin', '/', one, ['n', '0']], ['HOLE']]])
    return out


# ------------------------------------------------------------------ cases

def cases(rng, ctx):
    thorough = ctx['tier'] == 'thorough'
    mult = (30 if thorough else 1) * ctx['scale']
    hxm = hx()
    out = []

    # (doc) complete, and the predefined names
    for n in documented_names():
        out.append({'kind': 'doc', 'name': n})
    for n in ('TRUE', 'FALSE', 'NULL'):
        out.append({'kind': 'predef', 'name': n})

    # (var)
    names = list(SPECIAL_VARS) + [gen_varname(rng) for _ in range(500 * mult)]
    for i, n in enumerate(names):
        if not VAR_RE.fullmatch(n):
            continue
        c = {'kind': 'var', 'name': n, 'v': gen_value(rng)}
        if rng.random() < 0.15:
            c['first'] = gen_value(rng)          # set twice: the later value counts
        out.append(c)
    for n in ('TRUE', 'FALSE', 'NULL'):
        out.append({'kind': 'var', 'name': n, 'v': ['int', '5']})
    for spec in ([['int', '0']], [['float', (0.5).hex()]], [['str', '']], [['bool', False]], [['none']], [['list', []]],
                 [['list', [['list', [['int', '1']]], ['none']]]], [['date', [2020, 2, 29, 1, 2, 3, 0]]], [['tuple', []]], [['dict']],
                 [['set']], [['bytes']], [['complex']], [['object']], [['plainobject']], [['fn']], [['nan']], [['inf']], [['type']]) + tuple(
                     [['err', code]] for code in CODES):
        out.append({'kind': 'var', 'name': 'value_x', 'v': spec[0]})
    # never-set names
    for n in SPECIAL_VARS + [gen_varname(rng) for _ in range(150 * mult)]:
        if n in ('TRUE', 'FALSE', 'NULL') or not VAR_RE.fullmatch(n):
            continue
        out.append({'kind': 'unkvar', 'name': n, 'other': gen_varname(rng)})
    # outside the claim's domain (cell-shaped, dotted): model comparison only
    for n in ['A1', 'ab12', 'abc1_x', 'x.y', 'a.b.c', 'Z9', 'a1b']:
        out.append({'kind': 'var-out', 'name': n, 'v': ['int', '3']})

    # (fn)
    for i in range(450 * mult):
        nf = rng.randrange(1, 4)
        fnames = []
        for _ in range(nf):
            r = rng.random()
            fnames.append(rng.choice(SHADOWED) if r < 0.2 else rng.choice(SPECIAL_FNS) if r < 0.45 else gen_fname(rng))
        fnames = sorted(set(fnames))
        vnames = sorted(set(gen_varname(rng) for _ in range(rng.randrange(0, 3))) - {'TRUE', 'FALSE', 'NULL'})
        behaviours = {}
        for f in fnames:
            r = rng.random()
            behaviours[f] = ['uniq'] if r < 0.35 else ['args'] if r < 0.6 else ['first'] if r < 0.7 else ['const', gen_value(rng, 1)]
        out.append({'kind': 'fn', 'fns': behaviours, 'vars': {v: gen_value(rng, 1) for v in vnames},
                    't': gen_calltree(rng, rng.randrange(0, 4 if thorough else 3), fnames, vnames)})
    # the value of a call site inside arithmetic / builtins
    for name in SHADOWED + ['F', 'a.b', 'A1']:
        k = rng.randrange(2, 90)
        for t, exp in ((['bin', '+', ['call', name, ',', [['n', '2']]], ['n', '1']], k + 1),
                       (['neg', ['call', name, ',', []]], -k),
                       (['bin', '*', ['call', name, ',', [['n', '1'], ['n', '2']]], ['call', name, ';', [['s', 'x']]]], k * k),
                       (['call', 'IF' if name != 'IF' else 'CHOOSE', ',', [['n', '1'], ['call', name, ',', [['n', '3']]], ['n', '0']]], k),
                       (['call', 'SUM' if name != 'SUM' else 'MAX', ',', [['call', name, ',', []], ['n', '1000']]],
                        k + 1000 if name != 'SUM' else 1000)):
            out.append({'kind': 'fn', 'fns': {name: ['const', ['int', str(k)]]}, 'vars': {}, 't': t, 'expect': exp})

    # (unk)
    fills = []
    for name in ['NOSUCH', 'sumx', 'SUMM', 'S.U.M', 'F1x', 'A1', 'zz.top', 'Nope_1', '.', 'iff']:
        fills.append(['call', name, ',', []])
        fills.append(['call', name, ',', [['n', '1']]])
    fills.append(['v', 'nosuchvar'])
    fills.append(['v', 'true'])
    for cx in systematic_ctxs():
        for fl in (fills if thorough else [fills[1], fills[0], fills[5], fills[-2]]):
            out.append({'kind': 'unk', 'ctx': cx, 'fill': fl})
    maxd = 7 if thorough else 4
    for i in range(700 * mult):
        if rng.random() < 0.2:
            fl = ['v', gen_varname(rng) + '_u']
        else:
            name = rng.choice(SPECIAL_FNS[:-3]) + 'q' if rng.random() < 0.3 else gen_fname(rng, avoid=('ID', 'G', 'REACHED'))
            if hxm.formulas.is_supported(name) or name in ('ID', 'G', 'REACHED'):
                continue
            n = rng.choice([0, 1, 1, 2, 3])
            fl = ['call', name, rng.choice(SEPS), gen_slots(rng, n, lambda: gen_safe(rng, 1))]
        out.append({'kind': 'unk', 'ctx': gen_ctx(rng, rng.randrange(0, maxd + 1)), 'fill': fl})
    # lower-case / mixed-case spellings of registered names: compared with the model only
    for n in ['sum', 'Sum', 'pi', 'If', 'iferror', 'true', 'True', 'null']:
        out.append({'kind': 'case', 'f': n + '(1)' if n.lower() not in ('true', 'null') else n})
    return out


# ------------------------------------------------------------------ running the implementation

def formula_of(c):
    k = c['kind']
    if k in ('var', 'unkvar', 'predef', 'var-out'):
        return c['name']
    if k == 'doc':
        return c['name'] + '()'
    if k == 'fn':
        return render(c['t'])
    if k == 'unk':
        return render(c['ctx'], render(c['fill']))
    if k == 'case':
        return c['f']
    raise ValueError(k)


def impl(c):
    hxm = hx()
    k = c['kind']
    p = hxm.Parser()
    f = formula_of(c)
    if k == 'var':
        if 'first' in c:
            p.set_variable(c['name'], mkval(c['first']))
        v = mkval(c['v'])
        p.set_variable(c['name'], v)
        rec = p.parse(f)
        return {'rec': rec, 'v': v, 'identical': rec['result'] is v}
    if k == 'var-out':
        p.set_variable(c['name'], mkval(c['v']))
        return {'rec': p.parse(f)}
    if k == 'unkvar':
        if c['other'] != c['name']:
            p.set_variable(c['other'], 1)
        return {'rec': p.parse(f)}
    if k in ('predef', 'case'):
        return {'rec': p.parse(f)}
    if k == 'doc':
        return {'rec': p.parse(f), 'supported': hxm.formulas.is_supported(c['name'])}
    if k == 'fn':
        calls = []
        vs = {n: mkval(s) for n, s in c['vars'].items()}
        for n, v in vs.items():
            p.set_variable(n, v)

        def mk(name, beh):
            const = mkval(beh[1]) if beh[0] == 'const' else None

            def fn(*a):
                if beh[0] == 'uniq':
                    r = Token(len(calls))
                elif beh[0] == 'args':
                    r = list(a)
                elif beh[0] == 'first':
                    r = a[0] if a else None
                else:
                    r = const
                calls.append((name, a, r))
                return r
            return fn
        for n, beh in c['fns'].items():
            p.set_function(n, mk(n, beh))
        emitted = []          # the implementation's own callFunction events (builtins included)
        p.on('callFunction', lambda name, args, setter: emitted.append((name, tuple(args))))
        rec = p.parse(f)
        return {'rec': rec, 'calls': calls, 'vars': vs, 'emitted': emitted}
    if k == 'unk':
        env_fns(p)
        for n, v in VARS_UNK.items():
            p.set_variable(n, v)
        reached = []
        p.set_function('REACHED', lambda *a: reached.append(a) or 1)
        args = render(c['fill'])
        args = args[args.index('('):] if c['fill'][0] == 'call' else '()'
        p.parse(render(c['ctx'], 'REACHED' + args))
        p2 = hxm.Parser()
        env_fns(p2)
        for n, v in VARS_UNK.items():
            p2.set_variable(n, v)
        return {'rec': p2.parse(f), 'reached': len(reached)}
    raise ValueError(k)


def env_fns(p):
    p.set_function('ID', lambda *a: a[0] if a else None)
    p.set_function('G', lambda *a: list(a))


# ------------------------------------------------------------------ model

def request(c):
    k = c['kind']
    f = formula_of(c)
    hx()
    if k in ('var', 'var-out'):
        env = fx.env_wire(variables={c['name']: mkval(c['v'])})
    elif k == 'unkvar':
        env = fx.env_wire(variables={c['other']: 1} if c['other'] != c['name'] else {})
    elif k in ('predef', 'doc', 'case'):
        env = fx.env_wire()
    elif k == 'fn':
        fns = {}
        for n, beh in c['fns'].items():
            fns[n] = {'uniq': '(const (o Token))', 'args': '(args)', 'first': '(first)'}.get(beh[0]) or '(const %s)' % fx.to_wire(mkval(beh[1]))
        env = fx.env_wire(variables={n: mkval(s) for n, s in c['vars'].items()}, fns=fns)
    elif k == 'unk':
        env = fx.env_wire(variables=VARS_UNK, fns={'ID': '(first)', 'G': '(args)'})
    else:
        return None
    return 'eval %s %s' % (enc_str(f), env)


def agree(c, impl_ans, model_ans):
    m = fx.parse_sexp(model_ans)
    if not (isinstance(m, list) and len(m) == 2):
        return False
    mrec, mev = m
    rec = impl_ans['rec']
    k = c['kind']
    if k == 'doc':
        # builtins with no argument: only "is it a name error" is compared (NOW(), RAND() ... are not reproducible)
        return (mrec[2] == 'name') == (rec['error'] == '#NAME?')
    if fx.record_matches(mrec, rec, rel=1e-12) is False:
        return False
    if k in ('var', 'unkvar', 'predef'):
        return mev == [['var', enc_str(c['name'])]]
    if k == 'fn':
        # the model's function events are the implementation's callFunction events, builtins included
        fnev = [e for e in mev if e[0] == 'fn']
        calls = impl_ans['emitted']
        unmodelled = isinstance(mrec[1], list) and mrec[1][:2] == ['o', 'unmodelled-builtin']
        if unmodelled:
            calls = calls[:len(fnev)]          # the model stops at a builtin outside the modelled families
        if len(fnev) != len(calls):
            return False
        for e, (name, a) in zip(fnev, calls):
            if common.dec_str(e[1]) != name or len(e[2]) != len(a):
                return False
            for mm, vv in zip(e[2], a):
                if fx.value_matches(mm, vv, rel=1e-12) is False:
                    return False
        return True
    return True


# ------------------------------------------------------------------ oracle: the statement on the real implementation

def eqv(a, b):
    """same value: identical objects, or equal literals of the same type (lists element-wise)"""
    if a is b:
        return True
    if type(a) is not type(b):
        return False
    if isinstance(a, list):
        return len(a) == len(b) and all(eqv(x, y) for x, y in zip(a, b))
    if isinstance(a, (bool, int, float, str)):
        return a == b
    return False


class Mismatch(Exception):
    pass


def replay(t, vs, calls, pos):
    """expected value of the tree, consuming the recorded calls in post-order"""
    if t == 'blank':
        return None
    k = t[0]
    if k == 'n':
        return int(t[1])
    if k == 'd':
        return float(t[1] + '.' + t[2])
    if k == 's':
        return t[1]
    if k == 'v':
        return vs[t[1]]
    if k == 'arr':
        return [replay(x, vs, calls, pos) for x in t[2]]
    if k in ('call', 'rows'):
        if k == 'call':
            args = [replay(x, vs, calls, pos) for x in t[3]]
        else:
            args = [[replay(x, vs, calls, pos) for x in t[2]], [replay(x, vs, calls, pos) for x in t[3]]]
        if pos[0] >= len(calls):
            raise Mismatch('call site %s(...) #%d was not called (only %d calls recorded)' % (t[1], pos[0] + 1, len(calls)))
        name, a, r = calls[pos[0]]
        pos[0] += 1
        if name != t[1]:
            raise Mismatch('call #%d went to %r, the call site in post-order is %r' % (pos[0], name, t[1]))
        if len(a) != len(args) or not all(eqv(x, y) for x, y in zip(a, args)):
            raise Mismatch('%s was called with %r, the evaluated arguments are %r' % (name, a, args))
        return r
    raise Mismatch('not replayable: %r' % (t,))


def oracle(c, impl_ans):
    k = c['kind']
    rec = impl_ans['rec']
    f = formula_of(c)
    if k == 'var':
        v = impl_ans['v']
        from hotxlfp.formulas import error
        if v is None:
            ok = rec == {'result': None, 'error': None}
        elif isinstance(v, error.XLError):
            ok = rec == {'result': None, 'error': str(v)}
        else:
            ok = rec['error'] is None and impl_ans['identical']
        return None if ok else 'after set_variable(%r, %r) the formula %r gives %r' % (c['name'], v, f, rec)
    if k == 'unkvar':
        return None if rec == NAME_REC else 'the variable %r was never set, yet %r gives %r' % (c['name'], f, rec)
    if k == 'predef':
        want = {'TRUE': {'result': True, 'error': None}, 'FALSE': {'result': False, 'error': None},
                'NULL': {'result': None, 'error': None}}[c['name']]
        ok = rec == want and (rec['result'] is want['result'])
        return None if ok else '%s gives %r' % (c['name'], rec)
    if k == 'doc':
        if not impl_ans['supported']:
            return '%s is listed in SUPPORTED_FORMULAS.md but not registered' % c['name']
        if rec['error'] == '#NAME?':
            return '%s() gives #NAME? although %s is listed as supported' % (c['name'], c['name'])
        return None
    if k == 'fn':
        calls = impl_ans['calls']
        if 'expect' in c:
            if len(calls) != count_calls(c['t'], c['fns']):
                return '%r: %d calls recorded for %d call sites' % (f, len(calls), count_calls(c['t'], c['fns']))
            if rec != {'result': c['expect'], 'error': None}:
                return '%r gives %r; with %s returning %s the value is %r' % (f, rec, list(c['fns'])[0], c['fns'], c['expect'])
            return None
        pos = [0]
        try:
            root = replay(c['t'], impl_ans['vars'], calls, pos)
        except Mismatch as e:
            return '%r: %s' % (f, e)
        if pos[0] != len(calls):
            return '%r: %d calls recorded for %d call sites: %r' % (f, len(calls), pos[0], calls)
        from hotxlfp.formulas import error
        if root is None:
            ok = rec == {'result': None, 'error': None}
        elif isinstance(root, error.XLError):
            ok = rec == {'result': None, 'error': str(root)}
        else:
            ok = rec['error'] is None and rec['result'] is root
        return None if ok else '%r gives %r; the outermost call returned %r' % (f, rec, root)
    if k == 'unk':
        if impl_ans['reached'] != 1:
            return None          # the hole is not reached exactly once: outside the claim (never happens by construction)
        return None if rec == NAME_REC else '%r gives %r; the name in %r is neither registered nor custom' % (f, rec, render(c['fill']))
    return None


def nontrivial(c, impl_ans):
    k = c['kind']
    if k == 'unk':
        return impl_ans['reached'] == 1
    if k == 'fn':
        return len(impl_ans['calls']) >= 1
    return k != 'case'


def search(rng, ctx, disagreements):
    c2 = dict(ctx)
    c2['scale'] = 6
    c2['tier'] = 'quick'
    return cases(rng, c2)
