# -*- coding: utf-8 -*-
"""C09 - names resolve to what was registered; unknown names are #NAME?

case kinds (see RULE for pools and counts):
  doc      one documented built-in name, called without arguments          oracle + model (name error or not)
  predef   TRUE / FALSE / NULL, nothing set                                oracle + model
  var      a name bound by set_variable (optionally set twice), then read  oracle (identity) + model
  unkvar   a never-set name, another variable set on the same parser       oracle + model
  var-out  a cell-shaped / dotted name bound as a variable                 model only
  fn       a call tree over custom recording functions                     oracle (replay of the recorded calls) + model
  unk      an unknown call / variable in the hole of a context             oracle (if the hole is reached) + model
           (also NAME(1,2) alone for every near-documented spelling that is not documented itself)
  sess     one parse step of a session on one or two long-lived parsers    oracle; model when the step is plain
  reunk    an unk context with re-entrant calls EV("5") around the hole    oracle (if the hole is reached) + model
  case     lower- / mixed-case spelling of a registered name               model only
  lis      names of a formula answered (or not) by callVariable listeners  oracle (effective value per reference) + model when
           that call the setter with None / values / not at all             every name evaluates to one thing
  lisunk   a never-registered variable in the hole of an unk context, the  oracle (if the hole is reached) + model
           listeners handing it nothing but None
agree / oracle / nontrivial at the end of the file are guarded wrappers of _agree / _oracle / _nontrivial.
"""
import datetime
import os
import re

from .. import common, fx
from ..common import enc_str

ID = 'C09'
LEAN_MODULES = ['HotXL.Props.C09']
FUNCTIONS = ['hotxlfp.parser:Parser.__init__', 'hotxlfp.parser:Parser.parse',
             'hotxlfp.parser:Parser.set_variable', 'hotxlfp.parser:Parser.set_function',
             'hotxlfp.parser:Parser.call_variable', 'hotxlfp.parser:Parser.call_function',
             'hotxlfp.formulas:Dispatcher.get_for', 'hotxlfp.formulas:Dispatcher.register_for',
             'hotxlfp.formulas:get_for', 'hotxlfp.formulas:is_supported', 'hotxlfp.formulas:supported',
             'hotxlfp.grammarparser.parser:FormulaParser.p_expression_function',
             'hotxlfp.grammarparser.parser:FormulaParser.p_expression_wargs',
             'hotxlfp.grammarparser.parser:FormulaParser.p_expression_varseq',
             'hotxlfp.grammarparser.parser:FormulaParser.p_variable',
             'hotxlfp.grammarparser.parser:FormulaParser.p_variable_seq',
             'hotxlfp.grammarparser.parser:FormulaParser.p_error',
             'hotxlfp.grammarparser.lexer:t_FUNCTION', 'hotxlfp.grammarparser.lexer:t_VARIABLE',
             'hotxlfp.grammarparser.lexer:t_ABSOLUTE_CELL', 'hotxlfp.grammarparser.lexer:t_MIXED_CELL',
             'hotxlfp.grammarparser.lexer:t_RELATIVE_CELL', 'hotxlfp.grammarparser.lexer:t_XLERROR',
             'hotxlfp.grammarparser.lexer:t_error']
RULE = ('counts: m = 1 quick / 30 thorough and s = 1 quick / 12 thorough, both times scale (5 in quick when the '
        'fingerprint of a modelled function changed or the Lean build broke); about 5500 cases quick, 94200 thorough. '
        '(var) 32 special names (names of builtins SUM PI IF, sum, extensions TRUEx xTRUE TRUE_ FALSEy NULLz, true null, '
        '_ __, single letters, 12 characters) + 500m seeded names of the VARIABLE shape '
        '^(?![A-Za-z]+[0-9])(?:[A-Za-z][A-Za-z_0-9]+|[A-Za-z_]+)$, lengths 1..12, three shapes (letters and _, letters '
        'only, a letter then letters / _ / digits), each bound by set_variable to a seeded value: int (incl. 2^31 2^63 '
        '10^30 -10^25), float (incl. -0.0 1e300 1e-300), one of 14 texts (empty, blank, TRUE, 12, #N/A, non-ASCII, a '
        'quote, =1+1 ...), logical, None, list of 0..3 values nested to depth 2, datetime, one of the nine error values, '
        'tuple of 0..2 values, dict, set, bytes, complex, host object, object(), function, nan, inf, the type int, an '
        'exception OBJECT ValueError("boom") (kept as a value, never raised), the exception CLASS KeyError; 6% are bound instead '
        'to a value with an == of its own (EqAll: equal to everything; EqRaises: == with a foreign operand raises '
        'TypeError; EqArray: == returns an object whose truth value raises ValueError); 15% are set twice (the later '
        'value counts); plus TRUE FALSE NULL each bound to 5, and value_x bound to each of 33 fixed values (one per kind '
        'above with two lists [] and [[1], None], the exception object and the exception class, the three Eq values: 24; '
        'and the nine error values); oracle: parse(name) gives {result: the value ITSELF '
        '(identity, its == is never asked), error: None}, {None, None} for None, {None, its code} for an error value. '
        '(unkvar) the 32 special + 150m seeded names, never set, while another seeded variable is set to 1 on the same '
        'parser -> exactly {result None, error #NAME?}. (predef) TRUE FALSE NULL with nothing set -> the objects True '
        'False None. (fn) 450m call trees over 1..3 FUNCTION-shaped names (20% one of the 7 builtin names SUM IF PI '
        'IFERROR TRUE NA CEILING.MATH; 25% one of 18 special names: dotted a.b x.y.z . .. a., cell-like A1 ab12 LOG11 '
        'X_1, case variants sum Sum iF, extensions SUMX TRUEX ...; 55% seeded names of 1..11 characters that are no '
        'builtin), each bound to a recording callable (returns a fresh object 35% / the list of its arguments 25% / its '
        'first argument 10% / a seeded constant 30%), 0..2 seeded variables; call depth 0..2 quick / 0..3 thorough, 0..4 '
        'argument expressions per call (nested calls, variables, array literals of 1..3 literals, arrays holding a call, '
        'int / decimal / text literals) with blank slots (1..2 in front, one between two expressions, one at the end), '
        'row pairs F(a,b;c,d) of 2..3 by 2..3 in 8%, three separators (comma, semicolon, backslash); oracle: one recorded '
        'call per call site, in post-order, arguments the same as the evaluated arguments (blank slot = None, array = '
        'list, row pair = two lists), record of the formula = what the outermost callable returned (identity; None / '
        'error value as in var). Plus 50 fixed cases: each of 10 names (the 7 and F a.b A1) bound to a constant k in '
        '2..89 inside NAME(2)+1, -NAME(), NAME(1,2)*NAME("x"), IF(1,NAME(3),0), SUM(NAME(),1000) (CHOOSE / MAX when the '
        'name is IF / SUM): the exact number and one call per call site. (doc) every bullet under "Supported Formulas" of '
        'SUPPORTED_FORMULAS.md (complete, 156 names): is_supported(name) and NAME() is not #NAME?. (unk) a call of an '
        'unregistered name, or a never-set variable, placed in the hole of a context. Systematic: 175 contexts (hole, '
        '-hole, --hole; each side of each of the 11 binary operators and (1 op hole) op 2; every argument index of '
        '1..3-argument calls of 20 enclosing functions: the builtins SUM IF IFERROR ISERROR ISERR ISNA IFNA ERROR.TYPE '
        'AND OR NOT MAX CONCATENATE COUNT ISBLANK CHOOSE T N and the custom G = list of its arguments, ID = first '
        'argument; array elements and an array inside SUM for each separator; IFERROR / ISERROR nests, either IF branch, '
        'row pairs of G, an error VALUE 1/0 or NA() before the hole) x 4 fills quick (NOSUCH(1) NOSUCH() SUMM(1) '
        'nosuchvar) / 22 fills thorough (NOSUCH sumx SUMM S.U.M F1x A1 zz.top Nope_1 . iff with 0 and with 1 argument, '
        'nosuchvar, true). Near-documented spellings (both tiers, not scaled; 475 on the unchanged tree): every name of '
        'FUNCTION shape that is NOT in the documented list but close to it - the Python __name__ of every function in '
        'formulas.dispatcher._registry_ and of its __wrapped__ (ERROR_TYPE STDEV_P VAR_P), and for every documented name N: '
        'dots as underscores, dots dropped, underscores as dots, the part before the first dot + .X, N.S, N_ - in sorted '
        'order, each called as NAME(1,2) in the bare hole. '
        'Seeded: 700m contexts of depth 0..4 quick / 0..7 thorough (unary minus, either side of a '
        'binary operator, any slot of 1..4-slot calls of the 20 with an optional leading blank slot, array elements, row '
        'pairs) whose fill is in 20% a seeded variable name + _u, else an unregistered name (30% one of the first 15 '
        'special names + q, else a seeded name that is no builtin; a drawn name that is in the DOCUMENTED list or is ID G '
        'REACHED is dropped with its case - the draw is judged against the documented list, not against what the '
        'implementation says it supports; none is dropped on the unchanged tree) called '
        'with 0..3 safe arguments, blank slots, three separators; before the hole only expressions that evaluate without '
        'raising over va=53 vb=2.5 v_c="txt" flag=True (numbers, unary minus, + - * / &, comparisons, SUM ID IF, arrays, '
        'text, TRUE FALSE NULL; the value may be an error VALUE: x/0, NA()), after the hole anything that parses (the '
        'same, error literals #REF! #N/A #DIV/0! #NULL!, OTHERUNKNOWN(2), another_unknown, -"a"); oracle: exactly the '
        '#NAME? record, judged when the hole is reached exactly once - decided by running the same context on a second '
        'parser with a recording function REACHED (same arguments) in the hole. (sess) 4 fixed + 290s seeded SESSIONS of '
        '3..15 (quick 3..13) set_variable / set_function / parse steps on one or two LONG-LIVED parsers over small name '
        'pools; one case per parse step (about 1200 quick, 15700 thorough). 150s free sessions: 1..4 function names (40% '
        'from 19 documented built-ins SUM MAX MIN IF PI ABS IFERROR NA ... ROUND, 20% from the 18 special, 40% seeded), '
        '1..3 variable names (half from 16 incl. SUM PI _ T TRUE FALSE NULL true, half seeded), two parsers in 25%, steps '
        'parse 50% (the first step 70%) / set_function 32% / set_variable 18%; functions are bound to fresh-object / arguments / '
        "first-argument / constant callables or (10..20%) to RE-ENTRANT ones (lambda t: p.parse(t)['result'] on the same "
        'parser), variables to a small int (45%) or a value of the var pool (no Eq values); formulas: call depth 0..2, '
        '0..3 arguments with blank slots, row pairs 6%, at the root a call, a variable, -call, or call op operand with op '
        'among + - * & = <. So names change role: a built-in is called and only then shadowed, an unknown function / '
        'variable is referenced and only then registered, variables and functions are re-bound to values of another type '
        '/ to another callable, two parsers are used alternately with registrations on one of them only. Directed step '
        'patterns: 30s built-in called - shadowed - called - re-registered - called; 20s unknown function referenced - '
        'registered - re-registered; 20s one variable referenced - set - read - set to something else - read; 30s two '
        'parsers alternately (6..13 steps over one built-in, one special name, one variable); 40s with EVALUATE '
        'registered RE-ENTRANT first and then used inside larger formulas (argument positions, operator operands, '
        'followed by registered and by unbound names; inner formulas: a number, a decimal, a variable, int arithmetic, '
        'variable op number, a custom call with 0..3 arguments optionally +/- a number, or the texts #REF! #N/A 1+ ) - so '
        'they succeed, reference variables, abort on an unbound name with tokens left over, or are no formula). Oracle '
        'after every parse step, for the bindings registered AT THAT MOMENT on that parser (computed from the session '
        'text): an unbound name that is evaluated first -> exactly #NAME?; otherwise one recorded call per custom call '
        'site in evaluation order with the evaluated arguments, inner evaluations judged the same way, value = what the '
        "outermost callable returned / the variable's value / the int arithmetic of these; a formula whose names are all "
        'bound or documented is not #NAME?; nothing registered on the other parser is called. (reunk) (unk) contexts (40 '
        'of the 175 systematic quick / all thorough with one of the 22 fills; 250s seeded ones of depth 0..4 / 0..7 with '
        'fills of 0..2 arguments) in which 1..2 number / va / vb leaves are rewritten to re-entrant calls EV("5") '
        'EVB("va") returning the same value, each site under its own name; when none of them is evaluated before the hole '
        'a call EVx("k"), k in 1..8, is put in front with one of + - * & =; in 35% the whole becomes G(EVF("<inner>"), '
        '...) with one of 7 inner formulas that FAIL (unbound variable / function alone, under + * or inside SUM, the '
        'error literal #REF!, the non-formula 1+): still exactly #NAME? when the hole is reached once, the recorded '
        're-entrant calls are a prefix of the call sites in evaluation order, the 5 inner formulas with an unbound name '
        'give #NAME?, the inner formulas va / vb give the bound object. (var-out) 7 cell-shaped / dotted names (A1 ab12 '
        'abc1_x x.y a.b.c Z9 a1b) bound to 3 and (case) sum(1) Sum(1) pi(1) If(1) iferror(1) true True null: compared '
        'with the model only, no oracle. (lis) parsers with 1..3 callVariable LISTENERS (p.on): each listener has, per name '
        'of the formula (65%), a script of 1..2 rounds (reference j of the name uses round j mod the number of rounds) of '
        '0..3 setter calls, each None (50%) or a seeded value, and a default for every other name (does nothing / '
        'setter(None) / setter(None) twice); the 1..3 names of the formula are never registered (40%), registered with a '
        'seeded value (22%), registered with the value None (12%) or the predefined TRUE FALSE NULL as they are (26%; 15% of '
        'the registered ones are TRUE FALSE NULL too); formulas: the bare name 30%, ID(name) 10%, G(...) of 1..4 slots '
        '(references, arrays holding a reference, ID(reference), literals, blank slots, three separators) 40%, int '
        'arithmetic (-name, name op name, name op k, k op (name op name), op among + - *, all values ints) 20%. 400m seeded '
        '+ 140 systematic (5 statuses unregistered / registered / registered with None / TRUE / NULL x 14 listener set-ups: '
        'the 8 call patterns nothing, None, None None, v, None v, v None, v None w, v w; the two-listener splits v|None, '
        'None|v, None|None; the three defaults alone - x the bare name and G(1,name,"x")) + 10 fixed (the host '
        'setter(env.get(name)) over price qty beside rate=0.2 nothing=None: ratio, price, rate, nothing, NULL, price*qty, '
        'price*ratio, IF(ratio>1,1,2), G(price,ratio); a listener that only watches). Oracle: every reference, in '
        'evaluation order, evaluates to the value registered on the parser (or the predefined one) replaced by the last '
        'non-None value handed to the setter during that reference; a name that is not registered and is handed no '
        'non-None value is unknown and the first such reference makes the record exactly {None, #NAME?}; otherwise the bare '
        'name is the very object (None -> blank, error value -> its code, ints by value), ID / G are called once per site '
        'with the very objects and the record is what the outermost returned, int arithmetic gives the int; a formula '
        'whose value the statement does not give (another built-in, an operator on non-ints) is not judged unless an '
        'unknown name comes first. About 100 of the 550 quick cases expect #NAME?, 80 of them with a listener that did call '
        'the setter (with None). (lisunk) 40 of the 175 systematic (unk) contexts quick / all thorough + 150m seeded ones '
        '(depth 0..4 / 0..7) with a never-registered variable (nosuchvar, true, ratio, seeded + _u) in the hole, over va vb '
        'v_c flag ID G, on a parser with 1..2 listeners that hand that name nothing or None (once / twice, by script or by '
        'default; at least one hands None) and hand None / nothing for the registered and predefined names in front of the '
        'hole: exactly #NAME? when the hole is reached exactly once (probe with REACHED() in the hole under the same '
        'listeners). Both kinds are generated after all other streams. '
        'Model: every case is also evaluated by the Lean model (eval formula + '
        'environment: variables, functions as const / args / first), except the sess steps that are not plain (see '
        'TRUSTED; about a fifth of them) and the (lis) cases in which one name evaluates to two different things (per-reference '
        'scripts; about 3%) - the listeners are represented in the environment by the values they set: a name is a variable '
        'with its effective value, or absent; compared: the record (ints, text, logicals, error codes, blanks exactly, floats '
        'within 4 ulps or 1e-12 relative; a model value (o ...) = no opinion is not compared); var / unkvar / predef also '
        "that the model's only event is the lookup of that variable; lis / lisunk also that the model's variable lookups are "
        "the names the first listener was asked for, in order; fn / sess also that the model's function events are "
        "the parser's own callFunction events (names and arguments, builtins included, up to the first builtin the model "
        'does not carry); doc only whether it is a name error. Non-trivial = var / unkvar / predef / doc / var-out: every '
        'case; fn: at least one custom call was recorded; unk: the hole was reached exactly once; reunk: that, and at '
        'least one re-entrant call was recorded; lis: a listener was asked for a name; lisunk: the hole was reached exactly '
        'once; sess: the statement had an opinion on the step (most steps; none when an '
        'operator result other than + - * / unary minus of ints, a text that is no tree, or a re-entrant name whose '
        'binding and call shape differ is met before any unbound name); case: never. Every case counts once (no bulk '
        'weights); no time or step budget. search() (a proof or the correspondence broke and no oracle failure yet): all '
        'streams again with the quick bounds at scale 6, oracle only, up to the first failure.')
TRUSTED = ['the reading of SUPPORTED_FORMULAS.md: the bullets (- or *, the name optionally in backquotes) between a '
           'heading that starts with "Supported" and the next heading',
           "the shapes VAR_RE / FN_RE that admit generated names are hand copies of the lexer's t_VARIABLE (minus the "
           'cell-like prefix letters+digit) and t_FUNCTION patterns',
           '(unk) the near-documented spellings are computed at run time from that reading of SUPPORTED_FORMULAS.md (the '
           'spelling variants) and from the __name__ / __wrapped__.__name__ of the values of '
           'hotxlfp.formulas.dispatcher._registry_ (if reading the registry raises, only the spelling variants are '
           'generated); "unknown" is decided against the DOCUMENTED list alone - here, in the dropping of seeded fill names '
           'and in the session oracle (doc_set) - never against is_supported / the registry (gen_fname only uses '
           'is_supported to avoid drawing a builtin)',
           'values that have no wire form (tuple, dict, set, bytes, complex, objects, functions, types, nan, inf, the '
           "exception object ValueError('boom') and the exception class KeyError, the Eq "
           'values) are judged by the oracle only; the model carries them as opaque `other` values (o <type name>; nan / inf as (o float-nonfinite)), and a '
           'record whose model value is opaque is not compared (the variable-lookup event still is)',
           'model comparison by fx.record_matches / value_matches: exact for ints (a logical is not an int), text, '
           'logicals, error codes, blanks; floats within 4 ulps or 1e-12 relative; datetimes within 2 microseconds (+ '
           '2^-49 relative); lists element-wise',
           '(fn) (sess) (reunk) the recording wrappers of the custom functions (fresh object / list of the arguments / '
           'first argument or None / constant / parse of the argument on the same parser) are the record of what was '
           "called and with what; the parser's callFunction events (p.on) of the outer evaluation are taken as the "
           "implementation's event list for the model comparison",
           '(sess) the bindings of the moment are computed by the harness from the session text; a re-entrant wrapper '
           'opens a nested call list for the inner evaluation, calls recorded on the other parser are counted apart; +, -, '
           '* and unary minus of Python ints are ints (the only operator results the session oracle computes; any other '
           'operator result = no opinion)',
           '(sess) the model is stateless: each parse step is ONE eval request with the environment of that moment; a '
           're-entrant function is given to the model as (const v) with v read off the session text (literal, bound / '
           'unbound variable, custom call, int arithmetic, abort or error value -> blank) - steps where v is not plain (a '
           'built-in call or an operator result other than int + - * inside the inner formula), where one function would '
           'need two constants, where a documented built-in would receive something else than ints, finite floats, text, '
           'blanks and lists of them (logicals, nan, inf, error values, datetimes, tuples, host objects, exception objects / '
           'classes, results of '
           'ISERROR AND OR NOT TRUE IF), or whose root operator has operands that are not plainly ints / plain aborts are '
           'judged by the oracle only',
           '(unk) (reunk) reachability of the hole is decided by a probe on a separate parser with the same variables and '
           'ID / G, REACHED returning 1; (reunk) the probe runs on the formula with the re-entrant calls written back as '
           'the literals they return and EVF(...) as NULL (so the probe does not depend on re-entrancy); EV("5") returns '
           'what the literal 5 evaluates to (given to the model as (const 5), EVF as (const blank))',
           '(lis) (lisunk) the listeners are harness closures built from the case text (make_listener: per-name scripts with a '
           'per-name reference counter, a default for other names; they also record the names they are asked for); the '
           'effective value of each reference (lis_effective) is computed by the harness from the case text over the very '
           'objects handed to set_variable / to the setter, taking the references left to right, once each; ID and G record '
           'their calls; (lisunk) reachability as for (unk), the probe parser carrying the same listeners; the Lean model has '
           'no callVariable listeners: it is given the effective values as plain variables, so that a None handed to the '
           'setter registers nothing is judged by the oracle only (the model side of these cases checks name resolution over '
           'the resulting environment and the order of the lookups)',
           'the guarded entry points agree / oracle / nontrivial: a TypeError / ValueError raised by the == of an EqRaises '
           '/ EqArray value while an outcome is compared (recognised by its message) becomes a disagreement / a violation '
           '(a host value bound for another evaluation reached this one) / non-trivial instead of crashing the harness, '
           'any other exception propagates; on the unchanged tree these values are only ever looked at by identity']
ASSUMPTIONS = ['names are compared exactly (case-sensitive): the never-set variables `true` `null` `sum` are not TRUE NULL '
               'SUM, and sumx( iff( true in a hole, as well as sum( Sum( iF( in a session before they are registered, are '
               'unbound names -> #NAME?; only the 8 (case) formulas (sum(1), Sum(1), pi(1), true ...) are compared with the '
               'model but not judged by the oracle',
               '"resolves to the value that was set / returned" is read as (var) (fn) the very object (identity; the == of the '
               'value is not consulted), (sess) the very object or, for int / float / text / logical / list values, an equal '
               'one of the same type (lists element-wise); recorded arguments are compared like that everywhere, so 1, 1.0 and '
               'TRUE are told apart',
               'parse reports a blank as {result None, error None} and an error VALUE as {result None, error its code}: a '
               'variable bound to None or to an error value, or a custom function returning one at the root, must read like '
               'that',
               "an exception OBJECT (ValueError('boom')) or an exception CLASS (KeyError) that is bound to a variable or "
               'returned by a custom function is never raised by the host: it is a value like any other and comes back as the '
               'very object',
               'set_variable of TRUE FALSE NULL overrides the predefined value; a variable may carry the name of a built-in '
               'function (SUM PI IF) and a custom function the name of a built-in (SUM IF PI TRUE NA ...) or a cell-like / '
               'dotted name (A1, a.b, .)',
               'a documented name "is available" = formulas.is_supported(name) and NAME() is not #NAME?; whatever else the '
               'call without arguments gives (a value, another error, a syntax error) is accepted',
               'conversely the built-ins are exactly the documented names (the Lean side states it as registered_documented: '
               'every key of the registry is a documented name): a name that is not in the documented list and was not '
               'registered by the host is unknown -> #NAME?, also when it is the Python name of an implementing function '
               '(ERROR_TYPE, VAR_P, STDEV_P) or a near spelling of a documented name (CEILING_MATH, CEILINGMATH, CEILING.X, '
               'SUM.S, SUM_)',
               '"called with the evaluated arguments": positionally, arguments left to right and before the call (post-order), '
               'left operand before right; a blank slot arrives as None, an array literal as a list, a row pair as two lists',
               'a value evaluated before the unknown call may be an error VALUE (1/0, NA()); only a RAISED error (an error '
               'literal, an earlier unknown name) may pre-empt #NAME?, and none is generated before the hole; the #NAME? of an '
               'unbound name is the result of the WHOLE formula, no enclosing IFERROR / ISERROR / ISERR / IFNA catches it; '
               '(reunk) a re-entrant call in front of the hole whose inner formula fails does not pre-empt it (its function '
               'returns a blank); a context whose hole is not reached exactly once is not judged (none arises on the unchanged '
               'tree)',
               'a callVariable listener - p.on("callVariable", fn(name, setter)) - is a way for the host to register a value for '
               'the reference being evaluated: "the value that was set" is the value set on the parser (or the predefined one) '
               'replaced by the last non-None value handed to the setter during that reference (later listeners and later '
               'calls win; it does not outlast the reference). None handed to the setter means "no value", as for every value '
               'setter of the library, and registers nothing: a registered / predefined name keeps its value (a variable set to '
               'None stays a blank), and a name that is not registered and is handed only None, or nothing, by every listener '
               'is "any other variable" -> exactly #NAME?, never a blank or a value (0 under an operator, the ELSE branch of an IF)',
               'a custom function that raises is outside the statement (C08 covers it)',
               '"after a variable is set / a function is registered" is read as: until it is set / registered again on the '
               'SAME parser; bindings are per parser instance, a later set_function takes precedence over a built-in even if '
               'the built-in was already called on that parser, and an earlier #NAME? for a name does not outlast its '
               'registration',
               'a custom function may evaluate formula text on the parser that is calling it; the statement applies to the '
               'inner and to the outer formula alike (the tokens after the call site belong to the outer formula)',
               'in a formula that aborts with #NAME? the statement does not say which call sites after the unbound name are '
               'called: the calls recorded up to it and the result are judged there (reunk: the recorded re-entrant calls must '
               'be a prefix of the call sites in order)',
               "the value of a documented built-in is not this property's subject: the session oracle treats it as unknown (it "
               'matches any argument) and only demands that the formula is not #NAME? (unless a #NAME? error VALUE is bound at '
               'that moment)']
EXHAUSTIVE = {'quick': False, 'thorough': False}

VAR_RE = re.compile(r'(?![A-Za-z]+[0-9])(?:[A-Za-z][A-Za-z_0-9]+|[A-Za-z_]+)')
FN_RE = re.compile(r'(?:[A-Za-z][A-Za-z_0-9.]+|[A-Za-z.]+)')
LETTERS = 'abcdefghijklmnopqrstuvwxyzABCDEFGHIJKLMNOPQRSTUVWXYZ'
DIGITS = '0123456789'
CODES = ['#NULL!', '#DIV/0!', '#VALUE!', '#REF!', '#NAME?', '#NUM!', '#N/A', '#GETTING_DATA', '#ERROR!']
BINOPS = ['+', '-', '*', '/', '&', '=', '<>', '<', '>', '<=', '>=']
SEPS = [',', ';', '\\']
NAME_REC = {'result': None, 'error': '#NAME?'}


def hx():
    common.load_repo()
    import hotxlfp
    return hotxlfp


def documented_names():
    out = []
    inside = False
    with open(os.path.join(common.REPO, 'SUPPORTED_FORMULAS.md'), encoding='utf-8') as f:
        for line in f:
            h = re.match(r'^\s*#+\s*(.*?)\s*$', line)
            if h:
                inside = h.group(1).lower().startswith('supported')
                continue
            m = re.match(r'^\s*[-*]\s+`?([A-Za-z0-9_.]+)`?\s*$', line)
            if m and inside:
                out.append(m.group(1))
    return out


# ------------------------------------------------------------------ values

class Token(object):
    """an arbitrary host object"""

    def __init__(self, k=0):
        self.k = k

    def __repr__(self):
        return 'Token(%d)' % self.k


class EqAll(object):
    """equal to everything (unittest.mock.ANY style)"""

    def __eq__(self, other):
        return True

    def __ne__(self, other):
        return False

    __hash__ = object.__hash__

    def __repr__(self):
        return 'EqAll()'


class EqRaises(object):
    """a value whose comparison with a foreign operand is an error"""

    def __eq__(self, other):
        if isinstance(other, EqRaises):
            return self is other
        raise TypeError('EqRaises can only be compared with EqRaises')

    def __ne__(self, other):
        return not self.__eq__(other)

    __hash__ = object.__hash__

    def __repr__(self):
        return 'EqRaises()'


class EqArray(object):
    """array-like: == is element-wise and the truth value of the outcome is ambiguous (numpy style)"""

    class Ambiguous(object):
        def __bool__(self):
            raise ValueError('The truth value of an array with more than one element is ambiguous')

    def __eq__(self, other):
        return EqArray.Ambiguous()

    def __ne__(self, other):
        return EqArray.Ambiguous()

    __hash__ = object.__hash__

    def __repr__(self):
        return 'EqArray()'


def mkval(spec):
    from hotxlfp.formulas import error
    k = spec[0]
    if k == 'excobj':
        return ValueError('boom')          # an exception OBJECT kept as a value (never raised): a value like any other
    if k == 'excclass':
        return KeyError
    if k == 'eqall':
        return EqAll()
    if k == 'eqraises':
        return EqRaises()
    if k == 'eqarray':
        return EqArray()
    if k == 'int':
        return int(spec[1])
    if k == 'float':
        return float.fromhex(spec[1])
    if k == 'str':
        return spec[1]
    if k == 'bool':
        return bool(spec[1])
    if k == 'none':
        return None
    if k == 'list':
        return [mkval(x) for x in spec[1]]
    if k == 'tuple':
        return tuple(mkval(x) for x in spec[1])
    if k == 'date':
        return datetime.datetime(*spec[1])
    if k == 'err':
        return error.from_message(spec[1])
    if k == 'dict':
        return {'a': 1}
    if k == 'set':
        return {1, 2}
    if k == 'bytes':
        return b'ab'
    if k == 'complex':
        return 1 + 2j
    if k == 'object':
        return Token(7)
    if k == 'plainobject':
        return object()
    if k == 'fn':
        return lambda *a: 1
    if k == 'nan':
        return float('nan')
    if k == 'inf':
        return float('inf')
    if k == 'type':
        return int
    raise ValueError(spec)


def gen_value(rng, depth=2):
    r = rng.random()
    if r < 0.14:
        return ['int', str(rng.choice([0, 1, -1, 7, 42, -1000, 2 ** 31, 2 ** 63, 10 ** 30, -10 ** 25, rng.randrange(-10 ** 6, 10 ** 6)]))]
    if r < 0.26:
        return ['float', float(rng.choice([0.0, -0.0, 1.0, 2.5, -0.125, 1e300, 1e-300, 0.1, 3.0, rng.randrange(-4096, 4096) / 64.0])).hex()]
    if r < 0.38:
        return ['str', rng.choice(['', 'a', 'abc', 'TRUE', '12', ' ', 'x y', '#N/A', 'é', '日本', '"', "it's", 'a,b', '=1+1'])]
    if r < 0.46:
        return ['bool', rng.random() < 0.5]
    if r < 0.52:
        return ['none']
    if r < 0.64 and depth > 0:
        return ['list', [gen_value(rng, depth - 1) for _ in range(rng.randrange(0, 4))]]
    if r < 0.70:
        return ['date', [rng.randrange(1900, 2100), rng.randrange(1, 13), rng.randrange(1, 29), rng.randrange(24), rng.randrange(60),
                         rng.randrange(60), rng.choice([0, 0, 500000])]]
    if r < 0.80:
        return ['err', rng.choice(CODES)]
    if r < 0.85 and depth > 0:
        return ['tuple', [gen_value(rng, depth - 1) for _ in range(rng.randrange(0, 3))]]
    return [rng.choice(['dict', 'set', 'bytes', 'complex', 'object', 'plainobject', 'fn', 'nan', 'inf', 'type', 'excobj', 'excclass'])]


# ------------------------------------------------------------------ names

def gen_varname(rng):
    while True:
        n = rng.randrange(1, 13)
        r = rng.random()
        if r < 0.35:
            s = ''.join(rng.choice(LETTERS + '_') for _ in range(n))
        elif r < 0.55:
            s = ''.join(rng.choice(LETTERS) for _ in range(n))
        else:
            s = rng.choice(LETTERS) + ''.join(rng.choice(LETTERS + '____' + DIGITS) for _ in range(n - 1))
        if VAR_RE.fullmatch(s):
            return s


SPECIAL_VARS = ['SUM', 'PI', 'IF', 'sum', 'TRUEx', 'xTRUE', 'TRUE_', 'FALSEy', 'NULLz', 'true', 'null', 'a_1', '_x', '_', '__', 'x', 'X',
                'a_1b2', 'rate_x1', 'A_1', 'ab_12', 'e', 'E', 'Abc', 'aB', 'zzzzzzzzzzzz', 'a_2345678901', 'NOSUCH', 'ID', 'x_', 'T', 'N']


def gen_fname(rng, avoid=()):
    hxm = hx()
    while True:
        n = rng.randrange(1, 11)
        r = rng.random()
        if r < 0.3:
            s = ''.join(rng.choice(LETTERS) for _ in range(n))
        elif r < 0.45:
            s = ''.join(rng.choice(LETTERS + '..') for _ in range(n))
        else:
            s = rng.choice(LETTERS) + ''.join(rng.choice(LETTERS + '__..' + DIGITS) for _ in range(n))
        if FN_RE.fullmatch(s) and s not in avoid and not hxm.formulas.is_supported(s):
            return s


SPECIAL_FNS = ['F', 'f', 'a.b', 'X_1', 'A1', 'ab12', 'LOG11', '.', '..', 'a.', 'x.y.z', 'Zz9_.q', 'SUMX', 'sum', 'Sum', 'iF', 'TRUEX', 'NOSUCH']
SHADOWED = ['SUM', 'IF', 'PI', 'IFERROR', 'TRUE', 'NA', 'CEILING.MATH']


# ------------------------------------------------------------------ trees (JSON lists)
#  ['n', digits] | ['d', a, b] | ['s', text] | ['v', name] | 'blank' | ['neg', t] | ['bin', op, l, r]
#  ['call', name, sep, [slot...]] | ['rows', name, [slot...], [slot...]] | ['arr', sep, [elem...]] | ['HOLE'] | ['raw', text]
#  ['re', name, inner]   = name("<text of inner>") where name is bound to a function that parses its argument on the SAME parser

def atomic(t):
    return t == 'blank' or t[0] in ('n', 'd', 's', 'v', 'call', 'rows', 'arr', 'HOLE', 'raw', 're')


def render(t, hole=None):
    if t == 'blank':
        return ''
    k = t[0]
    if k == 'n':
        return t[1]
    if k == 'd':
        return t[1] + '.' + t[2]
    if k == 's':
        return '"' + t[1] + '"'
    if k == 'v':
        return t[1]
    if k == 'raw':
        return t[1]
    if k == 'HOLE':
        return hole
    if k == 're':
        # a call of a RE-ENTRANT custom function: its one argument is the text of the inner formula
        return t[1] + '("' + render(t[2], hole) + '")'
    if k == 'neg':
        s = render(t[1], hole)
        return '-' + (s if atomic(t[1]) else '(' + s + ')')
    if k == 'bin':
        l, r = render(t[2], hole), render(t[3], hole)
        return (l if atomic(t[2]) else '(' + l + ')') + t[1] + (r if atomic(t[3]) else '(' + r + ')')
    if k == 'call':
        return t[1] + '(' + t[2].join(render(x, hole) for x in t[3]) + ')'
    if k == 'rows':
        return t[1] + '(' + ','.join(render(x, hole) for x in t[2]) + ';' + ','.join(render(x, hole) for x in t[3]) + ')'
    if k == 'arr':
        return '{' + t[1].join(render(x, hole) for x in t[2]) + '}'
    raise ValueError(t)


def gen_slots(rng, n, mk):
    """n expressions in an argument list, with blank slots where the grammar allows them:
    any number in front, at most one between two expressions, at most one at the end"""
    if n == 0:
        return []
    out = []
    if rng.random() < 0.15:
        out += ['blank'] * rng.randrange(1, 3)
    for i in range(n):
        if i and rng.random() < 0.15:
            out.append('blank')
        out.append(mk())
    if rng.random() < 0.1:
        out.append('blank')
    return out


def gen_lit(rng):
    r = rng.random()
    if r < 0.5:
        return ['n', str(rng.randrange(0, 1000))]
    if r < 0.65:
        return ['d', str(rng.randrange(0, 100)), rng.choice(['5', '25', '125', '0', '75'])]
    return ['s', rng.choice(['', 'a', 'abc', 'x y', ',', ';', '1', 'TRUE', 'é'])]


# ---- (fn) call trees

def gen_calltree(rng, depth, fnames, vnames):
    def arg(d):
        r = rng.random()
        if d > 0 and r < 0.35:
            return call(d - 1)
        if r < 0.5 and vnames:
            return ['v', rng.choice(vnames)]
        if r < 0.6:
            return ['arr', rng.choice(SEPS), [gen_lit(rng) for _ in range(rng.randrange(1, 4))]]
        if r < 0.65 and d > 0:
            return ['arr', ',', [call(d - 1), gen_lit(rng)]]
        return gen_lit(rng)

    def call(d):
        name = rng.choice(fnames)
        if rng.random() < 0.08:
            return ['rows', name, [arg(d) for _ in range(rng.randrange(2, 4))], [arg(d) for _ in range(rng.randrange(2, 4))]]
        n = rng.choice([0, 1, 1, 2, 2, 3, 4])
        # a single separator-free slot list of one expression never mentions the separator
        return ['call', name, rng.choice(SEPS), gen_slots(rng, n, lambda: arg(d))]
    return call(depth)


def count_calls(t, names):
    """call sites of the given (custom) names"""
    if t == 'blank':
        return 0
    k = t[0]
    if k == 'call':
        return (1 if t[1] in names else 0) + sum(count_calls(x, names) for x in t[3])
    if k == 'rows':
        return (1 if t[1] in names else 0) + sum(count_calls(x, names) for x in t[2] + t[3])
    if k == 'arr':
        return sum(count_calls(x, names) for x in t[2])
    if k == 'neg':
        return count_calls(t[1], names)
    if k == 'bin':
        return count_calls(t[2], names) + count_calls(t[3], names)
    return 0


# ---- (unk) safe expressions and contexts

VARS_UNK = {'va': 53, 'vb': 2.5, 'v_c': 'txt', 'flag': True}


def gen_num(rng, depth):
    """numeric-typed expression that evaluates without raising"""
    if depth <= 0 or rng.random() < 0.3:
        r = rng.random()
        if r < 0.6:
            return ['n', str(rng.randrange(1, 60))]
        if r < 0.75:
            return ['d', str(rng.randrange(0, 30)), rng.choice(['5', '25'])]
        return ['v', rng.choice(['va', 'vb'])]
    r = rng.random()
    if r < 0.1:
        return ['neg', gen_num(rng, depth - 1)]
    if r < 0.2:
        return ['call', 'ID', ',', [gen_num(rng, depth - 1)]]
    if r < 0.3:
        return ['call', 'SUM', rng.choice(SEPS), [gen_num(rng, depth - 1) for _ in range(rng.randrange(1, 4))]]
    if r < 0.36:
        return ['call', 'IF', ',', [gen_safe(rng, 0), gen_num(rng, depth - 1), gen_num(rng, depth - 1)]]
    if r < 0.42:
        return ['bin', '/', gen_num(rng, depth - 1), ['n', str(rng.randrange(0, 9))]]      # x/0 is an error VALUE
    return ['bin', rng.choice(['+', '-', '*']), gen_num(rng, depth - 1), gen_num(rng, depth - 1)]


def gen_safe(rng, depth):
    """any expression that evaluates without raising (its value may be an error value)"""
    r = rng.random()
    if r < 0.55:
        return gen_num(rng, depth)
    if r < 0.7:
        return ['bin', rng.choice(['=', '<>', '<', '>', '<=', '>=']), gen_num(rng, depth - 1), gen_num(rng, depth - 1)]
    if r < 0.8:
        return ['bin', '&', gen_num(rng, depth - 1), rng.choice([['s', 'a'], ['v', 'v_c'], gen_num(rng, depth - 1)])]
    if r < 0.86:
        return ['s', rng.choice(['', 'abc', 'x'])]
    if r < 0.9:
        return ['v', rng.choice(['TRUE', 'FALSE', 'NULL', 'flag', 'v_c'])]
    if r < 0.95:
        return ['arr', rng.choice(SEPS), [gen_num(rng, 0) for _ in range(rng.randrange(1, 4))]]
    return ['call', 'NA', ',', []]


def gen_after(rng, depth):
    """what stands after the hole is never evaluated: anything that parses"""
    r = rng.random()
    if r < 0.6:
        return gen_safe(rng, depth)
    if r < 0.7:
        return ['raw', rng.choice(['#REF!', '#N/A', '#DIV/0!', '#NULL!'])]
    if r < 0.8:
        return ['call', 'OTHERUNKNOWN', ',', [['n', '2']]]
    if r < 0.9:
        return ['v', 'another_unknown']
    return ['neg', ['s', 'a']]


ENCLOSING = ['SUM', 'IF', 'IFERROR', 'ISERROR', 'ISERR', 'ISNA', 'IFNA', 'ERROR.TYPE', 'AND', 'OR', 'NOT', 'MAX', 'CONCATENATE', 'COUNT',
             'ISBLANK', 'G', 'ID', 'CHOOSE', 'T', 'N']


def gen_ctx(rng, depth):
    if depth <= 0:
        return ['HOLE']
    r = rng.random()
    inner = lambda: gen_ctx(rng, depth - 1)
    if r < 0.1:
        return ['neg', inner()]
    if r < 0.28:
        return ['bin', rng.choice(BINOPS), inner(), gen_after(rng, 1)]
    if r < 0.46:
        return ['bin', rng.choice(BINOPS), gen_safe(rng, 1), inner()]
    if r < 0.8:
        n = rng.randrange(1, 5)
        i = rng.randrange(n)
        slots = [gen_safe(rng, 1) for _ in range(i)] + [inner()] + [gen_after(rng, 1) for _ in range(n - 1 - i)]
        if rng.random() < 0.12:
            slots = ['blank'] + slots
        return ['call', rng.choice(ENCLOSING), rng.choice(SEPS), slots]
    if r < 0.92:
        n = rng.randrange(1, 4)
        i = rng.randrange(n)
        return ['arr', rng.choice(SEPS), [gen_num(rng, 0) for _ in range(i)] + [inner()] + [gen_after(rng, 0) for _ in range(n - 1 - i)]]
    if rng.random() < 0.5:
        return ['rows', rng.choice(ENCLOSING), [inner(), gen_after(rng, 0)], [gen_after(rng, 0), gen_after(rng, 0)]]
    return ['rows', rng.choice(ENCLOSING), [gen_safe(rng, 0), gen_safe(rng, 0)], [gen_safe(rng, 0), inner()]]


def systematic_ctxs():
    one, two = ['n', '1'], ['n', '2']
    out = [['HOLE'], ['neg', ['HOLE']], ['neg', ['neg', ['HOLE']]]]
    for op in BINOPS:
        out.append(['bin', op, ['HOLE'], one])
        out.append(['bin', op, two, ['HOLE']])
        out.append(['bin', op, ['bin', op, one, ['HOLE']], two])
    for name in ENCLOSING:
        for n in (1, 2, 3):
            for i in range(n):
                out.append(['call', name, ',', [one] * i + [['HOLE']] + [two] * (n - 1 - i)])
    for sep in SEPS:
        out.append(['arr', sep, [['HOLE']]])
        out.append(['arr', sep, [one, ['HOLE'], two]])
        out.append(['call', 'SUM', sep, [one, ['arr', sep, [two, ['HOLE']]]]])
    out.append(['call', 'IFERROR', ',', [['bin', '+', one, ['HOLE']], ['n', '0']]])
    out.append(['call', 'IFERROR', ',', [['call', 'IFERROR', ',', [['HOLE'], one]], two]])
    out.append(['call', 'ISERROR', ',', [['call', 'SUM', ',', [one, ['call', 'ID', ',', [['HOLE']]]]]]])
    out.append(['call', 'IF', ',', [['v', 'TRUE'], one, ['HOLE']]])       # both branches are evaluated (no laziness)
    out.append(['call', 'IF', ',', [['v', 'FALSE'], ['HOLE'], one]])
    out.append(['rows', 'G', [['HOLE'], one], [two, one]])
    out.append(['rows', 'G', [two, one], [one, ['HOLE']]])
    out.append(['bin', '+', ['bin', '/', one, ['n', '0']], ['HOLE']])     # an error VALUE before the hole
    out.append(['bin', '&', ['call', 'NA', ',', []], ['HOLE']])
    out.append(['call', 'SUM', ',', [['bin', '/', one, ['n', '0']], ['HOLE']]])
    return out


# ------------------------------------------------------------------ (sess) multi-step sessions on long-lived parsers
#  case = {'kind': 'sess', 'np': 1|2, 'steps': [step...], 'at': index of the judged parse step}
#  step = ['var', parser, name, valuespec] | ['fn', parser, name, behaviour] | ['parse', parser, tree]
#  behaviour = ['uniq'] | ['args'] | ['first'] | ['const', valuespec] | ['reent']   (reent: lambda t: p.parse(t)['result'])

BUILTIN_POOL = ['SUM', 'MAX', 'MIN', 'IF', 'PI', 'ABS', 'IFERROR', 'NA', 'COUNT', 'CONCATENATE', 'AND', 'OR', 'NOT', 'ISERROR',
                'CEILING.MATH', 'TRUE', 'AVERAGE', 'CHOOSE', 'ROUND']
SESS_VARS = ['rate', 'x', 'X', 'total_', 'SUM', 'PI', 'a_1', 'Abc', 'NOSUCH', '_', 'T', 'TRUE', 'FALSE', 'NULL', 'true', 'e_na']
PREDEF = {'TRUE': True, 'FALSE': False, 'NULL': None}
_DOC = []


def doc_set():
    if not _DOC:
        _DOC.append(frozenset(documented_names()))
    return _DOC[0]


def new_env():
    return {'vars': {}, 'fns': {}}


def env_at(steps, at, np):
    """the bindings registered on each parser just before step `at` (computed from the session text, not from the implementation)"""
    envs = [new_env() for _ in range(np)]
    for st in steps[:at]:
        if st[0] == 'var':
            envs[st[1]]['vars'][st[2]] = st[3]
        elif st[0] == 'fn':
            envs[st[1]]['fns'][st[2]] = st[3]
    return envs


def gen_sval(rng):
    if rng.random() < 0.45:
        return ['int', str(rng.choice([0, 1, 4, 7, -3, 42, rng.randrange(-500, 500)]))]
    return gen_value(rng, 1)


def gen_beh(rng, reent=0.2):
    r = rng.random()
    if r < reent:
        return ['reent']
    r = rng.random()
    return ['uniq'] if r < 0.25 else ['args'] if r < 0.45 else ['first'] if r < 0.55 else ['const', gen_sval(rng)]


def gen_inner(rng, fpool, vpool, env):
    """the formula a re-entrant function is asked to evaluate: no text literals (it stands between quotes), no re-entrant call;
    it may succeed, reference unset variables / unregistered functions (then it is #NAME? and the function returns a blank),
    or be no formula at all"""
    plain = [f for f in fpool if env['fns'].get(f) != ['reent']]
    num = lambda: ['n', str(rng.randrange(0, 100))]
    var = lambda: ['v', rng.choice(vpool)] if vpool else num()
    r = rng.random()
    if r < 0.2:
        return num()
    if r < 0.4:
        return var()
    if r < 0.5:
        return ['bin', rng.choice(['+', '-', '*']), num(), num()]
    if r < 0.62:
        return ['bin', rng.choice(['+', '*', '&', '=']), var(), num()]          # "zz+1": tokens are left over when zz is unknown
    if r < 0.9 and plain:
        n = rng.choice([0, 1, 2, 3])
        t = ['call', rng.choice(plain), rng.choice(SEPS), [rng.choice([num, var])() for _ in range(n)]]
        return t if rng.random() < 0.7 else ['bin', rng.choice(['+', '-']), t, num()]
    if r < 0.95:
        return ['raw', rng.choice(['#REF!', '1+', ')', '#N/A'])]
    return ['d', str(rng.randrange(0, 50)), rng.choice(['5', '25'])]


def gen_stree(rng, depth, fpool, vpool, env, rootvar=0.12):
    """a formula over the session's name pools; what each name means is decided by the bindings at the moment of the parse"""
    def arg(d):
        r = rng.random()
        if d > 0 and r < 0.4:
            return call(d - 1)
        if r < 0.55 and vpool:
            return ['v', rng.choice(vpool)]
        if r < 0.62:
            return ['arr', rng.choice(SEPS), [gen_lit(rng) for _ in range(rng.randrange(1, 4))]]
        if r < 0.67 and d > 0:
            return ['arr', ',', [call(d - 1), gen_lit(rng)]]
        return gen_lit(rng)

    def call(d):
        name = rng.choice(fpool)
        if env['fns'].get(name) == ['reent']:
            return ['re', name, gen_inner(rng, fpool, vpool, env)]
        if rng.random() < 0.06:
            return ['rows', name, [arg(d) for _ in range(rng.randrange(2, 4))], [arg(d) for _ in range(rng.randrange(2, 4))]]
        n = rng.choice([0, 1, 1, 2, 2, 3])
        return ['call', name, rng.choice(SEPS), gen_slots(rng, n, lambda: arg(d))]
    r = rng.random()
    if r < rootvar and vpool:
        return ['v', rng.choice(vpool)]
    if r < rootvar + 0.25:
        # further tokens after a call: an operator and a second operand
        right = call(depth) if rng.random() < 0.5 else ['v', rng.choice(vpool)] if vpool and rng.random() < 0.4 else ['n', str(rng.randrange(0, 50))]
        return ['bin', rng.choice(['+', '-', '*', '+', '&', '=', '<']), call(depth), right]
    if r < rootvar + 0.28:
        return ['neg', call(depth)]
    return call(depth)


def gen_session(rng, thorough, pattern=None, np=None, fpool=None, vpool=None, reent=0.2):
    """a seeded sequence of set_variable / set_function / parse steps on one or two long-lived parsers.  The name pools are
    small, so names change role over time: a built-in is called and later shadowed, an unknown name is referenced and later
    registered, a variable or function is re-bound, and with two parsers the same names mean different things on each."""
    hxm = hx()
    if np is None:
        np = 2 if rng.random() < 0.25 else 1
    if fpool is None:
        fpool = []
        for _ in range(rng.randrange(2, 5)):
            r = rng.random()
            fpool.append(rng.choice(BUILTIN_POOL) if r < 0.4 else rng.choice(SPECIAL_FNS) if r < 0.6 else gen_fname(rng))
        fpool = sorted(set(fpool))
    if vpool is None:
        vpool = sorted(set(rng.choice(SESS_VARS) if rng.random() < 0.5 else gen_varname(rng) for _ in range(rng.randrange(1, 4))))
    vpool = [v for v in vpool if VAR_RE.fullmatch(v)]
    if pattern is None:
        n = rng.randrange(4, 15 if thorough else 11)
        pattern = ''
        for j in range(n):
            r = rng.random()
            pattern += 'P' if (j == 0 and r < 0.7) or r < 0.5 else 'V' if r < 0.68 and vpool else 'F'
    envs = [new_env() for _ in range(np)]
    steps = []
    for ch in pattern:
        pi = rng.randrange(np)
        if ch == 'P':
            t = gen_stree(rng, rng.randrange(0, 3), fpool, vpool, envs[pi], rootvar=0.45 if 'V' in pattern and 'F' not in pattern else 0.12)
            steps.append(['parse', pi, t])
        elif ch == 'V':
            name = rng.choice(vpool)
            spec = gen_sval(rng)
            envs[pi]['vars'][name] = spec
            steps.append(['var', pi, name, spec])
        else:
            name = rng.choice(fpool)
            beh = gen_beh(rng, reent)
            envs[pi]['fns'][name] = beh
            steps.append(['fn', pi, name, beh])
    if steps[-1][0] != 'parse':
        pi = steps[-1][1]
        steps.append(['parse', pi, gen_stree(rng, rng.randrange(0, 3), fpool, vpool, envs[pi])])
    return {'np': np, 'steps': steps}


def session_cases(sess):
    return [{'kind': 'sess', 'np': sess['np'], 'steps': sess['steps'], 'at': i}
            for i, st in enumerate(sess['steps']) if st[0] == 'parse']


def _c(name, *args):
    return ['call', name, ',', [['n', str(a)] if isinstance(a, int) else a for a in args]]


# minimal witnesses of role changes and re-entrancy (regression cases; the generators reach these classes on their own)
SESSION_CORPUS = [
    # a built-in is called, then shadowed, then called again; then re-registered with another callable
    {'np': 1, 'steps': [['parse', 0, _c('SUM', 1, 2)], ['fn', 0, 'SUM', ['const', ['str', 'custom']]], ['parse', 0, _c('SUM', 1, 2)],
                        ['fn', 0, 'SUM', ['args']], ['parse', 0, _c('SUM', 1, 2)]]},
    # an unknown function / variable is referenced, then registered
    {'np': 1, 'steps': [['parse', 0, _c('LATER', 1)], ['fn', 0, 'LATER', ['first']], ['parse', 0, _c('LATER', 1)],
                        ['parse', 0, ['v', 'later_v']], ['var', 0, 'later_v', ['int', '3']], ['parse', 0, ['v', 'later_v']],
                        ['var', 0, 'later_v', ['str', 'three']], ['parse', 0, ['v', 'later_v']], ['parse', 0, _c('LATER', ['v', 'later_v'])]]},
    # two parsers alternately
    {'np': 2, 'steps': [['parse', 0, _c('PI')], ['parse', 1, _c('PI')], ['fn', 0, 'PI', ['const', ['int', '3']]], ['parse', 1, _c('PI')],
                        ['parse', 0, _c('PI')], ['var', 1, 'rate', ['int', '4']], ['parse', 0, ['v', 'rate']], ['parse', 1, ['v', 'rate']],
                        ['fn', 1, 'ONLYB', ['uniq']], ['parse', 0, _c('ONLYB')], ['parse', 1, _c('ONLYB')]]},
    # a function that evaluates formula text on the same parser, with further tokens after the call
    {'np': 1, 'steps': [['fn', 0, 'EVALUATE', ['reent']], ['var', 0, 'rate', ['int', '4']],
                        ['parse', 0, ['re', 'EVALUATE', ['bin', '*', ['v', 'rate'], ['n', '2']]]],
                        ['parse', 0, ['bin', '+', ['re', 'EVALUATE', ['v', 'rate']], ['n', '1']]],
                        ['parse', 0, ['bin', '+', _c('NOPE'), ['re', 'EVALUATE', ['n', '1']]]],
                        ['parse', 0, ['bin', '+', ['re', 'EVALUATE', ['n', '1']], _c('NOPE')]],
                        ['parse', 0, _c('SUM', ['re', 'EVALUATE', ['v', 'rate']], _c('NOPE', 2))],
                        ['parse', 0, ['bin', '+', ['re', 'EVALUATE', ['bin', '+', ['v', 'zz'], ['n', '1']]], _c('NOPE')]],
                        ['fn', 0, 'G', ['args']],
                        ['parse', 0, _c('G', ['re', 'EVALUATE', ['v', 'rate']], _c('G', 2), ['v', 'rate'])],
                        ['parse', 0, _c('G', ['re', 'EVALUATE', _c('NOPE', 1)], ['v', 'zz'])]]},
]


# ------------------------------------------------------------------ (reunk) an unknown name after re-entrant calls, in context

RE_NAMES = ['EV', 'EVB', 'EVC']
RE_FAILING = [['bin', '+', ['v', 'nosuch_inner'], ['n', '1']], ['bin', '*', ['call', 'NOPEIN', ',', [['n', '2']]], ['n', '3']],
              ['v', 'nosuch_inner'], ['call', 'NOPEIN', ',', []], ['raw', '#REF!'], ['raw', '1+'],
              ['call', 'SUM', ',', [['n', '1'], ['v', 'nosuch_inner'], ['n', '2']]]]


def leaf_paths(t, path=()):
    """paths of the number literals and of the numeric variables va / vb"""
    if t == 'blank' or not isinstance(t, list):
        return []
    k = t[0]
    if k == 'n' or (k == 'v' and t[1] in ('va', 'vb')):
        return [path]
    out = []
    if k in ('neg',):
        out += leaf_paths(t[1], path + (1,))
    elif k == 'bin':
        out += leaf_paths(t[2], path + (2,)) + leaf_paths(t[3], path + (3,))
    elif k in ('call', 'arr'):
        idx = 3 if k == 'call' else 2
        for i, x in enumerate(t[idx]):
            out += leaf_paths(x, path + (idx, i))
    elif k == 'rows':
        for idx in (2, 3):
            for i, x in enumerate(t[idx]):
                out += leaf_paths(x, path + (idx, i))
    return out


def subst(t, path, fn):
    if not path:
        return fn(t)
    t = list(t)
    t[path[0]] = subst(t[path[0]], path[1:], fn)
    return t


def make_reunk(rng, ctx, fill):
    """replace one or two numeric leaves `5` / `va` of the context by re-entrant calls EV("5") / EVB("va") that return the very
    same value (so whatever was safe stays safe), each call site under its own function name; at least one such call is evaluated
    before the hole (if none is, a third one EVx("k") is put in front); in 35% put a re-entrant call EVF whose inner formula FAILS
    in front of everything"""
    paths = leaf_paths(ctx)
    plain = ctx
    if paths:
        chosen = rng.sample(paths, min(len(paths), rng.randrange(1, 3)))
        for name, pth in zip(RE_NAMES, chosen):
            ctx = subst(ctx, pth, lambda leaf, name=name: ['re', name, leaf])
    sites = []
    re_sites(ctx, sites)
    if None not in sites or sites.index(None) == 0:
        # no re-entrant call is evaluated before the hole yet: put one in front
        k = str(rng.randrange(1, 9))
        name = [n for n in RE_NAMES if n not in [s[0] for s in sites if s]][0]
        ctx = ['bin', rng.choice(['+', '-', '*', '&', '=']), ['re', name, ['n', k]], ctx]
        plain = ['bin', ctx[1], ['n', k], plain]
    if rng.random() < 0.35:
        ctx = ['call', 'G', ',', [['re', 'EVF', rng.choice(RE_FAILING)], ctx]]
        plain = ['call', 'G', ',', [['v', 'NULL'], plain]]
    return {'kind': 'reunk', 'ctx': ctx, 'plain': plain, 'fill': fill}


def re_sites(t, out):
    """the re-entrant call sites in evaluation (post-) order; the hole is marked by None"""
    if t == 'blank' or not isinstance(t, list):
        return
    k = t[0]
    if k == 're':
        out.append((t[1], render(t[2])))
    elif k == 'HOLE':
        out.append(None)
    elif k == 'neg':
        re_sites(t[1], out)
    elif k == 'bin':
        re_sites(t[2], out)
        re_sites(t[3], out)
    elif k in ('call', 'arr'):
        for x in t[3 if k == 'call' else 2]:
            re_sites(x, out)
    elif k == 'rows':
        for x in t[2] + t[3]:
            re_sites(x, out)


# ------------------------------------------------------------------ (lis) (lisunk) names answered by callVariable listeners
#  A host may serve variables through the event: p.on('callVariable', lambda name, setter: setter(env.get(name))).
#  listener = {'d': 'skip' | 'none' | 'none2'              what it does for a name it has no script for: nothing / setter(None) / twice
#              'n': {name: [round, ...]}}                   round = [valuespec, ...]: the values handed to the setter, in order, on
#                                                           one reference of the name (['none'] = None); reference j uses round j mod len
#  case (lis)    = {'kind': 'lis', 'reg': {name: valuespec}, 'lst': [listener, ...], 't': tree over G / ID / + - * / unary minus}
#  case (lisunk) = {'kind': 'lisunk', 'ctx': context with a hole, 'fill': ['v', name], 'lst': [listener, ...]}   over VARS_UNK, ID, G

LIS_DEFAULT = {'skip': 0, 'none': 1, 'none2': 2}
MISSING = ('missing',)


def tree_refs(t, out):
    """the variable references of a tree in evaluation order (left to right)"""
    if t == 'blank' or not isinstance(t, list):
        return out
    k = t[0]
    if k == 'v':
        out.append(t[1])
    elif k == 'neg':
        tree_refs(t[1], out)
    elif k == 'bin':
        tree_refs(t[2], out)
        tree_refs(t[3], out)
    elif k in ('call', 'arr'):
        for x in t[3 if k == 'call' else 2]:
            tree_refs(x, out)
    elif k == 'rows':
        for x in t[2] + t[3]:
            tree_refs(x, out)
    return out


def lis_effective(refs, reg, lst, given):
    """what each reference (in evaluation order) evaluates to according to the statement: the value registered on the parser (or
    the predefined one), replaced by the last non-None value that a listener hands to the setter during THAT reference; MISSING
    when the name is not registered and no listener hands a non-None value.
    reg: name -> value, given[i]: name -> rounds of the values that listener i hands over (same shape as lst[i]['n'])"""
    counters = {}
    out = []
    for name in refs:
        cur = reg[name] if name in reg else PREDEF[name] if name in PREDEF else MISSING
        for i, L in enumerate(lst):
            rounds = given[i].get(name)
            if not rounds:
                continue          # no script for this name: nothing or None is handed over
            j = counters.get((i, name), 0)
            counters[(i, name)] = j + 1
            for v in rounds[j % len(rounds)]:
                if v is not None:
                    cur = v
        out.append(cur)
    return out


def make_listener(L, given, asked):
    counters = {}

    def listener(name, setter):
        asked.append(name)
        rounds = given.get(name)
        if not rounds:
            for _ in range(LIS_DEFAULT[L['d']]):
                setter(None)
            return
        j = counters.get(name, 0)
        counters[name] = j + 1
        for v in rounds[j % len(rounds)]:
            setter(v)
    return listener


def lis_objects(lst):
    return [{n: [[mkval(s) for s in rnd] for rnd in rounds] for n, rounds in L['n'].items()} for L in lst]


def describe_listeners(lst):
    out = []
    for i, L in enumerate(lst):
        parts = []
        for n, rounds in L['n'].items():
            show = [[('None' if s == ['none'] else repr(mkval(s))) for s in rnd] for rnd in rounds]
            if len(show) == 1:
                parts.append('for %r it calls setter with %s' % (n, ', then '.join(show[0]) if show[0] else 'nothing (no call)'))
            else:
                parts.append('for %r it calls setter with %s' % (n, ' / '.join('reference %d: %s' % (j + 1, ', then '.join(r) if r else 'no call')
                                                                            for j, r in enumerate(show)) + ' (cyclically)'))
        parts.append({'skip': 'for any other name it does nothing', 'none': 'for any other name it calls setter(None)',
                      'none2': 'for any other name it calls setter(None) twice'}[L['d']])
        out.append("p.on('callVariable', L%d) where L%d(name, setter): %s" % (i + 1, i + 1, '; '.join(parts)))
    return '; '.join(out)


LIS_PATTERNS = [[], ['N'], ['N', 'N'], ['v'], ['N', 'v'], ['v', 'N'], ['v', 'N', 'w'], ['v', 'w']]


def gen_lis_value(rng, arith):
    if arith:
        return ['int', str(rng.randrange(-50, 50))]
    if rng.random() < 0.04:
        return [rng.choice(['eqall', 'eqraises', 'eqarray'])]
    v = gen_value(rng, 1)
    return v if v != ['none'] else ['int', '0']


def gen_lis_name(rng, taken):
    while True:
        n = rng.choice(SPECIAL_VARS) if rng.random() < 0.3 else gen_varname(rng)
        if n not in PREDEF and n not in taken and VAR_RE.fullmatch(n):
            return n


def gen_lis_listeners(rng, names, val, pnone=0.5):
    lst = []
    for _ in range(rng.randrange(1, 4)):
        L = {'d': rng.choice(['skip', 'none', 'none', 'none2']), 'n': {}}
        for n in names:
            if rng.random() < 0.65:
                L['n'][n] = [[(['none'] if rng.random() < pnone else val()) for _ in range(rng.choice([0, 1, 1, 1, 2, 2, 3]))]
                             for _ in range(1 if rng.random() < 0.75 else 2)]
        lst.append(L)
    return lst


def gen_lis(rng):
    shape = rng.choice(['bare', 'bare', 'bare', 'id', 'g', 'g', 'g', 'g', 'arith', 'arith'])
    arith = shape == 'arith'
    val = lambda: gen_lis_value(rng, arith)
    names, reg = [], {}
    for _ in range(1 if shape in ('bare', 'id') else rng.randrange(1, 4)):
        r = rng.random()
        if r < 0.4:
            n = gen_lis_name(rng, names)                                          # never registered
        elif r < 0.62:
            n = rng.choice(list(PREDEF)) if rng.random() < 0.15 else gen_lis_name(rng, names)
            reg[n] = val()                                                        # registered with a value
        elif r < 0.74:
            n = rng.choice(list(PREDEF)) if rng.random() < 0.15 else gen_lis_name(rng, names)
            reg[n] = ['none']                                                     # registered with the value None
        else:
            n = rng.choice(list(PREDEF))                                          # predefined, as it is
        if n not in names:
            names.append(n)
    lst = gen_lis_listeners(rng, names, val)
    ref = lambda: ['v', rng.choice(names)]
    if shape == 'bare':
        t = ref()
    elif shape == 'id':
        t = ['call', 'ID', ',', [ref()]]
    elif shape == 'g':
        first = [True]

        def mk():
            r = rng.random()
            if first[0] or r < 0.7:
                first[0] = False
                return ref()
            if r < 0.8:
                return ['arr', rng.choice(SEPS), [ref(), gen_lit(rng)]]
            if r < 0.88:
                return ['call', 'ID', ',', [ref()]]
            return gen_lit(rng)
        t = ['call', 'G', rng.choice(SEPS), gen_slots(rng, rng.randrange(1, 5), mk)]
    else:
        num = lambda: ['n', str(rng.randrange(0, 60))]
        r = rng.random()
        if r < 0.15:
            t = ['neg', ref()]
        elif r < 0.5:
            t = ['bin', rng.choice(['+', '-', '*']), ref(), ref()]
        elif r < 0.75:
            t = ['bin', rng.choice(['+', '-', '*']), ref(), num()]
        else:
            t = ['bin', rng.choice(['+', '-', '*']), num(), ['bin', rng.choice(['+', '-', '*']), ref(), ref()]]
    return {'kind': 'lis', 'reg': reg, 'lst': lst, 't': t}


def systematic_lis(rng):
    """every status of the name x every pattern of setter calls (one listener; and split over two listeners) x the bare name and
    an argument position of a custom function"""
    out = []
    for status in ('unreg', 'reg', 'regnone', 'TRUE', 'NULL'):
        name = status if status in PREDEF else 'ratio_x'
        reg = {name: gen_lis_value(rng, False)} if status == 'reg' else {name: ['none']} if status == 'regnone' else {}
        scripts = []
        for pat in LIS_PATTERNS:
            vals = {'N': ['none'], 'v': gen_lis_value(rng, False), 'w': gen_lis_value(rng, False)}
            scripts.append([{'d': 'skip', 'n': {name: [[vals[x] for x in pat]]}}])
        v = gen_lis_value(rng, False)
        for a, b in ((['v'], ['N']), (['N'], ['v']), (['N'], ['N'])):
            scripts.append([{'d': 'skip', 'n': {name: [[{'N': ['none'], 'v': v}[x] for x in a]]}},
                            {'d': 'none', 'n': {name: [[{'N': ['none'], 'v': v}[x] for x in b]]}}])
        # no script at all: the default of the listener (nothing / None / None twice) answers
        for d in ('skip', 'none', 'none2'):
            scripts.append([{'d': d, 'n': {}}])
        for lst in scripts:
            out.append({'kind': 'lis', 'reg': reg, 'lst': lst, 't': ['v', name]})
            out.append({'kind': 'lis', 'reg': reg, 'lst': lst, 't': ['call', 'G', ',', [['n', '1'], ['v', name], ['s', 'x']]]})
    return out


def gen_lisunk(rng, cx, name=None):
    """a never-registered name in the hole of an (unk) context, on a parser whose listeners hand it nothing or only None (and hand
    None / nothing for the registered names va vb v_c flag and the predefined ones in front of the hole)"""
    name = name or gen_varname(rng) + '_u'
    lst = []
    for _ in range(rng.randrange(1, 3)):
        L = {'d': rng.choice(['skip', 'none', 'none', 'none2']), 'n': {}}
        if rng.random() < 0.5:
            L['n'][name] = [[['none']] * rng.choice([0, 1, 1, 2])]
        if rng.random() < 0.3:
            L['n'][rng.choice(['va', 'vb', 'v_c', 'flag', 'TRUE', 'NULL'])] = [[['none']] * rng.choice([0, 1, 2])]
        lst.append(L)
    if not any(L['n'].get(name, [[]])[0] or (name not in L['n'] and L['d'] != 'skip') for L in lst):
        lst[0]['n'][name] = [[['none']]]          # at least one listener answers the name in the hole with None
    return {'kind': 'lisunk', 'ctx': cx, 'fill': ['v', name], 'lst': lst}


# the host of the missed change c09_l: variables served from a dict, `setter(env.get(name))` (None for a name it does not know)
_ENV_LISTENER = {'d': 'none', 'n': {'price': [[['int', '40']]], 'qty': [[['int', '3']]]}}
_ENV_REG = {'rate': ['float', (0.2).hex()], 'nothing': ['none']}
LIS_CORPUS = [{'kind': 'lis', 'reg': _ENV_REG, 'lst': [_ENV_LISTENER], 't': t} for t in (
    ['v', 'ratio'], ['v', 'price'], ['v', 'rate'], ['v', 'nothing'], ['v', 'NULL'],
    ['bin', '*', ['v', 'price'], ['v', 'qty']], ['bin', '*', ['v', 'price'], ['v', 'ratio']],
    ['call', 'IF', ',', [['bin', '>', ['v', 'ratio'], ['n', '1']], ['n', '1'], ['n', '2']]],
    ['call', 'G', ',', [['v', 'price'], ['v', 'ratio']]])] + [
    {'kind': 'lis', 'reg': {}, 'lst': [{'d': 'skip', 'n': {}}], 't': ['v', 'ratio']}]


# ------------------------------------------------------------------ cases

def cases(rng, ctx):
    thorough = ctx['tier'] == 'thorough'
    mult = (30 if thorough else 1) * ctx['scale']
    hxm = hx()
    out = []

    # (doc) complete, and the predefined names
    for n in documented_names():
        out.append({'kind': 'doc', 'name': n})
    for n in ('TRUE', 'FALSE', 'NULL'):
        out.append({'kind': 'predef', 'name': n})

    # (var)
    names = list(SPECIAL_VARS) + [gen_varname(rng) for _ in range(500 * mult)]
    for i, n in enumerate(names):
        if not VAR_RE.fullmatch(n):
            continue
        c = {'kind': 'var', 'name': n, 'v': gen_value(rng)}
        if rng.random() < 0.06:
            # values with an equality of their own: always equal, raising, element-wise with an ambiguous truth value
            c['v'] = [rng.choice(['eqall', 'eqraises', 'eqarray'])]
        if rng.random() < 0.15:
            c['first'] = gen_value(rng)          # set twice: the later value counts
        out.append(c)
    for n in ('TRUE', 'FALSE', 'NULL'):
        out.append({'kind': 'var', 'name': n, 'v': ['int', '5']})
    for spec in ([['int', '0']], [['float', (0.5).hex()]], [['str', '']], [['bool', False]], [['none']], [['list', []]],
                 [['list', [['list', [['int', '1']]], ['none']]]], [['date', [2020, 2, 29, 1, 2, 3, 0]]], [['tuple', []]], [['dict']],
                 [['set']], [['bytes']], [['complex']], [['object']], [['plainobject']], [['fn']], [['nan']], [['inf']], [['type']],
                 [['eqall']], [['eqraises']], [['eqarray']], [['excobj']], [['excclass']]) + tuple(
                     [['err', code]] for code in CODES):
        out.append({'kind': 'var', 'name': 'value_x', 'v': spec[0]})
    # never-set names
    for n in SPECIAL_VARS + [gen_varname(rng) for _ in range(150 * mult)]:
        if n in ('TRUE', 'FALSE', 'NULL') or not VAR_RE.fullmatch(n):
            continue
        out.append({'kind': 'unkvar', 'name': n, 'other': gen_varname(rng)})
    # outside the claim's domain (cell-shaped, dotted): model comparison only
    for n in ['A1', 'ab12', 'abc1_x', 'x.y', 'a.b.c', 'Z9', 'a1b']:
        out.append({'kind': 'var-out', 'name': n, 'v': ['int', '3']})

    # (fn)
    for i in range(450 * mult):
        nf = rng.randrange(1, 4)
        fnames = []
        for _ in range(nf):
            r = rng.random()
            fnames.append(rng.choice(SHADOWED) if r < 0.2 else rng.choice(SPECIAL_FNS) if r < 0.45 else gen_fname(rng))
        fnames = sorted(set(fnames))
        vnames = sorted(set(gen_varname(rng) for _ in range(rng.randrange(0, 3))) - {'TRUE', 'FALSE', 'NULL'})
        behaviours = {}
        for f in fnames:
            r = rng.random()
            behaviours[f] = ['uniq'] if r < 0.35 else ['args'] if r < 0.6 else ['first'] if r < 0.7 else ['const', gen_value(rng, 1)]
        out.append({'kind': 'fn', 'fns': behaviours, 'vars': {v: gen_value(rng, 1) for v in vnames},
                    't': gen_calltree(rng, rng.randrange(0, 4 if thorough else 3), fnames, vnames)})
    # the value of a call site inside arithmetic / builtins
    for name in SHADOWED + ['F', 'a.b', 'A1']:
        k = rng.randrange(2, 90)
        for t, exp in ((['bin', '+', ['call', name, ',', [['n', '2']]], ['n', '1']], k + 1),
                       (['neg', ['call', name, ',', []]], -k),
                       (['bin', '*', ['call', name, ',', [['n', '1'], ['n', '2']]], ['call', name, ';', [['s', 'x']]]], k * k),
                       (['call', 'IF' if name != 'IF' else 'CHOOSE', ',', [['n', '1'], ['call', name, ',', [['n', '3']]], ['n', '0']]], k),
                       (['call', 'SUM' if name != 'SUM' else 'MAX', ',', [['call', name, ',', []], ['n', '1000']]],
                        k + 1000 if name != 'SUM' else 1000)):
            out.append({'kind': 'fn', 'fns': {name: ['const', ['int', str(k)]]}, 'vars': {}, 't': t, 'expect': exp})

    # (unk)
    fills = []
    for name in ['NOSUCH', 'sumx', 'SUMM', 'S.U.M', 'F1x', 'A1', 'zz.top', 'Nope_1', '.', 'iff']:
        fills.append(['call', name, ',', []])
        fills.append(['call', name, ',', [['n', '1']]])
    fills.append(['v', 'nosuchvar'])
    fills.append(['v', 'true'])
    for cx in systematic_ctxs():
        for fl in (fills if thorough else [fills[1], fills[0], fills[5], fills[-2]]):
            out.append({'kind': 'unk', 'ctx': cx, 'fill': fl})
    # spellings NEAR the documented names that are not documented themselves: the Python names of the implementing functions
    # (ERROR_TYPE, VAR_P ...), dots as underscores and the reverse, a dot dropped, a dotted prefix or suffix alone
    DOC = set(documented_names())
    near = set()
    try:
        for f in hxm.formulas.dispatcher._registry_.values():
            near.add(getattr(f, '__name__', ''))
            near.add(getattr(getattr(f, '__wrapped__', None), '__name__', ''))
    except Exception:
        pass
    for n in DOC:
        near |= {n.replace('.', '_'), n.replace('.', ''), n.replace('_', '.'), n.split('.')[0] + '.X', n + '.S', n + '_'}
    for name in sorted(x for x in near if x and x not in DOC and FN_RE.fullmatch(x)):
        out.append({'kind': 'unk', 'ctx': ['HOLE'], 'fill': ['call', name, ',', [['n', '1'], ['n', '2']]]})
    maxd = 7 if thorough else 4
    for i in range(700 * mult):
        if rng.random() < 0.2:
            fl = ['v', gen_varname(rng) + '_u']
        else:
            name = rng.choice(SPECIAL_FNS[:-3]) + 'q' if rng.random() < 0.3 else gen_fname(rng, avoid=('ID', 'G', 'REACHED'))
            if name in DOC or name in ('ID', 'G', 'REACHED'):
                continue          # (judged against the DOCUMENTED list, not against what the implementation says it supports)
            n = rng.choice([0, 1, 1, 2, 3])
            fl = ['call', name, rng.choice(SEPS), gen_slots(rng, n, lambda: gen_safe(rng, 1))]
        out.append({'kind': 'unk', 'ctx': gen_ctx(rng, rng.randrange(0, maxd + 1)), 'fill': fl})
    # (sess) multi-step sessions: names change role over time on long-lived parsers
    smult = (12 if thorough else 1) * ctx['scale']
    sessions = [dict(s) for s in SESSION_CORPUS]
    for i in range(150 * smult):
        sessions.append(gen_session(rng, thorough))
    for i in range(30 * smult):
        # a built-in is called, shadowed, called, re-registered, called
        sessions.append(gen_session(rng, thorough, pattern=rng.choice(['PFPFP', 'PFP', 'PPFPFPP']), np=1,
                                    fpool=[rng.choice(BUILTIN_POOL)] + ([rng.choice(SPECIAL_FNS)] if rng.random() < 0.4 else []), reent=0.1))
    for i in range(20 * smult):
        # an unknown function is referenced, registered, re-registered
        sessions.append(gen_session(rng, thorough, pattern=rng.choice(['PFPFP', 'PFP', 'PVFPFVP']), np=1,
                                    fpool=[gen_fname(rng)] + ([rng.choice(SPECIAL_FNS)] if rng.random() < 0.4 else []), reent=0.1))
    for i in range(20 * smult):
        # a variable is referenced, set, read, set to something else, read
        sessions.append(gen_session(rng, thorough, pattern=rng.choice(['PVPVP', 'PVPVPVP', 'VPVP']), np=1, fpool=['F'],
                                    vpool=[rng.choice(SESS_VARS) if rng.random() < 0.5 else gen_varname(rng)]))
    for i in range(30 * smult):
        # two parsers alternately: the same names, registered on one of them only
        n = rng.randrange(5, 12)
        sessions.append(gen_session(rng, thorough, np=2, pattern='P' + ''.join(rng.choice('PPFV') for _ in range(n)),
                                    fpool=sorted({rng.choice(BUILTIN_POOL), rng.choice(SPECIAL_FNS)}), vpool=[rng.choice(SESS_VARS[:10])]))
    for i in range(40 * smult):
        # re-entrant functions: registered early, then used inside larger formulas
        fp = sorted({'EVALUATE', rng.choice(BUILTIN_POOL + SPECIAL_FNS), gen_fname(rng)})
        s = gen_session(rng, thorough, np=1, pattern=''.join(rng.choice('PPPFV') for _ in range(rng.randrange(3, 9))), fpool=fp, reent=0.15)
        s['steps'].insert(0, ['fn', 0, 'EVALUATE', ['reent']])
        # the generator did not know about this binding: re-generate the trees with it
        envs = [new_env()]
        for st in s['steps']:
            if st[0] == 'var':
                envs[0]['vars'][st[2]] = st[3]
            elif st[0] == 'fn':
                envs[0]['fns'][st[2]] = st[3]
            else:
                st[2] = gen_stree(rng, rng.randrange(0, 3), fp, sorted(set(x[2] for x in s['steps'] if x[0] == 'var')) or ['rate'], envs[0])
        sessions.append(s)
    for s in sessions:
        out += session_cases(s)

    # (reunk) an unknown name in context, after / around calls of re-entrant functions
    sysctx = systematic_ctxs()
    for cx in (sysctx if thorough else rng.sample(sysctx, 40)):
        out.append(make_reunk(rng, cx, rng.choice(fills)))
    for i in range(250 * smult):
        if rng.random() < 0.2:
            fl = ['v', gen_varname(rng) + '_u']
        else:
            name = gen_fname(rng, avoid=('ID', 'G', 'REACHED', 'EV', 'EVB', 'EVC', 'EVF', 'NOPEIN'))
            fl = ['call', name, rng.choice(SEPS), gen_slots(rng, rng.choice([0, 1, 1, 2]), lambda: gen_safe(rng, 1))]
        out.append(make_reunk(rng, gen_ctx(rng, rng.randrange(0, maxd + 1)), fl))

    # lower-case / mixed-case spellings of registered names: compared with the model only
    for n in ['sum', 'Sum', 'pi', 'If', 'iferror', 'true', 'True', 'null']:
        out.append({'kind': 'case', 'f': n + '(1)' if n.lower() not in ('true', 'null') else n})

    # (lis) (lisunk) names answered (or not) by callVariable listeners - generated LAST so that the streams above do not move
    out += [dict(c) for c in LIS_CORPUS]
    out += systematic_lis(rng)
    for i in range(400 * mult):
        out.append(gen_lis(rng))
    for cx in (sysctx if thorough else rng.sample(sysctx, 40)):
        out.append(gen_lisunk(rng, cx, rng.choice(['nosuchvar', 'true', 'ratio', None])))
    for i in range(150 * mult):
        out.append(gen_lisunk(rng, gen_ctx(rng, rng.randrange(0, maxd + 1))))
    return out


# ------------------------------------------------------------------ running the implementation

def formula_of(c):
    k = c['kind']
    if k in ('var', 'unkvar', 'predef', 'var-out'):
        return c['name']
    if k == 'doc':
        return c['name'] + '()'
    if k == 'fn':
        return render(c['t'])
    if k == 'unk':
        return render(c['ctx'], render(c['fill']))
    if k == 'case':
        return c['f']
    if k == 'sess':
        return render(c['steps'][c['at']][2])
    if k == 'reunk':
        return render(c['ctx'], render(c['fill']))
    if k == 'lis':
        return render(c['t'])
    if k == 'lisunk':
        return render(c['ctx'], render(c['fill']))
    raise ValueError(k)


def impl(c):
    hxm = hx()
    k = c['kind']
    if k == 'sess':
        return run_session(c)[c['at']]
    if k == 'reunk':
        return run_reunk(c)
    if k == 'lis':
        return run_lis(c)
    if k == 'lisunk':
        return run_lisunk(c)
    p = hxm.Parser()
    f = formula_of(c)
    if k == 'var':
        if 'first' in c:
            p.set_variable(c['name'], mkval(c['first']))
        v = mkval(c['v'])
        p.set_variable(c['name'], v)
        rec = p.parse(f)
        return {'rec': rec, 'v': v, 'identical': rec['result'] is v}
    if k == 'var-out':
        p.set_variable(c['name'], mkval(c['v']))
        return {'rec': p.parse(f)}
    if k == 'unkvar':
        if c['other'] != c['name']:
            p.set_variable(c['other'], 1)
        return {'rec': p.parse(f)}
    if k in ('predef', 'case'):
        return {'rec': p.parse(f)}
    if k == 'doc':
        return {'rec': p.parse(f), 'supported': hxm.formulas.is_supported(c['name'])}
    if k == 'fn':
        calls = []
        vs = {n: mkval(s) for n, s in c['vars'].items()}
        for n, v in vs.items():
            p.set_variable(n, v)

        def mk(name, beh):
            const = mkval(beh[1]) if beh[0] == 'const' else None

            def fn(*a):
                if beh[0] == 'uniq':
                    r = Token(len(calls))
                elif beh[0] == 'args':
                    r = list(a)
                elif beh[0] == 'first':
                    r = a[0] if a else None
                else:
                    r = const
                calls.append((name, a, r))
                return r
            return fn
        for n, beh in c['fns'].items():
            p.set_function(n, mk(n, beh))
        emitted = []          # the implementation's own callFunction events (builtins included)
        p.on('callFunction', lambda name, args, setter: emitted.append((name, tuple(args))))
        rec = p.parse(f)
        return {'rec': rec, 'calls': calls, 'vars': vs, 'emitted': emitted}
    if k == 'unk':
        env_fns(p)
        for n, v in VARS_UNK.items():
            p.set_variable(n, v)
        reached = []
        p.set_function('REACHED', lambda *a: reached.append(a) or 1)
        args = render(c['fill'])
        args = args[args.index('('):] if c['fill'][0] == 'call' else '()'
        p.parse(render(c['ctx'], 'REACHED' + args))
        p2 = hxm.Parser()
        env_fns(p2)
        for n, v in VARS_UNK.items():
            p2.set_variable(n, v)
        return {'rec': p2.parse(f), 'reached': len(reached)}
    raise ValueError(k)


def env_fns(p):
    p.set_function('ID', lambda *a: a[0] if a else None)
    p.set_function('G', lambda *a: list(a))


def run_lis(c):
    hxm = hx()
    p = hxm.Parser()
    reg = {n: mkval(s) for n, s in c['reg'].items()}
    for n, v in reg.items():
        p.set_variable(n, v)
    calls = []

    def rec_fn(name, body):
        def fn(*a):
            r = body(*a)
            calls.append((name, a, r))
            return r
        return fn
    p.set_function('ID', rec_fn('ID', lambda *a: a[0] if a else None))
    p.set_function('G', rec_fn('G', lambda *a: list(a)))
    given = lis_objects(c['lst'])
    asked = [[] for _ in c['lst']]
    for L, g, a in zip(c['lst'], given, asked):
        p.on('callVariable', make_listener(L, g, a))
    rec = p.parse(render(c['t']))
    # what the statement makes of each reference, computed from the case text over the very objects handed to the parser
    eff = lis_effective(tree_refs(c['t'], []), reg, c['lst'], given)
    return {'rec': rec, 'calls': calls, 'asked': asked, 'eff': eff}


def run_lisunk(c):
    hxm = hx()

    def fresh():
        p = hxm.Parser()
        env_fns(p)
        for n, v in VARS_UNK.items():
            p.set_variable(n, v)
        asked = []
        for L, g in zip(c['lst'], lis_objects(c['lst'])):
            p.on('callVariable', make_listener(L, g, asked))
        return p, asked
    p, _ = fresh()
    reached = []
    p.set_function('REACHED', lambda *a: reached.append(a) or 1)
    p.parse(render(c['ctx'], 'REACHED()'))
    p2, asked = fresh()
    return {'rec': p2.parse(formula_of(c)), 'reached': len(reached), 'asked': asked}


# ------------------------------------------------------------------ model

def request(c):
    k = c['kind']
    f = formula_of(c)
    hx()
    if k == 'sess':
        return sess_request(c)
    if k == 'reunk':
        return reunk_request(c)
    if k == 'lis':
        return lis_request(c)
    if k in ('var', 'var-out'):
        env = fx.env_wire(variables={c['name']: mkval(c['v'])})
    elif k == 'unkvar':
        env = fx.env_wire(variables={c['other']: 1} if c['other'] != c['name'] else {})
    elif k in ('predef', 'doc', 'case'):
        env = fx.env_wire()
    elif k == 'fn':
        fns = {}
        for n, beh in c['fns'].items():
            fns[n] = {'uniq': '(const (o Token))', 'args': '(args)', 'first': '(first)'}.get(beh[0]) or '(const %s)' % fx.to_wire(mkval(beh[1]))
        env = fx.env_wire(variables={n: mkval(s) for n, s in c['vars'].items()}, fns=fns)
    elif k in ('unk', 'lisunk'):
        # (lisunk) the listeners hand over None or nothing: the environment is the registered one
        env = fx.env_wire(variables=VARS_UNK, fns={'ID': '(first)', 'G': '(args)'})
    else:
        return None
    return 'eval %s %s' % (enc_str(f), env)


def lis_request(c):
    """the listeners are represented in the model environment by the values they set: a name is a variable of the environment
    with its effective value, or absent.  A name whose references evaluate to different things (a listener with a per-reference
    script) cannot be expressed: no model comparison"""
    refs = tree_refs(c['t'], [])
    # the same computation as the oracle's, over the value SPECS of the case text (a handed None stays None)
    given = [{n: [[None if x == ['none'] else x for x in rnd] for rnd in rounds] for n, rounds in L['n'].items()} for L in c['lst']]
    eff = lis_effective(refs, dict(c['reg']), c['lst'], given)
    env = {}
    for n, e in zip(refs, eff):
        if n in env and env[n] != e:
            return None
        env[n] = e
    variables = {}
    for n, e in env.items():
        if isinstance(e, list):
            variables[n] = mkval(e)                  # a value spec: registered (possibly None) or handed over by a listener
        # else: MISSING (absent from the environment) or the predefined value as it is
    return 'eval %s %s' % (enc_str(render(c['t'])), fx.env_wire(variables=variables, fns={'ID': '(first)', 'G': '(args)'}))


def _agree(c, impl_ans, model_ans):
    m = fx.parse_sexp(model_ans)
    if not (isinstance(m, list) and len(m) == 2):
        return False
    mrec, mev = m
    rec = impl_ans['rec']
    k = c['kind']
    if k == 'doc':
        # builtins with no argument: only "is it a name error" is compared (NOW(), RAND() ... are not reproducible)
        return (mrec[2] == 'name') == (rec['error'] == '#NAME?')
    if fx.record_matches(mrec, rec, rel=1e-12) is False:
        return False
    if k in ('var', 'unkvar', 'predef'):
        return mev == [['var', enc_str(c['name'])]]
    if k in ('lis', 'lisunk'):
        # the model's variable lookups are the names the (first) listener was asked for, in order
        if isinstance(mrec[1], list) and mrec[1][:1] == ['o']:
            return True
        asked = impl_ans['asked'][0] if k == 'lis' else impl_ans['asked'][::len(c['lst'])]
        return [e for e in mev if e[0] == 'var'] == [['var', enc_str(n)] for n in asked]
    if k == 'sess':
        return events_agree(mrec, mev, impl_ans['emitted'])
    if k == 'fn':
        # the model's function events are the implementation's callFunction events, builtins included
        fnev = [e for e in mev if e[0] == 'fn']
        calls = impl_ans['emitted']
        unmodelled = isinstance(mrec[1], list) and mrec[1][:2] == ['o', 'unmodelled-builtin']
        if unmodelled:
            calls = calls[:len(fnev)]          # the model stops at a builtin outside the modelled families
        if len(fnev) != len(calls):
            return False
        for e, (name, a) in zip(fnev, calls):
            if common.dec_str(e[1]) != name or len(e[2]) != len(a):
                return False
            for mm, vv in zip(e[2], a):
                if fx.value_matches(mm, vv, rel=1e-12) is False:
                    return False
        return True
    return True


# ------------------------------------------------------------------ oracle: the statement on the real implementation

def eqv(a, b):
    """same value: identical objects, or equal literals of the same type (lists element-wise)"""
    if a is b:
        return True
    if type(a) is not type(b):
        return False
    if isinstance(a, list):
        return len(a) == len(b) and all(eqv(x, y) for x, y in zip(a, b))
    if isinstance(a, (bool, int, float, str)):
        return a == b
    return False


class Mismatch(Exception):
    pass


def replay(t, vs, calls, pos):
    """expected value of the tree, consuming the recorded calls in post-order"""
    if t == 'blank':
        return None
    k = t[0]
    if k == 'n':
        return int(t[1])
    if k == 'd':
        return float(t[1] + '.' + t[2])
    if k == 's':
        return t[1]
    if k == 'v':
        return vs[t[1]]
    if k == 'arr':
        return [replay(x, vs, calls, pos) for x in t[2]]
    if k in ('call', 'rows'):
        if k == 'call':
            args = [replay(x, vs, calls, pos) for x in t[3]]
        else:
            args = [[replay(x, vs, calls, pos) for x in t[2]], [replay(x, vs, calls, pos) for x in t[3]]]
        if pos[0] >= len(calls):
            raise Mismatch('call site %s(...) #%d was not called (only %d calls recorded)' % (t[1], pos[0] + 1, len(calls)))
        name, a, r = calls[pos[0]]
        pos[0] += 1
        if name != t[1]:
            raise Mismatch('call #%d went to %r, the call site in post-order is %r' % (pos[0], name, t[1]))
        if len(a) != len(args) or not all(eqv(x, y) for x, y in zip(a, args)):
            raise Mismatch('%s was called with %r, the evaluated arguments are %r' % (name, a, args))
        return r
    raise Mismatch('not replayable: %r' % (t,))


# ------------------------------------------------------------------ (sess) running a session on the implementation

class Recorder(object):
    """custom functions of one session: every call is recorded in the list of the evaluation it belongs to
    (a re-entrant function opens a nested list for the inner evaluation)"""

    def __init__(self):
        self.stack = [[]]
        self.emitted = []
        self.counter = [0]

    def make(self, p, name, beh):
        rec = self
        const = mkval(beh[1]) if beh[0] == 'const' else None
        if beh[0] == 'reent':
            def fn(t):
                sub = []
                rec.stack.append(sub)
                try:
                    inner = p.parse(t)
                finally:
                    rec.stack.pop()
                r = inner['result']
                rec.stack[-1].append((name, (t,), r, inner, sub))
                return r
            return fn

        def fn(*a):
            if beh[0] == 'uniq':
                rec.counter[0] += 1
                r = Token(rec.counter[0])
            elif beh[0] == 'args':
                r = list(a)
            elif beh[0] == 'first':
                r = a[0] if a else None
            else:
                r = const
            rec.stack[-1].append((name, a, r, None, None))
            return r
        return fn

    def listen(self, p):
        def on_call(name, args, setter):
            if len(self.stack) == 1:          # events of the outer evaluation only
                self.emitted.append((name, tuple(args)))
        p.on('callFunction', on_call)

    def begin(self):
        self.stack = [[]]
        self.emitted = []


_SESSION_CACHE = [None, None]


def run_session(c):
    key = repr((c['np'], c['steps']))
    if _SESSION_CACHE[0] == key:
        return _SESSION_CACHE[1]
    hxm = hx()
    ps = [hxm.Parser() for _ in range(c['np'])]
    recs = [Recorder() for _ in ps]
    for p, r in zip(ps, recs):
        r.listen(p)
    vals = [dict() for _ in ps]
    outs = []
    for st in c['steps']:
        pi = st[1]
        if st[0] == 'var':
            v = mkval(st[3])
            vals[pi][st[2]] = v
            ps[pi].set_variable(st[2], v)
            outs.append(None)
        elif st[0] == 'fn':
            ps[pi].set_function(st[2], recs[pi].make(ps[pi], st[2], st[3]))
            outs.append(None)
        else:
            for r in recs:
                r.begin()
            rec = ps[pi].parse(render(st[2]))
            others = sum(len(r.stack[0]) for i, r in enumerate(recs) if i != pi)
            outs.append({'rec': rec, 'calls': recs[pi].stack[0], 'emitted': recs[pi].emitted, 'vals': dict(vals[pi]),
                         'elsewhere': others})
    _SESSION_CACHE[0], _SESSION_CACHE[1] = key, outs
    return outs


def describe_session(c):
    out = []
    for st in c['steps'][:c['at'] + 1]:
        who = 'p%d' % st[1] if c['np'] > 1 else 'p'
        if st[0] == 'var':
            out.append('%s.set_variable(%r, %r)' % (who, st[2], mkval(st[3])))
        elif st[0] == 'fn':
            b = st[3]
            what = {'uniq': 'a function returning a fresh object', 'args': 'lambda *a: list(a)', 'first': 'lambda *a: a[0] if a else None',
                    'reent': "lambda t: %s.parse(t)['result']" % who}.get(b[0]) or 'lambda *a: %r' % (mkval(b[1]),)
            out.append('%s.set_function(%r, %s)' % (who, st[2], what))
        else:
            out.append('%s.parse(%r)' % (who, render(st[2])))
    return '; '.join(out)


# ------------------------------------------------------------------ (sess) the statement, for the bindings of the moment

class Unknown(Exception):
    """a variable that is not set / a function that is neither registered nor documented was referenced"""


class NoOpinion(Exception):
    pass


class Opaque(object):
    """the value of a built-in call: the statement only says that the name resolves"""

    def __repr__(self):
        return '<value of a built-in>'


OPAQUE = Opaque()


def has_opaque(v):
    return v is OPAQUE or (isinstance(v, list) and any(has_opaque(x) for x in v))


def eqw(a, b):
    """eqv, where the value of a built-in call matches anything"""
    if a is OPAQUE or b is OPAQUE:
        return True
    if a is b:
        return True
    if type(a) is not type(b):
        return False
    if isinstance(a, list):
        return len(a) == len(b) and all(eqw(x, y) for x, y in zip(a, b))
    if isinstance(a, (bool, int, float, str)):
        return a == b
    return False


def rec_problem(rec, exp, name_values):
    """exp = ('name', n) | ('val', v) | ('noop',): what is wrong with the parse record, or None"""
    from hotxlfp.formulas import error
    if exp[0] == 'noop':
        return None
    if exp[0] == 'name':
        return None if rec == NAME_REC else 'gives %r although %r is not bound at that moment' % (rec, exp[1])
    v = exp[1]
    if v is OPAQUE:
        # every name in the formula is bound or documented: it must not be a name error
        if rec['error'] == '#NAME?' and not name_values:
            return 'gives %r although every name in it is registered or a documented built-in' % (rec,)
        return None
    if v is None:
        ok = rec == {'result': None, 'error': None}
    elif isinstance(v, error.XLError):
        ok = rec == {'result': None, 'error': str(v)}
    else:
        ok = rec['error'] is None and (rec['result'] is v or (isinstance(v, (bool, int, float, str, list)) and eqw(rec['result'], v)))
    return None if ok else 'gives %r; the bindings of that moment make it %r' % (rec, v)


def walk(t, env, vals, calls, pos, name_values):
    """the value of the tree according to the statement, consuming the recorded custom calls in evaluation order"""
    if t == 'blank':
        return None
    k = t[0]
    if k == 'n':
        return int(t[1])
    if k == 'd':
        return float(t[1] + '.' + t[2])
    if k == 's':
        return t[1]
    if k == 'v':
        if t[1] in env['vars']:
            return vals[t[1]]
        if t[1] in PREDEF:
            return PREDEF[t[1]]
        raise Unknown(t[1])
    if k == 'arr':
        return [walk(x, env, vals, calls, pos, name_values) for x in t[2]]
    if k in ('call', 'rows', 're'):
        name = t[1]
        beh = env['fns'].get(name)
        if k == 'call':
            args = [walk(x, env, vals, calls, pos, name_values) for x in t[3]]
        elif k == 'rows':
            args = [[walk(x, env, vals, calls, pos, name_values) for x in t[2]], [walk(x, env, vals, calls, pos, name_values) for x in t[3]]]
        else:
            args = [render(t[2])]
        if beh is None:
            if name in doc_set():
                return OPAQUE
            raise Unknown(name + '()')
        if (beh == ['reent']) != (k == 're'):
            raise NoOpinion()
        if pos[0] >= len(calls):
            raise Mismatch('call site %s(...) #%d was not called (only %d calls recorded)' % (name, pos[0] + 1, len(calls)))
        cname, a, r, inner, sub = calls[pos[0]]
        pos[0] += 1
        if cname != name:
            raise Mismatch('call #%d went to %r, the call site in evaluation order is %r' % (pos[0], cname, name))
        if len(a) != len(args) or not all(eqw(x, y) for x, y in zip(a, args)):
            raise Mismatch('%s was called with %r, the evaluated arguments are %r' % (name, a, args))
        if k == 're':
            # the inner evaluation is a parse on the same parser at the same moment: the statement applies to it as well
            ipos = [0]
            try:
                exp = ('val', walk(t[2], env, vals, sub, ipos, name_values))
                if ipos[0] != len(sub):
                    raise Mismatch('inner formula %r: %d calls recorded for %d call sites' % (args[0], len(sub), ipos[0]))
            except Unknown as u:
                exp = ('name', str(u))
            except NoOpinion:
                exp = ('noop',)
            bad = rec_problem(inner, exp, name_values)
            if bad:
                raise Mismatch('inner formula %r %s' % (args[0], bad))
        return r
    if k == 'bin':
        l = walk(t[2], env, vals, calls, pos, name_values)
        r = walk(t[3], env, vals, calls, pos, name_values)
        if type(l) is int and type(r) is int and t[1] in ('+', '-', '*'):
            return l + r if t[1] == '+' else l - r if t[1] == '-' else l * r
        raise NoOpinion()
    if k == 'neg':
        x = walk(t[1], env, vals, calls, pos, name_values)
        if type(x) is int:
            return -x
        raise NoOpinion()
    raise NoOpinion()


def judge_sess(c, ans):
    """-> (violation message | None, did the statement have an opinion)"""
    st = c['steps'][c['at']]
    env = env_at(c['steps'], c['at'], c['np'])[st[1]]
    name_values = '#NAME?' in repr(env)
    calls = ans['calls']
    pos = [0]
    if ans['elsewhere']:
        return 'a custom function registered on the OTHER parser was called', True
    try:
        exp = ('val', walk(st[2], env, ans['vals'], calls, pos, name_values))
        if pos[0] != len(calls):
            return '%d custom calls recorded for %d call sites: %r' % (len(calls), pos[0], [(x[0], x[1]) for x in calls]), True
    except Unknown as u:
        exp = ('name', str(u))
    except NoOpinion:
        return None, False
    except Mismatch as e:
        return str(e), True
    return rec_problem(ans['rec'], exp, name_values), True


def tree_has(t, kind):
    if t == 'blank' or not isinstance(t, list):
        return False
    if t and t[0] == kind:
        return True
    return any(tree_has(x, kind) for x in t if isinstance(x, list))


def static_inner(t, env, strict=False):
    """what a re-entrant function returns for the inner formula, when that is plain from the session text:
    -> (True, python value) | (False, None); strict: only an int or an abort on an unbound name count as plain"""
    from hotxlfp.formulas import error

    class Fail(Exception):
        pass

    class Dunno(Exception):
        pass

    def ev(t):
        if t == 'blank':
            return None
        k = t[0]
        if k == 'n':
            return int(t[1])
        if k == 'd':
            return float(t[1] + '.' + t[2])
        if k == 'v':
            if t[1] in env['vars']:
                return mkval(env['vars'][t[1]])
            if t[1] in PREDEF:
                return PREDEF[t[1]]
            raise Fail()
        if k == 'raw':
            raise Fail()
        if k == 'call':
            args = [ev(x) for x in t[3]]
            beh = env['fns'].get(t[1])
            if beh is None:
                if t[1] in doc_set():
                    raise Dunno()
                raise Fail()
            if beh[0] == 'const':
                return mkval(beh[1])
            if beh[0] == 'uniq':
                return Token(0)
            if beh[0] == 'args':
                return args
            if beh[0] == 'first':
                return args[0] if args else None
            raise Dunno()
        if k == 'bin':
            l, r = ev(t[2]), ev(t[3])
            if type(l) is int and type(r) is int and t[1] in ('+', '-', '*'):
                return l + r if t[1] == '+' else l - r if t[1] == '-' else l * r
            raise Dunno()
        raise Dunno()
    try:
        v = ev(t)
    except Fail:
        return True, None
    except Dunno:
        return False, None
    if strict and type(v) is not int:
        return False, None
    if isinstance(v, error.XLError):
        return True, None            # parse reports an error value under 'error'; its 'result' is blank
    return True, v


class NotTame(Exception):
    pass


def tame_value(v):
    if isinstance(v, bool):
        return False
    if isinstance(v, int) or isinstance(v, str) or v is None:
        return True
    if isinstance(v, float):
        return v == v and v not in (float('inf'), float('-inf'))
    if isinstance(v, list):
        return all(tame_value(x) for x in v)
    return False


def builtins_tame(t, env):
    """does every built-in call site of the tree get plain arguments (finite numbers, text, blanks, lists of them)?  What the
    built-ins make of logicals, nan, tuples, host objects ... is not this property's subject, and the model does not carry such
    values: those steps are judged by the oracle only.  -> is the value of t plain; raises NotTame"""
    if t == 'blank':
        return True
    k = t[0]
    if k in ('n', 'd', 's', 'raw', 'bin', 'neg'):
        for x in t[1:]:
            if isinstance(x, list):
                builtins_tame(x, env)
        return True
    if k == 'v':
        return tame_value(mkval(env['vars'][t[1]])) if t[1] in env['vars'] else t[1] not in ('TRUE', 'FALSE')
    if k == 'arr':
        return all([builtins_tame(x, env) for x in t[2]])
    if k == 're':
        builtins_tame(t[2], env)
        ok, v = static_inner(t[2], env)
        return ok and tame_value(v)
    if k in ('call', 'rows'):
        args = [builtins_tame(x, env) for x in (t[3] if k == 'call' else t[2] + t[3])]
        beh = env['fns'].get(t[1])
        if beh is None:
            if t[1] in doc_set() and not all(args):
                raise NotTame()
            return t[1] not in ('ISERROR', 'AND', 'OR', 'NOT', 'TRUE', 'IF')      # these may hand back a logical
        if beh[0] == 'const':
            return tame_value(mkval(beh[1]))
        if beh[0] == 'args':
            return all(args)
        if beh[0] == 'first':
            return args[0] if args else True
        return False
    return False


def collect_re(t, out):
    if t == 'blank' or not isinstance(t, list):
        return
    if t and t[0] == 're':
        out.append(t)
        return
    for x in t:
        if isinstance(x, list):
            collect_re(x, out)


def sess_request(c):
    st = c['steps'][c['at']]
    env = env_at(c['steps'], c['at'], c['np'])[st[1]]
    sites = []
    collect_re(st[2], sites)
    reres = {}
    for s in sites:
        ok, v = static_inner(s[2], env)
        if not ok:
            return None
        w = fx.to_wire(v)
        if reres.setdefault(s[1], w) != w:
            return None              # one host function cannot return two different constants
    try:
        builtins_tame(st[2], env)
    except NotTame:
        return None
    if st[2][0] in ('bin', 'neg'):
        # operators on lists / host objects are not this property's subject: compare with the model only when the operands are
        # plainly integers or the formula plainly aborts on an unbound name before the operator is reached
        for operand in st[2][2:] if st[2][0] == 'bin' else st[2][1:]:
            ok, v = static_inner(operand if operand[0] != 're' else operand[2], env, strict=True)
            if not ok:
                return None
    fns = {}
    for n, beh in env['fns'].items():
        if beh[0] == 'reent':
            fns[n] = '(const %s)' % reres.get(n, 'nil')
        else:
            fns[n] = {'uniq': '(const (o Token))', 'args': '(args)', 'first': '(first)'}.get(beh[0]) or '(const %s)' % fx.to_wire(mkval(beh[1]))
    return 'eval %s %s' % (enc_str(render(st[2])), fx.env_wire(variables={n: mkval(s) for n, s in env['vars'].items()}, fns=fns))


def events_agree(mrec, mev, calls):
    """the model's function events are the implementation's callFunction events, builtins included"""
    fnev = [e for e in mev if e[0] == 'fn']
    unmodelled = isinstance(mrec[1], list) and mrec[1][:2] == ['o', 'unmodelled-builtin']
    if unmodelled:
        calls = calls[:len(fnev)]          # the model stops at a builtin outside the modelled families
    if len(fnev) != len(calls):
        return False
    for e, (name, a) in zip(fnev, calls):
        if common.dec_str(e[1]) != name or len(e[2]) != len(a):
            return False
        for mm, vv in zip(e[2], a):
            if fx.value_matches(mm, vv, rel=1e-12) is False:
                return False
    return True


# ------------------------------------------------------------------ (reunk)

def run_reunk(c):
    hxm = hx()
    # is the hole reached?  decided on the formula WITHOUT re-entrant calls (EV("5") written back as 5)
    p = hxm.Parser()
    env_fns(p)
    for n, v in VARS_UNK.items():
        p.set_variable(n, v)
    reached = []
    p.set_function('REACHED', lambda *a: reached.append(a) or 1)
    args = render(c['fill'])
    args = args[args.index('('):] if c['fill'][0] == 'call' else '()'
    p.parse(render(c['plain'], 'REACHED' + args))
    p2 = hxm.Parser()
    env_fns(p2)
    for n, v in VARS_UNK.items():
        p2.set_variable(n, v)
    calls = []

    def mk(name):
        def fn(t):
            inner = p2.parse(t)
            calls.append((name, t, inner))
            return inner['result']
        return fn
    for n in RE_NAMES + ['EVF']:
        p2.set_function(n, mk(n))
    rec = p2.parse(render(c['ctx'], render(c['fill'])))
    return {'rec': rec, 'reached': len(reached), 'calls': calls}


def reunk_request(c):
    sites = []
    collect_re(c['ctx'], sites)
    fns = {'ID': '(first)', 'G': '(args)'}
    for s in sites:
        leaf = s[2]
        if s[1] == 'EVF':
            v = None
        elif leaf[0] == 'n':
            v = int(leaf[1])
        else:
            v = VARS_UNK[leaf[1]]
        fns[s[1]] = '(const %s)' % fx.to_wire(v)
    return 'eval %s %s' % (enc_str(render(c['ctx'], render(c['fill']))), fx.env_wire(variables=VARS_UNK, fns=fns))


def reunk_oracle(c, ans):
    if ans['reached'] != 1:
        return None
    f = render(c['ctx'], render(c['fill']))
    who = "with EV = EVB = EVC = EVF = lambda t: p.parse(t)['result'] on the same parser, "
    if ans['rec'] != NAME_REC:
        return '%s%r gives %r; the name in %r is neither registered nor custom' % (who, f, ans['rec'], render(c['fill']))
    sites = []
    re_sites(c['ctx'], sites)
    sites = [s for s in sites if s is not None]
    got = [(n, t) for n, t, _ in ans['calls']]
    if got != sites[:len(got)]:
        return '%s%r: the re-entrant functions were called as %r, the call sites in evaluation order are %r' % (who, f, got, sites)
    for n, t, inner in ans['calls']:
        if t in ('nosuch_inner', 'nosuch_inner+1', 'NOPEIN()', 'NOPEIN(2)*3', 'SUM(1,nosuch_inner,2)') and inner != NAME_REC:
            return '%sinside %r the inner formula %r gives %r' % (who, f, t, inner)
        if t in VARS_UNK and not (inner['error'] is None and inner['result'] is VARS_UNK[t]):
            return '%sinside %r the inner formula %r gives %r' % (who, f, t, inner)
    return None


def is_name_rec(rec):
    return rec['result'] is None and rec['error'] == '#NAME?'


def value_problem(rec, v):
    """a formula whose value is the object v must be reported as: the very object / a blank for None / the code of an error value"""
    from hotxlfp.formulas import error
    if v is None:
        ok = rec['result'] is None and rec['error'] is None
    elif isinstance(v, error.XLError):
        ok = rec['result'] is None and rec['error'] == str(v)
    elif type(v) is int:
        ok = rec['error'] is None and type(rec['result']) is int and rec['result'] == v
    else:
        ok = rec['error'] is None and rec['result'] is v
    return None if ok else 'gives %r; the statement makes it %r' % (rec, v)


def lis_walk(t, eff, rpos, calls, cpos):
    """the value of a (lis) tree according to the statement: references consume the effective values in evaluation order, the
    custom functions G / ID consume their recorded calls"""
    if t == 'blank':
        return None
    k = t[0]
    if k == 'n':
        return int(t[1])
    if k == 'd':
        return float(t[1] + '.' + t[2])
    if k == 's':
        return t[1]
    if k == 'v':
        v = eff[rpos[0]]
        rpos[0] += 1
        if v is MISSING:
            raise Unknown(t[1])
        return v
    if k == 'arr':
        return [lis_walk(x, eff, rpos, calls, cpos) for x in t[2]]
    if k == 'call':
        args = [lis_walk(x, eff, rpos, calls, cpos) for x in t[3]]
        if t[1] not in ('G', 'ID'):
            raise NoOpinion()
        if cpos[0] >= len(calls):
            raise Mismatch('call site %s(...) #%d was not called (only %d calls recorded)' % (t[1], cpos[0] + 1, len(calls)))
        name, a, r = calls[cpos[0]]
        cpos[0] += 1
        if name != t[1]:
            raise Mismatch('call #%d went to %r, the call site in evaluation order is %r' % (cpos[0], name, t[1]))
        if len(a) != len(args) or not all(eqv(x, y) for x, y in zip(a, args)):
            raise Mismatch('%s was called with %r, the evaluated arguments are %r' % (name, a, args))
        return r
    if k == 'bin':
        l = lis_walk(t[2], eff, rpos, calls, cpos)
        r = lis_walk(t[3], eff, rpos, calls, cpos)
        if type(l) is int and type(r) is int and t[1] in ('+', '-', '*'):
            return l + r if t[1] == '+' else l - r if t[1] == '-' else l * r
        raise NoOpinion()
    if k == 'neg':
        x = lis_walk(t[1], eff, rpos, calls, cpos)
        if type(x) is int:
            return -x
        raise NoOpinion()
    raise NoOpinion()


def describe_lis(c):
    sets = ['p.set_variable(%r, %r)' % (n, mkval(s)) for n, s in c.get('reg', {}).items()]
    if c['kind'] == 'lisunk':
        sets = ['p.set_variable(%r, %r)' % (n, v) for n, v in VARS_UNK.items()] + ['ID = first argument, G = list of its arguments']
    return '; '.join(sets + [describe_listeners(c['lst'])])


def lis_oracle(c, ans):
    f = formula_of(c)
    rec = ans['rec']
    rpos, cpos = [0], [0]
    try:
        root = lis_walk(c['t'], ans['eff'], rpos, ans['calls'], cpos)
    except Unknown as u:
        if is_name_rec(rec):
            return None
        return ('%s: %r gives %r; %r is not registered on the parser and no listener hands a value other than None to its setter: '
                'it is an unknown name -> #NAME?' % (describe_lis(c), f, rec, str(u)))
    except NoOpinion:
        return None
    except Mismatch as e:
        return '%s: %r: %s' % (describe_lis(c), f, e)
    if cpos[0] != len(ans['calls']):
        return '%s: %r: %d calls recorded for %d call sites' % (describe_lis(c), f, len(ans['calls']), cpos[0])
    bad = value_problem(rec, root)
    return None if bad is None else '%s: %r %s (registered value, replaced by the last non-None value handed to the setter)' % (
        describe_lis(c), f, bad)


def _oracle(c, impl_ans):
    k = c['kind']
    rec = impl_ans['rec']
    f = formula_of(c)
    if k == 'lis':
        return lis_oracle(c, impl_ans)
    if k == 'lisunk':
        if impl_ans['reached'] != 1:
            return None
        return None if is_name_rec(rec) else ('%s: %r gives %r; %r is not registered and the listeners hand it nothing but None'
                                              % (describe_lis(c), f, rec, c['fill'][1]))
    if k == 'sess':
        msg = judge_sess(c, impl_ans)[0]
        return None if msg is None else '%s: the last formula %s' % (describe_session(c), msg)
    if k == 'reunk':
        return reunk_oracle(c, impl_ans)
    if k == 'var':
        v = impl_ans['v']
        from hotxlfp.formulas import error
        if v is None:
            ok = rec == {'result': None, 'error': None}
        elif isinstance(v, error.XLError):
            ok = rec == {'result': None, 'error': str(v)}
        else:
            ok = rec['error'] is None and impl_ans['identical']
        return None if ok else 'after set_variable(%r, %r) the formula %r gives %r' % (c['name'], v, f, rec)
    if k == 'unkvar':
        return None if rec == NAME_REC else 'the variable %r was never set, yet %r gives %r' % (c['name'], f, rec)
    if k == 'predef':
        want = {'TRUE': {'result': True, 'error': None}, 'FALSE': {'result': False, 'error': None},
                'NULL': {'result': None, 'error': None}}[c['name']]
        ok = rec == want and (rec['result'] is want['result'])
        return None if ok else '%s gives %r' % (c['name'], rec)
    if k == 'doc':
        if not impl_ans['supported']:
            return '%s is listed in SUPPORTED_FORMULAS.md but not registered' % c['name']
        if rec['error'] == '#NAME?':
            return '%s() gives #NAME? although %s is listed as supported' % (c['name'], c['name'])
        return None
    if k == 'fn':
        calls = impl_ans['calls']
        if 'expect' in c:
            if len(calls) != count_calls(c['t'], c['fns']):
                return '%r: %d calls recorded for %d call sites' % (f, len(calls), count_calls(c['t'], c['fns']))
            if rec != {'result': c['expect'], 'error': None}:
                return '%r gives %r; with %s returning %s the value is %r' % (f, rec, list(c['fns'])[0], c['fns'], c['expect'])
            return None
        pos = [0]
        try:
            root = replay(c['t'], impl_ans['vars'], calls, pos)
        except Mismatch as e:
            return '%r: %s' % (f, e)
        if pos[0] != len(calls):
            return '%r: %d calls recorded for %d call sites: %r' % (f, len(calls), pos[0], calls)
        from hotxlfp.formulas import error
        if root is None:
            ok = rec == {'result': None, 'error': None}
        elif isinstance(root, error.XLError):
            ok = rec == {'result': None, 'error': str(root)}
        else:
            ok = rec['error'] is None and rec['result'] is root
        return None if ok else '%r gives %r; the outermost call returned %r' % (f, rec, root)
    if k == 'unk':
        if impl_ans['reached'] != 1:
            return None          # the hole is not reached exactly once: outside the claim (never happens by construction)
        return None if rec == NAME_REC else '%r gives %r; the name in %r is neither registered nor custom' % (f, rec, render(c['fill']))
    return None


def _nontrivial(c, impl_ans):
    k = c['kind']
    if k in ('unk', 'lisunk'):
        return impl_ans['reached'] == 1
    if k == 'lis':
        return any(impl_ans['asked'])          # a listener was asked about a name of the formula
    if k == 'reunk':
        return impl_ans['reached'] == 1 and len(impl_ans['calls']) >= 1
    if k == 'sess':
        return judge_sess(c, impl_ans)[1]
    if k == 'fn':
        return len(impl_ans['calls']) >= 1
    return k != 'case'


def search(rng, ctx, disagreements):
    c2 = dict(ctx)
    c2['scale'] = 6
    c2['tier'] = 'quick'
    return cases(rng, c2)


# --------------------------------------------------------------------------- guarded entry points
# The (var) cases bind values whose == raises or has no truth value. On the unchanged tree such a value is only ever looked at by
# identity; if it shows up where this plugin compares records by ==, it has travelled to an evaluation it was never bound for
# (another case's parser): that is reported as what it is instead of crashing the harness.

def _foreign_eq(e):
    t = str(e)
    return 'EqRaises' in t or 'truth value of an array' in t


def agree(c, impl_ans, model_ans):
    try:
        return _agree(c, impl_ans, model_ans)
    except (TypeError, ValueError) as e:
        if _foreign_eq(e):
            return False
        raise


def oracle(c, impl_ans):
    try:
        return _oracle(c, impl_ans)
    except (TypeError, ValueError) as e:
        if _foreign_eq(e):
            return 'a host value bound for another evaluation (a value with an == of its own) reached this one: comparing the outcome raised %s' % e
        raise


def nontrivial(c, impl_ans):
    try:
        return _nontrivial(c, impl_ans)
    except (TypeError, ValueError) as e:
        if _foreign_eq(e):
            return True
        raise
