# -*- coding: utf-8 -*-
"""C13 - date serial numbers: invertible, monotone, Excel 1900 system

The oracle is written from the statement with `datetime` and `Fraction` only; it never looks at
the Lean model.  Inputs are calendar days (ordinals), date-times in whole milliseconds since
1900-01-01T00:00, integer and float serials, day offsets and plain numbers.

Case kinds (every one but arr and montext has a model request):
  day          one calendar day: serialize_date, parse_date of it, the serial of the next day
  serial       one integer serial: parse_date, serialize_date of it
  dt           one date-time (ms): serialize_date, parse_date of it, the serial one millisecond later
  parse        one float serial (num/den): parse_date, serialize_date of it
  cmp          two date-times under < = > <= >= <>
  cmpn         a plain number against a date-time (either side) under the six operators
  arr          a date-time x against a list ns of day counts and the list ds of the dates x+n: x+ns, ns+x, x-ns, ds-x, x-ds,
               judged element by element (oracle only)
  montext      a whole day written as text with an English month name (5 formats) as operand of - + and DAYS (oracle only)
  add          date-time x and integer n: x+n, n+x, x-n; also fractional n (a number of eighths of a day, a float): the three
               variable forms only, judged within the millisecond tolerance
  sub          two date-times: x-y, DAYS(x,y)
  fn           DATEVALUE / N of a date-time given as a variable, as ISO text, as a whole-number serial
  daysweep     a chunk of consecutive days (thorough, search): statement and model on every day
  serialsweep  a chunk of consecutive integer serials (thorough, search)
A case with a 'tz' key (day, dt, cmp, fn) is evaluated while that POSIX TZ string is the process time zone.
"""
import contextlib
import datetime
import os
import subprocess
import time
from fractions import Fraction

from .. import common, fx

ID = 'C13'
LEAN_MODULES = ['HotXL.Props.C13']
FUNCTIONS = ['hotxlfp.formulas.utils:serialize_date', 'hotxlfp.formulas.utils:parse_date',
             'hotxlfp.formulas.utils:epoch_seconds',
             'hotxlfp.formulas.dateandtime:DATEVALUE', 'hotxlfp.formulas.dateandtime:DAYS',
             'hotxlfp.formulas.dateandtime:DATE', 'hotxlfp.formulas.information:N',
             'hotxlfp.formulas.operators:evaluate_arithmetic', 'hotxlfp.formulas.operators:value_and_type',
             'hotxlfp.formulas.operators:evaluate_logic', 'hotxlfp.formulas.operators:ExcelComparator.__init__',
             'hotxlfp.formulas.operators:ExcelComparator.convert_other']
RULE = ('DAYS 1900-01-01..9999-12-31 (kind day: serialize_date, parse_date of the serial, serial of the next day): 1504 special '
        'days = every day of 1900 and 1901-01-01, the 3 days either side of 1 Jan and of 1 Mar of every century year 1900..9900, '
        'the last 3 days of 9999, 28 Feb and the next two days of 1904 1970 2000 2020 2024 2100 2400 9996; quick adds every '
        '97th day from 1900-01-01 and 9999-12-31 (31988 cases); thorough adds EVERY day (2958464) in 12 daysweep chunks of '
        '250000, each chunk one case whose weight is its number of days (the statement on every day incl. the increase from '
        'the day before, also across chunk borders).  INTEGER SERIALS 0..2958465 (kind serial: parse_date, serialize_date of '
        'it): all of 0..430 and the last 41; quick adds every 101st from 61 (29759 cases); thorough adds EVERY one from 61 in '
        '6 serialsweep chunks of 500000.  DATE-TIMES in whole milliseconds (kind dt: serial, round trip, serial one '
        'millisecond later): 16 fixed (ms 0 1 999 1000; 1900-01-02T00:00 and the ms either side; 1 March 1900, the ms and the '
        'day either side; the last ms of 9999, 9999-12-31T00:00 and the ms before it; 2020-01-15T12:00) + 2400*S seeded in six '
        'equal streams: uniform over the range, first 100 days, last 100 days, within 2 ms of a midnight, whole seconds, whole '
        'days; S = scale in quick (1, or 5 after a fingerprint change / broken build), 4*scale in thorough.  FLOAT SERIALS '
        '(kind parse: parse_date, serialize_date of it): the serial the code produced for every second one of those date-times '
        '(floats only) + 0.5 1.5 60 60.25 60.5 61 43845.5; judged from 61 on, below 61 only compared with the model.  '
        'COMPARISONS (cmp): 500*S pairs of date-times '
        'from a pool of 16+300*S (1/5 equal, 1/5 one ms later, 1/5 a day earlier or later, 2/5 two pool members) + 5 fixed pairs '
        'around 1900-01-01 and 1 March 1900 in both orders, all six operators, also serials-follow-time.  NUMBER AGAINST '
        'DATE-TIME (cmpn): 300*S; a day 1900-03-01..9999-12-30 at j/8 of the day (exact doubles), a number out of {whole-day '
        'serial as int, as float, that +1, that -1, the exact serial, the exact serial + 1/8} on the left or on the right, '
        'six operators.  DATE AGAINST ARRAY (arr, oracle only): 120*S; a date-time x at least 400 days inside '
        '1900-03-01..9999-12-31 at 00:00 (half), 12:00 or 06:00, a list ns of 1..3 integers in -300..299 and the list ds of the '
        'date-times x+n days, all three as variables: x+ns, ns+x, x-ns must each be a list of that length holding the dates n days '
        'later / earlier, ds-x and x-ds lists of the differences n / -n - every element as in the scalar case (exact at '
        'midnight, else less than half a millisecond / within 1e-9 day).  MONTH-NAME TEXT (montext, oracle only): 120*S; a whole '
        'day 22000..48999 days after 1900-01-01 (1960..2034) written as the text t in one of 5 formats (22-JUN-2011, 22-JUNE-2011 - '
        'the dashed forms in upper case -, June 22, 2011, 22 Jun 2011, Jun 22 2011), n '
        'in 1..399 and y = that day - n days as variables: t-y = n, y-t = -n, DAYS(t,y) = n, t+n and t-n the dates n days later / '
        'earlier, all exactly.  ADD (add: x+n, n+x, x-n, integer n): 500*S in five equal streams (whole day with |n| <= 40000; '
        'whole day with n out of -2 -1 0 1 2 7 28 29 30 31 365 366 -365 -366; pool date-time with |n| <= 40000; a day within '
        '400 days of 1 March 1900 or of 9999-12-31 with |n| <= 450; whole day with |n| <= 2958464) + 13 fixed at both ends of '
        'the range and at 28 Feb 2019 / 2020; FRACTIONAL n: 60*S seeded (x a pool date-time or - half - a whole day 60 days .. '
        '(range - 400 days) after 1900-01-01, n = +-k/8 day as a float, k in 1..2399, i.e. a whole number of milliseconds up to 300 days) '
        '+ 6 fixed on 2020-01-01 (n = 0.5 -0.5 30.75 0.125 1.5 -2.25): the three variable forms x+n, n+x, x-n only (no literal run), the '
        'result less than half a millisecond from x + n days (never the exact comparison, also when x is a whole day); 579 add cases at S = 1.  SUB (sub: x-y, DAYS(x,y)): 300*S (two whole days; two whole days at most 400 '
        'apart; two pool date-times) + 5 fixed.  DATEVALUE / N (fn): 300*S (whole day; whole second; pool date-time) + 6 fixed; '
        'DATEVALUE(x), N(x) of the variable, DATEVALUE(t) of the ISO text YYYY-MM-DD[ HH:MM:SS] when a whole second, '
        'DATEVALUE(k) of the whole-number serial when a whole day from 1 March 1900.  Formulas go through Parser.parse with '
        'variables x y n nn t k; when every date is a whole day (add: and n an integer) cmp/add/sub/fn are run a second time with DATE(y,m,d), number '
        'and text literals (negative n as (0-n)): oracle only, not sent to the model.  day/serial/dt/parse and the sweeps call '
        'utils.serialize_date / utils.parse_date directly.  '
        'PROCESS TIME ZONE: one zone, the POSIX string EST5EDT,M3.2.0,M11.1.0 (no tz database): 00:00 01:30 02:00 02:15 02:30 '
        '03:00 03:15 12:00 of 2021-03-14 and 2030-03-10 (02:00-03:00 does not exist there), of 2021-11-07 (01:00-02:00 occurs '
        'twice) and of 1987-04-05 (under this rule an ordinary summer-time day, not a transition), 2021-07-01, 2021-01-01, '
        '1970-01-01, 1969-12-31T21:00, 1900-01-01, 1900-01-02, 1900-03-01 and 60*S seeded date-times are evaluated once more '
        'while os.environ["TZ"] = that string + time.tzset() is in force (set and restored around every such case): each as '
        'dt, each neighbour pair of that list in both orders as cmp, the first 40 as fn and the whole days among those as day '
        '(S=1: 99 dt, 196 cmp, 40 fn, 10 day): same oracle, same model request.  '
        'MODEL: every case but arr and montext has a request (date.serial / date.parse / c04.batch of the variable formulas with '
        'the dates as date values), those two kinds are oracle-only; answers compared exactly for day, serial, whole-day dt, cmp, cmpn and for '
        'add/sub/fn on whole days (dates to the microsecond; add: whenever x is a whole day, also with a fractional n - k/8 day is exact in both); otherwise floats within 4 ulp (add/sub/fn also within '
        '1e-9*max(1,|value|)), dates within 2+|us|/2^49 microseconds; a model answer "no opinion" counts as a disagreement.  '
        'Sweep chunks: one more driver process per chunk answers date.serial and date.parse of the produced serial for every '
        'day, date.parse for every integer serial, compared exactly (first 5 failures / mismatches of a chunk kept); all chunks '
        'are computed at the first one, in min(8, cpus) forked workers, and cached.  search() (proof or correspondence broke, '
        'no input failed): the 18 sweep chunks through implementation + statement, stopping at the first failing chunk; '
        'shrink() turns a failing chunk into its first failing single day / serial (a break of monotonicity: the day before).  '
        'No time or step budget other than the 3000 s wall-clock timeout of each driver process; nothing is set aside as '
        'fragile.  Not judged by the oracle: serials below 61, add/sub with an operand before 1 March 1900, a single add form '
        'whose result leaves 1900-03-01..9999-12-31.  Non-trivial = day other than 1900-01-01; serial (integer or float) >= '
        '61; date-time other than 1900-01-01T00:00; cmp of two different instants; add with date and date+n in '
        '1900-03-01..9999-12-31 and n != 0; sub of two different date-times from 1 March 1900; fn from 1 March 1900; every '
        'cmpn, arr and montext; a sweep chunk counts by weight = (elements evaluated, the same without 1900-01-01, model lines).  distinct = '
        'distinct case (kind, operands, tz).')
TRUSTED = ['CPython datetime (timedelta arithmetic, total_seconds, rounding of timedelta(seconds=float) to microseconds) and '
           'IEEE double arithmetic: the model computes the same expressions in exact rationals; the differential sweep over '
           'every day and every integer serial (exact agreement) and over seeded milliseconds (agreement within 4 ulp of the '
           'serial, 2+|us|/2^49 microseconds of the date; for formulas on date-times also 1e-9 relative to max(1,|value|), '
           'fx.record_matches) ties them',
           'the tolerances of the oracle: 1e-9 day (TOL) for serials and differences of date-times, less than 500 microseconds '
           'for dates; Fraction(float) is the exact value of the double',
           'os.environ["TZ"] + time.tzset() sets the process time zone (glibc POSIX rule, no tz database); the references of the '
           'oracle are naive timedelta/Fraction arithmetic and do not consult it; the model has no time zone',
           'dateutil.parser for DATEVALUE of ISO-8601 text (the model recognises YYYY-MM-DD[(T| )HH:MM[:SS]] only; the plugin '
           'writes YYYY-MM-DD and YYYY-MM-DD HH:MM:SS); the reading of text with an English month name (montext: strftime %b / %B, '
           '5 formats) is dateutil\'s too and has no model counterpart: those cases and the array cases (arr) are '
           'judged by the oracle only',
           'fx.to_wire gives the model the value handed to Parser.set_variable (datetime as microseconds since 1900-01-01, float '
           'as its exact fraction, text by code points); the `tz` key of a case is not part of the model request',
           'the sweep mechanism: multiprocessing fork pool (sequential fallback), a separate run of the driver executable per '
           'chunk, line-by-line pairing of requests and answers (a wrong count or return code aborts the run)',
           'the calendar constants (1900-01-01, 1970-01-01, 1899-12-30, 1900-03-01 as day offsets) are evaluated from '
           'lean/HotXL/Model/Calendar.lean by `decide`; that Calendar.lean is CPython\'s calendar is property C14\'s business']
ASSUMPTIONS = ['"to the millisecond": parse_date(serialize_date(d)) is less than half a millisecond from d (the code computes in '
               'double precision: observed error below 40 microseconds); for whole days the round trip is demanded exactly; '
               'the round trip is demanded for every date-time from 1900-01-01T00:00 on, also before 1 March 1900',
               '"invertible" on the serial side: for an integer serial k in 61..2958465 parse_date(k) is exactly the day k days '
               'after 1899-12-30 and serialize_date of it is exactly k; for a float serial q from 61 on parse_date(q) is less '
               'than half a millisecond from q days after 1899-12-30 and serialize_date of it within 1e-9 day of q; nothing '
               'is demanded of serials below 61 (0 and 1 both parse to 1900-01-01, 60 and 61 both to 1900-03-01)',
               '"monotone" = strictly increasing: from each day to the next over the whole range from 1900-01-01, from a '
               'date-time to the one a millisecond later, and a < b iff serial(a) < serial(b), a = b iff equal serials on '
               'the sampled pairs',
               '"the serial equals the number of days since 30 December 1899": from 1 March 1900 on, exactly for whole days '
               '(int or float of that value), within 1e-9 day (0.1 ms) for date-times; before 1 March 1900 only a number, '
               'the round trip and the increase are demanded',
               '"adding n to a date gives the date n days later", "subtracting two dates gives the days between them" are '
               'corollaries ("Hence") of the Excel-1900 clause and are demanded where that clause applies: operands and '
               'result from 1 March 1900 to 31 December 9999 (1900-01-01 has serial 0 and 1900-01-02 serial 2, so '
               'DATE(1900,1,1)+1 is 1900-01-01 again: outside the clause, not judged); n is an integer or a number of eighths of a day '
               '(a float; "n days later" is then x shifted by that many milliseconds), x+n, n+x and x-n '
               'must each be a datetime (exact for whole days and integer n, else less than half a millisecond off), x-y a number (exact '
               'for whole days, else within 1e-9 day)',
               'comparison operators "see that same serial": on two date-times from 1900 on each of < = > <= >= <> gives what '
               'the same operator gives on the two instants (equivalently, by strict monotonicity, on their serials), as the '
               'logical True / False without error; a plain number against a date-time from 1 March 1900, on either side, '
               'gives what the operator gives on the number and the exact days since 1899-12-30 (int and float alike)',
               'DATEVALUE, N (and DAYS) "see that same serial": DATEVALUE(d) = N(d) = serialize_date(d) exactly for every '
               'date-time, and = days since 1899-12-30 from 1 March 1900 on (exactly for whole days, else within 1e-9 day); '
               'the same for DATEVALUE of the ISO text of d and of its whole-number serial; DAYS(e,s) = the days between, '
               'both from 1 March 1900',
               'a naive datetime means the same serial whatever the process time zone is: under a daylight-saving zone, also '
               'inside its skipped and its repeated hour, every demand above holds unchanged',
               'a date against an ARRAY (a list of day counts, a list of dates) under + and - works element by element and gives '
               'a list of the same length, each element being what the scalar clause demands (date n days later / earlier, days '
               'between); a text that spells a day with an English month name (22-JUN-2011, June 22, 2011, 22 Jun 2011 ...) is that '
               'date as an operand of + and - and of DAYS: t-y and DAYS(t,y) are the days between, t+n / t-n the date n days '
               'later / earlier (years 1960..2034 only, which no two-digit reading can confuse)']
EXHAUSTIVE = {'quick': False, 'thorough': True}

DT = datetime.datetime
TD = datetime.timedelta
D1900 = DT(1900, 1, 1)
BASE = DT(1899, 12, 30)
MAR1 = DT(1900, 3, 1)
DMAX = DT(9999, 12, 31)
O1900 = D1900.toordinal()
OBASE = BASE.toordinal()
OMAR1 = MAR1.toordinal()
OMAX = DMAX.toordinal()
MS_DAY = 86400000
US_DAY = 86400000000
MS_MAR1 = (OMAR1 - O1900) * MS_DAY
MS_END = (OMAX + 1 - O1900) * MS_DAY          # first millisecond after 9999-12-31T23:59:59.999
SER_MAX = OMAX - OBASE                          # 2958465
CMPS = ['<', '=', '>', '<=', '>=', '<>']
CHUNK = 250000
TOL = Fraction(1, 10 ** 9)


def utils():
    common.load_repo()
    from hotxlfp.formulas import utils as u
    return u


def errs():
    common.load_repo()
    from hotxlfp.formulas import error
    return error


def dt_of_ms(ms):
    return D1900 + TD(milliseconds=ms)


def us_of(d):
    """exact microseconds since 1900-01-01T00:00 of a datetime"""
    x = d - D1900
    return (x.days * 86400 + x.seconds) * 1000000 + x.microseconds


def is_number(v):
    return isinstance(v, (int, float)) and not isinstance(v, bool)


# --------------------------------------------------------------------------- reference (the statement)

def ref_serial_ms(ms):
    """Excel 1900 date system: days since 1899-12-30, time of day as the fraction (ms >= 1 March 1900)"""
    return Fraction(ms, MS_DAY) + 2


def ref_date_of_serial(q):
    """the date-time q days after 1899-12-30 (q a Fraction)"""
    us = q * US_DAY
    return BASE + TD(microseconds=int(round(us)))


def close_ms(p, d):
    """same date-time to the millisecond"""
    return isinstance(p, DT) and abs(us_of(p) - us_of(d)) < 500


# --------------------------------------------------------------------------- cases

_chunks = []


def special_days():
    s = set(range(O1900, DT(1901, 1, 1).toordinal() + 1))
    for y in range(1900, 10001, 100):
        for (m, d) in ((1, 1), (3, 1)):
            if y == 10000:
                o = OMAX + 1
                if m == 3:
                    continue
            else:
                o = DT(y, m, d).toordinal()
            for k in range(-3, 4):
                if O1900 <= o + k <= OMAX:
                    s.add(o + k)
    for y in (1904, 1970, 2000, 2020, 2024, 2100, 2400, 9996):
        o = DT(y, 2, 28).toordinal()
        s.update((o, o + 1, o + 2))
    return s


def seeded_ms(rng, n):
    """date-times in whole milliseconds since 1900-01-01"""
    out = [0, 1, 999, 1000, MS_DAY - 1, MS_DAY, MS_DAY + 1, MS_MAR1 - MS_DAY, MS_MAR1 - 1, MS_MAR1, MS_MAR1 + 1,
           MS_MAR1 + MS_DAY, MS_END - 1, MS_END - MS_DAY, MS_END - MS_DAY - 1,
           (DT(2020, 1, 15, 12, 0) - D1900) // TD(milliseconds=1)]
    for i in range(n):
        k = i % 6
        if k == 0:
            out.append(rng.randrange(MS_END))
        elif k == 1:
            out.append(rng.randrange(100 * MS_DAY))
        elif k == 2:
            out.append(MS_END - 1 - rng.randrange(100 * MS_DAY))
        elif k == 3:      # next to a midnight
            out.append(min(MS_END - 1, max(0, rng.randrange((MS_END // MS_DAY)) * MS_DAY + rng.choice([-2, -1, 0, 1, 2]))))
        elif k == 4:      # whole seconds
            out.append(rng.randrange(MS_END // 1000) * 1000)
        else:             # whole days
            out.append(rng.randrange(MS_END // MS_DAY) * MS_DAY)
    return out


TZ_DST = 'EST5EDT,M3.2.0,M11.1.0'     # POSIX rule (no tz database needed): 02:00 -> 03:00 on 2021-03-14, 02:00 -> 01:00 on 2021-11-07


@contextlib.contextmanager
def process_tz(tz):
    """run the body while the PROCESS time zone is `tz` (os.environ['TZ'] + time.tzset()); the previous zone is restored
    whatever happens.  The references of this plugin are naive timedelta / Fraction arithmetic and never consult the zone."""
    if tz is None:
        yield
        return
    old = os.environ.get('TZ')
    os.environ['TZ'] = tz
    time.tzset()
    try:
        yield
    finally:
        if old is None:
            os.environ.pop('TZ', None)
        else:
            os.environ['TZ'] = old
        time.tzset()


MONTH_FORMATS = ['%d-%b-%Y', '%d-%B-%Y', '%B %d, %Y', '%d %b %Y', '%b %d %Y']


def month_text(d, fmt):
    """the date written with its English month name (upper-cased for the dashed forms, as a sheet shows 22-MAY-2011)"""
    t = d.strftime(fmt)
    return t.upper() if '-' in fmt else t


def ms_of(d):
    return (d - D1900) // TD(milliseconds=1)


def tz_cases(rng, scale):
    """naive date-times mean the same serial whatever the process time zone is: date-times in and around the skipped and
    the repeated hour of a daylight-saving zone, summer and winter days, and a seeded sample, evaluated under that zone"""
    out = []
    mss = []
    for day in (DT(2021, 3, 14), DT(2021, 11, 7), DT(1987, 4, 5), DT(2030, 3, 10)):
        for h, m in ((0, 0), (1, 30), (2, 0), (2, 15), (2, 30), (3, 0), (3, 15), (12, 0)):
            mss.append(ms_of(day + TD(hours=h, minutes=m)))
    mss += [ms_of(DT(2021, 7, 1)), ms_of(DT(2021, 1, 1)), ms_of(DT(1970, 1, 1)), ms_of(DT(1969, 12, 31, 21, 0)), 0, MS_DAY, MS_MAR1]
    mss += seeded_ms(rng, 60 * scale)[16:]
    for ms in mss:
        out.append({'kind': 'dt', 'ms': ms, 'tz': TZ_DST})
    for i in range(len(mss) - 1):
        out.append({'kind': 'cmp', 'a': mss[i], 'b': mss[i + 1], 'tz': TZ_DST})
        out.append({'kind': 'cmp', 'a': mss[i + 1], 'b': mss[i], 'tz': TZ_DST})
    for ms in mss[:40]:
        out.append({'kind': 'fn', 'ms': ms, 'tz': TZ_DST})
        if ms % MS_DAY == 0:
            out.append({'kind': 'day', 'o': O1900 + ms // MS_DAY, 'tz': TZ_DST})
    return out


def cases(rng, ctx):
    out = _cases(rng, ctx)
    out += tz_cases(rng, ctx['scale'] * (4 if ctx['tier'] == 'thorough' else 1))
    return out


def _cases(rng, ctx):
    thorough = ctx['tier'] == 'thorough'
    scale = ctx['scale'] * (4 if thorough else 1)
    out = []
    del _chunks[:]
    u = utils()
    # -- days
    spec = special_days()
    if thorough:
        days = spec
        o = O1900
        while o <= OMAX:
            c = {'kind': 'daysweep', 'lo': o, 'hi': min(OMAX + 1, o + CHUNK)}
            _chunks.append(c)
            out.append(c)
            o += CHUNK
    else:
        days = set(range(O1900, OMAX + 1, 97)) | spec | {OMAX}
    out += [{'kind': 'day', 'o': o} for o in sorted(days)]
    # -- integer serials
    sers = set(range(0, 431)) | set(range(SER_MAX - 40, SER_MAX + 1))
    if thorough:
        n = 61
        while n <= SER_MAX:
            c = {'kind': 'serialsweep', 'lo': n, 'hi': min(SER_MAX + 1, n + 2 * CHUNK)}
            _chunks.append(c)
            out.append(c)
            n += 2 * CHUNK
    else:
        sers |= set(range(61, SER_MAX + 1, 101))
    out += [{'kind': 'serial', 'n': n} for n in sorted(sers)]
    # -- date-times at millisecond resolution, and the float serials the code gives them
    mss = seeded_ms(rng, 2400 * scale)
    for ms in mss:
        out.append({'kind': 'dt', 'ms': ms})
    for ms in mss[::2]:
        s = u.serialize_date(dt_of_ms(ms))
        if isinstance(s, float):
            f = Fraction(s)
            out.append({'kind': 'parse', 'num': f.numerator, 'den': f.denominator})
    for q in (Fraction(121, 2), Fraction(60), Fraction(61), Fraction(241, 4), Fraction(87691, 2), Fraction(1, 2), Fraction(3, 2)):
        out.append({'kind': 'parse', 'num': q.numerator, 'den': q.denominator})
    # -- comparisons of two date-times
    pool = seeded_ms(rng, 300 * scale)
    for i in range(500 * scale):
        a = rng.choice(pool)
        k = i % 5
        if k == 0:
            b = a
        elif k == 1:
            b = min(MS_END - 1, a + 1)
        elif k == 2:
            b = max(0, min(MS_END - 1, a + rng.choice([-1, 1]) * MS_DAY))
        else:
            b = rng.choice(pool)
        out.append({'kind': 'cmp', 'a': a, 'b': b})
    for a, b in ((0, 1), (0, MS_DAY), (MS_MAR1 - MS_DAY, MS_MAR1), (MS_MAR1 - 1, MS_MAR1), (MS_MAR1, MS_MAR1 + 1)):
        out.append({'kind': 'cmp', 'a': a, 'b': b})
        out.append({'kind': 'cmp', 'a': b, 'b': a})
    # -- a plain NUMBER against a date-time, on either side: the date acts through its serial (integers and floats, equal to the
    #    whole-day part, to the exact serial (times of day in eighths of a day are exact doubles), a day later)
    for i in range(300 * scale):
        day = rng.randrange(MS_MAR1 // MS_DAY, MS_END // MS_DAY - 1)
        j = rng.randrange(0, 8)
        ms = day * MS_DAY + j * (MS_DAY // 8)
        ser = day + 2
        n = rng.choice([ser, float(ser), ser + j / 8.0, ser + 1, ser - 1, ser + (j + 1) / 8.0])
        out.append({'kind': 'cmpn', 'ms': ms, 'n': n, 'side': rng.choice(['l', 'r'])})
    # -- a date against an ARRAY of day counts / of dates (element-wise: each element as in the scalar case), and a date written
    #    as text with a month NAME (22-MAY-2011, May 1, 2011 ...) as an operand of + and -
    for i in range(120 * scale):
        day = rng.randrange(MS_MAR1 // MS_DAY + 400, MS_END // MS_DAY - 400)
        ms = day * MS_DAY + rng.choice([0, 0, MS_DAY // 2, MS_DAY // 4])
        ns = [rng.randrange(-300, 300) for _ in range(rng.choice([1, 2, 3]))]
        out.append({'kind': 'arr', 'ms': ms, 'ns': ns})
        day2 = rng.randrange(22000, 49000)          # 1960 .. 2034: years a two- or four-digit reading cannot confuse
        out.append({'kind': 'montext', 'ms': day2 * MS_DAY, 'fmt': rng.choice(MONTH_FORMATS), 'n': rng.randrange(1, 400)})
    # -- date + n, date - n
    ndays = MS_END // MS_DAY
    for i in range(500 * scale):
        k = i % 5
        if k == 0:
            ms = rng.randrange(ndays) * MS_DAY
            n = rng.randint(-40000, 40000)
        elif k == 1:
            ms = rng.randrange(ndays) * MS_DAY
            n = rng.choice([-2, -1, 0, 1, 2, 7, 28, 29, 30, 31, 365, 366, -365, -366])
        elif k == 2:
            ms = rng.choice(pool)
            n = rng.randint(-40000, 40000)
        elif k == 3:      # near the ends of the range
            ms = rng.choice([rng.randrange(59, 59 + 400), ndays - 1 - rng.randrange(400)]) * MS_DAY
            n = rng.randint(-450, 450)
        else:
            ms = rng.randrange(ndays) * MS_DAY
            n = rng.randint(-ndays, ndays)
        out.append({'kind': 'add', 'ms': ms, 'n': n})
    # fractional day counts (eighths of a day: whole milliseconds) on either side of +, and to the right of -
    for _ in range(60 * scale):
        ms = rng.choice(pool) if rng.random() < 0.5 else rng.randrange(60, ndays - 400) * MS_DAY
        out.append({'kind': 'add', 'ms': ms, 'n': rng.choice([1, -1]) * rng.randrange(1, 2400) / 8.0})
    for n8 in (0.5, -0.5, 30.75, 0.125, 1.5, -2.25):
        out.append({'kind': 'add', 'ms': (DT(2020, 1, 1) - D1900).days * MS_DAY, 'n': n8})
    for ms, n in ((MS_MAR1, 1), (MS_MAR1, 0), (MS_MAR1 + MS_DAY, -1), (MS_MAR1, -1), (0, 1), (MS_DAY, 1), (MS_MAR1 - MS_DAY, 1),
                  (MS_MAR1 - MS_DAY, 2), (MS_END - MS_DAY, 0), (MS_END - MS_DAY, 1), (MS_END - 2 * MS_DAY, 1),
                  ((DT(2020, 2, 28) - D1900).days * MS_DAY, 2), ((DT(2019, 2, 28) - D1900).days * MS_DAY, 1)):
        out.append({'kind': 'add', 'ms': ms, 'n': n})
    # -- date - date, DAYS
    for i in range(300 * scale):
        k = i % 3
        if k == 0:
            a, b = rng.randrange(ndays) * MS_DAY, rng.randrange(ndays) * MS_DAY
        elif k == 1:
            a = rng.randrange(ndays) * MS_DAY
            b = max(0, min(MS_END - MS_DAY, a + rng.randint(-400, 400) * MS_DAY))
        else:
            a, b = rng.choice(pool), rng.choice(pool)
        out.append({'kind': 'sub', 'a': a, 'b': b})
    for a, b in ((MS_MAR1, MS_MAR1), (MS_MAR1 + MS_DAY, MS_MAR1), (MS_MAR1, MS_MAR1 - MS_DAY), (MS_DAY, 0), (MS_END - MS_DAY, MS_MAR1)):
        out.append({'kind': 'sub', 'a': a, 'b': b})
    # -- DATEVALUE, N
    for i in range(300 * scale):
        k = i % 3
        if k == 0:
            ms = rng.randrange(ndays) * MS_DAY
        elif k == 1:
            ms = rng.randrange(MS_END // 1000) * 1000
        else:
            ms = rng.choice(pool)
        out.append({'kind': 'fn', 'ms': ms})
    for ms in (0, MS_DAY, MS_MAR1 - MS_DAY, MS_MAR1, MS_MAR1 + MS_DAY, MS_END - MS_DAY):
        out.append({'kind': 'fn', 'ms': ms})
    return out


# --------------------------------------------------------------------------- requests to the model

def env_for(**vs):
    return fx.env_wire(variables=vs)


def batch(formulas, env):
    return 'c04.batch ' + ' '.join(common.enc_str(f) for f in formulas) + ' ' + env


def iso_text(d):
    if d.hour == 0 and d.minute == 0 and d.second == 0:
        return d.strftime('%Y-%m-%d')
    return d.strftime('%Y-%m-%d %H:%M:%S')


def fn_formulas(c):
    d = dt_of_ms(c['ms'])
    fs = ['DATEVALUE(x)', 'N(x)']
    if c['ms'] % 1000 == 0:
        fs.append('DATEVALUE(t)')
    if c['ms'] % MS_DAY == 0 and c['ms'] >= MS_MAR1:
        fs.append('DATEVALUE(k)')
    return fs


def fn_env(c):
    d = dt_of_ms(c['ms'])
    vs = {'x': d}
    if c['ms'] % 1000 == 0:
        vs['t'] = iso_text(d)
    if c['ms'] % MS_DAY == 0 and c['ms'] >= MS_MAR1:
        vs['k'] = c['ms'] // MS_DAY + 2
    return vs


def request(c):
    k = c['kind']
    if k == 'day':
        return 'date.serial %d' % ((c['o'] - O1900) * US_DAY)
    if k == 'serial':
        return 'date.parse (i %d)' % c['n']
    if k == 'dt':
        return 'date.serial %d' % (c['ms'] * 1000)
    if k == 'parse':
        return 'date.parse (f %d %d)' % (c['num'], c['den'])
    if k == 'cmp':
        return batch(['x' + op + 'y' for op in CMPS], env_for(x=dt_of_ms(c['a']), y=dt_of_ms(c['b'])))
    if k == 'cmpn':
        return batch([('nn' + op + 'x') if c['side'] == 'l' else ('x' + op + 'nn') for op in CMPS], env_for(x=dt_of_ms(c['ms']), nn=c['n']))
    if k == 'add':
        return batch(['x+n', 'n+x', 'x-n'], env_for(x=dt_of_ms(c['ms']), n=c['n']))
    if k == 'sub':
        return batch(['x-y', 'DAYS(x,y)'], env_for(x=dt_of_ms(c['a']), y=dt_of_ms(c['b'])))
    if k == 'fn':
        return batch(fn_formulas(c), env_for(**fn_env(c)))
    if k == 'daysweep':
        return 'date.serial %d' % ((c['lo'] - O1900) * US_DAY)
    if k == 'serialsweep':
        return 'date.parse (i %d)' % c['lo']
    return None


# --------------------------------------------------------------------------- the implementation

_p = [None]


def parser():
    if _p[0] is None:
        common.load_repo()
        import hotxlfp
        _p[0] = hotxlfp.Parser()
    return _p[0]


def run(formula, **vs):
    p = parser()
    for k, v in vs.items():
        p.set_variable(k, v)
    return p.parse(formula)


def date_lit(d):
    return 'DATE(%d,%d,%d)' % (d.year, d.month, d.day)


def num_lit(n):
    return str(n) if n >= 0 else '(0-%d)' % (-n)


def impl_day(o):
    u = utils()
    d = DT.fromordinal(o)
    s = u.serialize_date(d)
    p = u.parse_date(s)
    nxt = u.serialize_date(DT.fromordinal(o + 1)) if o < OMAX else None
    return {'s': s, 'p': p, 'next': nxt}


def impl_serial(n):
    u = utils()
    p = u.parse_date(n)
    s2 = u.serialize_date(p) if isinstance(p, DT) else None
    return {'p': p, 's2': s2}


def impl(c):
    with process_tz(c.get('tz')):
        return _impl(c)


def _impl(c):
    k = c['kind']
    u = utils()
    if k == 'day':
        return impl_day(c['o'])
    if k == 'serial':
        return impl_serial(c['n'])
    if k == 'dt':
        d = dt_of_ms(c['ms'])
        s = u.serialize_date(d)
        r = {'s': s, 'p': u.parse_date(s)}
        if c['ms'] + 1 < MS_END:
            r['next'] = u.serialize_date(dt_of_ms(c['ms'] + 1))
        return r
    if k == 'parse':
        s = c['num'] / c['den']
        assert Fraction(s) == Fraction(c['num'], c['den'])
        p = u.parse_date(s)
        return {'p': p, 's2': u.serialize_date(p) if isinstance(p, DT) else None}
    if k == 'cmp':
        da, db = dt_of_ms(c['a']), dt_of_ms(c['b'])
        r = {'var': [run('x' + op + 'y', x=da, y=db) for op in CMPS], 'sa': u.serialize_date(da), 'sb': u.serialize_date(db)}
        if c['a'] % MS_DAY == 0 and c['b'] % MS_DAY == 0:
            r['lit'] = [run(date_lit(da) + op + date_lit(db)) for op in CMPS]
        return r
    if k == 'cmpn':
        d = dt_of_ms(c['ms'])
        return {'var': [run(('nn' + op + 'x') if c['side'] == 'l' else ('x' + op + 'nn'), x=d, nn=c['n']) for op in CMPS]}
    if k == 'arr':
        d = dt_of_ms(c['ms'])
        ns = list(c['ns'])
        ds = [dt_of_ms(c['ms'] + n * MS_DAY) for n in ns]
        return {'var': [run(f, x=d, ns=list(ns), ds=list(ds)) for f in ('x+ns', 'ns+x', 'x-ns', 'ds-x', 'x-ds')]}
    if k == 'montext':
        d = dt_of_ms(c['ms'])
        t = month_text(d, c['fmt'])
        d2 = dt_of_ms(c['ms'] - c['n'] * MS_DAY)
        return {'var': [run(f, t=t, y=d2, n=c['n']) for f in ('t-y', 't+n', 't-n', 'y-t', 'DAYS(t,y)')], 'text': t}
    if k == 'add':
        d = dt_of_ms(c['ms'])
        n = c['n']
        r = {'var': [run(f, x=d, n=n) for f in ('x+n', 'n+x', 'x-n')]}
        if c['ms'] % MS_DAY == 0 and isinstance(n, int):
            r['lit'] = [run(date_lit(d) + '+' + num_lit(n)), run(num_lit(n) + '+' + date_lit(d)), run(date_lit(d) + '-' + num_lit(n))]
        return r
    if k == 'sub':
        da, db = dt_of_ms(c['a']), dt_of_ms(c['b'])
        r = {'var': [run(f, x=da, y=db) for f in ('x-y', 'DAYS(x,y)')]}
        if c['a'] % MS_DAY == 0 and c['b'] % MS_DAY == 0:
            r['lit'] = [run(date_lit(da) + '-' + date_lit(db)), run('DAYS(%s,%s)' % (date_lit(da), date_lit(db)))]
        return r
    if k == 'fn':
        d = dt_of_ms(c['ms'])
        r = {'var': [run(f, **fn_env(c)) for f in fn_formulas(c)], 's': u.serialize_date(d)}
        if c['ms'] % MS_DAY == 0:
            r['lit'] = [run('DATEVALUE(%s)' % date_lit(d)), run('N(%s)' % date_lit(d)), run('DATEVALUE("%s")' % iso_text(d))]
            if c['ms'] >= MS_MAR1:
                r['lit'].append(run('DATEVALUE(%d)' % (c['ms'] // MS_DAY + 2)))
        return r
    if k in ('daysweep', 'serialsweep'):
        return sweep_result(c)
    raise ValueError(c)


# --------------------------------------------------------------------------- the sweeps (thorough)

_sweep_cache = {}


def driver_path():
    p = os.path.join(common.RUN_DIR, 'driver.%d' % os.getpid())
    return p if os.path.exists(p) else common.DRIVER_EXE


def model_lines(exe, lines):
    p = subprocess.run([exe], input=('\n'.join(lines) + '\n').encode('ascii'), stdout=subprocess.PIPE,
                       stderr=subprocess.PIPE, timeout=3000)
    out = p.stdout.decode('ascii', 'replace').split('\n')
    if out and out[-1] == '':
        out.pop()
    if p.returncode != 0 or len(out) != len(lines):
        raise RuntimeError('driver failed in the C13 sweep: rc=%s, %d answers for %d requests; %s' % (
            p.returncode, len(out), len(lines), p.stderr.decode('ascii', 'replace')[:300]))
    return out


def float_wire(s):
    if isinstance(s, float):
        if s == int(s):
            return '(f %d 1)' % int(s)
        f = Fraction(s)
        return '(f %d %d)' % (f.numerator, f.denominator)
    return '(i %d)' % s


def do_sweep(args):
    """one chunk: the statement on every element, and the model on the same inputs"""
    c, exe = args
    common.load_repo()
    from hotxlfp.formulas import utils as u
    ser, par = u.serialize_date, u.parse_date
    fails = []
    mism = []
    lines = []
    n = 0
    if c['kind'] == 'daysweep':
        lo, hi = c['lo'], c['hi']
        prev = ser(DT.fromordinal(lo - 1)) if lo > O1900 else None
        recs = []
        for o in range(lo, hi):
            d = DT.fromordinal(o)
            s = ser(d)
            p = par(s)
            msg = judge_day(o, d, s, p, prev)
            if msg and len(fails) < 5:
                # a monotonicity break is witnessed by the single-day case of the day before (its `next`)
                fails.append((o - 1 if 'not increasing' in msg else o, msg))
            prev = s
            recs.append((o, s, p))
            lines.append('date.serial %d' % ((o - O1900) * US_DAY))
            lines.append('date.parse %s' % float_wire(s) if is_number(s) else 'date.parse (i 0)')
            n += 1
        ans = model_lines(exe, lines)
        for i, (o, s, p) in enumerate(recs):
            want_s = '(i %d)' % s if isinstance(s, int) else (float_wire(s) if isinstance(s, float) else '?')
            want_p = '(d %d)' % us_of(p) if isinstance(p, DT) else '?'
            if (ans[2 * i] != want_s or ans[2 * i + 1] != want_p) and len(mism) < 5:
                mism.append((o, 'implementation %s -> %r -> %r; model %s, %s' % (DT.fromordinal(o).date(), s, p, ans[2 * i], ans[2 * i + 1])))
    else:
        lo, hi = c['lo'], c['hi']
        recs = []
        for k in range(lo, hi):
            p = par(k)
            s2 = ser(p) if isinstance(p, DT) else None
            msg = judge_serial(k, p, s2)
            if msg and len(fails) < 5:
                fails.append((k, msg))
            recs.append((k, p, s2))
            lines.append('date.parse (i %d)' % k)
            n += 1
        ans = model_lines(exe, lines)
        for i, (k, p, s2) in enumerate(recs):
            want_p = '(d %d)' % us_of(p) if isinstance(p, DT) else '?'
            if ans[i] != want_p and len(mism) < 5:
                mism.append((k, 'implementation parse_date(%d) = %r; model %s' % (k, p, ans[i])))
    return {'n': n, 'fails': fails, 'mismatch': mism, 'model_lines': len(lines)}


def sweep_result(c):
    key = (c['kind'], c['lo'], c['hi'])
    if key in _sweep_cache:
        return _sweep_cache[key]
    exe = driver_path()
    todo = [x for x in _chunks if (x['kind'], x['lo'], x['hi']) not in _sweep_cache]
    if c not in todo:
        todo = [c]
    res = None
    if len(todo) > 1:
        try:
            import multiprocessing
            ctx = multiprocessing.get_context('fork')
            with ctx.Pool(min(8, os.cpu_count() or 1, len(todo))) as pool:
                res = pool.map(do_sweep, [(x, exe) for x in todo], chunksize=1)
        except (OSError, ImportError, ValueError):
            res = None
    if res is None:
        res = [do_sweep((x, exe)) for x in todo]
    for x, r in zip(todo, res):
        _sweep_cache[(x['kind'], x['lo'], x['hi'])] = r
    return _sweep_cache[key]


def weight(c, impl_ans):
    """(evaluations, distinct non-trivial inputs, model/implementation comparisons) of a sweep case"""
    if c['kind'] in ('daysweep', 'serialsweep'):
        n = impl_ans['n']
        return (n, n - (1 if c['kind'] == 'daysweep' and c['lo'] == O1900 else 0), impl_ans['model_lines'])
    return None


# --------------------------------------------------------------------------- the statement

def judge_day(o, d, s, p, prev):
    """whole day `d` (ordinal o): serial s, parse_date(s) = p, serial of the previous day prev"""
    if not is_number(s):
        return 'serialize_date(%s) = %r is not a number' % (d.date(), s)
    if o >= OMAR1 and Fraction(s) != o - OBASE:
        return 'serialize_date(%s) = %r; days since 1899-12-30 = %d' % (d.date(), s, o - OBASE)
    if p != d:
        return 'parse_date(serialize_date(%s)) = parse_date(%r) = %r' % (d.date(), s, p)
    if prev is not None and not (is_number(prev) and prev < s):
        return 'serial of %s is %r, of the day before %r: not increasing' % (d.date(), s, prev)
    return None


def judge_serial(k, p, s2):
    """integer serial k >= 61: parse_date(k) = p, serialize_date(p) = s2"""
    if k < 61:
        return None
    if not isinstance(p, DT):
        return 'parse_date(%d) = %r is not a date' % (k, p)
    if not (is_number(s2) and Fraction(s2) == k):
        return 'serialize_date(parse_date(%d)) = serialize_date(%r) = %r' % (k, p, s2)
    if p != BASE + TD(days=k):
        return 'parse_date(%d) = %r; %d days after 1899-12-30 is %s' % (k, p, k, (BASE + TD(days=k)).date())
    return None


def rec_value(rec):
    return rec['result'] if rec['error'] is None else rec['error']


def num_is(rec, want, exact):
    """the record holds a number equal to the Fraction `want` (exactly, or within 1e-9)"""
    if rec['error'] is not None or not is_number(rec['result']):
        return False
    q = Fraction(rec['result'])
    return q == want if exact else abs(q - want) <= TOL


def date_is(rec, want_ms, exact):
    if rec['error'] is not None or not isinstance(rec['result'], DT):
        return False
    want = dt_of_ms(want_ms)
    return rec['result'] == want if exact else close_ms(rec['result'], want)


def oracle(c, r):
    k = c['kind']
    if k == 'day':
        o = c['o']
        d = DT.fromordinal(o)
        msg = judge_day(o, d, r['s'], r['p'], None)
        if msg:
            return msg
        if r['next'] is not None and not (is_number(r['next']) and r['s'] < r['next']):
            return 'serial of %s is %r, of the next day %r: not increasing' % (d.date(), r['s'], r['next'])
        return None
    if k == 'serial':
        return judge_serial(c['n'], r['p'], r['s2'])
    if k == 'dt':
        ms = c['ms']
        d = dt_of_ms(ms)
        s = r['s']
        if not is_number(s):
            return 'serialize_date(%s) = %r is not a number' % (d, s)
        if ms >= MS_MAR1:
            want = ref_serial_ms(ms)
            if (Fraction(s) != want) if ms % MS_DAY == 0 else (abs(Fraction(s) - want) > TOL):
                return 'serialize_date(%s) = %r; days since 1899-12-30 = %s' % (d, s, float(want))
        if not close_ms(r['p'], d):
            return 'parse_date(serialize_date(%s)) = parse_date(%r) = %r' % (d, s, r['p'])
        if 'next' in r and not (is_number(r['next']) and s < r['next']):
            return 'serial of %s is %r, one millisecond later %r: not increasing' % (d, s, r['next'])
        return None
    if k == 'parse':
        q = Fraction(c['num'], c['den'])
        if q < 61 or q >= SER_MAX + 1:
            return None
        p, s2 = r['p'], r['s2']
        if not isinstance(p, DT):
            return 'parse_date(%r) = %r is not a date' % (float(q), p)
        if not (is_number(s2) and abs(Fraction(s2) - q) <= TOL):
            return 'serialize_date(parse_date(%r)) = serialize_date(%r) = %r' % (float(q), p, s2)
        if abs(us_of(p) - us_of(BASE) - q * US_DAY) >= 500:
            return 'parse_date(%r) = %r; that many days after 1899-12-30 is %s' % (float(q), p, ref_date_of_serial(q))
        return None
    if k == 'cmp':
        a, b = c['a'], c['b']
        da, db = dt_of_ms(a), dt_of_ms(b)
        sa, sb = r['sa'], r['sb']
        if not (is_number(sa) and is_number(sb)):
            return 'serials of %s, %s: %r, %r' % (da, db, sa, sb)
        if (a < b) != (sa < sb) or (a == b) != (sa == sb):
            return 'serials do not follow time: %s -> %r, %s -> %r' % (da, sa, db, sb)
        want = [a < b, a == b, a > b, a <= b, a >= b, a != b]
        for name in ('var', 'lit'):
            for op, rec, w in zip(CMPS, r.get(name, []), want):
                if rec['error'] is not None or rec['result'] is not w:
                    l, rr = (('x', 'y') if name == 'var' else (date_lit(da), date_lit(db)))
                    return '%s%s%s with x=%s (serial %r), y=%s (serial %r) gives %r; the serials give %r' % (
                        l, op, rr, da, sa, db, sb, rec_value(rec), w)
        return None
    if k == 'arr':
        ms, ns = c['ms'], c['ns']
        exact = ms % MS_DAY == 0
        recs = r['var']
        def arr_of(rec):
            return rec['result'] if rec['error'] is None and isinstance(rec['result'], list) and len(rec['result']) == len(ns) else None
        for f, rec, sign in (('x+ns', recs[0], 1), ('ns+x', recs[1], 1), ('x-ns', recs[2], -1)):
            a = arr_of(rec)
            if a is None:
                return '%s with x=%s, ns=%r gives %r; expected the list of the dates n days later/earlier' % (f, dt_of_ms(ms), ns, rec_value(rec))
            for n, v in zip(ns, a):
                if not date_is({'result': v, 'error': None}, ms + sign * n * MS_DAY, exact):
                    return '%s with x=%s, ns=%r gives %r; the element for n=%d should be the date %s' % (
                        f, dt_of_ms(ms), ns, a, n, dt_of_ms(ms + sign * n * MS_DAY))
        for f, rec, sign in (('ds-x', recs[3], 1), ('x-ds', recs[4], -1)):
            a = arr_of(rec)
            if a is None:
                return '%s with x=%s and ds = x+%r days gives %r; expected the list of day differences' % (f, dt_of_ms(ms), ns, rec_value(rec))
            for n, v in zip(ns, a):
                if not num_is({'result': v, 'error': None}, Fraction(sign * n), exact):
                    return '%s with x=%s and ds = x+%r days gives %r; the differences are %r' % (f, dt_of_ms(ms), ns, a, [sign * m for m in ns])
        return None
    if k == 'montext':
        n = c['n']
        t = r['text']
        wants = [('t-y', 'num', n), ('t+n', 'date', c['ms'] + n * MS_DAY), ('t-n', 'date', c['ms'] - n * MS_DAY), ('y-t', 'num', -n), ('DAYS(t,y)', 'num', n)]
        for (f, kind, w), rec in zip(wants, r['var']):
            ok = num_is(rec, Fraction(w), True) if kind == 'num' else date_is(rec, w, True)
            if not ok:
                return '%s with t=%r (the date %s), y = that date - %d days gives %r; expected %s' % (
                    f, t, dt_of_ms(c['ms']).date(), n, rec_value(rec), w if kind == 'num' else dt_of_ms(w))
        return None
    if k == 'cmpn':
        sx = ref_serial_ms(c['ms'])
        n = Fraction(c['n'])
        a, b = (n, sx) if c['side'] == 'l' else (sx, n)
        want = [a < b, a == b, a > b, a <= b, a >= b, a != b]
        for op, rec, w in zip(CMPS, r['var'], want):
            if rec['error'] is not None or rec['result'] is not w:
                return '%s with x=%s (serial %s) and nn=%r gives %r; the serial gives %r' % (
                    ('nn' + op + 'x') if c['side'] == 'l' else ('x' + op + 'nn'), dt_of_ms(c['ms']), float(sx), c['n'], rec_value(rec), w)
        return None
    if k == 'add':
        ms, n = c['ms'], c['n']
        d = dt_of_ms(ms)
        exact = ms % MS_DAY == 0 and isinstance(n, int)
        if ms < MS_MAR1:
            return None
        forms = {'var': ('x+n', 'n+x', 'x-n')}
        if isinstance(n, int):
            forms['lit'] = (date_lit(d) + '+' + num_lit(n), num_lit(n) + '+' + date_lit(d), date_lit(d) + '-' + num_lit(n))
        for name in ('var', 'lit'):
            for f, rec, sign in zip(forms.get(name, ()), r.get(name, []), (1, 1, -1)):
                t = ms + int(sign * n * MS_DAY)          # (n is an integer or a number of eighths of a day)
                if not (MS_MAR1 <= t < MS_END):
                    continue
                if not date_is(rec, t, exact):
                    return '%s with x=%s, n=%s gives %r; %s days %s is %s' % (
                        f, d, n, rec_value(rec), abs(n), 'later' if sign * n >= 0 else 'earlier', dt_of_ms(t))
        return None
    if k == 'sub':
        a, b = c['a'], c['b']
        da, db = dt_of_ms(a), dt_of_ms(b)
        if a < MS_MAR1 or b < MS_MAR1:
            return None
        exact = a % MS_DAY == 0 and b % MS_DAY == 0
        want = Fraction(a - b, MS_DAY)
        forms = {'var': ('x-y', 'DAYS(x,y)'), 'lit': (date_lit(da) + '-' + date_lit(db), 'DAYS(%s,%s)' % (date_lit(da), date_lit(db)))}
        for name in ('var', 'lit'):
            for f, rec in zip(forms[name], r.get(name, [])):
                if not num_is(rec, want, exact):
                    return '%s with x=%s, y=%s gives %r; the days between them: %s' % (f, da, db, rec_value(rec), float(want))
        return None
    if k == 'fn':
        ms = c['ms']
        d = dt_of_ms(ms)
        s = r['s']
        exact = ms % MS_DAY == 0
        if not is_number(s):
            return 'serialize_date(%s) = %r is not a number' % (d, s)
        forms = {'var': fn_formulas(c), 'lit': ['DATEVALUE(%s)' % date_lit(d), 'N(%s)' % date_lit(d), 'DATEVALUE("%s")' % iso_text(d),
                                                'DATEVALUE(%d)' % (ms // MS_DAY + 2)]}
        for name in ('var', 'lit'):
            for f, rec in zip(forms[name], r.get(name, [])):
                # the same serial as serialize_date ...
                if not num_is(rec, Fraction(s), True):
                    return '%s with x=%s gives %r; serialize_date gives %r' % (f, d, rec_value(rec), s)
                # ... which from 1 March 1900 on is Excel's
                if ms >= MS_MAR1 and not num_is(rec, ref_serial_ms(ms), exact):
                    return '%s with x=%s gives %r; days since 1899-12-30 = %s' % (f, d, rec_value(rec), float(ref_serial_ms(ms)))
        return None
    if k in ('daysweep', 'serialsweep'):
        if r['fails']:
            return r['fails'][0][1]
        return None
    return None


# --------------------------------------------------------------------------- model vs implementation

def recs_agree(model_ans, recs, exact):
    m = fx.parse_sexp(model_ans)
    if not isinstance(m, list) or len(m) != len(recs):
        return False
    for mm, rec in zip(m, recs):
        # date-times: the difference of two serials cancels, so besides 4 ulp a slack of 1e-9 * max(1, |value|) is allowed
        # (fx.value_matches: `rel` scales with the value, it is not an absolute 1e-9 day)
        ok = fx.record_matches(mm[1], rec, ulps=0 if exact else 4, rel=0.0 if exact else 1e-9)
        if ok is False:
            return False
        if ok is None:
            return False      # every formula of this plugin is inside the modelled fragment
        if exact and isinstance(rec['result'], DT):
            if mm[1][1] != ['d', str(us_of(rec['result']))]:
                return False
    return True


def agree(c, r, model_ans):
    k = c['kind']
    if k == 'day':
        s = r['s']
        want = '(i %d)' % s if isinstance(s, int) else (float_wire(s) if isinstance(s, float) else '?')
        return model_ans == want
    if k == 'serial':
        p = r['p']
        if isinstance(p, DT):
            return model_ans == '(d %d)' % us_of(p)
        return fx.value_matches(fx.parse_sexp(model_ans), p) is True
    if k == 'dt':
        if c['ms'] % MS_DAY == 0:
            s = r['s']
            return model_ans == ('(i %d)' % s if isinstance(s, int) else float_wire(s))
        return fx.value_matches(fx.parse_sexp(model_ans), r['s'], ulps=4) is True
    if k == 'parse':
        return fx.value_matches(fx.parse_sexp(model_ans), r['p']) is True
    if k in ('cmp', 'cmpn'):
        return recs_agree(model_ans, r['var'], True)
    if k == 'add':
        return recs_agree(model_ans, r['var'], c['ms'] % MS_DAY == 0)
    if k == 'sub':
        return recs_agree(model_ans, r['var'], c['a'] % MS_DAY == 0 and c['b'] % MS_DAY == 0)
    if k == 'fn':
        return recs_agree(model_ans, r['var'], c['ms'] % MS_DAY == 0)
    if k == 'daysweep':
        first = impl_day(c['lo'])['s']
        want = '(i %d)' % first if isinstance(first, int) else float_wire(first)
        return model_ans == want and not r['mismatch']
    if k == 'serialsweep':
        p = impl_serial(c['lo'])['p']
        return isinstance(p, DT) and model_ans == '(d %d)' % us_of(p) and not r['mismatch']
    return True


def nontrivial(c, r):
    k = c['kind']
    if k == 'day':
        return c['o'] != O1900
    if k == 'serial':
        return c['n'] >= 61
    if k == 'dt':
        return c['ms'] != 0
    if k == 'parse':
        return Fraction(c['num'], c['den']) >= 61
    if k == 'cmp':
        return c['a'] != c['b']
    if k == 'add':
        return c['ms'] >= MS_MAR1 and MS_MAR1 <= c['ms'] + c['n'] * MS_DAY < MS_END and c['n'] != 0
    if k == 'sub':
        return c['a'] >= MS_MAR1 and c['b'] >= MS_MAR1 and c['a'] != c['b']
    if k == 'fn':
        return c['ms'] >= MS_MAR1
    return True


# --------------------------------------------------------------------------- search / shrink

def search(rng, ctx, disagreements):
    """the complete day sweep and the complete integer-serial sweep"""
    c2 = dict(ctx)
    c2['tier'] = 'thorough'
    return [c for c in cases(rng, c2) if c['kind'] in ('daysweep', 'serialsweep')]


def shrink(c, msg):
    if c['kind'] == 'daysweep':
        r = sweep_result(c)
        if r['fails']:
            o, m = r['fails'][0]
            return {'kind': 'day', 'o': o}, m
    if c['kind'] == 'serialsweep':
        r = sweep_result(c)
        if r['fails']:
            n, m = r['fails'][0]
            return {'kind': 'serial', 'n': n}, m
    return c, msg
