# -*- coding: utf-8 -*-
"""C06 - arithmetic and concatenation follow the implicit type-conversion table"""
import datetime
import itertools
from fractions import Fraction

from .. import common, fx

ID = 'C06'
LEAN_MODULES = ['HotXL.Props.C06']
FUNCTIONS = ['hotxlfp.formulas.operators:evaluate_arithmetic', 'hotxlfp.formulas.operators:value_and_type',
             'hotxlfp.formulas.operators:ExcelArrayOps.adapt_value', 'hotxlfp.formulas.operators:ExcelArrayOps.__add__',
             'hotxlfp.formulas.operators:ExcelArrayOps.__sub__', 'hotxlfp.formulas.operators:ExcelArrayOps.__rsub__',
             'hotxlfp.formulas.operators:ExcelArrayOps.__mul__', 'hotxlfp.formulas.operators:ExcelArrayOps.__truediv__',
             'hotxlfp.formulas.operators:ExcelArrayOps.__rtruediv__',
             'hotxlfp.formulas.utils:serialize_date', 'hotxlfp.formulas.utils:parse_date',
             'hotxlfp.helper.number:to_number',
             'hotxlfp.grammarparser.parser:FormulaParser.p_expression_arithmetic_operator']
RULE = ('ordered pairs of operands from a pool of 91 values under each of + - * / &, injected as variables x, y (key `via`: by another route, below). Pool: 68 scalars = '
        '8 ints (up to 2^40), 6 floats (incl. -0.0, 0.1), TRUE, FALSE, blank; 11 numeric texts (signs, decimals, spaces, underscore, '
        'leading zeros, exponent), 6 non-numeric texts (incl. empty, "TRUE", "#N/A"), 3 ISO date texts, 8 texts with quotation '
        'marks of either kind at their ends or inside, 3 integers beyond 2^53 that no double holds and 5 such digit strings as '
        'text (one padded with spaces); 11 dates and date-times (1900-01-01..03-01, milliseconds, 9999-12-31); 4 error values; 21 '
        'flat, nested, empty, mixed, one-element (also holding an array or an error) arrays; 2 foreign objects (tuple, dict). '
        'Thorough: the complete product (8281 pairs). Quick: complete on numbers/logicals/blank among themselves, date-times '
        'among themselves and against those 17, the 8 beyond-2^53 values among themselves and against the 17, arrays against '
        'arrays, plus a seeded sample of 700*scale pairs of the whole product. Both tiers: the quoted texts against the 17 and '
        'each other. lit cases: every case with a quoted text, and 10 % of the other cases with a text operand, is run again with '
        'the text operands written as string literals (delimited by the quote kind they do not contain) instead of variables. '
        'via cases (both tiers): a (pair, operator) case is followed by a twin with key `via` when one of its operands is an empty '
        'text, a zero (0, -0.0) or FALSE and a seeded draw is below 0.5, or when a further draw is below 0.08 (so 8 % of the other '
        'cases too); via = cell (2 of 3) - the formula is A1 op B1 and the parser\'s callCellValue listener hands x for A1, y for B1 '
        'to its setter - or fn (1 of 3) - the formula is GX() op GY(), host functions that return x and y: an empty text stays an '
        'empty text, a zero a zero, FALSE a logical on these routes; about 1150 cell + 590 fn twins among the about 17200 cases of quick at scale 1 '
        '(about 3500 + 1800 of 58800 thorough). The oracle is the same; the model request of a via case keeps the variable formula x op y '
        'with x, y as variables (the model sees the operands as variables whatever the route). '
        'Compared with the model unless an operand (or array element) is numeric text beyond ASCII decimal syntax or date text '
        'beyond ISO-8601 (oracle only). Oracle: the conversion table on exact rationals (ints exactly, floats within 8 ulp or 1e-9 '
        'relative, dates within 2 ms), the operands are left unchanged (repr), + and * give the same outcome with the operands '
        'swapped (the swapped run is always the variable formula x op y, also for via and lit cases; floats within 1e-12 relative; up to the error code when both operands hold errors). Not judged: foreign '
        'operands without an error beside them; & on floats, logicals, dates, arrays; results beyond year 9999. Non-trivial = '
        'neither operand is an error or a foreign object. When a proof or the correspondence broke: the complete product.')
TRUSTED = ['Python int/float arithmetic (floats are modelled by exact rationals; results compared within 4 ulp or 1e-9 relative - serial arithmetic on date-times cancels ~5 digits)',
           'int()/float() text parsing beyond ASCII decimal syntax and dateutil beyond ISO-8601 are library behaviour '
           '(such operands are judged by the oracle only, not compared with the model; the oracle classifies text with int(), float() '
           'and dateutil.parser.parse itself: text they accept is a number / a date)',
           'str() of floats, dates and lists under & is not fixed by the statement and not modelled',
           'via: one parser serves all cases; its callCellValue listener answers A1 / B1 (any other label: None) and its host '
           'functions GX / GY return the operands of the running case from a table the harness fills before every evaluation; the '
           'model has neither route - for a via case it evaluates x op y on variables, so that the routes agree with the variable '
           'route is tied by the comparison of the via record with that model answer and by the oracle']
ASSUMPTIONS = ['a one-element array acts as its element (the code\'s adapt_value), on either side and at any depth, so only lengths m != n, '
               'both != 1, are a mismatch (#VALUE!); two one-element arrays give a one-element array; otherwise element-wise',
               'date results with serial in [0,1) or inside the phantom 29 Feb 1900 (60,61) are not judged beyond being a date-time '
               '(the code maps the former to 1900-01-01); a negative date result is #NUM!',
               'the table as read by the oracle: logicals are 1/0, blank is 0, non-numeric text is #VALUE!, x/0 is #DIV/0!, an error '
               'operand is the result (the left one first); the result is a date for number or blank +,-,* date (either order) and '
               'number / date, date / number; date - date and every other combination give a number',
               '&: text verbatim, integers as their digits, blank as nothing, errors propagate (the left one first)',
               'the table is about the operand VALUES, not about how they reach the operator: a value answered by a cell listener or '
               'returned by a host function is converted like the same value held by a variable (an empty text is non-numeric text, '
               'not a blank; 0 and FALSE are a number and a logical, not a blank)']
EXHAUSTIVE = {'quick': False, 'thorough': True}

D = datetime.datetime
OPS = ['+', '-', '*', '/', '&']


def errs():
    common.load_repo()
    from hotxlfp.formulas import error
    return error


def pool():
    e = errs()
    scal = [0, 1, -1, 2, 7, -13, 10 ** 6, 2 ** 40, 0.5, -2.25, 1000.0, 0.1, 3.0, -0.0, True, False, None,
            '5', '-2', '1.5', ' 7 ', '1_0', '+3', '007', '.5', '5.', '-0', '1e2', 'abc', '', 'q1a', 'x y', 'TRUE', '#N/A',
            '2020-01-15', '2020-01-15 12:00:00', '1900-03-01',
            # whole numbers that no double holds, as integers and as numeric text (the conversion must not pass through a double)
            # text with quotation marks of either kind at its ends (also written as a LITERAL delimited by the other kind)
            "'", '"', "'abc'", '"3"', "12'", 'say "hi"', "'7", '5"',
            2 ** 53 + 1, -(2 ** 53) - 1, 10 ** 22 + 1, '9007199254740993', '-9007199254740993', '18014398509481985',
            '123456789012345678901', ' 9007199254740993 ',
            D(1900, 1, 1), D(1900, 1, 2), D(1900, 2, 28), D(1900, 3, 1), D(2020, 1, 15), D(2020, 1, 15, 6, 0), D(1999, 12, 31, 23, 59, 59),
            D(2020, 1, 1, 12, 0, 0, 500000), D(1999, 12, 31, 23, 59, 59, 999000), D(2020, 1, 15, 6, 0, 0, 1000),
            D(9999, 12, 31), e.DIV_ZERO, e.NOT_AVAILABLE, e.VALUE, e.NAME]
    arrs = [[], [1], [2.5], [1, 2, 3], [4, 5, 6], [1, '2', None], [[1, 2], [3, 4]], [1, [2, 3]], ['a', 1], [D(2020, 1, 15), 1],
            [e.NUM, 1], [1, 2], [[1], [2]], [True, False, None],
            # one-element arrays holding an array or an error (the shapes that exposed the asymmetric collapse)
            [[1]], [[1, 2]], [[[7]]], [5], [e.NOT_AVAILABLE], [[e.NOT_AVAILABLE]], [[e.NOT_AVAILABLE, 2]]]
    foreign = [(1, 2), {'a': 1}]
    return scal, arrs, foreign


def _key(v):
    return fx.to_wire(v)


def cases(rng, ctx):
    scal, arrs, foreign = pool()
    allv = scal + arrs + foreign
    out = []
    pairs = list(itertools.product(range(len(allv)), repeat=2))
    if ctx['tier'] != 'thorough':
        k = min(len(pairs), 700 * ctx['scale'])
        core = [(i, j) for i, j in pairs if i < 17 and j < 17]
        dts = [k for k, v in enumerate(allv) if isinstance(v, datetime.datetime)]
        core += [(i, j) for i in dts for j in dts] + [(i, j) for i in dts for j in range(17)] + [(j, i) for i in dts for j in range(17)]       # numbers, logicals, blank: complete
        big = [k for k, v in enumerate(allv) if (isinstance(v, int) and abs(v) > 2 ** 53) or
               (isinstance(v, str) and v.strip().lstrip('-').isdigit() and len(v.strip()) > 15)]
        core += [(i, j) for i in big for j in list(range(17)) + big] + [(j, i) for i in big for j in range(17)]
        ars = [k for k, v in enumerate(allv) if isinstance(v, list)]
        core += [(i, j) for i in ars for j in ars]       # arrays against arrays (one-element collapse, nesting): complete
        pairs = core + rng.sample(pairs, k)
    quoted = [k for k, v in enumerate(allv) if isinstance(v, str) and ('"' in v or "'" in v)]
    pairs = pairs + [(i, j) for i in quoted for j in list(range(17)) + quoted] + [(j, i) for i in quoted for j in range(17)]
    for i, j in pairs:
        for op in OPS:
            c = {'kind': 'pair', 'op': op, 'i': i, 'j': j}
            out.append(c)
            # other routes by which the same host values reach the operator: answered by the host's cell listener (A1, B1), returned
            # by host functions (GX(), GY()) - an empty text is an empty text, a zero a zero, FALSE a logical
            falsy = any(isinstance(v, (str, int, float)) and not isinstance(v, list) and (v == '' or (not isinstance(v, str) and v == 0))
                        for v in (allv[i], allv[j]))
            if (falsy and rng.random() < 0.5) or rng.random() < 0.08:
                out.append(dict(c, via=rng.choice(['cell', 'cell', 'fn'])))
            if (i in quoted or j in quoted) or (isinstance(allv[i], str) or isinstance(allv[j], str)) and rng.random() < 0.1:
                # the text operands written as literals in the formula instead of arriving through variables
                c2 = dict(c)
                c2['lit'] = True
                out.append(c2)
    return out


def _vals(c):
    scal, arrs, foreign = pool()
    allv = scal + arrs + foreign
    return allv[c['i']], allv[c['j']]


def modelled(v):
    """operands whose coercion the Lean model covers (ASCII decimal text, ISO dates)"""
    if isinstance(v, str):
        import re
        try:
            k = classify(v)[0]
        except Skip:
            return False
        if k == 'num':
            return re.match(r'^[ \t\n\r\f\v]*[+-]?([0-9]+(_[0-9]+)*|[0-9]+\.[0-9]*|\.[0-9]+)[ \t\n\r\f\v]*$', v) is not None
        if k == 'date':
            return re.match(r'^[0-9]{4}-[0-9]{2}-[0-9]{2}([T ][0-9]{2}:[0-9]{2}(:[0-9]{2})?)?$', v) is not None
        return True
    if isinstance(v, list):
        return all(modelled(x) for x in v)
    if isinstance(v, (tuple, dict)):
        return True
    return True


def lit_text(v):
    """a string as a formula literal, delimited by a quote kind it does not contain (None if it contains both)"""
    if not isinstance(v, str) or '\\' in v:
        return None
    for q in ('"', "'"):
        if q not in v:
            return q + v + q
    return None


_route = {}


def formula_of(c):
    a, b = _vals(c)
    x, y = 'x', 'y'
    if c.get('via') == 'cell':
        return 'A1' + c['op'] + 'B1'
    if c.get('via') == 'fn':
        return 'GX()' + c['op'] + 'GY()'
    if c.get('lit'):
        x = lit_text(a) or 'x'
        y = lit_text(b) or 'y'
    return x + c['op'] + y


def request(c):
    a, b = _vals(c)
    if not (modelled(a) and modelled(b)):
        return None
    # (the model sees the operands as variables whatever the route)
    return 'eval %s %s' % (common.enc_str(formula_of(dict(c, via=None))), fx.env_wire(variables={'x': a, 'y': b}))


_p = [None]


def impl(c):
    common.load_repo()
    import hotxlfp
    if _p[0] is None:
        _p[0] = hotxlfp.Parser()
        _p[0].on('callCellValue', lambda cell, setter: setter(_route.get(cell.label)))
        _p[0].set_function('GX', lambda: _route.get('A1'))
        _p[0].set_function('GY', lambda: _route.get('B1'))
    p = _p[0]
    a, b = _vals(c)
    import copy
    a0, b0 = copy.deepcopy(a), copy.deepcopy(b)
    p.set_variable('x', a)
    p.set_variable('y', b)
    _route['A1'], _route['B1'] = a, b
    r = p.parse(formula_of(c))
    r['_unchanged'] = (repr(a0) == repr(a) and repr(b0) == repr(b))
    return r


def agree(c, impl_ans, model_ans):
    m = fx.parse_sexp(model_ans)
    r = fx.record_matches(m[0], impl_ans, ulps=4, rel=1e-9)
    return r is not False


# ------------------------------------------------------------------ oracle: the statement

class Skip(Exception):
    pass


def classify(v):
    """-> ('num', Fraction) | ('date', serial Fraction) | ('blank',) | ('text',) | ('err', e) | ('arr', list) | ('foreign',)"""
    e = errs()
    if isinstance(v, bool):
        return ('num', Fraction(int(v)))
    if isinstance(v, int):
        return ('num', Fraction(v))
    if isinstance(v, float):
        return ('num', Fraction(v))
    if v is None:
        return ('blank',)
    if isinstance(v, e.XLError):
        return ('err', v)
    if isinstance(v, datetime.datetime):
        return ('date', ref_serial(v))
    if isinstance(v, list):
        return ('arr', v)
    if isinstance(v, str):
        try:
            return ('num', Fraction(int(v)))
        except ValueError:
            pass
        try:
            f = float(v)
            if f != f or f in (float('inf'), float('-inf')):
                raise Skip()
            return ('num', Fraction(f))
        except ValueError:
            pass
        from dateutil.parser import parse as to_date
        try:
            d = to_date(v)
            return ('date', ref_serial(d))
        except (ValueError, OverflowError):
            return ('text',)
    return ('foreign',)


def ref_serial(d):
    """Excel 1900 date system, written from the statement of C13"""
    if d == datetime.datetime(1900, 1, 1):
        return Fraction(0)
    delta = d - datetime.datetime(1899, 12, 30)
    s = Fraction(delta.days) + Fraction(delta.seconds * 1000000 + delta.microseconds, 86400 * 1000000)
    if d < datetime.datetime(1900, 3, 1):
        s -= 1
    return s


def ref_date(s):
    if s >= 61:
        return datetime.datetime(1899, 12, 30) + datetime.timedelta(days=float(s))
    return datetime.datetime(1899, 12, 31) + datetime.timedelta(days=float(s))


# where the conversion table returns a date: (op, left class, right class)
DATE_RESULT = set()
for _op in '+-*':
    DATE_RESULT |= {(_op, 'num', 'date'), (_op, 'date', 'num'), (_op, 'date', 'blank'), (_op, 'blank', 'date')}
DATE_RESULT |= {('/', 'num', 'date'), ('/', 'date', 'num')}


def expect(op, a, b):
    """('val', Fraction) | ('date', Fraction serial) | ('err', code) | ('arr', [..]) | ('text', str)"""
    ca, cb = classify(a), classify(b)
    if ca[0] == 'err':
        return ('err', str(ca[1]))
    if cb[0] == 'err':
        return ('err', str(cb[1]))
    if ca[0] == 'foreign' or cb[0] == 'foreign':
        raise Skip()
    if ca[0] == 'arr' or cb[0] == 'arr':
        xs = ca[1] if ca[0] == 'arr' else None
        ys = cb[1] if cb[0] == 'arr' else None
        if xs is not None and ys is not None:
            # a one-element array acts as its element, on either side and at any depth;
            # two one-element arrays give a one-element array
            if len(xs) == 1 and len(ys) == 1:
                return ('arr', [expect(op, xs[0], ys[0])])
            if len(xs) == 1:
                return expect(op, xs[0], b)
            if len(ys) == 1:
                return expect(op, a, ys[0])
            if len(xs) != len(ys):
                return ('err', '#VALUE!')
            return ('arr', [expect(op, x, y) for x, y in zip(xs, ys)])
        if xs is not None:
            return ('arr', [expect(op, x, b) for x in xs])
        return ('arr', [expect(op, a, y) for y in ys])
    if ca[0] == 'text' or cb[0] == 'text':
        return ('err', '#VALUE!')
    na = ca[1] if ca[0] in ('num', 'date') else Fraction(0)
    nb = cb[1] if cb[0] in ('num', 'date') else Fraction(0)
    if op == '/':
        if nb == 0:
            return ('err', '#DIV/0!')
        r = na / nb
    elif op == '+':
        r = na + nb
    elif op == '-':
        r = na - nb
    else:
        r = na * nb
    if (op, ca[0], cb[0]) in DATE_RESULT:
        if r < 0:
            return ('err', '#NUM!')
        return ('date', r)
    return ('val', r)


def check_value(exp, got):
    e = errs()
    k = exp[0]
    if k == 'err':
        return isinstance(got, e.XLError) and str(got) == exp[1]
    if k == 'arr':
        return isinstance(got, list) and len(got) == len(exp[1]) and all(check_value(x, g) for x, g in zip(exp[1], got))
    if k == 'val':
        if isinstance(got, bool) or not isinstance(got, (int, float)):
            return False
        q = exp[1]
        if isinstance(got, int):
            return Fraction(got) == q
        return fx.ulp_close(got, q, 8) or abs(Fraction(got) - q) <= Fraction(1, 10 ** 9) * max(1, abs(q))
    if k == 'date':
        s = exp[1]
        if not isinstance(got, datetime.datetime):
            return False
        if s < 1 or 60 < s < 61:
            return True      # before day 1 / inside Excel's phantom 29 Feb 1900: no calendar date to compare with
        if s > 2958466:
            return True
        try:
            want = ref_date(s)
        except OverflowError:
            return True
        return abs((got - want).total_seconds()) <= 0.002
    return False


def amp_text(v):
    """the statement: text verbatim, integers as their digits, blank as nothing"""
    if isinstance(v, str):
        return v
    if isinstance(v, bool):
        raise Skip()
    if isinstance(v, int):
        return str(v)
    if v is None:
        return ''
    raise Skip()


def oracle(c, impl_ans):
    e = errs()
    a, b = _vals(c)
    rec = impl_ans
    if not rec.get('_unchanged', True):
        return 'the operator mutated a host value'
    op = c['op']
    try:
        if op == '&':
            if isinstance(a, e.XLError):
                exp = ('err', str(a))
            elif isinstance(b, e.XLError):
                exp = ('err', str(b))
            else:
                exp = ('text', amp_text(a) + amp_text(b))
        else:
            exp = expect(op, a, b)
    except (Skip, OverflowError):
        return None
    if has_far_date(exp):
        return None          # beyond year 9999: outside datetime's range, not judged
    if exp[0] == 'err':
        ok = rec['result'] is None and rec['error'] == exp[1]
    elif exp[0] == 'text':
        ok = rec['error'] is None and rec['result'] == exp[1]
    else:
        if rec['error'] is not None:
            # an element-wise error inside an array stays inside the array; at top level it is an error record
            ok = False
        else:
            ok = check_value(exp, rec['result'])
    if not ok:
        how = {'cell': ' (x, y answered by the cell listener: A1, B1)', 'fn': ' (x, y returned by the host functions GX(), GY())'}.get(c.get('via'), '')
        return 'x%sy with x=%r, y=%r%s gives %r; the statement gives %r' % (op, a, b, how, {k: v for k, v in rec.items() if k != '_unchanged'}, exp)
    # commutativity of + and *
    if op in '+*':
        p = _p[0]
        p.set_variable('x', b)
        p.set_variable('y', a)
        r2 = p.parse('x' + op + 'y')
        # the two orders may differ only in WHICH error code is reported where both operands hold an
        # error at corresponding positions (Lean: comm_add / comm_mul): exact equality when one operand
        # is error-free, equality up to the error code otherwise
        both_err = has_err(a) and has_err(b)
        if not same_outcome(rec, r2, erase=both_err):
            return '%r %s %r = %r but swapped = %r (not commutative)' % (a, op, b, rec.get('result', rec.get('error')), r2)
    return None


def has_far_date(exp):
    if exp[0] == 'date':
        return exp[1] > 2958465
    if exp[0] == 'arr':
        return any(has_far_date(x) for x in exp[1])
    return False


def has_err(v):
    if isinstance(v, list):
        return any(has_err(x) for x in v)
    return isinstance(v, errs().XLError)


def same_outcome(r1, r2, erase=False):
    if erase and r1['error'] is not None and r2['error'] is not None and \
            '#ERROR!' not in (r1['error'], r2['error']):
        return True          # two error values at top level: the code may differ (a raised exception may not)
    if r1['error'] != r2['error']:
        return False
    return _close(r1['result'], r2['result'], erase)


def _close(u, v, erase=False):
    if isinstance(u, list) and isinstance(v, list):
        return len(u) == len(v) and all(_close(a, b, erase) for a, b in zip(u, v))
    if erase and isinstance(u, Exception) and isinstance(v, Exception):
        return True
    if isinstance(u, float) or isinstance(v, float):
        try:
            return abs(u - v) <= 1e-12 * max(1.0, abs(u))
        except TypeError:
            return False
    if isinstance(u, Exception) and isinstance(v, Exception):
        return str(u) == str(v)
    return u == v and type(u) == type(v)


def nontrivial(c, impl_ans):
    a, b = _vals(c)
    return classify_safe(a) not in ('err', 'foreign') and classify_safe(b) not in ('err', 'foreign')


def classify_safe(v):
    try:
        return classify(v)[0]
    except Skip:
        return 'foreign'


def search(rng, ctx, disagreements):
    c2 = dict(ctx)
    c2['tier'] = 'thorough'
    return cases(rng, c2)
