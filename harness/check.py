#!/venv/bin/python
# -*- coding: utf-8 -*-
"""check.py <Cxx> [--tier quick|thorough] [--replay file] [--seed n]"""
import importlib
import os
import sys

sys.dont_write_bytecode = True
sys.path.insert(0, os.path.dirname(os.path.dirname(os.path.abspath(__file__))))

from harness import common  # noqa: E402


def loader(pid):
    from harness import routes
    # the value-level checks carry the shared route layer (harness/routes.py): case kind `route`
    return routes.wrap(importlib.import_module('harness.props.' + pid.lower()))


if __name__ == '__main__':
    sys.exit(common.main(loader))
