# -*- coding: utf-8 -*-
"""writes /verif/MANIFEST.json from the plugin table below (keeps it valid and in one place)"""
import json
import os
import sys

sys.dont_write_bytecode = True
VERIF = os.path.dirname(os.path.dirname(os.path.abspath(__file__)))

BASELINE = "cd /repo && /venv/bin/python -m pytest -ra -q -p no:cacheprovider --timeout=900 --continue-on-collection-errors"

# id -> (design section, level text, level note, technique)
CHECKS = {
    'C19': ('4/C19',
            'Lean 4 theorems over the model of helper/cell.py (bijection column label <-> index for every label and every '
            'index, row label = index+1, label decomposition/recomposition round trip for every well-formed label, '
            'rejection of every non-label), re-checked by the kernel against the constants regenerated from /repo; '
            'the hand model is tied to the code by a correspondence run (all labels up to 4 letters in the thorough tier).',
            'Trusted: Lean kernel; extract.py; the differential correspondence; CPython str/int/re behaviour on ASCII is '
            'modelled by hand. Leading-zero/zero rows (A01, A0) are outside the statement.',
            'Lean 4 proof (induction on digit lists / strong induction on the index) + generated constants + model/implementation correspondence'),
    'C20': ('4/C20',
            'Lean 4 theorems over a state-machine model of tinyemitter (callbacks are arbitrary scripts of emitter '
            'operations, any nesting): ordered snapshot delivery, exact unsubscription, names independent, every '
            'once-wrapper delivered at most once in every history; the model is tied to the code by running seeded and '
            'enumerated histories on the real Emitter / Parser and on the compiled model.',
            'Trusted: Lean kernel; the correspondence harness; callbacks that raise are not modelled; Python function '
            'identity is modelled by callback ids.',
            'Lean 4 proof (invariant by induction over operations and fuel) + model/implementation correspondence on histories'),
}

CHECKS['C07'] = ('4/C07',
    'Lean 4 theorems over a branch-by-branch model of ExcelComparator/evaluate_logic, for ALL rationals, strings and '
    'date-times: the six operators never raise on scalars and realise a strict total order (trichotomy, converse, derived '
    'relations, transitivity) that is exactly the described one (numeric by value/serial, text lexicographic by code point, '
    'FALSE<TRUE, rank number<text<logical), blanks act as 0/""/FALSE; the model is tied to the code by comparing all six '
    'operators on every ordered pair of a scalar pool, and the oracle checks the laws on all pairs and triples of real results.',
    'Trusted: Lean kernel; the correspondence harness; Python comparison of int/float/str/bool (modelled by exact rationals and '
    'code-point lexicographic order); float NaN/inf are outside the statement.',
    'Lean 4 proof (order isomorphism to a lexicographic key) + model/implementation correspondence on all pool pairs')

CHECKS['C04'] = ('4/C04',
    'Lean 4 theorems over the model parser (precedence climbing driven by the precedence table regenerated from '
    'Parser.precedence): EVERY rendering of EVERY expression tree (any shape and depth, minimal, full or arbitrarily redundant '
    'parentheses) parses back to that tree, hence evaluates to the value of the tree; the regenerated table is proved to have the '
    'shape the statement prescribes (comparisons < + - < * / < unary minus, & above comparisons, all left-associative). That '
    'ply\'s LALR tables implement this parser is tied by comparing the trees the real tables build (semantic actions replaced '
    'after table construction) with the model\'s trees, and values with exact rational evaluation, on seeded and enumerated trees.',
    'Trusted: Lean kernel; extract.py; ply.yacc table construction is MODELLED (tree-shape correspondence, not proved); float '
    'arithmetic vs exact rationals (1e-9). & versus + - * / is not fixed by the statement.',
    'Lean 4 proof (parser/printer round trip by induction on renderings, fuel monotonicity) + generated precedence table + tree-shape correspondence with ply')

NOT_APPLICABLE = {}


def main():
    props = [json.loads(l)['id'] for l in open(os.path.join(VERIF, 'properties.jsonl'))]
    checks = []
    for pid in props:
        if pid not in CHECKS:
            continue
        sec, text, note, tech = CHECKS[pid]
        checks.append({
            'property_id': pid,
            'quick_cmd': '/venv/bin/python harness/check.py %s --tier quick' % pid,
            'thorough_cmd': '/venv/bin/python harness/check.py %s --tier thorough' % pid,
            'evidence_file': 'evidence/%s.json' % pid,
            'replay_cmd_template': '/venv/bin/python harness/check.py %s --replay {path}' % pid,
            'engine': 'lean4-proof+correspondence',
            'level_claimed': {'category': 'proof', 'text': text, 'design_ref': 'DESIGN.md section ' + sec},
            'level_note': note,
            'technique': tech,
        })
    na = []
    for pid in props:
        if pid not in CHECKS:
            na.append({'property_id': pid, 'reason': NOT_APPLICABLE.get(
                pid, 'not claimed yet: the Lean model and theorems for this property are still being built (see DESIGN.md section 4/%s); no check is registered until they exist' % pid)})
    man = {
        'version': 1,
        'setup_cmd': 'cd /verif && /venv/bin/python -m harness.extract && cd lean && lake build HotXL driver',
        'hooks': {
            'guard': 'HOTXLFP_VERIF',
            'enable': 'none needed: all instrumentation is applied from the harness (sub-classing, listeners, wrapping ply.yacc.yacc with write_tables=False); no hook code lives in /repo',
            'baseline_off_cmd': BASELINE,
            'source_commits': [],
            'add_only': True,
        },
        'engines': [{
            'name': 'lean4-proof+correspondence',
            'path': 'lean/ (Lean 4 project HotXL: Model/, Generated/, Props/, Driver.lean) + harness/ (extract.py, common.py, props/*.py)',
            'serves_properties': [c['property_id'] for c in checks],
            'kind_free_text': 'machine-checked proof in Lean 4 about an executable model; tables regenerated from /repo on every run; hand-written control logic tied by a differential correspondence check; oracle = the property statement evaluated on the real implementation',
        }],
        'checks': checks,
        'not_applicable': na,
        'notes': 'VERIF_SEED seeds the single PRNG; VERIF_TIER is honoured as an alternative to --tier. Exit 2 = harness failure (no verdict). Genuine defects found and repaired are listed in known_findings.json (fixed:).',
    }
    with open(os.path.join(VERIF, 'MANIFEST.json'), 'w') as f:
        json.dump(man, f, indent=1)
    print('MANIFEST.json: %d checks, %d not claimed' % (len(checks), len(na)))


if __name__ == '__main__':
    main()
