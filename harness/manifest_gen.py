# -*- coding: utf-8 -*-
"""writes /verif/MANIFEST.json from the plugin table below (keeps it valid and in one place)"""
import json
import os
import sys

sys.dont_write_bytecode = True
VERIF = os.path.dirname(os.path.dirname(os.path.abspath(__file__)))

BASELINE = "cd /repo && /venv/bin/python -m pytest -ra -q -p no:cacheprovider --timeout=900 --continue-on-collection-errors"

# id -> (design section, level text, level note, technique)
CHECKS = {
    'C19': ('4/C19',
            'Lean 4 theorems over the model of helper/cell.py (bijection column label <-> index for every label and every '
            'index, row label = index+1, label decomposition/recomposition round trip for every well-formed label, '
            'rejection of every non-label), re-checked by the kernel against the constants regenerated from /repo; '
            'the hand model is tied to the code by a correspondence run (all labels up to 4 letters in the thorough tier).',
            'Trusted: Lean kernel; extract.py; the differential correspondence; CPython str/int/re behaviour on ASCII is '
            'modelled by hand. Leading-zero/zero rows (A01, A0) are outside the statement.',
            'Lean 4 proof (induction on digit lists / strong induction on the index) + generated constants + model/implementation correspondence'),
    'C20': ('4/C20',
            'Lean 4 theorems over a state-machine model of tinyemitter (callbacks are arbitrary scripts of emitter '
            'operations, any nesting): ordered snapshot delivery, exact unsubscription, names independent, every '
            'once-wrapper delivered at most once in every history; the model is tied to the code by running seeded and '
            'enumerated histories on the real Emitter / Parser and on the compiled model.',
            'Trusted: Lean kernel; the correspondence harness; callbacks that raise are not modelled; Python function '
            'identity is modelled by callback ids.',
            'Lean 4 proof (invariant by induction over operations and fuel) + model/implementation correspondence on histories'),
}

CHECKS['C07'] = ('4/C07',
    'Lean 4 theorems over a branch-by-branch model of ExcelComparator/evaluate_logic, for ALL rationals, strings and '
    'date-times: the six operators never raise on scalars and realise a strict total order (trichotomy, converse, derived '
    'relations, transitivity) that is exactly the described one (numeric by value/serial, text lexicographic by code point, '
    'FALSE<TRUE, rank number<text<logical), blanks act as 0/""/FALSE; the model is tied to the code by comparing all six '
    'operators on every ordered pair of a scalar pool, and the oracle checks the laws on all pairs and triples of real results.',
    'Trusted: Lean kernel; the correspondence harness; Python comparison of int/float/str/bool (modelled by exact rationals and '
    'code-point lexicographic order); float NaN/inf are outside the statement.',
    'Lean 4 proof (order isomorphism to a lexicographic key) + model/implementation correspondence on all pool pairs')

CHECKS['C04'] = ('4/C04',
    'Lean 4 theorems over the model parser (precedence climbing driven by the precedence table regenerated from '
    'Parser.precedence): EVERY rendering of EVERY expression tree (any shape and depth, minimal, full or arbitrarily redundant '
    'parentheses) parses back to that tree, hence evaluates to the value of the tree; the regenerated table is proved to have the '
    'shape the statement prescribes (comparisons < + - < * / < unary minus, & above comparisons, all left-associative). That '
    'ply\'s LALR tables implement this parser is tied by comparing the trees the real tables build (semantic actions replaced '
    'after table construction) with the model\'s trees, and values with exact rational evaluation, on seeded and enumerated trees.',
    'Trusted: Lean kernel; extract.py; ply.yacc table construction is MODELLED (tree-shape correspondence, not proved); float '
    'arithmetic vs exact rationals (1e-9). & versus + - * / is not fixed by the statement.',
    'Lean 4 proof (parser/printer round trip by induction on renderings, fuel monotonicity) + generated precedence table + tree-shape correspondence with ply')

CHECKS['C05'] = ('4/C05',
    'Lean 4 theorems: EVERY derivation by the six productions of an argument/element sequence (the generated grammar is proved to '
    'consist of exactly these shapes, identical for the three separators, plus the two row forms) yields one entry per '
    'separator-delimited slot, blank for omitted - independent of how yacc resolves the conflicts of this ambiguous grammar; the five '
    'numeric literal forms and quoted literals (any contents without the delimiting quote, trailing backslash included) evaluate to '
    'what they spell; white space before/after any text and between self-delimiting tokens is dropped; cell labels are '
    'case-insensitive; the separator kind is irrelevant to classification. The lexer model is tied to ply by comparing token '
    'streams on arbitrary strings, the slot patterns by complete enumeration up to 6 slots x 3 separators.',
    'Trusted: Lean kernel; extract.py (lexer rule order/regex texts and productions regenerated); the `re` engine (hand-written '
    'matchers, pattern texts pinned); ply table construction modelled; white space at several maximal-munch boundaries at once is '
    'covered one boundary at a time (stated in Props/C05.lean).',
    'Lean 4 proof (induction on derivations; lexer lemmas) + generated grammar/lexer tables + token-stream and slot correspondence')
CHECKS['C06'] = ('4/C06',
    'Lean 4 theorems over the model of evaluate_arithmetic / value_and_type / ExcelArrayOps / & with the conversion table '
    'regenerated from IMPLICIT_DATA_TYPE_CONVERSIONS: on scalars the result equals a specification written from the statement '
    'independently of the table (exact rational arithmetic, int/float typing, date re-wrapping set, #VALUE!, #DIV/0!, #NUM!); + and * '
    'are commutative for ALL values at any nesting (up to which error code is reported where both sides hold errors); arrays combine '
    'element-wise, one-element arrays act as their element, other length mismatches give #VALUE!; date+n / date-date in closed form; '
    '& joins text, integer digits and blanks. Tied to the code on the complete product of an operand pool under + - * / &.',
    'Trusted: Lean kernel; extract.py; Python float arithmetic modelled by exact rationals (results compared within 4 ulp / 1e-9); '
    'int()/float()/dateutil text parsing beyond ASCII decimal and ISO-8601 is library behaviour (oracle-only).',
    'Lean 4 proof (case analysis over the generated table cells, induction on array nesting) + generated conversion table + pool-product correspondence')
CHECKS['C09'] = ('4/C09',
    'Lean 4 theorems: all 156 documented names are registered (decide over the regenerated lists - the whole quantifier); every '
    'identifier-shaped name lexes as one VARIABLE token and evaluates to exactly the value set / #NAME? when unknown; a custom '
    'function is called once per call site with the evaluated arguments in order, shadowing built-ins; an unknown function or '
    'variable at ANY position of ANY formula (contexts of any depth) makes the whole formula #NAME?. Tied to the code by seeded '
    'names/values/trees with recording callables and by embedding unknown calls in every argument position of enclosing functions.',
    'Trusted: Lean kernel; extract.py (registry, SUPPORTED_FORMULAS.md, predefined variables, lexer order); correspondence harness; '
    'Python object identity of host values is checked by the oracle only.',
    'Lean 4 proof (lexer lemma for all shaped names, abort propagation by induction over contexts) + generated registry + correspondence')
CHECKS['C12'] = ('4/C12',
    'Lean 4 theorems over the models of logic.py and information.py: AND/OR/XOR/NOT are conjunction/disjunction/parity/negation of the '
    'truth values of the flattened items for any arity and nesting and are invariant under regrouping; IF/IFS/SWITCH as stated; an '
    'error in a tested condition yields that error; the five predicates partition numbers/text/logicals/blanks/errors, ISNONTEXT = '
    'not ISTEXT, ISERROR = ISERR or ISNA, ISEVEN/ISODD are the parity of the truncated integer part and complementary. The models '
    'are tied to the code on complete small tuples, seeded longer ones, every error code in every condition position and a 47-value pool.',
    'Trusted: Lean kernel; correspondence harness; Python truthiness/== modelled by hand; SWITCH equality is judged for same-kind values.',
    'Lean 4 proof (structural induction on flattened arguments) + model/implementation correspondence')
CHECKS['C13'] = ('4/C13',
    'Lean 4 theorems over the model of serialize_date/parse_date with every constant and comparison operator regenerated from the '
    'source: date -> serial -> date is the identity for EVERY microsecond from 1900-01-01 on; serials are strictly increasing; from '
    '1 March 1900 the serial is the days since 1899-12-30 (anchor derived from the calendar constants); serial -> date -> serial is '
    'the identity from 61 on; date+n, date-date, comparisons, DATEVALUE, N and DAYS all see that serial. Tied to the code on every '
    '97th day (quick) / every day 1900-9999 and every integer serial 61..2958465 (thorough).',
    'Trusted: Lean kernel; extract.py (constants by source position); Python float arithmetic on serials (modelled exactly; compared '
    'to the millisecond); "date + n" is judged where the Excel clause applies (operand and result from 1 March 1900).',
    'Lean 4 proof (closed forms from pinned generated constants, linear arithmetic over Int/Rat) + generated constants + full-day sweep correspondence')

CHECKS['C10'] = ('4/C10',
    'Lean 4 theorems over the evaluator model: the event log of ANY formula is the post-order list of its cell/range/variable/call '
    'nodes, exactly one event per node (a prefix of it when evaluation aborts); a cell event carries the upper-cased label, '
    'zero-based coordinates and $ markers for every valid label in any case; a range event carries min/max corners whose labels '
    'recompose from their own coordinates, independent of corner order; the setter keeps the last non-None value (0, FALSE, empty '
    'text included). Tied to the code by recording every field of all four events on a real Parser for seeded trees, label grids, '
    'corner orders and setter sequences.',
    'Trusted: Lean kernel; correspondence harness; listeners are modelled by the values they set (the emitter itself is C20); '
    'equal rows/columns with different $ markers may report either marker.',
    'Lean 4 proof (mutual structural induction on expressions; C19 label lemmas; fold over setter calls) + event-log correspondence')
CHECKS['C15'] = ('4/C15',
    'Lean 4 theorems over the model of text.py on code-point lists, for ALL strings and integer counts: LEFT/RIGHT/MID are the '
    'requested slices with the take-all/zero/negative cases, LEFT(s,n)&RIGHT(s,LEN(s)-n) = s even through lexer+parser+evaluator, '
    'LEN(a&b) = LEN(a)+LEN(b); TRIM/CLEAN/UPPER/LOWER/PROPER are idempotent and change only spaces/controls/case (case mapping '
    'parametric in a lawful CaseMap, ASCII instance proved lawful); CODE(CHAR(n)) = n for every scalar value; CONCATENATE/TEXTJOIN '
    'are joins of the flattened items; SUBSTITUTE equals an independently defined leftmost non-overlapping replace-all / '
    'k-th-occurrence replacement, empty replacement included. Tied to the code on seeded strings over ASCII/control/accented/CJK alphabets.',
    'Trusted: Lean kernel; correspondence harness; Unicode case tables beyond ASCII (library; idempotence checked by the oracle only); '
    'str() of floats not modelled; "blank" = empty cell (an empty string is an item).',
    'Lean 4 proof (list algebra, induction on strings) + model/implementation correspondence')
CHECKS['C18'] = ('4/C18',
    'Lean 4 theorems over the model of lookupandreference.py, arrays of unbounded size: CHOOSE returns v_i or an error; INDEX '
    'equals a non-wrapping specification (element, whole row/column/array, #VALUE!/#REF! for every position outside, text elements '
    'never subscripted); the glob matcher meets the standard characterisation of * and ?; MATCH type 0 returns the first equal item or '
    '#N/A, types 1/-1 on sorted arrays return a position holding the largest item <= x / smallest >= x or #N/A (the falsy-candidate '
    'quirk proved harmless on sorted arrays); INDEX(MATCH) returns the item. Tied to the code on all shapes up to 8x8 and all indices -10..size+10.',
    'Trusted: Lean kernel; correspondence harness; fnmatch character classes ([seq]) are outside model and statement; str.lower modelled on ASCII.',
    'Lean 4 proof (list induction, scan invariants) + model/implementation correspondence on complete index sweeps')

CHECKS['C01'] = ('4/C01',
    'Lean 4 theorems: the wrapper of Parser.parse maps EVERY evaluator outcome (every formula, builtin, arity, callback behaviour '
    'the model can express) to a well-formed record - error one of the nine codes of the regenerated from_message table, error set '
    '=> result empty, result never an error value; every string in every environment gets such a record; the lexer and parser fuel '
    'bounds are proved sufficient (no syntax error is a fuel artefact) and every modelled loop has a Lean termination proof. The real '
    'parse is judged directly on token soups, mutated formulas, arbitrary Unicode, long/deep inputs, EVERY registered function x '
    'arity 0..4 x a 14-value pool (complete in the thorough tier, 6.6 M calls), every registered function on numeric edges written as '
    'literals (fractions between -1 and 1, tiny and huge magnitudes, table bounds, numeric text that overflows float()) and hostile host callbacks, each call under a step '
    'budget and a wall-clock guard in worker processes (a hang is reported as a violation with the formula).',
    'Trusted: Lean kernel; extract.py (error table); termination/boundedness of unmodelled builtins and of ply/re is covered only by '
    'the budgeted sweep (exploration inside the evidence); a listener raising SyntaxError triggers ply error recovery (record stays '
    'well-formed).',
    'Lean 4 proof (totality of the record wrapper over all outcomes; fuel sufficiency) + generated error table + budgeted exhaustive function sweep')
CHECKS['C08'] = ('4/C08',
    'Lean 4 theorems over operators and evaluator: all eleven binary operators and unary minus return an error operand (left one '
    'first) for every other operand; in operator trees of any depth the leftmost error leaf is the value (under the stated regularity '
    'condition; the unconditional claim is refuted by a kernel-checked counterexample since operators can fail on their own); an '
    'error literal - and any raise - aborts every enclosing node with the log frozen; errors at the top are reported under their '
    'canonical code (regenerated table) with an empty result; IFERROR/IFNA/ISERROR/ISERR/ISNA/ERROR.TYPE see every error value, '
    'including those a called function returns or raises, through any chain of calls. Tied to the code on seeded trees with error '
    'producers of every kind under every operator and trap.',
    'Trusted: Lean kernel; extract.py; builtins outside the modelled families are judged by the oracle only.',
    'Lean 4 proof (induction over contexts/trees; generated error table) + model/implementation correspondence')
CHECKS['C11'] = ('4/C11',
    'Lean 4 theorems over the models of statistical.py and the aggregate part of mathtrig.py (exact rationals with Python result '
    'typing): every aggregate depends only on the flattened items (regrouping invariance for all 23 *args aggregates and LARGE/SUMIF/'
    'COUNTIF/AVERAGEIF), order-free ones are permutation-invariant, each equals its textbook definition (sum, product, mean, min/max, '
    'median via the unique sorted permutation, first most frequent mode, variances via the one-pass formula, avedev, geometric/harmonic '
    'mean on positive items, k-th largest, least-squares slope); the criteria parser meets the three-form semantics (regex and '
    'operator table regenerated) and the *IF(S) functions equal the statistic over exactly the index-aligned selected items, 0 / error '
    'on an empty selection; an error item makes SUM/PRODUCT/AVERAGE/MIN/MAX/MEDIAN that error. Tied to the code on seeded lists, '
    'partitions, permutations and criteria.',
    'Trusted: Lean kernel; extract.py; CPython statistics computes exact rationals before conversion (modelled); sqrt/n-th root are '
    'represented by their defining equation (checked numerically); fnmatch classes unmodelled; HARMEAN/GEOMEAN are read on positive items.',
    'Lean 4 proof (List.Perm, sorting uniqueness, Rat algebra) + generated criteria tables + model/implementation correspondence')
CHECKS['C14'] = ('4/C14',
    'Lean 4 theorems: the transcription of CPython\'s calendar arithmetic is proved correct for ALL integer years (ordinal/ymd round '
    'trips, strict monotonicity, year lengths, weekday steps, 400-year cycle - layered 400/100/4/1-year blocks plus a kernel-decided '
    'day-of-year table); over it, DATE/YEAR/MONTH/DAY, TIME/HOUR/MINUTE/SECOND, components from ISO text and whole-day serials, the '
    '1900+year rule, EDATE (divmod month shift, clamping; its own month table and leap rule proved equal to the calendar\'s), DATEDIF '
    'm/y/ym/d and DAYS (d/DAYS from 1 March 1900 on, see C13), order -> #NUM!, WEEKDAY types 1-3 and #NUM! otherwise; all source '
    'literals/operators regenerated. Tied to the code on a date lattice (quick) / every date 1900-9999, every (h,m,s), every serial (thorough).',
    'Trusted: Lean kernel; extract.py; Python datetime is the calendar reference of the oracle and is itself compared with the Lean '
    'calendar on every day 1900-9999; dateutil beyond ISO-8601 is library behaviour; float noise in DATEDIF d on date-times is outside '
    'the statement (whole dates).',
    'Lean 4 proof (layered calendar arithmetic, decide over day-of-year table) + generated constants + full-range correspondence')
CHECKS['C16'] = ('4/C16',
    'Lean 4 theorems about the SAME generic definitions of the functions (written once over an ElemOps structure) instantiated at the '
    'real numbers with Mathlib: domains (result defined iff the argument is in the mathematical domain), coercion (numeric text, '
    'logicals, #VALUE! for other text), the defining identities (sin^2+cos^2, TAN, COT, EXP/LN, LOG base, every inverse pair incl. the '
    'hand-composed ACOT/ACOTH/COT/EXP, DEGREES/RADIANS), ATAN2 as the angle of the point and #DIV/0! iff origin, the PV annuity equation '
    '(integer and real periods) and its linear form, RAND/RANDBETWEEN ranges under the library contract. The Float instance of the same '
    'definitions (libm) is compared with the real functions bit-for-bit-close (4 ulp) and error tags exactly; the oracle judges '
    'classification, a 60-digit reference value and 28 identities through real formulas.',
    'Trusted: Lean kernel; Mathlib analysis library; libm approximates the real functions (floating-point rounding is NOT addressed by '
    'proof); arguments confined to magnitudes where results and obvious intermediates are representable; four overflow witnesses are '
    'listed known findings.',
    'Lean 4 + Mathlib proof over the reals of generic definitions + Float-instance correspondence')
CHECKS['C17'] = ('4/C17',
    'Lean 4 theorems over the models of the rounding/integer/radix/roman/complex functions (exact rationals with Python int/float '
    'typing; constants, alphabets, numeral maps and regexes regenerated): ROUND/ROUNDUP/ROUNDDOWN/CEILING/FLOOR/INT/EVEN/ODD/QUOTIENT/'
    'MOD/SIGN/FACT/FACTDOUBLE meet their specs for all numbers and digits; HEX2DEC(DEC2HEX n) = n on the whole 40-bit range and #NUM! '
    'outside; DECIMAL(BASE(n,r),r) = n for all n < 2^39, r in 2..36, #NUM! for bad radix/negative, the digit loop terminates '
    '(well-founded recursion); every ROMAN form denotes n and ARABIC(ROMAN n) = n for ALL 1..3999 (kernel-decided over the whole '
    'range in chunks, lifted by a range lemma - not a sample); COMPLEX parts recovered. Tied to the code on 126k (quick) / 1.16M (thorough) cases.',
    'Trusted: Lean kernel; extract.py; float rounding error not modelled (decimal fractions judged within 2 ulp); FACT on huge '
    'arguments outside the pool.',
    'Lean 4 proof (digit-list induction, well-founded recursion, decide +kernel over 1..3999) + generated constants + correspondence')

CHECKS['C03'] = ('4/C03',
    'Lean 4 theorems over an interleaving model at lexer-operation granularity (an activation = one FormulaParser.parse; the shared '
    'store maps lexer objects to (input, position); the per-activation machine step is arbitrary): with one lexer object per '
    'activation (the code after the repair: parse clones its lexer) EVERY schedule of any number of activations leaves each '
    'activation with exactly its solo token stream and outcome; nesting to any depth is a schedule; a per-parser lexer still isolates '
    'different parsers but breaks same-parser re-entrancy and a process-global lexer breaks both (kernel-checked counterexamples '
    'mirroring EVAL("1+1")+10); bindings of parser P are never read by evaluations on Q. Tied to the code by interposing evaluations at '
    'every callback position (other/same/fresh parser, depth 2), by a harness-controlled scheduler that orders every lexer operation of '
    '2-3 threads (all interleavings of short formulas in the thorough tier) and by a free-running stress test.',
    'Trusted: Lean kernel; correspondence harness; interleavings finer than lexer operations (bytecode level under the GIL) and CPython '
    'object internals are NOT modelled; a lexer state after t_error raised is not modelled.',
    'Lean 4 proof (ownership/frame invariant by induction on schedules) + scheduler-controlled correspondence of token streams')

CHECKS['C02'] = ('4/C02',
    'Lean 4 theorems over a session state machine that WRITES the hidden mutable state the code really has (prototype and cloned '
    'lexers, LR stacks, errorok, the process-global lexer, the traceback chains of the nine shared error singletons, stderr): the '
    'outcome of parse depends on the parser\'s bindings only - equal bindings give equal outcomes whatever the hidden state, any '
    'history that leaves the bindings unchanged leaves every later outcome unchanged, a fresh parser with the same registrations '
    'evaluates identically, debug is irrelevant to the record, parse never changes bindings, traceback chains never grow and the '
    'retained hidden state is bounded independently of the number of evaluations (the pre-repair leaky variant is shown to grow). '
    'Host-value immutability and memory are judged on the real code: long seeded histories probed against fresh parsers after every '
    'block, debug on/off triples, deep before/after comparison of list values for 152 builtins x arities x argument shapes and all '
    'operators, and gc/traceback/tracemalloc growth slopes over 50..800 repetitions.',
    'Trusted: Lean kernel; correspondence harness; values are immutable in the model (the immutability clause is carried by the '
    'oracle); CPython heap behaviour is measured, not modelled; NOW/TODAY/RAND excluded (clock/random source).',
    'Lean 4 proof (non-interference of hidden state, invariants over histories) + history correspondence + runtime memory/immutability oracle')

NOT_APPLICABLE = {}

# the value-level checks that carry the shared route layer (harness/routes.py FAMILY; DESIGN.md section 1.7)
ROUTED = ['C04', 'C05', 'C06', 'C07', 'C08', 'C11', 'C12', 'C13', 'C14', 'C15', 'C16', 'C17', 'C18']
ROUTE_TEXT = (' Route layer (DESIGN.md 1.7): every function and operator of the family is also evaluated with its operand values '
              'arriving as literals, from the cell, range and variable listeners, as results of custom functions, of nested evaluations and of '
              'IF/CHOOSE, as tuples, as the same object twice, with each separator and an omitted slot, with white space and line breaks, on a '
              'debug parser, twice on one parser, after an evaluation that did not complete, beside another parser that binds the same names; '
              'the record must equal that of the plain call over variables (real code only; plus six definitional clauses where every route '
              'computes alike) and is compared with the Lean evaluator model of the routed formula (driver op evalf; the real-valued '
              'builtins enter it as Float host functions). Route independence is proved of the model (C09.call_sees_argument_values, '
              'C08.operator_sees_operand_outcomes, C12.if_true_hands_on, C18.choose_hands_on).')
ROUTE_NOTE = (' Route layer: the variable route is the reference; IF(TRUE,x,0) and CHOOSE(1,x) are taken to hand x on unchanged; '
              'routes are sampled, not enumerated.')


def main():
    props = [json.loads(l)['id'] for l in open(os.path.join(VERIF, 'properties.jsonl'))]
    checks = []
    for pid in props:
        if pid not in CHECKS:
            continue
        sec, text, note, tech = CHECKS[pid]
        if pid in ROUTED:
            text += ROUTE_TEXT
            note += ROUTE_NOTE
            tech += ' + route layer (the same operand values on every route to the evaluator: oracle = route independence on the real code, correspondence = the evaluator model on the routed formula)'
        checks.append({
            'property_id': pid,
            'quick_cmd': '/venv/bin/python harness/check.py %s --tier quick' % pid,
            'thorough_cmd': '/venv/bin/python harness/check.py %s --tier thorough' % pid,
            'evidence_file': 'evidence/%s.json' % pid,
            'replay_cmd_template': '/venv/bin/python harness/check.py %s --replay {path}' % pid,
            'engine': 'lean4-proof+correspondence',
            'level_claimed': {'category': 'proof', 'text': text, 'design_ref': 'DESIGN.md section ' + sec},
            'level_note': note,
            'technique': tech,
        })
    na = []
    for pid in props:
        if pid not in CHECKS:
            na.append({'property_id': pid, 'reason': NOT_APPLICABLE.get(
                pid, 'not claimed yet: the Lean model and theorems for this property are still being built (see DESIGN.md section 4/%s); no check is registered until they exist' % pid)})
    man = {
        'version': 1,
        'setup_cmd': 'cd /verif && /venv/bin/python -m harness.extract && cd lean && lake build HotXL driver',
        'hooks': {
            'guard': 'HOTXLFP_VERIF',
            'enable': 'none needed: all instrumentation is applied from the harness (sub-classing, listeners, wrapping ply.yacc.yacc with write_tables=False); no hook code lives in /repo',
            'baseline_off_cmd': BASELINE,
            'source_commits': [],
            'add_only': True,
        },
        'engines': [{
            'name': 'lean4-proof+correspondence',
            'path': 'lean/ (Lean 4 project HotXL: Model/, Generated/, Props/, Driver.lean) + harness/ (extract.py, common.py, props/*.py)',
            'serves_properties': [c['property_id'] for c in checks],
            'kind_free_text': 'machine-checked proof in Lean 4 about an executable model; tables regenerated from /repo on every run; hand-written control logic tied by a differential correspondence check; oracle = the property statement evaluated on the real implementation',
        }],
        'checks': checks,
        'not_applicable': na,
        'notes': 'VERIF_SEED seeds the single PRNG; VERIF_TIER is honoured as an alternative to --tier. Exit 2 = harness failure (no verdict). Genuine defects found and repaired are listed in known_findings.json (fixed:).',
    }
    with open(os.path.join(VERIF, 'MANIFEST.json'), 'w') as f:
        json.dump(man, f, indent=1)
    print('MANIFEST.json: %d checks, %d not claimed' % (len(checks), len(na)))


if __name__ == '__main__':
    main()
