# -*- coding: utf-8 -*-
"""
Formula tooling shared by the plugins: wire encoding of values, S-expression reader,
tolerant comparison of model values with Python values, observation of the trees the real
ply parser builds, expression-tree generators and renderers.
"""
import datetime
import math
from fractions import Fraction

from . import common
from .common import enc_str, dec_str

ERR_TAGS = {'#ERROR!': 'error', '#DIV/0!': 'div0', '#NAME?': 'name', '#N/A': 'na', '#NULL!': 'null',
            '#NUM!': 'num', '#REF!': 'ref', '#VALUE!': 'value', '#GETTING_DATA': 'data'}
TAG_ERR = {v: k for k, v in ERR_TAGS.items()}
D1900 = datetime.datetime(1900, 1, 1)


def _xlerror():
    common.load_repo()
    from hotxlfp.formulas import error
    return error


# --------------------------------------------------------------------------- wire

def to_wire(v):
    """Python value -> the driver's value syntax"""
    error = _xlerror()
    if isinstance(v, bool):
        return '(b %d)' % (1 if v else 0)
    if isinstance(v, int):
        return '(i %d)' % v
    if isinstance(v, float):
        if math.isnan(v) or math.isinf(v):
            return '(o float-nonfinite)'
        f = Fraction(v)
        return '(f %d %d)' % (f.numerator, f.denominator)
    if isinstance(v, Fraction):
        return '(f %d %d)' % (v.numerator, v.denominator)
    if isinstance(v, str):
        return '(s %s)' % enc_str(v)
    if v is None:
        return 'nil'
    if isinstance(v, error.XLError):
        t = ERR_TAGS.get(str(v))
        return '(e %s)' % t if t else '(o foreign-error)'
    if isinstance(v, datetime.datetime):
        d = v - D1900
        return '(d %d)' % ((d.days * 86400 + d.seconds) * 1000000 + d.microseconds)
    if isinstance(v, list):
        return '(a' + ''.join(' ' + to_wire(x) for x in v) + ')'
    return '(o %s)' % type(v).__name__


def parse_sexp(text):
    """-> nested lists / atoms (strings)"""
    toks = text.replace('(', ' ( ').replace(')', ' ) ').split()
    pos = [0]

    def rd():
        t = toks[pos[0]]
        pos[0] += 1
        if t == '(':
            out = []
            while toks[pos[0]] != ')':
                out.append(rd())
            pos[0] += 1
            return out
        return t
    res = []
    while pos[0] < len(toks):
        res.append(rd())
    return res[0] if len(res) == 1 else res


def ulp_close(x, q, ulps=4):
    """float x within `ulps` units in the last place of the rational q (or tiny absolute error)"""
    if math.isnan(x) or math.isinf(x):
        return False
    fx = Fraction(x)
    if fx == q:
        return True
    scale = max(abs(x), abs(float(q)), 2.0 ** -1000)
    u = Fraction(math.ulp(scale))
    return abs(fx - q) <= ulps * u


def value_matches(m, v, ulps=4, rel=0.0, loose=False):
    """does the model value (parsed sexp) describe the Python value?
    returns True / False / None (None = the model does not model this value: `(o …)`)"""
    error = _xlerror()
    if isinstance(m, list) and m and m[0] == 'o':
        return None
    if m == 'nil':
        return v is None
    if not isinstance(m, list) or not m:
        return False
    k = m[0]
    if k == 'i':
        if loose and isinstance(v, bool):
            # a logical item handed back by an aggregate (max([True]) is True): the aggregate models carry
            # logicals by their integer value
            return int(v) == int(m[1])
        return isinstance(v, int) and not isinstance(v, bool) and v == int(m[1])
    if k == 'f':
        q = Fraction(int(m[1]), int(m[2]))
        if not isinstance(v, float):
            return False
        if ulp_close(v, q, ulps):
            return True
        return rel > 0 and not (math.isnan(v) or math.isinf(v)) and abs(Fraction(v) - q) <= Fraction(rel) * max(1, abs(q))
    if k == 'b':
        return isinstance(v, bool) and v == (m[1] == '1')
    if k == 's':
        return isinstance(v, str) and v == dec_str(m[1])
    if k == 'e':
        return isinstance(v, error.XLError) and ERR_TAGS.get(str(v)) == m[1]
    if k == 'd':
        if not isinstance(v, datetime.datetime):
            return False
        d = v - D1900
        us = (d.days * 86400 + d.seconds) * 1000000 + d.microseconds
        # double arithmetic on serials: ~2^-50 relative error on the microsecond count
        return abs(us - int(m[1])) <= 2 + abs(us) // (1 << 49)
    if k == 'a':
        if len(m) == 4 and m[1] == ['o', 'complex'] and isinstance(v, complex):
            # a Python complex number is modelled as the triple (complex, re, im)
            return value_matches(m[2], float(v.real), ulps, rel) and value_matches(m[3], float(v.imag), ulps, rel)
        if not isinstance(v, list) or len(v) != len(m) - 1:
            return False
        res = True
        for mm, vv in zip(m[1:], v):
            r = value_matches(mm, vv, ulps, rel, loose)
            if r is False:
                return False
            if r is None:
                res = None
        return res
    return False


def record_matches(model_rec, rec, ulps=4, rel=0.0, loose=False):
    """model `(rec <value|none> <errtag|none>)` vs the dict returned by Parser.parse"""
    if not (isinstance(model_rec, list) and len(model_rec) == 3 and model_rec[0] == 'rec'):
        return False
    _, mres, merr = model_rec
    if isinstance(mres, list) and mres and mres[0] == 'o':
        return None          # the model has no opinion (unmodelled builtin / text of a float)
    if merr != 'none':
        return rec['result'] is None and ERR_TAGS.get(rec['error']) == merr
    if rec['error'] is not None:
        return False
    if mres == 'none':
        return rec['result'] is None
    return value_matches(mres, rec['result'], ulps, rel, loose)


def env_wire(variables=None, fns=None, cells=None, ranges=None):
    vs = ' '.join('(%s %s)' % (enc_str(k), to_wire(v)) for k, v in (variables or {}).items())
    fs = ' '.join('(%s %s)' % (enc_str(k), d) for k, d in (fns or {}).items())
    cs = ' '.join('(%s %s)' % (enc_str(k), to_wire(v)) for k, v in (cells or {}).items())
    rs = ' '.join('(%s %s %s)' % (enc_str(a), enc_str(b), to_wire(v)) for (a, b), v in (ranges or {}).items())
    return '(env (vars%s) (fns%s) (cells%s) (ranges%s))' % (
        (' ' + vs) if vs else '', (' ' + fs) if fs else '', (' ' + cs) if cs else '', (' ' + rs) if rs else '')


# --------------------------------------------------------------------------- trees

def show_tree(t):
    """same text as the driver's `parse.tree`"""
    if t == 'blank' or t is None:
        return 'blank'
    if not isinstance(t, (tuple, list)) or not t or not isinstance(t[0], str):
        # a semantic action the harness does not know (a production added to the grammar) produced a
        # foreign object inside the tree: show it as such (it cannot agree with any model tree)
        return '(opaque %s)' % enc_str(type(t).__name__)
    k = t[0]
    if k == 'num':
        return '(num %s %s %s)' % (t[1], enc_str(t[2]) if t[2] != '' or t[1] in () else '_', enc_str(t[3]) if t[3] != '' else '_')
    if k == 'str':
        return '(str %s)' % enc_str(t[1])
    if k == 'errlit':
        return '(errlit %s)' % enc_str(t[1])
    if k == 'neg':
        return '(neg %s)' % show_tree(t[1])
    if k == 'bin':
        return '(bin %s %s %s)' % (enc_str(t[1]), show_tree(t[2]), show_tree(t[3]))
    if k == 'call':
        return '(call %s %s (%s) (%s))' % (enc_str(t[1]), t[2], ' '.join(show_tree(x) for x in t[3]), ' '.join(show_tree(x) for x in t[4]))
    if k == 'arr':
        return '(arr %s (%s) (%s))' % (t[1], ' '.join(show_tree(x) for x in t[2]), ' '.join(show_tree(x) for x in t[3]))
    if k == 'var':
        return '(var ' + ' '.join(enc_str(n) for n in t[1]) + ')'
    if k == 'cell':
        return '(cell %s)' % enc_str(t[1])
    if k == 'range':
        return '(range %s %s)' % (enc_str(t[1]), enc_str(t[2]))
    return '(opaque %s)' % enc_str(str(k))


def _seq(items):
    """list built by the real p_expseq_* actions -> (kind, a, b)"""
    if len(items) == 2 and all(isinstance(x, list) for x in items):
        return 'rows', [x if x is not None else 'blank' for x in items[0]], [x if x is not None else 'blank' for x in items[1]]
    return 'flat', [x if x is not None else 'blank' for x in items], []


class TreeParser(object):
    """a real hotxlfp.Parser whose LALR tables are untouched but whose semantic actions for
    leaves, operators and calls are replaced (after table construction) by tree builders;
    the list-building actions of the expseq / array productions are the original ones."""

    def __init__(self):
        common.load_repo()
        import hotxlfp
        self.p = hotxlfp.Parser()
        gp = self.p.parser
        acts = {
            'p_expression_arithmetic_operator': lambda p: p.__setitem__(0, ('bin', p[2], p[1], p[3])),
            'p_expression_logical_operator': lambda p: p.__setitem__(0, ('bin', p[2], p[1], p[3])),
            'p_expression_uminus': lambda p: p.__setitem__(0, ('neg', p[2])),
            'p_expression_number': self._number,
            'p_expression_string': lambda p: p.__setitem__(0, ('str', p[1][1:-1])),
            'p_expression_function': lambda p: p.__setitem__(0, ('call', p[1], 'empty', [], [])),
            'p_expression_wargs': lambda p: p.__setitem__(0, ('call', p[1]) + _seq(p[3])),
            'p_array': lambda p: p.__setitem__(0, ('arr',) + _seq(p[2])),
            'p_xlerror': lambda p: p.__setitem__(0, ('errlit', p[1])),
            'p_expression_varseq': lambda p: p.__setitem__(0, ('var', list(p[1]))),
            'p_cell': lambda p: p.__setitem__(0, ('cell', p[1]) if len(p) == 2 else ('range', p[1], p[3])),
        }
        self.replaced = 0
        for prod in gp.yacc.productions:
            f = getattr(prod, 'func', None)
            if f in acts:
                prod.callable = acts[f]
                self.replaced += 1

    @staticmethod
    def _number(p):
        if len(p) == 2:
            p[0] = ('num', 'int', p[1], '')
        elif p[1] == '.':
            p[0] = ('num', 'dot', '', p[2])
        elif p[2] == '.':
            p[0] = ('num', 'dec', p[1], p[3])
        elif p[2] == '^':
            p[0] = ('num', 'pow', p[1], p[3])
        elif p[2] == '%':
            p[0] = ('num', 'pct', p[1], '')

    def tree(self, formula):
        """the tree ply builds, or '!syntax' / '!name'"""
        r = self.p.parse(formula)
        if r['error'] == '#ERROR!':
            return '!syntax'
        if r['error'] == '#NAME?':
            return '!name'
        if r['error'] is not None:
            return '!' + r['error']
        return show_tree(r['result'])


# --------------------------------------------------------------------------- generators

BINOPS = ['+', '-', '*', '/', '&', '>', '<', '>=', '<=', '=', '<>']


def prec_table():
    """level of each operator text from the live Parser.precedence (1 = loosest)"""
    common.load_repo()
    from hotxlfp.grammarparser import parser as gp
    tok2txt = {'PLUS': '+', 'MINUS': '-', 'MULT': '*', 'DIV': '/', 'AMP': '&', 'GREATER': '>', 'LESS': '<',
               'GREATEREQ': '>=', 'LESSEQ': '<=', 'EQUAL': '=', 'NOTEQUAL': '<>'}
    lv = {}
    for i, row in enumerate(gp.FormulaParser.precedence):
        for name in row[1:]:
            if name in tok2txt:
                lv[tok2txt[name]] = (i + 1, row[0])
            if name == 'UMINUS':
                lv['neg'] = (i + 1, row[0])
    return lv


def render(t, full=False, levels=None, ctx=0, side=None):
    """text of a tree; minimal parentheses w.r.t. `levels` (operator -> (level, assoc)),
    or full parenthesisation"""
    k = t[0] if t != 'blank' else 'blank'
    if k == 'blank':
        return ''
    if k == 'num':
        form, a, b = t[1], t[2], t[3]
        return {'int': a, 'dec': a + '.' + b, 'dot': '.' + b, 'pow': a + '^' + b, 'pct': a + '%'}[form]
    if k == 'str':
        return '"' + t[1] + '"'
    if k == 'errlit':
        return t[1]
    if k == 'var':
        return '.'.join(t[1])
    if k == 'cell':
        return t[1]
    if k == 'range':
        return t[1] + ':' + t[2]
    if k in ('call', 'arr'):
        if k == 'call':
            name, kind, a, b = t[1], t[2], t[3], t[4]
            op, cl = name + '(', ')'
        else:
            kind, a, b = t[1], t[2], t[3]
            op, cl = '{', '}'
        sep = t[-1] if isinstance(t[-1], str) and t[-1] in ',;\\' else ','
        ra = sep.join(render(x, full, levels) for x in a)
        if kind == 'rows':
            rsep = sep if sep != ';' else ','
            ra = rsep.join(render(x, full, levels) for x in a) + ';' + rsep.join(render(x, full, levels) for x in b)
        return op + ra + cl
    if k == 'neg':
        inner = t[1]
        s = render(inner, full, levels)
        need = full or inner[0] == 'bin'
        # -(-x) needs no parentheses in the grammar, but "--" is fine too
        return '-' + ('(' + s + ')' if need and inner[0] in ('bin', 'neg') else s)
    if k == 'bin':
        op, l, r = t[1], t[2], t[3]
        lv = levels[op][0]

        def sub(x, right):
            s = render(x, full, levels)
            if x[0] == 'bin':
                xl = levels[x[1]][0]
                if full or xl < lv or (xl == lv and right):
                    return '(' + s + ')'
                return s
            if x[0] == 'neg' and full:
                return '(' + s + ')'
            return s
        return sub(l, False) + op + sub(r, True)
    raise ValueError(t)


# aggregate builtins whose models carry logical items by their integer value (Python's statistics / max / min /
# reduce hand a lone logical back as a logical, and statistics coerces all-logical data back to bool): formulas
# in which a logical reaches one of them are outside the value-level model comparison
AGGREGATES = {'SUM', 'PRODUCT', 'AVERAGE', 'AVERAGEA', 'AVEDEV', 'MIN', 'MAX', 'MINA', 'MAXA', 'MEDIAN', 'MODE', 'MODE.SNGL',
              'VAR', 'VAR.S', 'VAR.P', 'VARP', 'VARA', 'STDEV', 'STDEV.S', 'STDEV.P', 'STDEVP', 'STDEVA', 'STDEVPA', 'HARMEAN',
              'GEOMEAN', 'LARGE', 'SLOPE', 'SUMIF', 'SUMIFS', 'AVERAGEIF', 'AVERAGEIFS', 'MAXIFS', 'COUNTIF'}


def has_logical(v):
    if isinstance(v, bool):
        return True
    if isinstance(v, (list, tuple)):
        return any(has_logical(x) for x in v)
    return False


def logical_reaches_aggregate(fn_events):
    """fn_events: iterable of (name, args) of the callFunction events of an evaluation"""
    return any(name in AGGREGATES and name != 'SUM' and has_logical(args) for name, args in fn_events)
