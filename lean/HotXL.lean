-- Root of the `HotXL` library: the executable model (Model/), generated tables (Generated/)
-- and the property theorems (Props/).
import HotXL.Model.Basic
import HotXL.Generated.Tables
import HotXL.Model.Cell
import HotXL.Model.Emitter
