-- Root of the `HotXL` library: the executable model (Model/), generated tables (Generated/)
-- and the property theorems (Props/).
import HotXL.Model.Basic
import HotXL.Generated.Tables
import HotXL.Model.Cell
import HotXL.Model.Emitter
import HotXL.Model.PyNum
import HotXL.Model.Lexer
import HotXL.Model.Calendar
import HotXL.Model.Dates
import HotXL.Model.Syntax
import HotXL.Model.Operators
import HotXL.Model.Builtins
import HotXL.Model.Eval
import HotXL.Props.C19
import HotXL.Props.C20
