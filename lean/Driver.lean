/-
  Line-protocol driver over the executable model: one request per line
  `op arg…` (S-expressions), one answer per line.  `?` = unknown op / bad arguments.
-/
import HotXL.Driver.Cell
import HotXL.Driver.Emitter
import HotXL.Driver.Eval
import HotXL.Driver.Math
import HotXL.Driver.Interleave
import HotXL.Driver.Session
open HotXL

def handlers : List (String → List Sexp → Option String) :=
  [HotXL.Driver.Cell.handle, HotXL.Driver.Emitter.handle, HotXL.Driver.Eval.handle,
   HotXL.Driver.Math.handle, HotXL.Driver.Interleave.handle,
   HotXL.Driver.Session.handle]

def answer (line : String) : String :=
  match Sexp.parseLine line with
  | .atom op :: args =>
    match handlers.findSome? (fun h => h op args) with
    | some r => r
    | none => "?"
  | _ => "?"

partial def loop (h : IO.FS.Stream) (out : IO.FS.Stream) : IO Unit := do
  let line ← h.getLine
  if line.isEmpty then return ()
  out.putStrLn (answer line)
  loop h out

def main : IO Unit := do
  let out ← IO.getStdout
  loop (← IO.getStdin) out
  out.flush
