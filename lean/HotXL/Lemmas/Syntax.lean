/-
  HotXL.Lemmas.Syntax — helper lemmas for C04: fuel monotonicity of the precedence-climbing
  parser, the facts read off the generated precedence table, parsing of leaves, and the
  round-trip invariant for `RendersAt`.
-/
import HotXL.Model.Render
namespace HotXL.Syntax
open HotXL HotXL.Lexer

theorem mono_all : ∀ f : Nat,
    (∀ ts v f', parsePrimary f ts = .ok v → f ≤ f' → parsePrimary f' ts = .ok v) ∧
    (∀ acc ts v f', parseVarSeq f acc ts = .ok v → f ≤ f' → parseVarSeq f' acc ts = .ok v) ∧
    (∀ m ts v f', parseExpr f m ts = .ok v → f ≤ f' → parseExpr f' m ts = .ok v) ∧
    (∀ m l ts v f', parseLoop f m l ts = .ok v → f ≤ f' → parseLoop f' m l ts = .ok v) ∧
    (∀ ts v f', parseItems f ts = .ok v → f ≤ f' → parseItems f' ts = .ok v) := by
  intro f
  induction f with
  | zero =>
    refine ⟨?_, ?_, ?_, ?_, ?_⟩ <;> intros <;> simp_all [parsePrimary, parseVarSeq, parseExpr, parseLoop, parseItems]
  | succ f ih =>
    obtain ⟨ihP, ihV, ihE, ihL, ihI⟩ := ih
    refine ⟨?_, ?_, ?_, ?_, ?_⟩
    · intro ts v f' h hle
      obtain ⟨g, rfl⟩ : ∃ g, f' = g + 1 := ⟨f' - 1, by omega⟩
      have hle' : f ≤ g := by omega
      unfold parsePrimary at h ⊢
      split at h
      · exact h
      · rename_i t r
        split at h
        all_goals try exact h
        · -- FUNCTION
          split at h
          · exact h
          · split at h
            · simp at h
            · rename_i hI
              rw [ihI _ _ _ hI hle']
              exact h
          · exact h
          · exact h
        · -- LBRACKET
          split at h
          · simp at h
          · rename_i hI
            rw [ihI _ _ _ hI hle']
            exact h
        · -- LPAREN
          split at h
          · simp at h
          · rename_i hE
            rw [ihE _ _ _ _ hE hle']
            exact h
        · exact ihV _ _ _ _ h hle'
        · split at h
          · simp at h
          · rename_i hE
            rw [ihE _ _ _ _ hE hle']
            exact h
    · intro acc ts v f' h hle
      obtain ⟨g, rfl⟩ : ∃ g, f' = g + 1 := ⟨f' - 1, by omega⟩
      have hle' : f ≤ g := by omega
      unfold parseVarSeq at h ⊢
      split at h
      · split at h
        · exact ihV _ _ _ _ h hle'
        · simp at h
        · simp at h
      · exact h
    · intro m ts v f' h hle
      obtain ⟨g, rfl⟩ : ∃ g, f' = g + 1 := ⟨f' - 1, by omega⟩
      have hle' : f ≤ g := by omega
      unfold parseExpr at h ⊢
      split at h
      · simp at h
      · rename_i l r hp
        rw [ihP _ _ _ hp hle']
        exact ihL _ _ _ _ _ h hle'
    · intro m l ts v f' h hle
      obtain ⟨g, rfl⟩ : ∃ g, f' = g + 1 := ⟨f' - 1, by omega⟩
      have hle' : f ≤ g := by omega
      unfold parseLoop at h ⊢
      split at h
      · exact h
      · rename_i t r
        dsimp only
        split at h
        · exact h
        · rename_i op h1
          split at h
          · exact h
          · rename_i lv as h2
            by_cases h3 : lv ≥ m
            · simp only [h3, if_true] at h ⊢
              cases as <;> dsimp only at h ⊢ <;>
              · split at h
                · simp at h
                · rename_i hE
                  rw [ihE _ _ _ _ hE hle']
                  exact ihL _ _ _ _ _ h hle'
            · simp only [h3, if_false] at h ⊢
              exact h
    · intro ts v f' h hle
      obtain ⟨g, rfl⟩ : ∃ g, f' = g + 1 := ⟨f' - 1, by omega⟩
      have hle' : f ≤ g := by omega
      unfold parseItems at h ⊢
      split at h
      · exact h
      · rename_i t r
        split at h
        · rename_i c1; rw [if_pos c1]; exact h
        · rename_i c1; rw [if_neg c1]
          split at h
          · rename_i c2; rw [if_pos c2]
            split at h
            · simp at h
            · rename_i hI
              rw [ihI _ _ _ hI hle']
              exact h
          · rename_i c2; rw [if_neg c2]
            split at h
            · simp at h
            · rename_i hE
              rw [ihE _ _ _ _ hE hle']
              dsimp only
              split at h
              · simp at h
              · rename_i hI
                rw [ihI _ _ _ hI hle']
                exact h

theorem parsePrimary_mono {f f' : Nat} {ts : List Token} {v : Expr × List Token}
    (h : parsePrimary f ts = .ok v) (hle : f ≤ f') : parsePrimary f' ts = .ok v :=
  (mono_all f).1 ts v f' h hle

theorem parseVarSeq_mono {f f' : Nat} {acc : List (List Char)} {ts : List Token} {v : Expr × List Token}
    (h : parseVarSeq f acc ts = .ok v) (hle : f ≤ f') : parseVarSeq f' acc ts = .ok v :=
  (mono_all f).2.1 acc ts v f' h hle

theorem parseExpr_mono {f f' m : Nat} {ts : List Token} {v : Expr × List Token}
    (h : parseExpr f m ts = .ok v) (hle : f ≤ f') : parseExpr f' m ts = .ok v :=
  (mono_all f).2.2.1 m ts v f' h hle

theorem parseLoop_mono {f f' m : Nat} {l : Expr} {ts : List Token} {v : Expr × List Token}
    (h : parseLoop f m l ts = .ok v) (hle : f ≤ f') : parseLoop f' m l ts = .ok v :=
  (mono_all f).2.2.2.1 m l ts v f' h hle

theorem parseItems_mono {f f' : Nat} {ts : List Token} {v : List Item × List Token}
    (h : parseItems f ts = .ok v) (hle : f ≤ f') : parseItems f' ts = .ok v :=
  (mono_all f).2.2.2.2 ts v f' h hle

/-! ### facts read off the generated precedence table -/

theorem table_left : ∀ op : BinOp, binLevel op = some (lvl op, Assoc.left) := by
  intro op; cases op <;> decide +kernel

theorem table_below_uminus : ∀ op : BinOp, lvl op < uminusLevel := by
  intro op; cases op <;> decide +kernel

theorem ofTK_tk (op : BinOp) : BinOp.ofTK op.tk = some op := by cases op <;> rfl

def StopsAt (m : Nat) : List Token → Prop
  | [] => True
  | t :: _ => t.kind = .RPAREN ∨ ∃ op, BinOp.ofTK t.kind = some op ∧ lvl op < m

theorem StopsAt.mono {a b : Nat} {rest : List Token} (h : StopsAt a rest) (hab : a ≤ b) : StopsAt b rest := by
  cases rest with
  | nil => trivial
  | cons t r =>
    rcases h with h | ⟨op, h1, h2⟩
    · exact Or.inl h
    · exact Or.inr ⟨op, h1, by omega⟩

theorem StopsAt.uminus {a : Nat} {rest : List Token} (h : StopsAt a rest) : StopsAt uminusLevel rest := by
  cases rest with
  | nil => trivial
  | cons t r =>
    rcases h with h | ⟨op, h1, _⟩
    · exact Or.inl h
    · exact Or.inr ⟨op, h1, table_below_uminus op⟩

def FollowOK : List Token → Prop
  | [] => True
  | t :: _ => t.kind ≠ .DECIMAL ∧ t.kind ≠ .CARET ∧ t.kind ≠ .PERCENT ∧ t.kind ≠ .COLON

theorem StopsAt.followOK {a : Nat} {rest : List Token} (h : StopsAt a rest) : FollowOK rest := by
  cases rest with
  | nil => trivial
  | cons t r =>
    obtain ⟨k, s⟩ := t
    rcases h with h | ⟨op, h1, _⟩
    · simp only at h; subst h; simp [FollowOK]
    · simp only at h1
      cases k <;> simp [BinOp.ofTK] at h1 <;> simp [FollowOK]

theorem parseLoop_stop {m : Nat} {rest : List Token} (h : StopsAt m rest) (g : Nat) (l : Expr) :
    parseLoop (g + 1) m l rest = .ok (l, rest) := by
  cases rest with
  | nil => simp [parseLoop]
  | cons t r =>
    rcases h with h | ⟨op, h1, h2⟩
    · simp [parseLoop, h, BinOp.ofTK]
    · have : ¬ (lvl op ≥ m) := by omega
      simp [parseLoop, h1, table_left op, this]


theorem parseVarSeq_tail {ns : List (List Char)} {ts : List Token} (h : VarTail ns ts) :
    ∀ (acc : List (List Char)) (rest : List Token), FollowOK rest → ∀ f, ns.length + 1 ≤ f →
      parseVarSeq f acc (ts ++ rest) = .ok (.var (acc ++ ns), rest) := by
  induction h with
  | nil =>
    intro acc rest hr f hf
    obtain ⟨f, rfl⟩ : ∃ g, f = g + 1 := ⟨f - 1, by simp at hf; omega⟩
    cases rest with
    | nil => simp [parseVarSeq]
    | cons t r =>
      obtain ⟨k, s⟩ := t
      unfold parseVarSeq
      split
      · rename_i heq; simp [FollowOK] at hr heq; exact absurd heq.1.1 hr.1
      · simp
  | cons s v _ ih =>
    intro acc rest hr f hf
    obtain ⟨f, rfl⟩ : ∃ g, f = g + 1 := ⟨f - 1, by simp at hf; omega⟩
    simp only [List.cons_append, parseVarSeq]
    rw [ih (acc ++ [v]) rest hr f (by simp at hf ⊢; omega)]
    simp

theorem VarTail.length {ns : List (List Char)} {ts : List Token} (h : VarTail ns ts) :
    ts.length = 2 * ns.length := by
  induction h with
  | nil => rfl
  | cons s v _ ih => simp [ih]; omega

theorem stripQuotes_quoted (q q' : Char) (s : List Char) : stripQuotes (q :: s ++ [q']) = s := by
  simp [stripQuotes]

theorem parsePrimary_atom {e : Expr} {ts : List Token} (h : AtomToks e ts) (rest : List Token)
    (hr : FollowOK rest) (f : Nat) (hf : ts.length + 1 ≤ f) :
    parsePrimary f (ts ++ rest) = .ok (e, rest) := by
  obtain ⟨f, rfl⟩ : ∃ g, f = g + 1 := ⟨f - 1, by omega⟩
  cases h with
  | int a =>
    cases rest with
    | nil => simp [parsePrimary]
    | cons t r =>
      obtain ⟨k, s⟩ := t
      simp only [FollowOK] at hr
      simp only [List.cons_append, List.nil_append, parsePrimary]
      split <;> simp_all
  | dec a b s => simp [parsePrimary]
  | dotDec b s => simp [parsePrimary]
  | pow a b s => simp [parsePrimary]
  | pct a s => simp [parsePrimary]
  | str q q' s => simp [parsePrimary, stripQuotes]
  | errLit t => simp [parsePrimary]
  | call0 name s1 s2 => simp [parsePrimary]
  | var n hv =>
    simp only [List.cons_append, parsePrimary]
    rw [parseVarSeq_tail hv [n] rest hr f (by simp at hf ⊢; have := hv.length; omega)]
    simp
  | cell k label hk =>
    cases rest with
    | nil => cases k <;> simp [isCellTK] at hk <;> simp [parsePrimary, isCellTK]
    | cons t r =>
      obtain ⟨k', s⟩ := t
      simp only [FollowOK] at hr
      cases k <;> simp [isCellTK] at hk <;>
      · simp only [List.cons_append, List.nil_append, parsePrimary, isCellTK]
        split <;> simp_all
  | range k1 k2 a b s h1 h2 =>
    cases k1 <;> simp [isCellTK] at h1 <;> simp [parsePrimary, isCellTK] <;>
      cases k2 <;> simp [isCellTK] at h2 <;> simp

/-! ### the round-trip invariant -/

theorem AtomToks.length_pos {e : Expr} {ts : List Token} (h : AtomToks e ts) : 1 ≤ ts.length := by
  cases h <;> simp

theorem parseLoop_ok_pos {g m : Nat} {l : Expr} {ts : List Token} {v : Expr × List Token}
    (h : parseLoop g m l ts = .ok v) : 1 ≤ g := by
  cases g with
  | zero => simp [parseLoop] at h
  | succ g => omega

theorem parseLoop_shift {f m : Nat} {l : Expr} {t : Token} {r : List Token} {op : BinOp} {rhs : Expr}
    {r2 : List Token} (h1 : BinOp.ofTK t.kind = some op) (hge : m ≤ lvl op)
    (hE : parseExpr f (lvl op + 1) r = .ok (rhs, r2)) :
    parseLoop (f + 1) m l (t :: r) = parseLoop f m (.bin op l rhs) r2 := by
  have hge' : lvl op ≥ m := hge
  conv => lhs; unfold parseLoop
  simp only [h1, table_left op, hge', if_true, hE]

/-- the round-trip invariant (G) -/
theorem parseExpr_rendersAt {m' : Nat} {t : Expr} {ts : List Token} (h : RendersAt m' t ts) :
    ∀ (m : Nat), m ≤ m' → ∀ (rest : List Token), StopsAt (m' + 1) rest →
    ∀ (g : Nat) (v : Expr × List Token), parseLoop g m t rest = .ok v →
    ∀ (f : Nat), g + 2 * ts.length ≤ f → parseExpr f m (ts ++ rest) = .ok v := by
  induction h with
  | @atom m' e ts ha =>
    intro m hm rest hrest g v hloop f hf
    have hg := parseLoop_ok_pos hloop
    have hl := ha.length_pos
    obtain ⟨f, rfl⟩ : ∃ k, f = k + 1 := ⟨f - 1, by omega⟩
    unfold parseExpr
    rw [parsePrimary_atom ha rest hrest.followOK f (by omega)]
    exact parseLoop_mono hloop (by omega)
  | @paren m' e ts s1 s2 _ ih =>
    intro m hm rest hrest g v hloop f hf
    have hg := parseLoop_ok_pos hloop
    obtain ⟨f, rfl⟩ : ∃ k, f = k + 2 := ⟨f - 2, by simp at hf; omega⟩
    have hin : parseExpr f 0 (ts ++ ⟨.RPAREN, s2⟩ :: rest) = .ok (e, ⟨.RPAREN, s2⟩ :: rest) :=
      ih 0 (Nat.le_refl 0) (⟨.RPAREN, s2⟩ :: rest) (Or.inl rfl) 1 _
        (parseLoop_stop (m := 0) (rest := ⟨.RPAREN, s2⟩ :: rest) (Or.inl rfl) 0 e) f (by simp at hf; omega)
    unfold parseExpr
    have hp : parsePrimary (f + 1) ((⟨.LPAREN, s1⟩ :: ts ++ [⟨.RPAREN, s2⟩]) ++ rest) = .ok (e, rest) := by
      simp only [List.cons_append, List.append_assoc, List.nil_append, parsePrimary, hin]
    rw [hp]
    exact parseLoop_mono hloop (by simp at hf; omega)
  | @neg m' e ts s _ ih =>
    intro m hm rest hrest g v hloop f hf
    have hg := parseLoop_ok_pos hloop
    obtain ⟨g, rfl⟩ : ∃ k, g = k + 1 := ⟨g - 1, by omega⟩
    obtain ⟨f, rfl⟩ : ∃ k, f = k + 2 := ⟨f - 2, by simp at hf; omega⟩
    have hin : parseExpr f uminusLevel (ts ++ rest) = .ok (e, rest) :=
      ih uminusLevel (Nat.le_refl _) rest (hrest.uminus.mono (Nat.le_succ _)) (g + 1) _
        (parseLoop_stop hrest.uminus g e) f (by simp at hf; omega)
    unfold parseExpr
    have hp : parsePrimary (f + 1) ((⟨.MINUS, s⟩ :: ts) ++ rest) = .ok (.neg e, rest) := by
      simp only [List.cons_append, parsePrimary, hin]
    rw [hp]
    exact parseLoop_mono hloop (by simp at hf; omega)
  | @bin m' op l r tl tr s hle _ _ ihl ihr =>
    intro m hm rest hrest g v hloop f hf
    have hg := parseLoop_ok_pos hloop
    simp only [List.length_append, List.length_cons] at hf
    rw [List.append_assoc, List.cons_append]
    refine ihl m (by omega) (⟨op.tk, s⟩ :: (tr ++ rest)) (Or.inr ⟨op, ofTK_tk op, by omega⟩)
      (g + 2 * tr.length + 2) v ?_ f (by omega)
    have hrhs : parseExpr (g + 2 * tr.length + 1) (lvl op + 1) (tr ++ rest) = .ok (r, rest) :=
      ihr (lvl op + 1) (Nat.le_refl _) rest (hrest.mono (by omega)) 1 _
        (parseLoop_stop (hrest.mono (by omega)) 0 r) _ (by omega)
    rw [parseLoop_shift (ofTK_tk op) (by omega) hrhs]
    exact parseLoop_mono hloop (by omega)


/-! ### the printers produce renderings; the whole-formula round trip -/

theorem RendersAt.mono {m m' : Nat} {t : Expr} {ts : List Token} (h : RendersAt m t ts) (hle : m' ≤ m) :
    RendersAt m' t ts := by
  cases h with
  | atom ha => exact .atom ha
  | paren s1 s2 h => exact .paren s1 s2 h
  | neg s h => exact .neg s h
  | bin s hm hl hr => exact .bin s (by omega) hl hr

theorem varTailToks_spec (ns : List (List Char)) : VarTail ns (varTailToks ns) := by
  induction ns with
  | nil => exact .nil
  | cons v ns ih => exact .cons _ v ih

theorem atomToks_spec {e : Expr} (h : isAtom e = true) : AtomToks e (atomToks e) := by
  cases e with
  | num l => cases l <;> constructor
  | str s => exact .str '"' '"' s
  | errLit t => exact .errLit t
  | neg e => simp [isAtom] at h
  | bin op l r => simp [isAtom] at h
  | call name kind a b =>
    cases kind <;> cases a <;> cases b <;> simp [isAtom] at h
    exact .call0 name _ _
  | arr kind a b => simp [isAtom] at h
  | var names =>
    cases names with
    | nil => simp [isAtom] at h
    | cons n ns => exact .var n (varTailToks_spec ns)
  | cell label => exact .cell _ label rfl
  | range a b => exact .range _ _ a b _ rfl rfl
  | blankSlot => simp [isAtom] at h

theorem rendersAt_wrap {L : Nat} {t : Expr} {ts : List Token} (h : RendersAt L t ts) (m : Nat) :
    RendersAt m t (paren (decide (L < m)) ts) := by
  by_cases hlt : L < m
  · simp only [hlt, decide_true, paren, if_true]
    exact .paren _ _ (h.mono (Nat.zero_le _))
  · simp only [hlt, decide_false, paren]
    exact h.mono (by omega)

theorem not_neg_bin {e : Expr} (h1 : ∀ e', e = .neg e' → False) (h2 : ∀ op l r, e = .bin op l r → False) :
    WellFormedTree e = isAtom e ∧ level e = uminusLevel := by
  cases e <;> simp_all [WellFormedTree, level]

theorem renderMin_rendersAt (t : Expr) (h : WellFormedTree t = true) :
    ∀ m, RendersAt m t (paren (decide (level t < m)) (renderMin t)) := by
  fun_induction renderMin t with
  | case1 e ih =>
    intro m
    have he : WellFormedTree e = true := by simpa [WellFormedTree] using h
    exact rendersAt_wrap (L := uminusLevel) (.neg _ (ih he uminusLevel)) m
  | case2 op l r ihl ihr =>
    intro m
    have hw : WellFormedTree l = true ∧ WellFormedTree r = true := by simpa [WellFormedTree] using h
    exact rendersAt_wrap (L := lvl op) (.bin _ (Nat.le_refl _) (ihl hw.1 (lvl op)) (ihr hw.2 (lvl op + 1))) m
  | case3 e h1 h2 =>
    intro m
    obtain ⟨hw, hl⟩ := not_neg_bin h1 h2
    rw [hl]
    exact rendersAt_wrap (L := uminusLevel) (.atom (atomToks_spec (hw ▸ h))) m

theorem renderMin_renders (t : Expr) (h : WellFormedTree t = true) : Renders t (renderMin t) := by
  have := renderMin_rendersAt t h 0
  simpa [paren, Renders] using this

theorem renderFull_operand {t : Expr} {ts : List Token} (h : RendersAt 0 t ts) (hat : isAtom t = true → AtomToks t ts)
    (m : Nat) : RendersAt m t (paren (!isAtom t) ts) := by
  cases hb : isAtom t with
  | true => simpa [paren] using RendersAt.atom (hat hb)
  | false => simpa [paren, lparTok, rparTok] using RendersAt.paren (m := m) ['('] [')'] h

theorem renderFull_renders (t : Expr) (h : WellFormedTree t = true) :
    Renders t (renderFull t) ∧ (isAtom t = true → AtomToks t (renderFull t)) := by
  fun_induction renderFull t with
  | case1 e ih =>
    have he : WellFormedTree e = true := by simpa [WellFormedTree] using h
    exact ⟨.neg _ (renderFull_operand (ih he).1 (ih he).2 _), by simp [isAtom]⟩
  | case2 op l r ihl ihr =>
    have hw : WellFormedTree l = true ∧ WellFormedTree r = true := by simpa [WellFormedTree] using h
    exact ⟨.bin _ (Nat.zero_le _) (renderFull_operand (ihl hw.1).1 (ihl hw.1).2 _)
      (renderFull_operand (ihr hw.2).1 (ihr hw.2).2 _), by simp [isAtom]⟩
  | case3 e h1 h2 =>
    obtain ⟨hw, hl⟩ := not_neg_bin h1 h2
    exact ⟨.atom (atomToks_spec (hw ▸ h)), fun ha => atomToks_spec ha⟩

theorem parseTokens_renders {t : Expr} {ts : List Token} (h : Renders t ts) : parseTokens ts = .ok t := by
  have h1 : parseExpr (3 * ts.length + 3) 0 (ts ++ []) = .ok (t, []) :=
    parseExpr_rendersAt h 0 (Nat.le_refl _) [] trivial 1 (t, []) (by simp [parseLoop]) _ (by omega)
  rw [List.append_nil] at h1
  simp [parseTokens, h1]


end HotXL.Syntax
