/-
  HotXL.Lemmas.Logic — helper lemmas for C12 (logical functions and type predicates):
  `flattenList` is a monoid morphism and forgets array brackets, characterisation of
  `firstError`, the scans of IFS and SWITCH over an interleaved pair list, truncation.
  Core Lean only.
-/
import HotXL.Model.Fn.Logic
import HotXL.Model.Fn.Info

namespace HotXL.Lemmas.Logic
open HotXL HotXL.Ops HotXL.Fn

/-! ### flattening -/

theorem flattenList_nil : flattenList [] = [] := by
  rw [flattenList]

theorem flattenList_cons (x : Value) (xs : List Value) :
    flattenList (x :: xs) = flattenValue x ++ flattenList xs := by
  rw [flattenList]

theorem flattenValue_arr (xs : List Value) : flattenValue (.arr xs) = flattenList xs := by
  rw [flattenValue]

theorem flattenList_append (xs ys : List Value) :
    flattenList (xs ++ ys) = flattenList xs ++ flattenList ys := by
  induction xs with
  | nil => simp [flattenList_nil]
  | cons x xs ih => simp [flattenList_cons, ih, List.append_assoc]

theorem flattenList_arr_singleton (xs : List Value) : flattenList [.arr xs] = flattenList xs := by
  simp [flattenList_cons, flattenList_nil, flattenValue_arr]

/-- a value that is not an array is its own flattening -/
def IsArr : Value → Prop
  | .arr _ => True
  | _ => False

theorem flattenValue_scalar {v : Value} (h : ¬ IsArr v) : flattenValue v = [v] := by
  cases v <;> first | rfl | (exact absurd trivial h)

/-- a list without arrays is its own flattening -/
theorem flattenList_scalars {xs : List Value} (h : ∀ v ∈ xs, ¬ IsArr v) : flattenList xs = xs := by
  induction xs with
  | nil => exact flattenList_nil
  | cons x xs ih =>
    rw [flattenList_cons, flattenValue_scalar (h x (List.mem_cons_self ..)),
      ih (fun v hv => h v (List.mem_cons_of_mem _ hv))]
    rfl

/-! ### first error -/

def IsErr : Value → Prop
  | .err _ => True
  | _ => False

theorem firstError_none {xs : List Value} (h : ∀ v ∈ xs, ¬ IsErr v) : firstError xs = none := by
  induction xs with
  | nil => rfl
  | cons x xs ih =>
    have hx := h x (List.mem_cons_self ..)
    have ht := ih (fun v hv => h v (List.mem_cons_of_mem _ hv))
    cases x <;> first | (exact absurd trivial hx) | (simpa [firstError] using ht)

theorem firstError_split (pre post : List Value) (e : Err) (h : ∀ v ∈ pre, ¬ IsErr v) :
    firstError (pre ++ .err e :: post) = some e := by
  induction pre with
  | nil => rfl
  | cons x xs ih =>
    have hx := h x (List.mem_cons_self ..)
    have ht := ih (fun v hv => h v (List.mem_cons_of_mem _ hv))
    cases x <;> first | (exact absurd trivial hx) | (simpa [firstError] using ht)

/-- conversely: `firstError` finds the first error of the list -/
theorem firstError_some {xs : List Value} {e : Err} (h : firstError xs = some e) :
    ∃ pre post, xs = pre ++ .err e :: post ∧ ∀ v ∈ pre, ¬ IsErr v := by
  induction xs with
  | nil => simp [firstError] at h
  | cons x xs ih =>
    by_cases hx : IsErr x
    · cases x with
      | err e' =>
        simp only [firstError, Option.some.injEq] at h
        subst h
        exact ⟨[], xs, rfl, by simp⟩
      | _ => exact absurd hx (by simp [IsErr])
    · have h' : firstError xs = some e := by
        cases x <;> first | (exact absurd trivial hx) | (simpa [firstError] using h)
      obtain ⟨pre, post, hxs, hpre⟩ := ih h'
      refine ⟨x :: pre, post, by simp [hxs], ?_⟩
      intro v hv
      rcases List.mem_cons.mp hv with rfl | hv
      · exact hx
      · exact hpre v hv

/-! ### interleaved pair lists (`c1, v1, c2, v2, …`) -/

/-- the argument list `c₁, v₁, c₂, v₂, …` of a list of (condition, value) pairs -/
def interleave : List (Value × Value) → List Value
  | [] => []
  | p :: ps => p.1 :: p.2 :: interleave ps

theorem interleave_length (ps : List (Value × Value)) : (interleave ps).length = 2 * ps.length := by
  induction ps with
  | nil => rfl
  | cons p ps ih => simp [interleave, ih]; omega

/-! ### congruence on the members of a list -/

theorem all_congr_mem {α : Type} {p q : α → Bool} {xs : List α} (h : ∀ v ∈ xs, p v = q v) :
    xs.all p = xs.all q := by
  induction xs with
  | nil => rfl
  | cons x xs ih =>
    simp only [List.all_cons, h x (List.mem_cons_self ..), ih (fun v hv => h v (List.mem_cons_of_mem _ hv))]

theorem any_congr_mem {α : Type} {p q : α → Bool} {xs : List α} (h : ∀ v ∈ xs, p v = q v) :
    xs.any p = xs.any q := by
  induction xs with
  | nil => rfl
  | cons x xs ih =>
    simp only [List.any_cons, h x (List.mem_cons_self ..), ih (fun v hv => h v (List.mem_cons_of_mem _ hv))]

/-- no error in a list: `firstError` finds none (converse of `firstError_none`) -/
theorem not_isErr_of_firstError_none {xs : List Value} (h : firstError xs = none) : ∀ v ∈ xs, ¬ IsErr v := by
  induction xs with
  | nil => intro v hv; cases hv
  | cons x xs ih =>
    intro v hv
    cases x <;> simp only [firstError] at h <;> first | (exact absurd h (by simp)) | skip
    all_goals
      rcases List.mem_cons.mp hv with rfl | hv
      · simp [IsErr]
      · exact ih h v hv

/-! ### the scans of IFS and SWITCH over an interleaved pair list -/

open HotXL.Fn.Logic in
/-- `ifsScan` over `c₁, v₁, …, cₙ, vₙ` followed by `tl`, no `cᵢ` an error: the value of the first
    truthy condition, else the scan of `tl` -/
theorem ifsScan_interleave (ps : List (Value × Value)) (tl : List Value) (h : ∀ p ∈ ps, ¬ IsErr p.1) :
    ifsScan (interleave ps ++ tl) =
      match ps.find? (fun p => pyTruthy p.1) with
      | some p => p.2
      | none => ifsScan tl := by
  induction ps with
  | nil => rfl
  | cons p ps ih =>
    have hne := h p (List.mem_cons_self ..)
    have ht := ih (fun q hq => h q (List.mem_cons_of_mem _ hq))
    obtain ⟨c, v⟩ := p
    simp only [interleave, List.cons_append, List.find?_cons]
    cases c <;> first | (exact absurd trivial hne) | skip
    all_goals
      simp only [ifsScan]
      cases hb : pyTruthy _ <;> simp [ht]

open HotXL.Fn.Logic in
/-- `switchScan` over complete pairs (plus at most one trailing element, never compared) -/
theorem switchScan_interleave (t : Value) (ps : List (Value × Value)) (tl : List Value) (htl : tl.length ≤ 1) :
    switchScan t (interleave ps ++ tl) = (ps.find? (fun p => pyEqValue t p.1)).map (·.2) := by
  induction ps with
  | nil =>
    match tl, htl with
    | [], _ => rfl
    | [_], _ => rfl
  | cons p ps ih =>
    obtain ⟨c, v⟩ := p
    simp only [interleave, List.cons_append, switchScan, List.find?_cons]
    cases pyEqValue t c <;> simp [ih]

/-- `find?` with predicates that agree on the members -/
theorem find?_congr_mem {α : Type} {p q : α → Bool} {xs : List α} (h : ∀ v ∈ xs, p v = q v) :
    xs.find? p = xs.find? q := by
  induction xs with
  | nil => rfl
  | cons x xs ih =>
    simp only [List.find?_cons, h x (List.mem_cons_self ..), ih (fun v hv => h v (List.mem_cons_of_mem _ hv))]

/-! ### truncation -/

theorem intCast_eq_zero_iff (k : Int) : ((k : Rat) = 0) ↔ k = 0 := by
  constructor
  · intro h
    have : ((k : Rat)) = ((0 : Int) : Rat) := by simpa using h
    exact Rat.intCast_inj.mp this
  · rintro rfl; rfl

end HotXL.Lemmas.Logic
