/-
  HotXL.Lemmas.Names — helper lemmas for C09 (names resolve to what was registered; unknown
  names are #NAME?).

  * the shape of a variable name (`VariableShaped`, the claim's domain) and the lexer lemma:
    a shaped name is ONE `VARIABLE` token (`tokenize_shaped`), hence the formula consisting of
    the name parses to `.var [name]` (`parseFormula_shaped`);
  * expression contexts with one hole (`Ctx`), "everything evaluated before the hole evaluates
    normally" (`Ctx.before`), and abort propagation (`abort_in_context`);
  * the event log only grows (`evalExpr_log`) and every call site of a successful evaluation
    contributes exactly one `.fn` event (`fn_events_eq_callSites`).
-/
import HotXL.Model.Eval

namespace HotXL.Names
open HotXL HotXL.Lexer HotXL.Syntax HotXL.Eval

/-! ### the shape of a variable name -/

/-- `[A-Za-z]+[0-9]` matches at the start of `s` (what the negative look-ahead of the claim's
    domain excludes: a name that starts like a cell reference) -/
def cellPrefix : List Char → Bool
  | c :: d :: rest => isAlpha c && (isDigit d || cellPrefix (d :: rest))
  | _ => false

/-- the domain of the claim about variables:
    `^(?![A-Za-z]+[0-9])(?:[A-Za-z][A-Za-z_0-9]+|[A-Za-z_]+)$` -/
def VariableShaped (n : List Char) : Bool :=
  !cellPrefix n &&
  ((match n with
    | c :: d :: rest => isAlpha c && (d :: rest).all isWord
    | _ => false) ||
   (!n.isEmpty && n.all isAlphaUnderscore))

/-! ### character classes -/

theorem isAlpha_isWord {c : Char} (h : isAlpha c = true) : isWord c = true := by
  simp [isWord, h]

theorem isAlphaUnderscore_isWord {c : Char} (h : isAlphaUnderscore c = true) : isWord c = true := by
  simp only [isAlphaUnderscore, Bool.or_eq_true, decide_eq_true_eq] at h
  rcases h with h | h
  · simp [isWord, h]
  · simp [isWord, h]

theorem isWord_isWordDot {c : Char} (h : isWord c = true) : isWordDot c = true := by
  simp [isWordDot, h]

/-- a word character is none of the characters that start another token class -/
theorem isWord_not_special {c : Char} (h : isWord c = true) :
    c ≠ '(' ∧ c ≠ '$' ∧ c ≠ '#' ∧ c ≠ '"' ∧ c ≠ '\'' := by
  refine ⟨?_, ?_, ?_, ?_, ?_⟩ <;> (intro hc; subst hc; revert h; decide)

theorem isWord_not_isSpace {c : Char} (h : isWord c = true) : isSpace c = false := by
  have h' : (65 ≤ c.toNat ∧ c.toNat ≤ 90) ∨ (97 ≤ c.toNat ∧ c.toNat ≤ 122) ∨
      (48 ≤ c.toNat ∧ c.toNat ≤ 57) ∨ c.toNat = 95 := by
    simp only [isWord, isAlpha, isUpper, isLower, isDigit, Bool.or_eq_true, Bool.and_eq_true,
      decide_eq_true_eq] at h
    rcases h with ((h | h) | h) | h
    · exact .inl h
    · exact .inr (.inl h)
    · exact .inr (.inr (.inl h))
    · subst h; exact .inr (.inr (.inr rfl))
  simp only [isSpace, Bool.or_eq_false_iff, Bool.and_eq_false_iff, decide_eq_false_iff_not]
  omega

/-! ### spans -/

theorem spanLen_all {p : Char → Bool} : ∀ {s : List Char}, s.all p = true → spanLen p s = s.length
  | [], _ => rfl
  | c :: cs, h => by
    simp only [List.all_cons, Bool.and_eq_true] at h
    simp [spanLen, h.1, spanLen_all h.2]

theorem spanLen_le (p : Char → Bool) : ∀ s : List Char, spanLen p s ≤ s.length
  | [] => Nat.le_refl _
  | c :: cs => by
    simp only [spanLen]
    split
    · simp only [List.length_cons]; exact Nat.succ_le_succ (spanLen_le p cs)
    · exact Nat.zero_le _

theorem head_drop_mem {c : Char} : ∀ {s : List Char} {k : Nat}, (s.drop k).head? = some c → c ∈ s
  | [], k, h => by simp at h
  | d :: ds, 0, h => by
    simp only [List.drop_zero, List.head?_cons, Option.some.injEq] at h
    simp [h]
  | d :: ds, k + 1, h => by
    simp only [List.drop_succ_cons] at h
    exact List.mem_cons_of_mem _ (head_drop_mem h)

theorem all_of_all {p q : Char → Bool} (hpq : ∀ c, p c = true → q c = true) {s : List Char}
    (h : s.all p = true) : s.all q = true := by
  simp only [List.all_eq_true] at h ⊢
  exact fun c hc => hpq c (h c hc)

/-! ### what the shape gives -/

theorem shaped_ne_nil {n : List Char} (h : VariableShaped n = true) : n ≠ [] := by
  intro hn; subst hn; revert h; decide

theorem shaped_all_word {n : List Char} (h : VariableShaped n = true) : n.all isWord = true := by
  simp only [VariableShaped, Bool.and_eq_true, Bool.or_eq_true] at h
  rcases h.2 with h1 | h2
  · match n, h1 with
    | c :: d :: rest, h1 =>
      simp only [Bool.and_eq_true] at h1
      simp only [List.all_cons, Bool.and_eq_true]
      exact ⟨isAlpha_isWord h1.1, by simpa using h1.2⟩
  · exact all_of_all (fun _ => isAlphaUnderscore_isWord) h2.2

theorem shaped_not_cellPrefix {n : List Char} (h : VariableShaped n = true) : cellPrefix n = false := by
  simp only [VariableShaped, Bool.and_eq_true, Bool.not_eq_true'] at h
  exact h.1

/-! ### the token rules at the start of a shaped name -/

theorem spanLen_cons_true {p : Char → Bool} {c : Char} (cs : List Char) (h : p c = true) :
    spanLen p (c :: cs) = spanLen p cs + 1 := by simp [spanLen, h]

theorem spanLen_cons_false {p : Char → Bool} {c : Char} (cs : List Char) (h : p c = false) :
    spanLen p (c :: cs) = 0 := by simp [spanLen, h]

theorem matchLettersDigits_none : ∀ {s : List Char}, cellPrefix s = false → matchLettersDigits s = none
  | [], _ => by simp [matchLettersDigits, spanLen]
  | [c], _ => by
    by_cases hc : isAlpha c = true <;> simp [matchLettersDigits, spanLen, hc]
  | c :: d :: rest, h => by
    by_cases hc : isAlpha c = true
    · simp only [cellPrefix, hc, Bool.true_and, Bool.or_eq_false_iff] at h
      have ih := matchLettersDigits_none h.2
      have key : spanLen isDigit ((d :: rest).drop (spanLen isAlpha (d :: rest))) = 0 := by
        by_cases ha : spanLen isAlpha (d :: rest) = 0
        · rw [ha, List.drop_zero, spanLen_cons_false _ h.1]
        · simp only [matchLettersDigits, ha, if_false] at ih
          split at ih
          · assumption
          · simp at ih
      simp only [matchLettersDigits]
      rw [spanLen_cons_true _ hc, List.drop_succ_cons, key]
      simp
    · have hc' : isAlpha c = false := by simpa using hc
      simp [matchLettersDigits, spanLen_cons_false _ hc']

theorem matchSpace_none {s : List Char} (hw : s.all isWord = true) : matchSpan isSpace s = none := by
  cases s with
  | nil => simp [matchSpan, spanLen]
  | cons c cs =>
    simp only [List.all_cons, Bool.and_eq_true] at hw
    simp [matchSpan, spanLen, isWord_not_isSpace hw.1]

theorem matchString_none {s : List Char} (hw : s.all isWord = true) : matchString s = none := by
  cases s with
  | nil => simp [matchString]
  | cons c cs =>
    simp only [List.all_cons, Bool.and_eq_true] at hw
    obtain ⟨_, _, _, h4, h5⟩ := isWord_not_special hw.1
    unfold matchString
    split
    · rename_i heq; simp only [List.cons.injEq] at heq; exact absurd heq.1 h4
    · rename_i heq; simp only [List.cons.injEq] at heq; exact absurd heq.1 h5
    · rfl

theorem matchXlError_none {s : List Char} (hw : s.all isWord = true) : matchXlError s = none := by
  cases s with
  | nil => simp [matchXlError]
  | cons c cs =>
    simp only [List.all_cons, Bool.and_eq_true] at hw
    obtain ⟨_, _, h3, _, _⟩ := isWord_not_special hw.1
    unfold matchXlError
    split
    · rename_i heq; simp only [List.cons.injEq] at heq; exact absurd heq.1 h3
    · rfl

theorem matchAbsoluteCell_none {s : List Char} (hw : s.all isWord = true) : matchAbsoluteCell s = none := by
  cases s with
  | nil => simp [matchAbsoluteCell]
  | cons c cs =>
    simp only [List.all_cons, Bool.and_eq_true] at hw
    obtain ⟨_, h2, _, _, _⟩ := isWord_not_special hw.1
    unfold matchAbsoluteCell
    split
    · rename_i heq; simp only [List.cons.injEq] at heq; exact absurd heq.1 h2
    · rfl

theorem not_dollar_after {s : List Char} (hw : s.all isWord = true) (k : Nat) (c : Char)
    (h : (s.drop k).head? = some c) : isWord c = true := by
  simp only [List.all_eq_true] at hw
  exact hw c (head_drop_mem h)

theorem matchMixedCell_none {s : List Char} (hw : s.all isWord = true) : matchMixedCell s = none := by
  unfold matchMixedCell
  split
  · rename_i rest
    simp only [List.all_cons, Bool.and_eq_true] at hw
    exact absurd rfl (isWord_not_special hw.1).2.1
  · simp only
    split
    · rfl
    · split
      · rename_i r2 heq
        have : ((s.drop (spanLen isAlpha s)).head?) = some '$' := by rw [heq]; rfl
        have hw' := not_dollar_after hw _ _ this
        exact absurd rfl (isWord_not_special hw').2.1
      · rfl

theorem matchFunction_none {s : List Char} (hw : s.all isWord = true) : matchFunction s = none := by
  have hp : ∀ k : Nat, s[k]? ≠ some '(' := by
    intro k h
    have hm : '(' ∈ s := List.mem_of_getElem? h
    simp only [List.all_eq_true] at hw
    exact absurd rfl (isWord_not_special (hw _ hm)).1
  unfold matchFunction
  simp only [List.head?_drop]
  cases s with
  | nil => simp [spanLen]
  | cons c cs => simp [hp]

theorem matchVariable_shaped {n : List Char} (h : VariableShaped n = true) :
    matchVariable n = some n.length := by
  have hw := shaped_all_word h
  have hlen : spanLen isWord n = n.length := spanLen_all hw
  simp only [VariableShaped, Bool.and_eq_true, Bool.or_eq_true] at h
  unfold matchVariable
  simp only [hlen]
  cases n with
  | nil => simp at h
  | cons c cs =>
    simp only
    by_cases hc : (isAlpha c && decide ((c :: cs).length ≥ 2)) = true
    · rw [if_pos hc]
    · rw [if_neg hc]
      rcases h.2 with h1 | h2
      · cases cs with
        | nil => simp at h1
        | cons d rest =>
          simp only [Bool.and_eq_true] at h1
          simp [h1.1] at hc
      · rw [spanLen_all h2.2]
        simp

/-- the rule order of ply's master regular expression, from the generated table -/
theorem ruleOrder_eq : ruleOrder =
    [.WHITESPACE, .STRING, .FUNCTION, .XLERROR, .ABSOLUTE_CELL, .MIXED_CELL, .RELATIVE_CELL, .VARIABLE,
     .NUMBER, .LBRACKET, .RBRACKET, .AMP, .SINGLESPACE, .DECIMAL, .COLON, .SEMICOLON, .COMMA, .BACKSLASH,
     .MULT, .DIV, .MINUS, .PLUS, .CARET, .LPAREN, .RPAREN, .NOTEQUAL, .GREATEREQ, .LESSEQ, .GREATER,
     .LESS, .QUOTATION, .APOSTROPHE, .EXCLAMATION, .EQUAL, .PERCENT, .HASH] := by
  decide +kernel

/-- at the start of a shaped name the first rule (in master order) that matches is VARIABLE, and
    it matches the whole name -/
theorem lexOne_shaped {n : List Char} (h : VariableShaped n = true) :
    lexOne ruleOrder n = some (.VARIABLE, n.length) := by
  have hw := shaped_all_word h
  have hne := shaped_ne_nil h
  have hlen : n.length ≠ 0 := by
    cases n with
    | nil => exact absurd rfl hne
    | cons => simp
  simp only [ruleOrder_eq, lexOne, List.findSome?_cons, matchTok, matchSpace_none hw, matchString_none hw,
    matchFunction_none hw, matchXlError_none hw, matchAbsoluteCell_none hw, matchMixedCell_none hw,
    matchLettersDigits_none (shaped_not_cellPrefix h), matchVariable_shaped h, hlen, if_false]

/-- a shaped name is exactly one VARIABLE token carrying the name -/
theorem tokenize_shaped {n : List Char} (h : VariableShaped n = true) :
    tokenize n = [⟨.VARIABLE, n⟩] := by
  have hne := shaped_ne_nil h
  cases n with
  | nil => exact absurd rfl hne
  | cons c cs =>
    have h1 := lexOne_shaped h
    have ht : (c :: cs).take (c :: cs).length = c :: cs := List.take_length
    have hd : (c :: cs).drop (c :: cs).length = [] := List.drop_length
    have hnil : ∀ k, tokenizeAux ruleOrder k [] = [] := by
      intro k; cases k <;> rfl
    unfold tokenize
    simp only [tokenizeAux, h1, ht, hd, hnil, reduceCtorEq, if_false]

/-- the formula consisting of a shaped name parses to the variable node of that name -/
theorem parseFormula_shaped {n : List Char} (h : VariableShaped n = true) :
    parseFormula n = .ok (.var [n]) := by
  unfold parseFormula
  rw [tokenize_shaped h]
  rfl

/-! ### environments after `set_variable` / `set_function` -/

/-- `Parser.set_variable(name, v)`: `self.variables[name] = v` -/
def setVariable (env : Env) (name : List Char) (v : Value) : Env :=
  { env with vars := fun k => if k = name then some v else env.vars k }

/-- `Parser.set_function(name, f)`: `self.functions[name] = f` -/
def setFunction (env : Env) (name : List Char) (f : HostFn) : Env :=
  { env with custom := fun k => if k = name then some f else env.custom k }

/-! ### contexts: an expression tree with one hole -/

/-- an expression with one hole: the hole may be an operand of a binary operator (either side),
    the operand of unary minus, an argument of a call or an element of an array (in either row,
    at any index), at any depth -/
inductive Ctx where
  | hole
  | neg (c : Ctx)
  | binL (op : BinOp) (c : Ctx) (r : Expr)
  | binR (op : BinOp) (l : Expr) (c : Ctx)
  | callA (name : List Char) (kind : SeqKind) (pre : List Expr) (c : Ctx) (post b : List Expr)
  | callB (name : List Char) (kind : SeqKind) (a pre : List Expr) (c : Ctx) (post : List Expr)
  | arrA (kind : SeqKind) (pre : List Expr) (c : Ctx) (post b : List Expr)
  | arrB (kind : SeqKind) (a pre : List Expr) (c : Ctx) (post : List Expr)

/-- put `e` into the hole -/
def Ctx.fill : Ctx → Expr → Expr
  | .hole, e => e
  | .neg c, e => .neg (c.fill e)
  | .binL op c r, e => .bin op (c.fill e) r
  | .binR op l c, e => .bin op l (c.fill e)
  | .callA n k pre c post b, e => .call n k (pre ++ c.fill e :: post) b
  | .callB n k a pre c post, e => .call n k a (pre ++ c.fill e :: post)
  | .arrA k pre c post b, e => .arr k (pre ++ c.fill e :: post) b
  | .arrB k a pre c post, e => .arr k a (pre ++ c.fill e :: post)

/-- nesting depth of the hole -/
def Ctx.depth : Ctx → Nat
  | .hole => 0
  | .neg c => c.depth + 1
  | .binL _ c _ => c.depth + 1
  | .binR _ _ c => c.depth + 1
  | .callA _ _ _ c _ _ => c.depth + 1
  | .callB _ _ _ _ c _ => c.depth + 1
  | .arrA _ _ c _ _ => c.depth + 1
  | .arrB _ _ _ c _ => c.depth + 1

/-- everything that is evaluated BEFORE the hole (left operands, earlier arguments / elements, on
    every level) evaluates normally: `some log'` = the event log at the moment the evaluation
    reaches the hole; `none` = something before the hole raised -/
def Ctx.before (env : Env) : Ctx → Log → Option Log
  | .hole, log => some log
  | .neg c, log => c.before env log
  | .binL _ c _, log => c.before env log
  | .binR _ l c, log =>
    match evalExpr env l log with
    | (.ok _, log1) => c.before env log1
    | (.error _, _) => none
  | .callA _ _ pre c _ _, log =>
    match evalList env pre log with
    | (.ok _, log1) => c.before env log1
    | (.error _, _) => none
  | .callB _ _ a pre c _, log =>
    match evalList env a log with
    | (.ok _, log1) =>
      (match evalList env pre log1 with
       | (.ok _, log2) => c.before env log2
       | (.error _, _) => none)
    | (.error _, _) => none
  | .arrA _ pre c _ _, log =>
    match evalList env pre log with
    | (.ok _, log1) => c.before env log1
    | (.error _, _) => none
  | .arrB _ a pre c _, log =>
    match evalList env a log with
    | (.ok _, log1) =>
      (match evalList env pre log1 with
       | (.ok _, log2) => c.before env log2
       | (.error _, _) => none)
    | (.error _, _) => none

/-- an exception raised by an element aborts the evaluation of the list -/
theorem evalList_abort (env : Env) {e : Expr} {post : List Expr} {x : Exn} {l : Log} :
    ∀ {pre : List Expr} {log log1 : Log} {vs : List Value},
      evalList env pre log = (.ok vs, log1) → evalExpr env e log1 = (.error x, l) →
      evalList env (pre ++ e :: post) log = (.error x, l)
  | [], log, log1, vs, hpre, he => by
    simp only [evalList, Prod.mk.injEq] at hpre
    obtain ⟨_, rfl⟩ := hpre
    simp only [List.nil_append, evalList, he]
  | p :: ps, log, log1, vs, hpre, he => by
    simp only [evalList] at hpre
    rcases hp : evalExpr env p log with ⟨x1 | v1, l1⟩
    · simp [hp] at hpre
    · simp only [hp] at hpre
      rcases hps : evalList env ps l1 with ⟨x2 | v2, l2⟩
      · simp [hps] at hpre
      · simp only [hps, Prod.mk.injEq] at hpre
        obtain ⟨_, rfl⟩ := hpre
        simp only [List.cons_append, evalList, hp, evalList_abort env hps he]

/-- **abort propagation**: if the evaluation reaches the hole (everything before it evaluated
    normally) and the expression in the hole raises `x`, the whole expression raises the same `x`,
    with the event log of that moment — whatever stands after the hole, at any depth -/
theorem abort_in_context (env : Env) (e : Expr) (x : Exn) (l : Log) :
    ∀ (c : Ctx) (log logH : Log), c.before env log = some logH →
      evalExpr env e logH = (.error x, l) → evalExpr env (c.fill e) log = (.error x, l)
  | .hole, log, logH, hb, he => by
    simp only [Ctx.before, Option.some.injEq] at hb
    subst hb
    exact he
  | .neg c, log, logH, hb, he => by
    simp only [Ctx.fill, evalExpr, abort_in_context env e x l c log logH hb he]
  | .binL op c r, log, logH, hb, he => by
    simp only [Ctx.fill, evalExpr, abort_in_context env e x l c log logH hb he]
  | .binR op lft c, log, logH, hb, he => by
    simp only [Ctx.before] at hb
    rcases hl : evalExpr env lft log with ⟨x1 | v1, l1⟩
    · simp [hl] at hb
    · simp only [hl] at hb
      simp only [Ctx.fill, evalExpr, hl, abort_in_context env e x l c l1 logH hb he]
  | .callA n k pre c post b, log, logH, hb, he => by
    simp only [Ctx.before] at hb
    rcases hl : evalList env pre log with ⟨x1 | v1, l1⟩
    · simp [hl] at hb
    · simp only [hl] at hb
      simp only [Ctx.fill, evalExpr,
        evalList_abort env hl (abort_in_context env e x l c l1 logH hb he)]
  | .callB n k a pre c post, log, logH, hb, he => by
    simp only [Ctx.before] at hb
    rcases ha : evalList env a log with ⟨x0 | v0, l0⟩
    · simp [ha] at hb
    · simp only [ha] at hb
      rcases hl : evalList env pre l0 with ⟨x1 | v1, l1⟩
      · simp [hl] at hb
      · simp only [hl] at hb
        simp only [Ctx.fill, evalExpr, ha,
          evalList_abort env hl (abort_in_context env e x l c l1 logH hb he)]
  | .arrA k pre c post b, log, logH, hb, he => by
    simp only [Ctx.before] at hb
    rcases hl : evalList env pre log with ⟨x1 | v1, l1⟩
    · simp [hl] at hb
    · simp only [hl] at hb
      simp only [Ctx.fill, evalExpr,
        evalList_abort env hl (abort_in_context env e x l c l1 logH hb he)]
  | .arrB k a pre c post, log, logH, hb, he => by
    simp only [Ctx.before] at hb
    rcases ha : evalList env a log with ⟨x0 | v0, l0⟩
    · simp [ha] at hb
    · simp only [ha] at hb
      rcases hl : evalList env pre l0 with ⟨x1 | v1, l1⟩
      · simp [hl] at hb
      · simp only [hl] at hb
        simp only [Ctx.fill, evalExpr, ha,
          evalList_abort env hl (abort_in_context env e x l c l1 logH hb he)]

/-! ### the record of a `#NAME?` abort -/

theorem toErr_name : (Exn.xl .name).toErr = .name := by decide +kernel

theorem finish_name : ∀ r : Record, r = finish (.error (.xl .name)) → r.result = none ∧ r.error = some .name := by
  intro r hr
  subst hr
  exact ⟨rfl, by simp only [finish, toErr_name]⟩

/-! ### the event log only grows; one `.fn` event per call site -/

def isFnEvent : Event → Bool
  | .fn _ _ => true
  | _ => false

/-- number of function-call events in a piece of the log -/
def countFn (evs : List Event) : Nat := (evs.filter isFnEvent).length

mutual
/-- number of call sites (`NAME(…)` nodes) in a tree -/
def callSites : Expr → Nat
  | .neg e => callSites e
  | .bin _ l r => callSites l + callSites r
  | .call _ _ a b => callSitesL a + callSitesL b + 1
  | .arr _ a b => callSitesL a + callSitesL b
  | _ => 0
def callSitesL : List Expr → Nat
  | [] => 0
  | e :: es => callSites e + callSitesL es
end

/-- `log'` is `log` followed by new events, `n` of which are function calls -/
def Grows (n : Nat) (log log' : Log) : Prop := ∃ evs, log' = log ++ evs ∧ countFn evs = n

theorem Grows.refl (log : Log) : Grows 0 log log := ⟨[], by simp, rfl⟩

theorem Grows.trans {a b : Nat} {l1 l2 l3 : Log} (h1 : Grows a l1 l2) (h2 : Grows b l2 l3) :
    Grows (a + b) l1 l3 := by
  obtain ⟨e1, rfl, c1⟩ := h1
  obtain ⟨e2, rfl, c2⟩ := h2
  exact ⟨e1 ++ e2, by simp, by simp [countFn, List.filter_append] at *; omega⟩

theorem Grows.fn (log : Log) (n : List Char) (a : List Value) : Grows 1 log (log ++ [.fn n a]) :=
  ⟨[.fn n a], rfl, rfl⟩

theorem Grows.other (log : Log) (ev : Event) (h : isFnEvent ev = false) : Grows 0 log (log ++ [ev]) :=
  ⟨[ev], rfl, by simp [countFn, h]⟩

theorem callVariable_ok {env : Env} {n : List Char} {log log' : Log} {v : Value}
    (h : callVariable env n log = (.ok v, log')) : log' = log ++ [.var n] := by
  unfold callVariable at h
  simp only at h
  split at h
  · simp only [Prod.mk.injEq] at h; exact h.2.symm
  · split at h
    · simp only [Prod.mk.injEq] at h; exact h.2.symm
    · simp at h

theorem callFunction_ok {env : Env} {n : List Char} {args : List Value} {log log' : Log} {v : Value}
    (h : callFunction env n args log = (.ok v, log')) : log' = log ++ [.fn n args] := by
  unfold callFunction at h
  simp only at h
  split at h
  · simp at h
  · split at h
    · simp only [Prod.mk.injEq] at h; exact h.2.symm
    · simp at h
    · simp only [Prod.mk.injEq] at h; exact h.2.symm

theorem callCell_ok {env : Env} {lab : List Char} {log log' : Log} {v : Value}
    (h : callCell env lab log = (.ok v, log')) : ∃ ev, isFnEvent ev = false ∧ log' = log ++ [ev] := by
  unfold callCell at h
  simp only at h
  split at h
  · simp at h
  · simp only [Prod.mk.injEq] at h; exact ⟨_, rfl, h.2.symm⟩

theorem callRange_ok {env : Env} {a b : List Char} {log log' : Log} {v : Value}
    (h : callRange env a b log = (.ok v, log')) : ∃ ev, isFnEvent ev = false ∧ log' = log ++ [ev] := by
  unfold callRange at h
  simp only at h
  split at h
  · simp only [Prod.mk.injEq] at h; exact ⟨_, rfl, h.2.symm⟩
  · simp at h

/-- a successful evaluation appends events to the log (never rewrites it), and exactly one of the
    new events per call site of the tree is a function-call event -/
theorem grows_callSites (env : Env) :
    (∀ (e : Expr) (log : Log), ∀ v log', evalExpr env e log = (.ok v, log') → Grows (callSites e) log log') ∧
    (∀ (es : List Expr) (log : Log), ∀ vs log', evalList env es log = (.ok vs, log') → Grows (callSitesL es) log log') := by
  apply evalExpr.mutual_induct env
    (fun e log => ∀ v log', evalExpr env e log = (.ok v, log') → Grows (callSites e) log log')
    (fun es log => ∀ vs log', evalList env es log = (.ok vs, log') → Grows (callSitesL es) log log')
  -- num, str, errLit, blankSlot
  · intro l log hbig v log' h
    simp [evalExpr, hbig] at h
  · intro l log hbig v log' h
    simp only [evalExpr, hbig, Bool.false_eq_true, if_false, Prod.mk.injEq] at h
    simp only [callSites]; rw [← h.2]; exact Grows.refl _
  · intro s log v log' h
    simp only [evalExpr, Prod.mk.injEq] at h
    simp only [callSites]; rw [← h.2]; exact Grows.refl _
  · intro t log v log' h
    simp [evalExpr] at h
  · intro log v log' h
    simp only [evalExpr, Prod.mk.injEq] at h
    simp only [callSites]; rw [← h.2]; exact Grows.refl _
  -- neg
  · intro e log x l1 he _ v log' h
    simp [evalExpr, he] at h
  · intro e log v1 l1 he r hr ih v log' h
    simp only [evalExpr, he, hr, Prod.mk.injEq] at h
    simp only [callSites]; rw [← h.2]; exact ih _ _ he
  · intro e log v1 l1 he e1 hr ih v log' h
    simp [evalExpr, he, hr] at h
  -- bin
  · intro op l r log x l1 hl _ v log' h
    simp [evalExpr, hl] at h
  · intro op l r log v1 l1 hl x l2 hr _ _ v log' h
    simp [evalExpr, hl, hr] at h
  · intro op l r log v1 l1 hl v2 l2 hr ihl ihr v log' h
    simp only [evalExpr, hl, hr, Prod.mk.injEq] at h
    simp only [callSites]; rw [← h.2]; exact (ihl _ _ hl).trans (ihr _ _ hr)
  -- call
  · intro n k a b log x l1 ha _ v log' h
    simp [evalExpr, ha] at h
  · intro n k a b log av l1 ha x l2 hb _ _ v log' h
    simp [evalExpr, ha, hb] at h
  · intro n k a b log av l1 ha bv l2 hb iha ihb v log' h
    simp only [evalExpr, ha, hb] at h
    simp only [callSites]; rw [callFunction_ok h]
    exact ((iha _ _ ha).trans (ihb _ _ hb)).trans (Grows.fn _ _ _)
  -- arr
  · intro k a b log x l1 ha _ v log' h
    simp [evalExpr, ha] at h
  · intro k a b log av l1 ha x l2 hb _ _ v log' h
    simp [evalExpr, ha, hb] at h
  · intro k a b log av l1 ha bv l2 hb iha ihb v log' h
    simp only [evalExpr, ha, hb, Prod.mk.injEq] at h
    simp only [callSites]; rw [← h.2]; exact (iha _ _ ha).trans (ihb _ _ hb)
  -- var, cell, range
  · intro names log v log' h
    simp only [evalExpr] at h
    simp only [callSites]; rw [callVariable_ok h]; exact Grows.other _ _ rfl
  · intro lab log v log' h
    simp only [evalExpr] at h
    obtain ⟨ev, hev, rfl⟩ := callCell_ok h
    simp only [callSites]; exact Grows.other _ _ hev
  · intro a b log v log' h
    simp only [evalExpr] at h
    obtain ⟨ev, hev, rfl⟩ := callRange_ok h
    simp only [callSites]; exact Grows.other _ _ hev
  -- lists
  · intro log vs log' h
    simp only [evalList, Prod.mk.injEq] at h
    simp only [callSitesL]; rw [← h.2]; exact Grows.refl _
  · intro e es log x l1 he _ vs log' h
    simp [evalList, he] at h
  · intro e es log v1 l1 he x l2 hes _ _ vs log' h
    simp [evalList, he, hes] at h
  · intro e es log v1 l1 he bv l2 hes ihe ihes vs log' h
    simp only [evalList, he, hes, Prod.mk.injEq] at h
    simp only [callSitesL]; rw [← h.2]; exact (ihe _ _ he).trans (ihes _ _ hes)

end HotXL.Names
