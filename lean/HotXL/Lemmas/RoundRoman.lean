/-
  HotXL.Lemmas.RoundRoman — roman numerals for property C17: the independent reading `denote`,
  evaluation of ROMAN / ARABIC on integer arguments, and the range-lifting lemma for the
  kernel-decided chunks (HotXL.Lemmas.RoundRomanA/B/C).
-/
import HotXL.Lemmas.Round

namespace HotXL.Lemmas.Round
open HotXL HotXL.Ops HotXL.Fn HotXL.Fn.Round

/-- value of a roman symbol -/
def symVal (c : Char) : Nat :=
  if c = 'I' then 1 else if c = 'V' then 5 else if c = 'X' then 10 else if c = 'L' then 50
  else if c = 'C' then 100 else if c = 'D' then 500 else if c = 'M' then 1000 else 0

/-- the additive/subtractive reading of a roman numeral: every symbol counts with its value,
    negatively when it is placed directly before a larger symbol -/
def denote : List Char → Int
  | [] => 0
  | [c] => (symVal c : Int)
  | c :: d :: r => (if symVal c < symVal d then -(symVal c : Int) else (symVal c : Int)) + denote (d :: r)

/-- sum of the symbols that are not followed by a larger one -/
def plusSum : List Char → Nat
  | [] => 0
  | [c] => symVal c
  | c :: d :: r => (if symVal c < symVal d then 0 else symVal c) + plusSum (d :: r)

/-- sum of the symbols placed before a larger one -/
def minusSum : List Char → Nat
  | [] => 0
  | [_] => 0
  | c :: d :: r => (if symVal c < symVal d then symVal c else 0) + minusSum (d :: r)

theorem denote_eq (s : List Char) : denote s = (plusSum s : Int) - (minusSum s : Int) := by
  induction s with
  | nil => rfl
  | cons c r ih =>
    cases r with
    | nil => simp [denote, plusSum, minusSum]
    | cons d r =>
      simp only [denote, plusSum, minusSum, ih]
      split <;> simp <;> omega

/-- the numeral printed for `n` in conciseness form `f` denotes `n` (as a kernel-decidable Bool) -/
def denotesOK (f n : Nat) : Bool :=
  let s := romanLoop (numerals (some (f + 1))) n
  plusSum s == n + minusSum s

theorem denote_of_ok {f n : Nat} (h : denotesOK f n = true) :
    denote (romanLoop (numerals (some (f + 1))) n) = (n : Int) := by
  simp only [denotesOK, beq_iff_eq] at h
  rw [denote_eq, h]; push_cast; omega

/-- `ARABIC` on text that is already upper case: the number, or `none` for `#VALUE!` -/
def arabicOf (s : List Char) : Option Nat := if arabicMatch s then some (arabicSum s) else none

/-- the classic numeral of `n` is accepted by ARABIC and read back as `n` -/
def arabicOK (n : Nat) : Bool :=
  arabicOf ((romanLoop (numerals (some 1)) n).map upperAscii) == some n

theorem lift4 (P : Nat → Prop) (h0 : ∀ j, j < 1000 → P (j + 1)) (h1 : ∀ j, j < 1000 → P (j + 1001))
    (h2 : ∀ j, j < 1000 → P (j + 2001)) (h3 : ∀ j, j < 999 → P (j + 3001)) : ∀ n, 1 ≤ n → n ≤ 3999 → P n := by
  intro n hn1 hn2
  by_cases c0 : n ≤ 1000
  · have := h0 (n - 1) (by omega); rwa [show n - 1 + 1 = n by omega] at this
  · by_cases c1 : n ≤ 2000
    · have := h1 (n - 1001) (by omega); rwa [show n - 1001 + 1001 = n by omega] at this
    · by_cases c2 : n ≤ 3000
      · have := h2 (n - 2001) (by omega); rwa [show n - 2001 + 2001 = n by omega] at this
      · have := h3 (n - 3001) (by omega); rwa [show n - 3001 + 3001 = n by omega] at this

/-! ### evaluation of ROMAN / ARABIC -/

theorem roman_int (n f : Int) (h1 : 1 ≤ n) (h2 : n ≤ 3999) (hf0 : 0 ≤ f) (hf4 : f ≤ 4) :
    ROMAN [.num (.int n), .num (.int f)] = .ok (.str (romanLoop (numerals (some (f + 1).toNat)) n.toNat)) := by
  have a1 : (0 : Rat) < (n : Rat) := by exact_mod_cast (show (0 : Int) < n by omega)
  have a2 : (n : Rat) < 4000 := by exact_mod_cast (show n < 4000 by omega)
  have a3 : (0 : Rat) ≤ (f : Rat) := by exact_mod_cast hf0
  have a4 : (f : Rat) ≤ 4 := by exact_mod_cast hf4
  simp only [ROMAN, romanCore, parseNumber_num, Num.toRat, Generated.romanLimit, Generated.romanMaxForm, compressOf, integral?]
  simp [a1, a2, a3, a4]

theorem roman_int_default (n : Int) (h1 : 1 ≤ n) (h2 : n ≤ 3999) :
    ROMAN [.num (.int n)] = .ok (.str (romanLoop (numerals (some 1)) n.toNat)) := by
  have a1 : (0 : Rat) < (n : Rat) := by exact_mod_cast (show (0 : Int) < n by omega)
  have a2 : (n : Rat) < 4000 := by exact_mod_cast (show n < 4000 by omega)
  simp only [ROMAN, romanCore, parseNumber_num, Num.toRat, Generated.romanLimit, Generated.romanMaxForm, compressOf, integral?]
  simp [a1, a2]

theorem arabic_str (s : List Char) :
    ARABIC [.str s] = match arabicOf (s.map upperAscii) with
      | some v => .ok (.num (.int (v : Int)))
      | none => .ok (.err .value) := by
  simp only [ARABIC, pyStrOf, arabicOf]
  split <;> simp_all

end HotXL.Lemmas.Round
