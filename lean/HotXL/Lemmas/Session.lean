/-
  Helper lemmas about `HotXL.Session` (the process/session model) used by `HotXL.Props.C02`.
-/
import HotXL.Model.Session

namespace HotXL.Session
open HotXL HotXL.Eval HotXL.Syntax HotXL.Lexer

/-! ### the one hidden field the code reads does not matter -/

/-- the first syntax error of a parse is met with `errorcount = 0`: `p_error` is called whatever
    `errorok` was left at by earlier parses -/
theorem pErrorEntered_zero (b : Bool) : pErrorEntered 0 b = true := by
  simp [pErrorEntered]

theorem evalRun_eq (b : Bindings) (h : ParserHidden) (f : List Char) :
    evalRun b h f = { record := (parseTop b.env f).1, log := (parseTop b.env f).2, top := topExn b.env f } := by
  simp [evalRun, pErrorEntered_zero]

/-! ### outcome of a `parse` step -/

/-- the outcome of `parse pid f` as a function of the bindings of `pid` alone -/
def outOf (ob : Option Bindings) (f : List Char) : Out :=
  match ob with
  | none => .noParser
  | some b => .record (parseTop b.env f).1 (parseTop b.env f).2

theorem stepWith_parse_none {l : Bool} {σ : State} {pid : Nat} {f : List Char}
    (h : σ.parsers[pid]? = none) : stepWith l σ (.parse pid f) = (σ, .noParser) := by
  simp only [stepWith, h]

theorem stepWith_parse_some {l : Bool} {σ : State} {pid : Nat} {f : List Char} {p : ParserSt}
    (h : σ.parsers[pid]? = some p) :
    stepWith l σ (.parse pid f) =
      ({ parsers := σ.parsers.set pid { p with hidden := hiddenAfter p.hidden f (topExn p.bindings.env f).isSome },
         glob := { σ.glob with
           tbLen := (caughtInCalls p.bindings.env (parseTop p.bindings.env f).2 ++ (topExn p.bindings.env f).toList).foldl
                      (raiseAndHandle l) σ.glob.tbLen,
           stderr := if p.bindings.debug then
                       σ.glob.stderr ++ (caughtInCalls p.bindings.env (parseTop p.bindings.env f).2 ++
                         (topExn p.bindings.env f).toList).map describe
                     else σ.glob.stderr } },
       .record (parseTop p.bindings.env f).1 (parseTop p.bindings.env f).2) := by
  simp only [stepWith, h, evalRun_eq]

theorem out_parse (l : Bool) (σ : State) (pid : Nat) (f : List Char) :
    (stepWith l σ (.parse pid f)).2 = outOf (bindings pid σ) f := by
  unfold bindings outOf
  cases h : σ.parsers[pid]? with
  | none => rw [stepWith_parse_none h]; rfl
  | some p => rw [stepWith_parse_some h]; rfl

/-! ### a `parse` step writes hidden state only -/

theorem bindings_parse (l : Bool) (σ : State) (pid q : Nat) (f : List Char) :
    bindings q (stepWith l σ (.parse pid f)).1 = bindings q σ := by
  unfold bindings
  cases h : σ.parsers[pid]? with
  | none => rw [stepWith_parse_none h]
  | some p =>
    rw [stepWith_parse_some h]
    simp only [List.getElem?_set]
    by_cases hq : pid = q
    · subst hq
      obtain ⟨hlt, he⟩ := List.getElem?_eq_some_iff.mp h
      simp [hlt, ← he]
    · simp [hq]

theorem parsers_length_parse (l : Bool) (σ : State) (pid : Nat) (f : List Char) :
    (stepWith l σ (.parse pid f)).1.parsers.length = σ.parsers.length := by
  cases h : σ.parsers[pid]? with
  | none => rw [stepWith_parse_none h]
  | some p => rw [stepWith_parse_some h]; simp

/-- a history made of `parse` operations only -/
def ParseOnly (h : List Op) : Prop := ∀ op ∈ h, ∃ pid f, op = Op.parse pid f

/-- … of formulas of at most `L` characters -/
def ParseOnlyUpTo (L : Nat) (h : List Op) : Prop := ∀ op ∈ h, ∃ pid f, op = Op.parse pid f ∧ f.length ≤ L

theorem ParseOnlyUpTo.parseOnly {L : Nat} {h : List Op} (hp : ParseOnlyUpTo L h) : ParseOnly h := by
  intro op hop
  obtain ⟨pid, f, e, _⟩ := hp op hop
  exact ⟨pid, f, e⟩

theorem run_cons (op : Op) (h : List Op) (σ : State) : run (op :: h) σ = run h (step σ op).1 := rfl
theorem run_nil (σ : State) : run [] σ = σ := rfl
theorem run_append (h1 h2 : List Op) (σ : State) : run (h1 ++ h2) σ = run h2 (run h1 σ) := by
  simp [run, List.foldl_append]
theorem runLeaky_cons (op : Op) (h : List Op) (σ : State) :
    runLeaky (op :: h) σ = runLeaky h (stepLeaky σ op).1 := rfl

theorem bindings_run_parseOnly (h : List Op) (hp : ParseOnly h) (σ : State) (q : Nat) :
    bindings q (run h σ) = bindings q σ := by
  induction h generalizing σ with
  | nil => rfl
  | cons op h ih =>
    obtain ⟨pid, f, e⟩ := hp op (by simp)
    subst e
    rw [run_cons, ih (fun o ho => hp o (by simp [ho]))]
    exact bindings_parse false σ pid q f

/-! ### traceback chains -/

theorem raiseAndHandle_le (tb : Err → Nat) (x : Exn) (e : Err) :
    raiseAndHandle false tb x e ≤ tb e := by
  unfold raiseAndHandle
  cases singletonOf x with
  | none => exact Nat.le_refl _
  | some s =>
    simp only [Bool.false_eq_true, if_false, clearTb, bumpTb]
    split <;> simp

theorem foldl_raiseAndHandle_le (xs : List Exn) (tb : Err → Nat) (e : Err) :
    xs.foldl (raiseAndHandle false) tb e ≤ tb e := by
  induction xs generalizing tb with
  | nil => exact Nat.le_refl _
  | cons x xs ih =>
    simp only [List.foldl_cons]
    exact Nat.le_trans (ih _) (raiseAndHandle_le tb x e)

theorem raiseAndHandle_leaky_ge (tb : Err → Nat) (x : Exn) (e : Err) :
    tb e ≤ raiseAndHandle true tb x e := by
  unfold raiseAndHandle
  cases singletonOf x with
  | none => exact Nat.le_refl _
  | some s =>
    simp only [if_true, bumpTb]
    split <;> omega

theorem foldl_raiseAndHandle_leaky_ge (xs : List Exn) (tb : Err → Nat) (e : Err) :
    tb e ≤ xs.foldl (raiseAndHandle true) tb e := by
  induction xs generalizing tb with
  | nil => exact Nat.le_refl _
  | cons x xs ih =>
    simp only [List.foldl_cons]
    exact Nat.le_trans (raiseAndHandle_leaky_ge tb x e) (ih _)

theorem tbTotal_mono {a b : Err → Nat} (h : ∀ e, a e ≤ b e) : tbTotal a ≤ tbTotal b := by
  have h1 := h .error; have h2 := h .div0; have h3 := h .name; have h4 := h .na; have h5 := h .null
  have h6 := h .num; have h7 := h .ref; have h8 := h .value; have h9 := h .data
  simp only [tbTotal, Err.all, List.map_cons, List.map_nil, List.sum_cons, List.sum_nil]
  omega

/-- the traceback chains after a `parse` step of the repaired code are pointwise no longer than before -/
theorem tbLen_parse_le (σ : State) (pid : Nat) (f : List Char) (e : Err) :
    (step σ (.parse pid f)).1.glob.tbLen e ≤ σ.glob.tbLen e := by
  unfold step
  cases h : σ.parsers[pid]? with
  | none => rw [stepWith_parse_none h]; exact Nat.le_refl _
  | some p => rw [stepWith_parse_some h]; exact foldl_raiseAndHandle_le _ _ e

/-! ### size of what a parser retains -/

theorem tokenizeAux_length (rules : List TK) (fuel : Nat) (s : List Char) :
    (tokenizeAux rules fuel s).length ≤ fuel := by
  induction fuel generalizing s with
  | zero => simp [tokenizeAux]
  | succ n ih =>
    cases s with
    | nil => simp [tokenizeAux]
    | cons c cs =>
      rw [tokenizeAux.eq_3 _ _ _ (by simp)]
      split
      · simp
      · rename_i k m _
        have := ih ((c :: cs).drop m)
        simp only
        split
        · omega
        · simp only [List.length_cons]; omega

theorem tokenize_length (s : List Char) : (tokenize s).length ≤ s.length + 1 :=
  tokenizeAux_length _ _ _

theorem lrResidue_length (f : List Char) (a : Bool) : (lrResidue f a).length ≤ f.length + 2 := by
  unfold lrResidue
  split
  · have := tokenize_length f
    simp only [List.length_cons, List.length_map]; omega
  · simp

/-- after `parse f` the FormulaParser retains its prototype lexer plus at most `2·|f| + 4` units -/
theorem hiddenAfter_size (h : ParserHidden) (f : List Char) (a : Bool) (hf : ¬ f.isEmpty) :
    (hiddenAfter h f a).size ≤ h.protoLexer.size + (2 * f.length + 4) := by
  have := lrResidue_length f a
  simp only [hiddenAfter, hf, Bool.false_eq_true, if_false, ParserHidden.size, Option.map_some,
    Option.getD_some, LexerObj.size]
  omega

theorem hiddenAfter_proto (h : ParserHidden) (f : List Char) (a : Bool) :
    (hiddenAfter h f a).protoLexer = h.protoLexer := by
  unfold hiddenAfter; split <;> rfl

theorem proto_size_le (h : ParserHidden) : h.protoLexer.size ≤ h.size := by
  unfold ParserHidden.size; omega

/-- per-parser invariant of parse-only histories, relative to the initial parser `p0` -/
def Within (c : Nat) (p p0 : ParserSt) : Prop :=
  p.hidden.protoLexer = p0.hidden.protoLexer ∧ p.hidden.size ≤ p0.hidden.size + c

theorem within_refl (c : Nat) (p : ParserSt) : Within c p p := ⟨rfl, Nat.le_add_right _ _⟩

theorem within_after {c L : Nat} (hc : 2 * L + 4 ≤ c) {p p0 : ParserSt} (w : Within c p p0)
    (f : List Char) (hf : f.length ≤ L) (a : Bool) :
    Within c { p with hidden := hiddenAfter p.hidden f a } p0 := by
  refine ⟨by simpa [hiddenAfter_proto] using w.1, ?_⟩
  by_cases he : f.isEmpty
  · simpa [hiddenAfter, he] using w.2
  · have h1 := hiddenAfter_size p.hidden f a he
    have h2 := proto_size_le p0.hidden
    rw [w.1] at h1
    simp only
    omega

/-- pointwise relation of two lists of equal length (core Lean has no `List.Forall₂`) -/
inductive Rel2 {α β : Type} (R : α → β → Prop) : List α → List β → Prop where
  | nil : Rel2 R [] []
  | cons {a : α} {b : β} {l : List α} {m : List β} : R a b → Rel2 R l m → Rel2 R (a :: l) (b :: m)

theorem forall2_set {α β : Type} {R : α → β → Prop} {l : List α} {m : List β} (h : Rel2 R l m)
    (i : Nat) (a : α) (ha : ∀ b, m[i]? = some b → R a b) : Rel2 R (l.set i a) m := by
  induction h generalizing i with
  | nil => simpa using Rel2.nil
  | cons hab _ ih =>
    cases i with
    | zero => exact Rel2.cons (ha _ (by simp)) ‹_›
    | succ j => exact Rel2.cons hab (ih j (fun b hb => ha b (by simpa using hb)))

theorem forall2_get {α β : Type} {R : α → β → Prop} {l : List α} {m : List β} (h : Rel2 R l m)
    (i : Nat) (a : α) (b : β) (ha : l[i]? = some a) (hb : m[i]? = some b) : R a b := by
  induction h generalizing i with
  | nil => simp at ha
  | cons hab _ ih =>
    cases i with
    | zero => simp at ha hb; subst ha; subst hb; exact hab
    | succ j => exact ih j (by simpa using ha) (by simpa using hb)

theorem forall2_sum_le {c : Nat} {l m : List ParserSt} (h : Rel2 (Within c) l m) :
    (l.map (fun p => p.hidden.size)).sum ≤ (m.map (fun p => p.hidden.size)).sum + m.length * c := by
  induction h with
  | nil => simp
  | cons hab _ ih =>
    have := hab.2
    simp only [List.map_cons, List.sum_cons, List.length_cons, Nat.add_mul, Nat.one_mul]
    omega

theorem forall2_refl (c : Nat) (l : List ParserSt) : Rel2 (Within c) l l := by
  induction l with
  | nil => exact Rel2.nil
  | cons p l ih => exact Rel2.cons (within_refl c p) ih

theorem within_parse {c L : Nat} (hc : 2 * L + 4 ≤ c) {σ : State} {l0 : List ParserSt}
    (w : Rel2 (Within c) σ.parsers l0) (pid : Nat) (f : List Char) (hf : f.length ≤ L) :
    Rel2 (Within c) (step σ (.parse pid f)).1.parsers l0 := by
  unfold step
  cases h : σ.parsers[pid]? with
  | none => rw [stepWith_parse_none h]; exact w
  | some p =>
    rw [stepWith_parse_some h]
    refine forall2_set w pid _ (fun b hb => ?_)
    exact within_after hc (forall2_get w pid p b h hb) f hf _

end HotXL.Session
