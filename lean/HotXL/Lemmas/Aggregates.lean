/-
  HotXL.Lemmas.Aggregates — helper lemmas for property C11 (aggregates): flattening, exact sums and
  products of `Num`s, permutation invariance, sorting, the textbook identities.
-/
import HotXL.Model.Fn.Stat
import Mathlib.Tactic.Ring
import Mathlib.Tactic.FieldSimp
import Mathlib.Tactic.Linarith

namespace HotXL.Agg
open HotXL HotXL.Ops HotXL.Fn HotXL.Fn.Agg HotXL.Fn.Stat

/-! ### flattening -/

theorem flattenList_append (xs ys : List Value) :
    flattenList (xs ++ ys) = flattenList xs ++ flattenList ys := by
  induction xs with
  | nil => simp [flattenList]
  | cons x xs ih => simp [flattenList, ih]

theorem flattenList_cons (x : Value) (xs : List Value) :
    flattenList (x :: xs) = flattenValue x ++ flattenList xs := by
  simp [flattenList]

theorem flattenValue_arr (xs : List Value) : flattenValue (.arr xs) = flattenList xs := by
  simp [flattenValue]

theorem flattenList_singleton_arr (xs : List Value) : flattenList [.arr xs] = flattenList xs := by
  simp [flattenList, flattenValue]

/-- a value that is not a list -/
def isLeaf : Value → Bool
  | .arr _ => false
  | _ => true

theorem flattenValue_leaf {v : Value} (h : isLeaf v = true) : flattenValue v = [v] := by
  cases v <;> simp_all [flattenValue, isLeaf]

theorem flattenList_leaves {xs : List Value} (h : ∀ v ∈ xs, isLeaf v = true) : flattenList xs = xs := by
  induction xs with
  | nil => simp [flattenList]
  | cons x xs ih =>
    rw [flattenList_cons, flattenValue_leaf (h x (by simp)), ih (fun v hv => h v (by simp [hv]))]
    rfl

mutual
theorem flattenValue_all_leaf (v : Value) : ∀ w ∈ flattenValue v, isLeaf w = true := by
  cases v with
  | arr xs => rw [flattenValue_arr]; exact flattenList_all_leaf xs
  | _ => simp [flattenValue, isLeaf]
theorem flattenList_all_leaf (xs : List Value) : ∀ w ∈ flattenList xs, isLeaf w = true := by
  cases xs with
  | nil => simp [flattenList]
  | cons x xs =>
    rw [flattenList_cons]
    intro w hw
    rcases List.mem_append.mp hw with h | h
    · exact flattenValue_all_leaf x w h
    · exact flattenList_all_leaf xs w h
end

/-- flattening is idempotent -/
theorem flattenList_idem (xs : List Value) : flattenList (flattenList xs) = flattenList xs :=
  flattenList_leaves (flattenList_all_leaf xs)

/-! ### `Num`: type and value -/

theorem toRat_numAdd (a b : Num) : Num.toRat (numAdd a b) = Num.toRat a + Num.toRat b := by
  cases a <;> cases b <;> simp [numAdd, Num.toRat]

theorem toRat_numMul (a b : Num) : Num.toRat (numMul a b) = Num.toRat a * Num.toRat b := by
  cases a <;> cases b <;> simp [numMul, Num.toRat]

theorem isInt_numAdd (a b : Num) : isInt (numAdd a b) = (isInt a && isInt b) := by
  cases a <;> cases b <;> simp [numAdd, isInt]

theorem isInt_numMul (a b : Num) : isInt (numMul a b) = (isInt a && isInt b) := by
  cases a <;> cases b <;> simp [numMul, isInt]

/-- a Python number is determined by its type and its value -/
theorem num_ext {a b : Num} (ht : isInt a = isInt b) (hv : Num.toRat a = Num.toRat b) : a = b := by
  cases a <;> cases b <;> simp_all [isInt, Num.toRat]

/-! ### sums and products -/

theorem ratSum_append (xs ys : List Rat) : ratSum (xs ++ ys) = ratSum xs + ratSum ys := by
  induction xs with
  | nil => simp [ratSum]
  | cons x xs ih => simp [ratSum, ih]; ring

theorem ratProd_append (xs ys : List Rat) : ratProd (xs ++ ys) = ratProd xs * ratProd ys := by
  induction xs with
  | nil => simp [ratProd]
  | cons x xs ih => simp [ratProd, ih]; ring

theorem ratSum_perm {xs ys : List Rat} (h : xs.Perm ys) : ratSum xs = ratSum ys := by
  induction h with
  | nil => rfl
  | cons x _ ih => simp [ratSum, ih]
  | swap x y l => simp [ratSum]; ring
  | trans _ _ ih1 ih2 => exact ih1.trans ih2

theorem ratProd_perm {xs ys : List Rat} (h : xs.Perm ys) : ratProd xs = ratProd ys := by
  induction h with
  | nil => rfl
  | cons x _ ih => simp [ratProd, ih]
  | swap x y l => simp [ratProd]; ring
  | trans _ _ ih1 ih2 => exact ih1.trans ih2

theorem rats_perm {xs ys : List Num} (h : xs.Perm ys) : (rats xs).Perm (rats ys) := h.map _

theorem allInt_perm {xs ys : List Num} (h : xs.Perm ys) : allInt xs = allInt ys := by
  induction h with
  | nil => rfl
  | cons x _ ih => simp_all [allInt]
  | swap x y l => simp [allInt, Bool.and_left_comm]
  | trans _ _ ih1 ih2 => exact ih1.trans ih2

theorem foldl_numAdd_toRat (xs : List Num) (a : Num) :
    Num.toRat (xs.foldl numAdd a) = Num.toRat a + ratSum (rats xs) := by
  induction xs generalizing a with
  | nil => simp [rats, ratSum]
  | cons x xs ih => simp [ih, toRat_numAdd, rats, ratSum] ; ring

theorem foldl_numAdd_isInt (xs : List Num) (a : Num) :
    isInt (xs.foldl numAdd a) = (isInt a && allInt xs) := by
  induction xs generalizing a with
  | nil => simp [allInt]
  | cons x xs ih => simp [ih, isInt_numAdd, allInt, Bool.and_assoc]

theorem foldl_numMul_toRat (xs : List Num) (a : Num) :
    Num.toRat (xs.foldl numMul a) = Num.toRat a * ratProd (rats xs) := by
  induction xs generalizing a with
  | nil => simp [rats, ratProd]
  | cons x xs ih => simp [ih, toRat_numMul, rats, ratProd] ; ring

theorem foldl_numMul_isInt (xs : List Num) (a : Num) :
    isInt (xs.foldl numMul a) = (isInt a && allInt xs) := by
  induction xs generalizing a with
  | nil => simp [allInt]
  | cons x xs ih => simp [ih, isInt_numMul, allInt, Bool.and_assoc]

/-- value of Python's `sum` -/
theorem toRat_pySum (xs : List Num) : Num.toRat (pySum xs) = ratSum (rats xs) := by
  rw [pySum, foldl_numAdd_toRat]; simp [Num.toRat]

/-- type of Python's `sum`: an int exactly when every item is -/
theorem isInt_pySum (xs : List Num) : isInt (pySum xs) = allInt xs := by
  rw [pySum, foldl_numAdd_isInt]; simp [isInt]

theorem pySum_perm {xs ys : List Num} (h : xs.Perm ys) : pySum xs = pySum ys :=
  num_ext (by rw [isInt_pySum, isInt_pySum, allInt_perm h])
    (by rw [toRat_pySum, toRat_pySum, ratSum_perm (rats_perm h)])

theorem prodNums_cons (x : Num) (xs : List Num) :
    ∃ p, prodNums (x :: xs) = .ok p ∧ Num.toRat p = ratProd (rats (x :: xs)) ∧ isInt p = allInt (x :: xs) := by
  refine ⟨xs.foldl numMul x, rfl, ?_, ?_⟩
  · simp [foldl_numMul_toRat, rats, ratProd]
  · simp [foldl_numMul_isInt, allInt]

theorem prodNums_perm {xs ys : List Num} (h : xs.Perm ys) : prodNums xs = prodNums ys := by
  cases xs with
  | nil => have := h.length_eq; cases ys <;> simp_all
  | cons x xs =>
    cases ys with
    | nil => have := h.length_eq; simp at this
    | cons y ys =>
      obtain ⟨p, hp, hv, ht⟩ := prodNums_cons x xs
      obtain ⟨q, hq, hv', ht'⟩ := prodNums_cons y ys
      rw [hp, hq]
      congr 1
      exact num_ext (by rw [ht, ht', allInt_perm h]) (by rw [hv, hv', ratProd_perm (rats_perm h)])

/-! ### sorting -/

/-- insertion into an ascending list of rationals -/
def insertQ (x : Rat) : List Rat → List Rat
  | [] => [x]
  | y :: ys => if x ≤ y then x :: y :: ys else y :: insertQ x ys

/-- the ascending rearrangement of a list of rationals -/
def sortQ : List Rat → List Rat
  | [] => []
  | x :: xs => insertQ x (sortQ xs)

theorem rats_insertNum (x : Num) (ys : List Num) :
    rats (insertNum x ys) = insertQ (Num.toRat x) (rats ys) := by
  induction ys with
  | nil => simp [insertNum, insertQ, rats]
  | cons y ys ih =>
    simp only [insertNum, rats, List.map_cons, insertQ]
    split
    · simp
    · simp only [List.map_cons]; rw [← rats, ← rats, ih]

/-- sorting the numbers and taking values = sorting the values -/
theorem rats_sortNums (xs : List Num) : rats (sortNums xs) = sortQ (rats xs) := by
  induction xs with
  | nil => simp [sortNums, sortQ, rats]
  | cons x xs ih =>
    simp only [sortNums, rats_insertNum, ih]
    simp [rats, sortQ]

theorem insertNum_perm (x : Num) (ys : List Num) : (insertNum x ys).Perm (x :: ys) := by
  induction ys with
  | nil => simp [insertNum]
  | cons y ys ih =>
    simp only [insertNum]
    split
    · exact List.Perm.refl _
    · exact (List.Perm.cons y ih).trans (List.Perm.swap x y ys)

theorem sortNums_perm (xs : List Num) : (sortNums xs).Perm xs := by
  induction xs with
  | nil => simp [sortNums]
  | cons x xs ih => exact (insertNum_perm x _).trans (List.Perm.cons x ih)

theorem insertQ_perm (x : Rat) (ys : List Rat) : (insertQ x ys).Perm (x :: ys) := by
  induction ys with
  | nil => simp [insertQ]
  | cons y ys ih =>
    simp only [insertQ]
    split
    · exact List.Perm.refl _
    · exact (List.Perm.cons y ih).trans (List.Perm.swap x y ys)

theorem sortQ_perm (xs : List Rat) : (sortQ xs).Perm xs := by
  induction xs with
  | nil => simp [sortQ]
  | cons x xs ih => exact (insertQ_perm x _).trans (List.Perm.cons x ih)

theorem sortQ_length (xs : List Rat) : (sortQ xs).length = xs.length := (sortQ_perm xs).length_eq
theorem sortNums_length (xs : List Num) : (sortNums xs).length = xs.length := (sortNums_perm xs).length_eq

theorem insertQ_sorted (x : Rat) {ys : List Rat} (h : ys.Pairwise (· ≤ ·)) :
    (insertQ x ys).Pairwise (· ≤ ·) := by
  induction ys with
  | nil => simp [insertQ]
  | cons y ys ih =>
    simp only [insertQ]
    have hy := List.pairwise_cons.mp h
    split
    · rename_i hxy
      refine List.pairwise_cons.mpr ⟨?_, h⟩
      intro z hz
      rcases List.mem_cons.mp hz with rfl | hz
      · exact hxy
      · exact Rat.le_trans hxy (hy.1 z hz)
    · rename_i hxy
      have hyx : y ≤ x := Rat.le_of_lt (Rat.not_le.mp hxy)
      refine List.pairwise_cons.mpr ⟨?_, ih hy.2⟩
      intro z hz
      rcases List.mem_cons.mp ((insertQ_perm x ys).mem_iff.mp hz) with rfl | hz
      · exact hyx
      · exact hy.1 z hz

/-- the sorted list is ascending -/
theorem sortQ_sorted (xs : List Rat) : (sortQ xs).Pairwise (· ≤ ·) := by
  induction xs with
  | nil => simp [sortQ]
  | cons x xs ih => exact insertQ_sorted x ih

theorem insertQ_comm (x y : Rat) (l : List Rat) : insertQ x (insertQ y l) = insertQ y (insertQ x l) := by
  induction l with
  | nil =>
    simp only [insertQ]
    by_cases h1 : x ≤ y <;> by_cases h2 : y ≤ x <;> simp [h1, h2]
    · have := Rat.le_antisymm h1 h2; simp [this]
    · rcases @Rat.le_total x y with h | h <;> contradiction
  | cons z l ih =>
    by_cases hx : x ≤ z <;> by_cases hy : y ≤ z
    · by_cases h1 : x ≤ y <;> by_cases h2 : y ≤ x <;> simp [insertQ, hx, hy, h1, h2]
      · have := Rat.le_antisymm h1 h2; simp [this]
      · rcases @Rat.le_total x y with h | h <;> contradiction
    · have hyx : ¬ y ≤ x := by intro h; exact hy (Rat.le_trans h hx)
      simp [insertQ, hx, hy, hyx]
    · have hxy : ¬ x ≤ y := by intro h; exact hx (Rat.le_trans h hy)
      simp [insertQ, hx, hy, hxy]
    · simp [insertQ, hx, hy, ih]

/-- sorting does not depend on the original order -/
theorem sortQ_perm_eq {xs ys : List Rat} (h : xs.Perm ys) : sortQ xs = sortQ ys := by
  induction h with
  | nil => rfl
  | cons x _ ih => simp [sortQ, ih]
  | swap x y l => simp [sortQ, insertQ_comm]
  | trans _ _ ih1 ih2 => exact ih1.trans ih2

/-! ### textbook statistics over rationals -/

/-- arithmetic mean Σq / n -/
def meanQ (qs : List Rat) : Rat := ratSum qs / (qs.length : Rat)

/-- Σ (q − c)² -/
def sqDevFrom (c : Rat) (qs : List Rat) : Rat := ratSum (qs.map (fun q => (q - c) * (q - c)))

/-- Σ |q − c| -/
def absDevFrom (c : Rat) (qs : List Rat) : Rat := ratSum (qs.map (fun q => ratAbs (q - c)))

/-- the middle of the ascending rearrangement (mean of the two middle items for an even count) -/
def medianQ (qs : List Rat) : Rat :=
  let s := sortQ qs
  let n := s.length
  if n % 2 = 1 then s.getD (n / 2) 0 else (s.getD (n / 2 - 1) 0 + s.getD (n / 2) 0) / 2

theorem toRat_convert (b : Bool) (q : Rat) : Num.toRat (convert b q) = q := by
  unfold convert
  split
  · rename_i h
    have hd : q.den = 1 := by simp at h; exact h.2
    simp only [Num.toRat]
    exact Rat.ext (by simp) (by simp [hd])
  · rfl

theorem isInt_convert (b : Bool) (q : Rat) : isInt (convert b q) = (b && decide (q.den = 1)) := by
  unfold convert
  split <;> simp_all [isInt]

theorem rats_length (xs : List Num) : (rats xs).length = xs.length := by simp [rats]

theorem rats_ne_nil {xs : List Num} (h : xs ≠ []) : rats xs ≠ [] := by
  cases xs <;> simp_all [rats]

/-- `statistics.mean` = Σ/n with the `_convert` result type -/
theorem mean_eq {xs : List Num} (h : xs ≠ []) :
    mean xs = .ok (convert (allInt xs) (meanQ (rats xs))) := by
  cases xs with
  | nil => exact absurd rfl h
  | cons x xs => simp [mean, meanQ, rats]

theorem mean_nil : mean [] = .error .error := rfl

theorem mean_perm {xs ys : List Num} (h : xs.Perm ys) : mean xs = mean ys := by
  unfold mean
  rw [allInt_perm h, ratSum_perm (rats_perm h), h.length_eq]
  cases xs <;> cases ys <;> simp_all

theorem sqDevFrom_expand (c : Rat) (qs : List Rat) :
    sqDevFrom c qs = ratSum (qs.map (fun q => q * q)) - 2 * c * ratSum qs + (qs.length : Rat) * c * c := by
  induction qs with
  | nil => simp [sqDevFrom, ratSum]
  | cons q qs ih =>
    simp only [sqDevFrom, List.map_cons, ratSum, List.length_cons] at ih ⊢
    rw [ih]
    push_cast
    ring

/-- the one-pass formula of `statistics._ss` is the sum of squared deviations from the mean -/
theorem ssd_eq_sqDev {qs : List Rat} (h : qs ≠ []) : ssd qs = sqDevFrom (meanQ qs) qs := by
  have hn : (qs.length : Rat) ≠ 0 := by
    cases qs with
    | nil => exact absurd rfl h
    | cons q qs => simp only [List.length_cons]; push_cast; have : (0 : Rat) ≤ (qs.length : Rat) := by exact_mod_cast Nat.zero_le _
                   linarith
  rw [sqDevFrom_expand, ssd, meanQ]
  field_simp
  ring

/-! ### variance -/

theorem ssd_perm {xs ys : List Rat} (h : xs.Perm ys) : ssd xs = ssd ys := by
  unfold ssd
  rw [h.length_eq, ratSum_perm h, ratSum_perm (h.map _)]

theorem varianceQ_perm {xs ys : List Num} (h : xs.Perm ys) : varianceQ xs = varianceQ ys := by
  unfold varianceQ
  rw [h.length_eq, ssd_perm (rats_perm h)]

theorem pvarianceQ_perm {xs ys : List Num} (h : xs.Perm ys) : pvarianceQ xs = pvarianceQ ys := by
  unfold pvarianceQ
  rw [h.length_eq, ssd_perm (rats_perm h)]

/-! ### extremes -/

theorem foldl_max_spec (xs : List Num) (b : Num) :
    let r := xs.foldl (fun b y => if Num.toRat b < Num.toRat y then y else b) b
    r ∈ b :: xs ∧ Num.toRat b ≤ Num.toRat r ∧ ∀ y ∈ xs, Num.toRat y ≤ Num.toRat r := by
  induction xs generalizing b with
  | nil => simp
  | cons x xs ih =>
    simp only [List.foldl_cons]
    by_cases hlt : Num.toRat b < Num.toRat x
    · simp only [hlt, if_true]
      obtain ⟨hm, hb, hall⟩ := ih x
      refine ⟨?_, Rat.le_trans (Rat.le_of_lt hlt) hb, ?_⟩
      · rcases List.mem_cons.mp hm with h | h
        · simp [h]
        · simp [h]
      · intro y hy
        rcases List.mem_cons.mp hy with rfl | hy
        · exact hb
        · exact hall y hy
    · simp only [hlt, if_false]
      obtain ⟨hm, hb, hall⟩ := ih b
      refine ⟨?_, hb, ?_⟩
      · rcases List.mem_cons.mp hm with h | h
        · simp [h]
        · simp [h]
      · intro y hy
        rcases List.mem_cons.mp hy with rfl | hy
        · exact Rat.le_trans (Rat.not_lt.mp hlt) hb
        · exact hall y hy

theorem foldl_min_spec (xs : List Num) (b : Num) :
    let r := xs.foldl (fun b y => if Num.toRat y < Num.toRat b then y else b) b
    r ∈ b :: xs ∧ Num.toRat r ≤ Num.toRat b ∧ ∀ y ∈ xs, Num.toRat r ≤ Num.toRat y := by
  induction xs generalizing b with
  | nil => simp
  | cons x xs ih =>
    simp only [List.foldl_cons]
    by_cases hlt : Num.toRat x < Num.toRat b
    · simp only [hlt, if_true]
      obtain ⟨hm, hb, hall⟩ := ih x
      refine ⟨?_, Rat.le_trans hb (Rat.le_of_lt hlt), ?_⟩
      · rcases List.mem_cons.mp hm with h | h
        · simp [h]
        · simp [h]
      · intro y hy
        rcases List.mem_cons.mp hy with rfl | hy
        · exact hb
        · exact hall y hy
    · simp only [hlt, if_false]
      obtain ⟨hm, hb, hall⟩ := ih b
      refine ⟨?_, hb, ?_⟩
      · rcases List.mem_cons.mp hm with h | h
        · simp [h]
        · simp [h]
      · intro y hy
        rcases List.mem_cons.mp hy with rfl | hy
        · exact Rat.le_trans hb (Rat.not_lt.mp hlt)
        · exact hall y hy

/-- `max` of a non-empty list: an item that is ≥ every item -/
theorem maxNums_spec {xs : List Num} (h : xs ≠ []) :
    ∃ m, maxNums xs = .ok m ∧ m ∈ xs ∧ ∀ y ∈ xs, Num.toRat y ≤ Num.toRat m := by
  cases xs with
  | nil => exact absurd rfl h
  | cons x xs =>
    obtain ⟨hm, hb, hall⟩ := foldl_max_spec xs x
    refine ⟨_, rfl, hm, ?_⟩
    intro y hy
    rcases List.mem_cons.mp hy with rfl | hy
    · exact hb
    · exact hall y hy

theorem minNums_spec {xs : List Num} (h : xs ≠ []) :
    ∃ m, minNums xs = .ok m ∧ m ∈ xs ∧ ∀ y ∈ xs, Num.toRat m ≤ Num.toRat y := by
  cases xs with
  | nil => exact absurd rfl h
  | cons x xs =>
    obtain ⟨hm, hb, hall⟩ := foldl_min_spec xs x
    refine ⟨_, rfl, hm, ?_⟩
    intro y hy
    rcases List.mem_cons.mp hy with rfl | hy
    · exact hb
    · exact hall y hy

theorem perm_ne_nil {α} {xs ys : List α} (h : xs.Perm ys) (hx : xs ≠ []) : ys ≠ [] := by
  intro hy; subst hy; exact hx (List.Perm.eq_nil h)

theorem maxNums_perm {xs ys : List Num} (h : xs.Perm ys) :
    (maxNums xs).map Num.toRat = (maxNums ys).map Num.toRat := by
  by_cases hx : xs = []
  · subst hx; have := h.symm.eq_nil; subst this; rfl
  · obtain ⟨m, hm, hmem, hall⟩ := maxNums_spec hx
    obtain ⟨m', hm', hmem', hall'⟩ := maxNums_spec (perm_ne_nil h hx)
    rw [hm, hm']
    simp only [Except.map]
    congr 1
    exact Rat.le_antisymm (hall' m (h.mem_iff.mp hmem)) (hall m' (h.mem_iff.mpr hmem'))

theorem minNums_perm {xs ys : List Num} (h : xs.Perm ys) :
    (minNums xs).map Num.toRat = (minNums ys).map Num.toRat := by
  by_cases hx : xs = []
  · subst hx; have := h.symm.eq_nil; subst this; rfl
  · obtain ⟨m, hm, hmem, hall⟩ := minNums_spec hx
    obtain ⟨m', hm', hmem', hall'⟩ := minNums_spec (perm_ne_nil h hx)
    rw [hm, hm']
    simp only [Except.map]
    congr 1
    exact Rat.le_antisymm (hall m' (h.mem_iff.mpr hmem')) (hall' m (h.mem_iff.mp hmem))

/-! ### median -/

theorem getD_rats (s : List Num) (i : Nat) : (rats s).getD i 0 = Num.toRat (s.getD i (.int 0)) := by
  simp only [rats, List.getD_eq_getElem?_getD, List.getElem?_map]
  cases s[i]? <;> simp [Num.toRat]

/-- the value of `statistics.median` is the textbook median of the values -/
theorem median_toRat (xs : List Num) :
    (median xs).map Num.toRat = if xs = [] then .error .error else .ok (medianQ (rats xs)) := by
  have hl : (sortQ (rats xs)).length = (sortNums xs).length := by
    rw [sortQ_length, rats_length, sortNums_length]
  by_cases hx : xs = []
  · subst hx; rfl
  · have hn : (sortNums xs).length ≠ 0 := by
      rw [sortNums_length]; exact fun h => hx (List.length_eq_zero_iff.mp h)
    simp only [median, medianQ, hx, if_false, hn, ← rats_sortNums, getD_rats, rats_length]
    split <;> simp [Except.map, Num.toRat]

theorem median_perm {xs ys : List Num} (h : xs.Perm ys) :
    (median xs).map Num.toRat = (median ys).map Num.toRat := by
  rw [median_toRat, median_toRat]
  by_cases hx : xs = []
  · subst hx; have := h.symm.eq_nil; subst this; rfl
  · have hy := perm_ne_nil h hx
    simp only [hx, hy, if_false, medianQ, sortQ_perm_eq (rats_perm h)]

/-! ### `inumbers` -/

theorem inumbers_eq (tp tz : Bool) (args : List Value) :
    inumbers tp tz args = inumbers.go tp tz (flattenList args) := rfl

/-- `inumbers` sees only the flattened items -/
theorem inumbers_regroup (tp tz : Bool) {a b : List Value} (h : flattenList a = flattenList b) :
    inumbers tp tz a = inumbers tp tz b := by
  rw [inumbers_eq, inumbers_eq, h]

theorem go_err_cons (tp tz : Bool) (e : Err) (rest : List Value) :
    inumbers.go tp tz (.err e :: rest) = .error e := by
  simp [inumbers.go]

theorem firstError_cons_of_not_err {v : Value} (h : ∀ e, v ≠ .err e) (rest : List Value) :
    firstError (v :: rest) = firstError rest := by
  cases v <;> simp_all [firstError]

theorem go_cons_of_not_err (tp tz : Bool) {v : Value} (h : ∀ e, v ≠ .err e) (rest : List Value) :
    (∃ n, inumbers.go tp tz (v :: rest) = (inumbers.go tp tz rest).map (n :: ·)) ∨
    inumbers.go tp tz (v :: rest) = inumbers.go tp tz rest := by
  cases v with
  | err e => exact absurd rfl (h e)
  | num n => left; exact ⟨n, by cases tp <;> simp [inumbers.go, toNumber, asNumber?]⟩
  | bool b => left; exact ⟨.int (if b then 1 else 0), by cases tp <;> simp [inumbers.go, toNumber, asNumber?]⟩
  | blank => right; cases tp <;> simp [inumbers.go, toNumber, asNumber?]
  | date d => right; cases tp <;> simp [inumbers.go, toNumber, asNumber?]
  | arr xs => right; cases tp <;> simp [inumbers.go, toNumber, asNumber?]
  | other t => right; cases tp <;> simp [inumbers.go, toNumber, asNumber?]
  | str s =>
    cases tp
    · cases tz
      · right; simp [inumbers.go, asNumber?]
      · left; exact ⟨.int 0, by simp [inumbers.go, asNumber?]⟩
    · simp only [inumbers.go, if_true, toNumber]
      cases toNumberText s with
      | num n => left; exact ⟨n, by simp [asNumber?]⟩
      | text =>
        cases tz
        · right; simp [asNumber?]
        · left; exact ⟨.int 0, by simp [asNumber?]⟩

/-- an error value among the items is raised: the first one in order -/
theorem go_firstError (tp tz : Bool) {items : List Value} {e : Err} (h : firstError items = some e) :
    inumbers.go tp tz items = .error e := by
  induction items with
  | nil => simp [firstError] at h
  | cons v rest ih =>
    by_cases hv : ∃ e', v = .err e'
    · obtain ⟨e', rfl⟩ := hv
      simp [firstError] at h
      rw [go_err_cons, h]
    · have hv' : ∀ e, v ≠ .err e := fun e he => hv ⟨e, he⟩
      rw [firstError_cons_of_not_err hv'] at h
      rcases go_cons_of_not_err tp tz hv' rest with ⟨n, hn⟩ | hn
      · rw [hn, ih h]; rfl
      · rw [hn, ih h]

theorem go_no_error (tp tz : Bool) {items : List Value} (h : firstError items = none) :
    ∃ xs, inumbers.go tp tz items = .ok xs := by
  induction items with
  | nil => exact ⟨[], by simp [inumbers.go]⟩
  | cons v rest ih =>
    by_cases hv : ∃ e', v = .err e'
    · obtain ⟨e', rfl⟩ := hv; simp [firstError] at h
    · have hv' : ∀ e, v ≠ .err e := fun e he => hv ⟨e, he⟩
      rw [firstError_cons_of_not_err hv'] at h
      obtain ⟨xs, hxs⟩ := ih h
      rcases go_cons_of_not_err tp tz hv' rest with ⟨n, hn⟩ | hn
      · exact ⟨n :: xs, by rw [hn, hxs]; rfl⟩
      · exact ⟨xs, by rw [hn, hxs]⟩

/-- on a list of numbers `inumbers` returns them all, in order -/
theorem go_nums (tp tz : Bool) (ns : List Num) :
    inumbers.go tp tz (ns.map .num) = .ok ns := by
  induction ns with
  | nil => simp [inumbers.go]
  | cons n ns ih =>
    simp only [List.map_cons]
    cases tp <;> simp [inumbers.go, toNumber, asNumber?, ih] <;> rfl

theorem inumbers_nums (tp tz : Bool) {args : List Value} {ns : List Num}
    (h : flattenList args = ns.map .num) : inumbers tp tz args = .ok ns := by
  rw [inumbers_eq, h, go_nums]

theorem inumbers_firstError (tp tz : Bool) {args : List Value} {e : Err}
    (h : firstError (flattenList args) = some e) : inumbers tp tz args = .error e := by
  rw [inumbers_eq, go_firstError tp tz h]

/-- `firstError` finds the first error value, in order -/
theorem firstError_eq_some {l : List Value} {e : Err} :
    firstError l = some e ↔ ∃ pre post, l = pre ++ .err e :: post ∧ ∀ v ∈ pre, ∀ e', v ≠ .err e' := by
  induction l with
  | nil => simp [firstError]
  | cons v rest ih =>
    by_cases hv : ∃ e', v = .err e'
    · obtain ⟨e', rfl⟩ := hv
      simp only [firstError, Option.some.injEq]
      constructor
      · rintro rfl; exact ⟨[], rest, rfl, by simp⟩
      · rintro ⟨pre, post, hl, hpre⟩
        cases pre with
        | nil => simp at hl; exact hl.1
        | cons p pre =>
          simp at hl
          exact absurd hl.1.symm (hpre p (by simp) e')
    · have hv' : ∀ e, v ≠ .err e := fun e he => hv ⟨e, he⟩
      rw [firstError_cons_of_not_err hv', ih]
      constructor
      · rintro ⟨pre, post, rfl, hpre⟩
        refine ⟨v :: pre, post, rfl, ?_⟩
        intro w hw
        rcases List.mem_cons.mp hw with rfl | hw
        · exact hv'
        · exact hpre w hw
      · rintro ⟨pre, post, hl, hpre⟩
        cases pre with
        | nil => simp at hl; exact absurd hl.1 (hv' e)
        | cons p pre =>
          simp at hl
          exact ⟨pre, post, hl.2, fun w hw => hpre w (by simp [hw])⟩

theorem firstError_of_mem {l : List Value} {e : Err} (h : Value.err e ∈ l) :
    ∃ e', firstError l = some e' ∧ Value.err e' ∈ l := by
  induction l with
  | nil => simp at h
  | cons v rest ih =>
    by_cases hv : ∃ e', v = .err e'
    · obtain ⟨e', rfl⟩ := hv; exact ⟨e', by simp [firstError], by simp⟩
    · have hv' : ∀ e, v ≠ .err e := fun e he => hv ⟨e, he⟩
      rcases List.mem_cons.mp h with h | h
      · exact absurd h.symm (hv' e)
      · obtain ⟨e', h1, h2⟩ := ih h
        exact ⟨e', by rw [firstError_cons_of_not_err hv', h1], by simp [h2]⟩

/-- lifting: a builtin defined over `inumbers` -/
theorem overNumbers_regroup (tp tz : Bool) (f : List Num → Except Err Value) {a b : List Value}
    (h : flattenList a = flattenList b) : overNumbers tp tz f a = overNumbers tp tz f b := by
  simp only [overNumbers, inumbers_regroup tp tz h]

theorem overNumbers_error (tp tz : Bool) (f : List Num → Except Err Value) {args : List Value} {e : Err}
    (h : firstError (flattenList args) = some e) : overNumbers tp tz f args = .error e := by
  simp only [overNumbers, inumbers_firstError tp tz h]

theorem overNumbers_nums (tp tz : Bool) (f : List Num → Except Err Value) {args : List Value} {ns : List Num}
    (h : flattenList args = ns.map .num) : overNumbers tp tz f args = f ns := by
  simp only [overNumbers, inumbers_nums tp tz h]

/-! ### mode -/

/-- a left fold keeping the first item with the largest key -/
theorem foldl_argmax_spec (k : Num → Nat) (ys : List Num) (b : Num) :
    let r := ys.foldl (fun best y => if k best < k y then y else best) b
    r ∈ b :: ys ∧ k b ≤ k r ∧ ∀ y ∈ ys, k y ≤ k r := by
  induction ys generalizing b with
  | nil => simp
  | cons x xs ih =>
    simp only [List.foldl_cons]
    by_cases hlt : k b < k x
    · simp only [hlt, if_true]
      obtain ⟨hm, hb, hall⟩ := ih x
      refine ⟨?_, by omega, ?_⟩
      · rcases List.mem_cons.mp hm with h | h <;> simp [h]
      · intro y hy
        rcases List.mem_cons.mp hy with rfl | hy
        · exact hb
        · exact hall y hy
    · simp only [hlt, if_false]
      obtain ⟨hm, hb, hall⟩ := ih b
      refine ⟨?_, hb, ?_⟩
      · rcases List.mem_cons.mp hm with h | h <;> simp [h]
      · intro y hy
        rcases List.mem_cons.mp hy with rfl | hy
        · omega
        · exact hall y hy

/-- `statistics.mode`: an item whose value is at least as frequent as every other item's -/
theorem mode_spec {xs : List Num} (h : xs ≠ []) :
    ∃ m, mode xs = .ok m ∧ m ∈ xs ∧ ∀ y ∈ xs, countEq y xs ≤ countEq m xs := by
  cases xs with
  | nil => exact absurd rfl h
  | cons x rest =>
    obtain ⟨hm, hb, hall⟩ := foldl_argmax_spec (fun y => countEq y (x :: rest)) rest x
    refine ⟨_, rfl, hm, ?_⟩
    intro y hy
    rcases List.mem_cons.mp hy with rfl | hy
    · exact hb
    · exact hall y hy

/-! ### harmonic and geometric mean -/

theorem harmScan_pos {xs : List Num} (h : ∀ x ∈ xs, 0 < Num.toRat x) : harmScan xs = none := by
  induction xs with
  | nil => rfl
  | cons x xs ih =>
    have hx := h x (by simp)
    have h1 : ¬ Num.toRat x < 0 := fun hlt => by linarith
    have h2 : ¬ Num.toRat x = 0 := fun he => by rw [he] at hx; exact Rat.lt_irrefl hx
    simp only [harmScan, h1, h2, if_false]
    exact ih (fun y hy => h y (by simp [hy]))

/-- harmonic mean of positive items: n / Σ(1/x) (as a value; a single item is returned as it is) -/
theorem harmean_pos {xs : List Num} (hne : xs ≠ []) (h : ∀ x ∈ xs, 0 < Num.toRat x) :
    (harmean xs).map Num.toRat = .ok ((xs.length : Rat) / ratSum ((rats xs).map (fun q => 1 / q))) := by
  match xs, hne, h with
  | [x], _, h =>
    have hx := h x (by simp)
    have h1 : ¬ Num.toRat x < 0 := fun hlt => by linarith
    have h2 : Num.toRat x ≠ 0 := fun he => by rw [he] at hx; exact Rat.lt_irrefl hx
    simp only [harmean, h1, if_false, Except.map, rats, List.map_cons, List.map_nil, ratSum, List.length_cons,
      List.length_nil]
    congr 1
    field_simp
    simp
  | x :: y :: rest, _, h =>
    simp only [harmean, harmScan_pos h, Except.map, Num.toRat]

theorem harmean_perm {xs ys : List Num} (h : xs.Perm ys) (hpos : ∀ x ∈ xs, 0 < Num.toRat x) :
    harmean xs = harmean ys := by
  have hpos' : ∀ y ∈ ys, 0 < Num.toRat y := fun y hy => hpos y (h.mem_iff.mpr hy)
  match xs, ys, h, hpos, hpos' with
  | [], ys, h, _, _ => have := h.symm.eq_nil; subst this; rfl
  | [x], ys, h, _, _ => have := List.perm_singleton.mp h.symm; subst this; rfl
  | x :: x' :: rest, [], h, _, _ => exact absurd h.eq_nil (by simp)
  | x :: x' :: rest, [y], h, _, _ => have := h.length_eq; simp at this
  | x :: x' :: rest, y :: y' :: rest', h, hp, hp' =>
    simp only [harmean, harmScan_pos hp, harmScan_pos hp']
    rw [h.length_eq, ratSum_perm ((rats_perm h).map _)]

theorem any_perm {α} (p : α → Bool) {xs ys : List α} (h : xs.Perm ys) : xs.any p = ys.any p := by
  induction h with
  | nil => rfl
  | cons x _ ih => simp [ih]
  | swap x y l => simp [Bool.or_left_comm]
  | trans _ _ ih1 ih2 => exact ih1.trans ih2

theorem geomean_perm {xs ys : List Num} (h : xs.Perm ys) : geomean xs = geomean ys := by
  unfold geomean
  rw [any_perm _ h, h.length_eq, ratProd_perm (rats_perm h)]
  cases xs <;> cases ys <;> simp_all

/-- geometric mean of positive items: the positive `n`-th root of the product -/
theorem geomean_pos {xs : List Num} (hne : xs ≠ []) (h : ∀ x ∈ xs, 0 < Num.toRat x) :
    geomean xs = .ok (rootTag xs.length (ratProd (rats xs))) := by
  have h1 : xs.isEmpty = false := by cases xs <;> simp_all
  have h2 : xs.any (fun x => Num.toRat x ≤ 0) = false := by
    rw [List.any_eq_false]
    intro x hx hle
    have := h x hx
    simp at hle
    linarith
  simp [geomean, h1, h2]

/-! ### AVEDEV -/

theorem allNumbers_nums (ns : List Num) : allNumbers (ns.map .num) = some ns := by
  induction ns with
  | nil => rfl
  | cons n ns ih => simp [allNumbers, asNumber?, ih]

theorem avedevQ_eq (ns : List Num) (avg : Num) :
    avedevQ ns avg = absDevFrom (Num.toRat avg) (rats ns) / (ns.length : Rat) := by
  simp [avedevQ, absDevFrom, rats, List.map_map, Function.comp_def]

/-- AVEDEV on numeric items: Σ|x − μ| / n with μ = Σx / n -/
theorem AVEDEV_nums {args : List Value} {ns : List Num} (h : flattenList args = ns.map .num) (hne : ns ≠ []) :
    AVEDEV args = .ok (.num (.flt (absDevFrom (meanQ (rats ns)) (rats ns) / (ns.length : Rat)))) := by
  simp only [AVEDEV, inumbers_nums true false h, mean_eq hne, h, allNumbers_nums, avedevQ_eq, toRat_convert]

theorem absDevFrom_perm (c : Rat) {xs ys : List Rat} (h : xs.Perm ys) : absDevFrom c xs = absDevFrom c ys :=
  ratSum_perm (h.map _)

theorem meanQ_perm {xs ys : List Rat} (h : xs.Perm ys) : meanQ xs = meanQ ys := by
  simp only [meanQ, ratSum_perm h, h.length_eq]

/-! ### LARGE -/

theorem flattenList_singleton (v : Value) : flattenList [v] = flattenValue v := by
  simp [flattenList]

theorem parseNumber_int (k : Int) : parseNumber (.num (.int k)) = .ok (.int k) := by
  simp [parseNumber, toNumber]

/-- LARGE(arr, k) on numeric items with 1 ≤ k ≤ n: the item at position n − k of the ascending
    arrangement, i.e. position k − 1 of the descending one -/
theorem LARGE_nums {arr : Value} {ns : List Num} {k : Nat} (h : flattenValue arr = ns.map .num)
    (h1 : 1 ≤ k) (h2 : k ≤ ns.length) :
    ∃ v, LARGE [arr, .num (.int k)] = .ok (.num v) ∧
      (sortQ (rats ns)).reverse[k - 1]? = some (Num.toRat v) := by
  have hin : inumbers true true [arr] = .ok ns := inumbers_nums true true (by rw [flattenList_singleton, h])
  have hlen : (sortNums ns).length = ns.length := sortNums_length ns
  have hidx : ns.length - k < (sortNums ns).length := by omega
  refine ⟨(sortNums ns)[ns.length - k], ?_, ?_⟩
  · have c1 : ¬ ((k : Rat) < 1) := by
      have : (1 : Rat) ≤ (k : Rat) := by exact_mod_cast h1
      intro hlt; linarith
    have c2 : ¬ ((ns.length : Rat) < (k : Rat)) := by
      have : (k : Rat) ≤ (ns.length : Rat) := by exact_mod_cast h2
      intro hlt; linarith
    simp only [LARGE, parseNumber_int, hin, hlen, Num.toRat, Int.cast_natCast, c1, c2, decide_false,
      Bool.or_self, Bool.false_eq_true, if_false, Int.toNat_natCast]
    rw [List.getElem?_eq_getElem hidx]
  · have hl2 : (sortQ (rats ns)).length = ns.length := by rw [sortQ_length, rats_length]
    rw [List.getElem?_reverse (by omega)]
    have : (sortQ (rats ns)).length - 1 - (k - 1) = ns.length - k := by omega
    rw [this, ← rats_sortNums]
    simp [rats, List.getElem?_map, List.getElem?_eq_getElem hidx]

/-- … and `#NUM!` outside 1..n -/
theorem LARGE_out_of_range {arr : Value} {ns : List Num} {k : Int} (h : flattenValue arr = ns.map .num)
    (hk : k < 1 ∨ (ns.length : Int) < k) : LARGE [arr, .num (.int k)] = .ok (.err .num) := by
  have hin : inumbers true true [arr] = .ok ns := inumbers_nums true true (by rw [flattenList_singleton, h])
  have hlen : (sortNums ns).length = ns.length := sortNums_length ns
  have : (Num.toRat (.int k) < 1 || ((sortNums ns).length : Rat) < Num.toRat (.int k)) = true := by
    simp only [Num.toRat, hlen, Bool.or_eq_true, decide_eq_true_eq]
    rcases hk with hk | hk
    · left
      have : ((k : Int) : Rat) < ((1 : Int) : Rat) := by exact_mod_cast hk
      exact decide_eq_true (by simpa using this)
    · right
      have : (((ns.length : Nat) : Int) : Rat) < ((k : Int) : Rat) := by exact_mod_cast hk
      simpa using this
  simp only [LARGE, parseNumber_int, hin, this, if_true]

/-! ### SLOPE -/

theorem SLOPE_nums (ys xs : List Num) (hlen : ys.length = xs.length) (hne : xs ≠ []) :
    SLOPE (ys.map .num ++ xs.map .num) =
      if slopeDen (rats xs) = 0 then .ok (.err .div0)
      else .ok (.num (.flt (slopeNum (rats xs) (rats ys) / slopeDen (rats xs)))) := by
  have hl : (ys.map Value.num ++ xs.map Value.num).length = 2 * xs.length := by simp [hlen]; omega
  have hpos : 0 < xs.length := List.length_pos_iff.mpr hne
  have h1 : (ys.map Value.num ++ xs.map Value.num).length % 2 = 0 := by omega
  have h2 : (ys.map Value.num ++ xs.map Value.num).length / 2 = ys.length := by omega
  have h3 : ¬ ys.length = 0 := by omega
  have ht : (ys.map Value.num ++ xs.map Value.num).take ys.length = ys.map .num := by
    rw [List.take_append_of_le_length (by simp)]; simp
  have hd : (ys.map Value.num ++ xs.map Value.num).drop ys.length = xs.map .num := by
    rw [List.drop_append_of_le_length (by simp)]; simp
  simp only [SLOPE, h1, h2, h3, ht, hd, allNumbers_nums]
  simp

/-! ### criteria: the regular expression -/

theorem takeWhile_ops_append {ops : List Char} (h : ∀ c ∈ ops, isOpChar c = true) {c : Char} (t : List Char)
    (hc : isOpChar c = false) :
    (ops ++ c :: t).takeWhile isOpChar = ops ∧ (ops ++ c :: t).dropWhile isOpChar = c :: t := by
  induction ops with
  | nil => simp [hc]
  | cons o ops ih =>
    have ho := h o (by simp)
    obtain ⟨i1, i2⟩ := ih (fun c hc => h c (by simp [hc]))
    simp [ho, i1, i2]

theorem lineOf_eq_self {t : List Char} (h : ∀ c ∈ t, c ≠ '\n') : lineOf t = t := by
  unfold lineOf
  induction t with
  | nil => rfl
  | cons c t ih =>
    have hc := h c (by simp)
    simp only [List.takeWhile_cons, hc, ne_eq, not_false_eq_true, decide_true, if_true]
    rw [ih (fun d hd => h d (by simp [hd]))]

/-- operator characters, then text that starts with a non-operator character and has no
    newline: the regular expression splits exactly there -/
theorem splitCriteria_ops {ops : List Char} (h : ∀ c ∈ ops, isOpChar c = true) {c : Char} {t : List Char}
    (hc : isOpChar c = false) (hnl : ∀ d ∈ c :: t, d ≠ '\n') :
    splitCriteria (ops ++ c :: t) = some (ops, c :: t) := by
  obtain ⟨h1, h2⟩ := takeWhile_ops_append h t hc
  have hc' : c ≠ '\n' := hnl c (by simp)
  simp only [splitCriteria, h1, h2, hc', if_false, lineOf_eq_self hnl]

/-- the text of a comparison operator -/
def opText : CmpOp → List Char
  | .gt => ['>'] | .lt => ['<'] | .ne => ['<', '>'] | .eq => ['='] | .ge => ['>', '='] | .le => ['<', '=']

theorem opText_chars (op : CmpOp) : ∀ c ∈ opText op, isOpChar c = true := by
  cases op <;> simp [opText, isOpChar]

theorem opOf_opText (op : CmpOp) : opOf (opText op) = some op := by
  cases op <;> simp [opOf, opText]

theorem opText_ne_nil (op : CmpOp) : (opText op).isEmpty = false := by
  cases op <;> rfl

/-- form 1: a comparison operator followed by text `t` (e.g. a number) -/
theorem parseCriteria_op (op : CmpOp) {c : Char} {t : List Char}
    (hc : isOpChar c = false) (hnl : ∀ d ∈ c :: t, d ≠ '\n') :
    parseCriteria (.str (opText op ++ c :: t)) = .ok (.cmp op (toNumber (.str (c :: t)))) := by
  simp only [parseCriteria, splitCriteria_ops (opText_chars op) hc hnl, opText_ne_nil, opOf_opText]
  simp

/-- forms 2 and 3: text without a leading operator character -/
theorem parseCriteria_plain {c : Char} {t : List Char}
    (hc : isOpChar c = false) (hnl : ∀ d ∈ c :: t, d ≠ '\n') :
    parseCriteria (.str (c :: t)) =
      if hasWildcard (c :: t) then .ok (.glob (c :: t)) else .ok (.eq (toNumber (.str (c :: t)))) := by
  have := splitCriteria_ops (ops := []) (by simp) hc hnl
  simp only [List.nil_append] at this
  simp only [parseCriteria, this]
  simp

/-- an operator that is not in `OPERATOR_DICT` (such as `=<`) raises -/
theorem parseCriteria_bad_op {ops : List Char} (h : ∀ c ∈ ops, isOpChar c = true) (hne : ops ≠ [])
    (hbad : opOf ops = none) {c : Char} {t : List Char}
    (hc : isOpChar c = false) (hnl : ∀ d ∈ c :: t, d ≠ '\n') :
    parseCriteria (.str (ops ++ c :: t)) = .error .error := by
  have he : ops.isEmpty = false := by cases ops <;> simp_all
  simp only [parseCriteria, splitCriteria_ops h hc hnl, he, hbad]
  simp

/-! ### wildcards -/

/-- the wildcard semantics of the statement: `*` stands for any run of characters, `?` for
    exactly one character, every other character for itself -/
inductive Glob : List Char → List Char → Prop
  | nil : Glob [] []
  | star (u v ps t : List Char) : t = u ++ v → Glob ps v → Glob ('*' :: ps) t
  | one (c : Char) (ps t : List Char) : Glob ps t → Glob ('?' :: ps) (c :: t)
  | lit (c : Char) (ps t : List Char) : c ≠ '*' → c ≠ '?' → Glob ps t → Glob (c :: ps) (c :: t)

theorem mem_suffixes {u t : List Char} : u ∈ suffixes t ↔ ∃ pre, t = pre ++ u := by
  induction t with
  | nil =>
    simp only [suffixes, List.mem_singleton]
    constructor
    · rintro rfl; exact ⟨[], rfl⟩
    · rintro ⟨pre, h⟩
      have := congrArg List.length h
      simp at this
      exact List.length_eq_zero_iff.mp (by omega)
  | cons c t ih =>
    simp only [suffixes, List.mem_cons, ih]
    constructor
    · rintro (rfl | ⟨pre, rfl⟩)
      · exact ⟨[], rfl⟩
      · exact ⟨c :: pre, rfl⟩
    · rintro ⟨pre, h⟩
      cases pre with
      | nil => left; exact h.symm
      | cons p pre =>
        right
        simp at h
        exact ⟨pre, h.2⟩

/-- `globMatch` decides the wildcard semantics -/
theorem globMatch_iff (p t : List Char) : globMatch p t = true ↔ Glob p t := by
  induction p generalizing t with
  | nil =>
    simp only [globMatch]
    constructor
    · intro h; have : t = [] := by simpa using h
      subst this; exact Glob.nil
    · intro h; cases h; rfl
  | cons c ps ih =>
    simp only [globMatch]
    by_cases hs : c = '*'
    · subst hs
      simp only [if_true, List.any_eq_true]
      constructor
      · rintro ⟨u, hu, hm⟩
        obtain ⟨pre, rfl⟩ := mem_suffixes.mp hu
        exact Glob.star pre u ps _ rfl ((ih u).mp hm)
      · intro h
        cases h with
        | star u v _ _ ht hv => exact ⟨v, mem_suffixes.mpr ⟨u, ht⟩, (ih v).mpr hv⟩
        | lit _ _ _ h1 _ _ => exact absurd rfl h1
    · simp only [hs, if_false]
      cases t with
      | nil =>
        simp only [Bool.false_eq_true, false_iff]
        intro h
        cases h with
        | star u v _ _ _ _ => exact hs rfl
      | cons d t' =>
        simp only [Bool.and_eq_true, Bool.or_eq_true, decide_eq_true_eq, ih]
        constructor
        · rintro ⟨h1 | h1, h2⟩
          · subst h1; exact Glob.one d ps t' h2
          · subst h1; by_cases hq : c = '?'
            · subst hq; exact Glob.one _ ps t' h2
            · exact Glob.lit c ps t' hs hq h2
        · intro h
          cases h with
          | star u v _ _ _ _ => exact absurd rfl hs
          | one _ _ _ h2 => exact ⟨Or.inl rfl, h2⟩
          | lit _ _ _ _ _ h2 => exact ⟨Or.inr rfl, h2⟩

/-! ### what a criterion means for a cell -/

/-- form 1 of the statement, "a comparison operator followed by a number": the cell must be a
    number (or logical) standing in that relation to `n`; `<>` is the negation of `=` -/
def SemOp (op : CmpOp) (n : Rat) (cell : Value) : Prop :=
  match op with
  | .eq => pyNumeric? cell = some n
  | .ne => pyNumeric? cell ≠ some n
  | .gt => ∃ x, pyNumeric? cell = some x ∧ n < x
  | .lt => ∃ x, pyNumeric? cell = some x ∧ x < n
  | .ge => ∃ x, pyNumeric? cell = some x ∧ n ≤ x
  | .le => ∃ x, pyNumeric? cell = some x ∧ x ≤ n

theorem pyEqValue_num (cell : Value) (n : Num) :
    pyEqValue cell (.num n) = true ↔ pyNumeric? cell = some (Num.toRat n) := by
  cases cell <;> simp [pyEqValue, pyNumeric?]

theorem pyEqValue_str (cell : Value) (t : List Char) :
    pyEqValue cell (.str t) = true ↔ cell = .str t := by
  cases cell <;> simp [pyEqValue, pyNumeric?]

theorem cmpScalar_num (op : CmpOp) (cell : Value) (n : Num) :
    cmpScalar op cell (.num n) = true ↔ SemOp op (Num.toRat n) cell := by
  cases op
  all_goals
    simp only [cmpScalar, SemOp, pyEqValue_num, Bool.not_eq_true', ne_eq]
  case ne =>
    rw [← Bool.not_eq_true, pyEqValue_num]
  all_goals
    cases hc : pyNumeric? cell with
    | none =>
      cases cell <;> simp_all [pyNumeric?]
    | some x => simp [pyNumeric?, ratCmp]

theorem test_glob (p : List Char) (cell : Value) :
    (Crit.glob p).test cell = true ↔ ∃ s, cell = .str s ∧ Glob p s := by
  cases cell <;> simp [Crit.test, globMatch_iff]

/-! ### selection by index alignment -/

/-- the items of `vals` (whose first item has index `i`) at the indices satisfying `sat` -/
def selectIdx (sat : Nat → Bool) : List Value → Nat → List Value
  | [], _ => []
  | a :: rest, i => if sat i then a :: selectIdx sat rest (i + 1) else selectIdx sat rest (i + 1)

theorem selectIdx_eq_filter (sat : Nat → Bool) (vals : List Value) (i : Nat) :
    selectIdx sat vals i = ((vals.zipIdx i).filter (fun p => sat p.2)).map (·.1) := by
  induction vals generalizing i with
  | nil => rfl
  | cons a rest ih =>
    simp only [selectIdx, List.zipIdx_cons, List.filter_cons]
    split <;> simp [ih]

/-- row `i` satisfies every criterion (a missing cell counts as not satisfying) -/
def rowSat (preds : List (Value × Crit)) (i : Nat) : Bool :=
  preds.all (fun p => match indexValue p.1 i with
    | some v => p.2.test v
    | none => false)

theorem allCrit_eq {preds : List (Value × Crit)} {i : Nat}
    (h : ∀ p ∈ preds, (indexValue p.1 i).isSome = true) : allCrit preds i = .ok (rowSat preds i) := by
  induction preds with
  | nil => rfl
  | cons p rest ih =>
    obtain ⟨r, c⟩ := p
    have hp := h (r, c) (by simp)
    obtain ⟨v, hv⟩ := Option.isSome_iff_exists.mp hp
    simp only [allCrit, hv, rowSat, List.all_cons]
    by_cases ht : c.test v = true
    · simp only [ht, if_true, Bool.true_and]
      exact ih (fun p hp => h p (by simp [hp]))
    · simp [ht]

theorem selectRows_eq {preds : List (Value × Crit)} {vals : List Value} {i : Nat}
    (h : ∀ j, i ≤ j → j < i + vals.length → ∀ p ∈ preds, (indexValue p.1 j).isSome = true) :
    selectRows preds vals i = .ok (selectIdx (rowSat preds) vals i) := by
  induction vals generalizing i with
  | nil => rfl
  | cons a rest ih =>
    have h0 := allCrit_eq (h i (Nat.le_refl _) (by simp))
    have ih' := ih (i := i + 1) (fun j hj1 hj2 => h j (by omega) (by simp; omega))
    simp only [selectRows, h0, ih', selectIdx]

/-- every criteria range is a list as long as the value range -/
def RangesFit (preds : List (Value × Crit)) (n : Nat) : Prop :=
  ∀ p ∈ preds, ∃ cells, p.1 = .arr cells ∧ cells.length = n

theorem rangesFit_index {preds : List (Value × Crit)} {n : Nat} (h : RangesFit preds n) :
    ∀ j, j < n → ∀ p ∈ preds, (indexValue p.1 j).isSome = true := by
  intro j hj p hp
  obtain ⟨cells, hc, hl⟩ := h p hp
  rw [hc]
  simp [indexValue, hl, hj]

theorem validateRanges_fit {preds : List (Value × Crit)} {n : Nat} (h : RangesFit preds n) :
    validateRanges n preds = none := by
  induction preds with
  | nil => rfl
  | cons p rest ih =>
    obtain ⟨r, c⟩ := p
    obtain ⟨cells, hc, hl⟩ := h (r, c) (by simp)
    simp only at hc
    subst hc
    simp only [validateRanges, hl, ne_eq, not_true_eq_false, if_false]
    exact ih (fun p hp => h p (by simp [hp]))

theorem selectRows_fit {preds : List (Value × Crit)} {vals : List Value} (h : RangesFit preds vals.length) :
    selectRows preds vals 0 = .ok (selectIdx (rowSat preds) vals 0) :=
  selectRows_eq (fun j _ hj p hp => rangesFit_index h j (by omega) p hp)

theorem numsOf_nums (ns : List Num) : numsOf (ns.map .num) = .ok ns := by
  induction ns with
  | nil => rfl
  | cons n ns ih => simp [numsOf, asNumber?, ih]; rfl

/-! ### the running maximum of MAXIFS on numbers -/

theorem pyGtValue_num (a b : Num) : pyGtValue (.num a) (.num b) = .ok (decide (Num.toRat b < Num.toRat a)) := by
  simp [pyGtValue, pyNumeric?]

theorem maxLoop_num (b : Num) (ns : List Num) :
    maxLoop (.num b) (ns.map .num) =
      .ok (.num (ns.foldl (fun b y => if Num.toRat b < Num.toRat y then y else b) b)) := by
  induction ns generalizing b with
  | nil => rfl
  | cons n ns ih =>
    simp only [List.map_cons, maxLoop, pyGtValue_num, List.foldl_cons]
    by_cases h : Num.toRat b < Num.toRat n <;> simp [h, ih]

/-- on numeric items the running maximum is `max` of the items, `None` if there is none -/
theorem maxLoop_nums (ns : List Num) :
    maxLoop .blank (ns.map .num) = match ns with
      | [] => .ok .blank
      | _ => (maxNums ns).map .num := by
  cases ns with
  | nil => rfl
  | cons n ns => simp only [List.map_cons, maxLoop, maxLoop_num, maxNums]; rfl

/-! ### AVERAGEIF: the average range aligned with the criteria cells -/

/-- the `avs[i]` for the `items[i]` that satisfy the criterion -/
def alignedSel (c : Crit) (items avs : List Value) : List Value :=
  ((items.zip avs).filter (fun p => c.test p.1)).map (·.2)

theorem selectAligned_eq (c : Crit) {items avs : List Value} (h : items.length ≤ avs.length) :
    selectAligned c items avs = .ok (alignedSel c items avs) := by
  induction items generalizing avs with
  | nil => rfl
  | cons a rest ih =>
    cases avs with
    | nil => simp at h
    | cons v avs =>
      have ih' := ih (avs := avs) (by simpa using h)
      simp only [selectAligned, List.drop_one, List.tail_cons, ih', List.head?_cons, alignedSel,
        List.zip_cons_cons, List.filter_cons]
      split <;> simp

theorem parsedNums_nums (ns : List Num) : parsedNums (ns.map .num) = .ok ns := by
  induction ns with
  | nil => rfl
  | cons n ns ih => simp [parsedNums, parseNumber, toNumber, ih]; rfl

/-! ### vocabulary of the property theorems -/

/-- after flattening, `args` consists of exactly the numbers `ns`, in this order -/
def NumericItems (args : List Value) (ns : List Num) : Prop := flattenList args = ns.map .num

/-- the numeric value of a result (the int-vs-float type forgotten); `none` for a non-number -/
def resultRat : Except Err Value → Except Err (Option Rat)
  | .ok (.num n) => .ok (some (Num.toRat n))
  | .ok _ => .ok none
  | .error e => .error e

theorem resultRat_numV (r : Except Err Num) : resultRat (numV r) = (r.map Num.toRat).map some := by
  cases r <;> rfl

theorem numericItems_nil {a : List Value} (h : NumericItems a []) {b : List Value} (h' : NumericItems b []) :
    flattenList a = flattenList b := by rw [h, h']

/-! ### the ascending rearrangement is unique -/

theorem insertQ_of_le_all (x : Rat) {l : List Rat} (h : ∀ y ∈ l, x ≤ y) : insertQ x l = x :: l := by
  cases l with
  | nil => rfl
  | cons y ys => simp [insertQ, h y (by simp)]

theorem sortQ_of_sorted {l : List Rat} (h : l.Pairwise (· ≤ ·)) : sortQ l = l := by
  induction l with
  | nil => rfl
  | cons x xs ih =>
    have hx := List.pairwise_cons.mp h
    rw [sortQ, ih hx.2, insertQ_of_le_all x hx.1]

/-- any ascending list with the same items IS `sortQ` -/
theorem sorted_perm_unique {l qs : List Rat} (hs : l.Pairwise (· ≤ ·)) (hp : l.Perm qs) : l = sortQ qs := by
  rw [← sortQ_of_sorted hs, sortQ_perm_eq hp]

/-! ### mode: the FIRST most frequent item -/

theorem foldl_argmax_first (k : Num → Nat) (ys : List Num) (b : Num) :
    let r := ys.foldl (fun best y => if k best < k y then y else best) b
    (k r ≤ k b → r = b) ∧
    ∀ pre y post, ys = pre ++ y :: post → k r ≤ k y → r ∈ b :: pre ∨ r = y := by
  induction ys generalizing b with
  | nil =>
    refine ⟨fun _ => rfl, ?_⟩
    intro pre y post h
    simp at h
  | cons x xs ih =>
    simp only [List.foldl_cons]
    by_cases hlt : k b < k x
    · simp only [hlt, if_true]
      obtain ⟨i1, i2⟩ := ih x
      obtain ⟨_, hb, _⟩ := foldl_argmax_spec k xs x
      refine ⟨?_, ?_⟩
      · intro hle; exfalso; omega
      · intro pre y post h hle
        cases pre with
        | nil =>
          simp at h
          obtain ⟨rfl, rfl⟩ := h
          right; exact i1 hle
        | cons p pre' =>
          simp at h
          obtain ⟨rfl, rfl⟩ := h
          rcases i2 pre' y post rfl hle with hm | hm
          · left; simp only [List.mem_cons] at hm ⊢; tauto
          · right; exact hm
    · simp only [hlt, if_false]
      obtain ⟨i1, i2⟩ := ih b
      obtain ⟨_, hb, _⟩ := foldl_argmax_spec k xs b
      refine ⟨i1, ?_⟩
      intro pre y post h hle
      cases pre with
      | nil =>
        simp at h
        obtain ⟨rfl, rfl⟩ := h
        left
        have : xs.foldl (fun best y => if k best < k y then y else best) b = b := i1 (by omega)
        simp [this]
      | cons p pre' =>
        simp at h
        obtain ⟨rfl, rfl⟩ := h
        rcases i2 pre' y post rfl hle with hm | hm
        · left; simp only [List.mem_cons] at hm ⊢; tauto
        · right; exact hm

/-- `statistics.mode` returns the FIRST most frequent item: any item `y` that is at least as
    frequent occurs at or after it -/
theorem mode_first {xs : List Num} {m : Num} (h : mode xs = .ok m) :
    ∀ pre y post, xs = pre ++ y :: post → countEq m xs ≤ countEq y xs → m ∈ pre ∨ m = y := by
  cases xs with
  | nil => simp [mode] at h
  | cons x rest =>
    simp only [mode, Except.ok.injEq] at h
    obtain ⟨i1, i2⟩ := foldl_argmax_first (fun y => countEq y (x :: rest)) rest x
    rw [h] at i1 i2
    intro pre y post hsplit hle
    cases pre with
    | nil =>
      simp at hsplit
      obtain ⟨rfl, rfl⟩ := hsplit
      right; exact i1 hle
    | cons p pre' =>
      simp at hsplit
      obtain ⟨rfl, rfl⟩ := hsplit
      rcases i2 pre' y post rfl hle with hm | hm
      · left; exact hm
      · right; exact hm

end HotXL.Agg
