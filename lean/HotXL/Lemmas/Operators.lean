/-
  HotXL.Lemmas.Operators — helper lemmas for C06 about `HotXL.Ops` (model of
  hotxlfp/formulas/operators.py): Python-number algebra, unfolding equations of
  `evalArith` (`evaluate_arithmetic`) per operand shape, `adaptValue`, the element-wise zip,
  vocabulary about the shape of values (`NonArr`, `depth`, `ErrFree`, `eraseErr`) and
  the generic induction behind the commutativity theorems (`comm_core`).  Core Lean only.
-/
import HotXL.Model.Operators
namespace HotXL.Ops
open HotXL

/-! ### Python numbers -/

theorem numAdd_comm (a b : Num) : numAdd a b = numAdd b a := by
  cases a <;> cases b <;> simp [numAdd, Num.toRat, Int.add_comm, Rat.add_comm]

theorem numMul_comm (a b : Num) : numMul a b = numMul b a := by
  cases a <;> cases b <;> simp [numMul, Num.toRat, Int.mul_comm, Rat.mul_comm]

theorem toRat_numAdd (a b : Num) : Num.toRat (numAdd a b) = Num.toRat a + Num.toRat b := by
  cases a <;> cases b <;> simp [numAdd, Num.toRat, Rat.intCast_add]

theorem toRat_numSub (a b : Num) : Num.toRat (numSub a b) = Num.toRat a - Num.toRat b := by
  cases a <;> cases b <;> simp [numSub, Num.toRat, Rat.intCast_sub]

theorem toRat_numMul (a b : Num) : Num.toRat (numMul a b) = Num.toRat a * Num.toRat b := by
  cases a <;> cases b <;> simp [numMul, Num.toRat, Rat.intCast_mul]

/-! ### shapes of values -/

/-- a value that is not an array -/
def NonArr (v : Value) : Prop := ∀ xs, v ≠ .arr xs

theorem isErr_arr (xs : List Value) : isErr (.arr xs) = none := rfl

theorem isErr_eq_none_iff (v : Value) : isErr v = none ↔ ∀ e, v ≠ .err e := by
  cases v <;> simp [isErr]

/-! ### `adapt_value` -/

theorem adaptValue_nonArr (n : Nat) (v : Value) (h : NonArr v) : adaptValue n v = List.replicate n v := by
  cases v <;> first | rfl | exact absurd rfl (h _)

theorem adaptValue_arr (n : Nat) (ys : List Value) (h : ys.length ≠ 1) : adaptValue n (.arr ys) = ys := by
  rcases ys with _ | ⟨y, _ | ⟨y2, ys⟩⟩
  · rfl
  · exact absurd rfl h
  · rfl

theorem adaptValue_single (n : Nat) (y : Value) (h : NonArr y) :
    adaptValue n (.arr [y]) = List.replicate n y := by
  cases y <;> first | rfl | exact absurd rfl (h _)

/-! ### unfolding `evaluate_arithmetic` -/

theorem evalArith_scalar (fuel : Nat) (op : ArithOp) (l r : Value)
    (hl : isErr l = none) (hr : isErr r = none) (hla : NonArr l) (hra : NonArr r) :
    evalArith fuel op l r = arithScalar op l r := by
  rw [evalArith.eq_def]
  simp only [hl, hr]
  cases l <;> cases r <;> first | rfl | (exfalso; first | exact hla _ rfl | exact hra _ rfl)

theorem evalArith_err_left (fuel : Nat) (op : ArithOp) (e : Err) (r : Value) :
    evalArith fuel op (.err e) r = .ok (.err e) := by
  rw [evalArith.eq_def]; simp [isErr]

theorem evalArith_err_right (fuel : Nat) (op : ArithOp) (l : Value) (e : Err) (hl : isErr l = none) :
    evalArith fuel op l (.err e) = .ok (.err e) := by
  rw [evalArith.eq_def]; simp only [hl]; simp [isErr]

/-- two one-element arrays give the one-element array of the combined elements -/
theorem evalArith_one_one (f : Nat) (op : ArithOp) (x y : Value) :
    evalArith (f + 1) op (.arr [x]) (.arr [y]) = (evalArith f op x y).map (fun v => .arr [v]) := by
  rw [evalArith.eq_def]
  simp [isErr]

/-- a one-element array on the left of an array of another length acts as its element -/
theorem evalArith_one_left (f : Nat) (op : ArithOp) (x : Value) (ys : List Value) (h : ys.length ≠ 1) :
    evalArith (f + 1) op (.arr [x]) (.arr ys) = evalArith f op x (.arr ys) := by
  rw [evalArith.eq_def]
  rcases ys with _ | ⟨y, _ | ⟨y2, ys⟩⟩
  · simp [isErr]
  · exact absurd rfl h
  · simp [isErr]

/-- a one-element array on the right of an array of another length acts as its element -/
theorem evalArith_one_right (f : Nat) (op : ArithOp) (xs : List Value) (y : Value) (h : xs.length ≠ 1) :
    evalArith (f + 1) op (.arr xs) (.arr [y]) = evalArith f op (.arr xs) y := by
  rw [evalArith.eq_def]
  rcases xs with _ | ⟨x, _ | ⟨x2, xs⟩⟩
  · simp [isErr]
  · exact absurd rfl h
  · simp [isErr]

/-- array on the left (`ExcelArrayOps(lval).__op__(rval)`): the right operand is a non-array, or
    neither array has exactly one element -/
theorem evalArith_arr_left (f : Nat) (op : ArithOp) (xs : List Value) (r : Value)
    (hr : isErr r = none) (h1 : ∀ ys, r = .arr ys → xs.length ≠ 1 ∧ ys.length ≠ 1) :
    evalArith (f + 1) op (.arr xs) r =
      if (adaptValue xs.length r).length ≠ xs.length then .ok (.err .value)
      else (zipArith f op xs (adaptValue xs.length r)).map .arr := by
  rw [evalArith.eq_def]
  cases r with
  | arr ys =>
    obtain ⟨hx, hy⟩ := h1 ys rfl
    rcases xs with _ | ⟨x, _ | ⟨x2, xs⟩⟩ <;> rcases ys with _ | ⟨y, _ | ⟨y2, ys⟩⟩ <;>
      first | exact absurd rfl hx | exact absurd rfl hy | rfl
  | err => simp [isErr] at hr
  | _ => rcases xs with _ | ⟨x, _ | ⟨x2, xs⟩⟩ <;> rfl

/-- array on the right of a non-array (the reflected operators) -/
theorem evalArith_arr_right (f : Nat) (op : ArithOp) (l : Value) (ys : List Value)
    (hl : isErr l = none) (hla : NonArr l) :
    evalArith (f + 1) op l (.arr ys) = (zipArith f op (List.replicate ys.length l) ys).map .arr := by
  rw [evalArith.eq_def]
  simp only [hl, isErr_arr, adaptValue_nonArr _ _ hla]
  cases l <;> first | (simp; done) | exact absurd rfl (hla _)

/-! ### the element-wise zip -/

theorem zipArith_nil_left (f : Nat) (op : ArithOp) (ys : List Value) : zipArith f op [] ys = .ok [] := by
  rw [zipArith]

theorem zipArith_nil_right (f : Nat) (op : ArithOp) (xs : List Value) : zipArith f op xs [] = .ok [] := by
  cases xs <;> simp [zipArith.eq_def]

theorem zipArith_cons (f : Nat) (op : ArithOp) (x y : Value) (xs ys : List Value) :
    zipArith f op (x :: xs) (y :: ys) =
      (do let v ← evalArith f op x y; let vs ← zipArith f op xs ys; pure (v :: vs)) := by
  rw [zipArith]

/-- the zip is `mapM` over the list of pairs -/
theorem zipArith_eq_mapM (f : Nat) (op : ArithOp) (xs ys : List Value) :
    zipArith f op xs ys = (xs.zip ys).mapM (fun p => evalArith f op p.1 p.2) := by
  induction xs generalizing ys with
  | nil => simp [zipArith_nil_left]; rfl
  | cons x xs ih =>
    cases ys with
    | nil => simp [zipArith_nil_right]; rfl
    | cons y ys => simp [zipArith_cons, ih, List.mapM_cons]

theorem zipArith_replicate_right (f : Nat) (op : ArithOp) (xs : List Value) (s : Value) (n : Nat)
    (h : n = xs.length) :
    zipArith f op xs (List.replicate n s) = xs.mapM (fun x => evalArith f op x s) := by
  subst h
  induction xs with
  | nil => simp [zipArith_nil_left]; rfl
  | cons x xs ih => simp [List.replicate_succ, zipArith_cons, ih, List.mapM_cons]

theorem zipArith_replicate_left (f : Nat) (op : ArithOp) (ys : List Value) (s : Value) (n : Nat)
    (h : n = ys.length) :
    zipArith f op (List.replicate n s) ys = ys.mapM (fun y => evalArith f op s y) := by
  subst h
  induction ys with
  | nil => simp [zipArith_nil_left]; rfl
  | cons y ys ih => simp [List.replicate_succ, zipArith_cons, ih, List.mapM_cons]


/-! ### vocabulary about the shape of values, and the commutativity induction -/

mutual
/-- nesting depth of arrays (0 for a non-array) -/
def depth : Value → Nat
  | .arr xs => depthList xs + 1
  | _ => 0
def depthList : List Value → Nat
  | [] => 0
  | x :: xs => max (depth x) (depthList xs)
end

mutual
/-- forget which error code each error value carries (everywhere inside arrays) -/
def eraseErr : Value → Value
  | .err _ => .err .value
  | .arr xs => .arr (eraseErrList xs)
  | v => v
def eraseErrList : List Value → List Value
  | [] => []
  | x :: xs => eraseErr x :: eraseErrList xs
end

theorem eraseErrList_eq (xs : List Value) : eraseErrList xs = xs.map eraseErr := by
  induction xs with
  | nil => simp [eraseErrList]
  | cons x xs ih => simp [eraseErrList, ih]

theorem eraseErr_arr (xs : List Value) : eraseErr (.arr xs) = .arr (xs.map eraseErr) := by
  rw [eraseErr, eraseErrList_eq]

theorem depth_nonArr {v : Value} (h : NonArr v) : depth v = 0 := by
  cases v <;> first | rfl | exact absurd rfl (h _)

theorem depth_lt_of_mem {x : Value} {xs : List Value} (h : x ∈ xs) : depth x < depth (.arr xs) := by
  rw [depth]
  induction xs with
  | nil => cases h
  | cons y ys ih =>
    rw [depthList]
    rcases List.mem_cons.mp h with rfl | h'
    · omega
    · have := ih h'; omega

/-- no error value anywhere -/
inductive ErrFree : Value → Prop
  | scalar {v : Value} : NonArr v → isErr v = none → ErrFree v
  | arr {xs : List Value} : (∀ x ∈ xs, ErrFree x) → ErrFree (.arr xs)

theorem ErrFree.elem {xs : List Value} (h : ErrFree (.arr xs)) : ∀ x ∈ xs, ErrFree x := by
  cases h with
  | scalar h => exact absurd rfl (h _)
  | arr h => exact h

theorem nonArr_or (v : Value) : NonArr v ∨ ∃ xs, v = .arr xs := by
  cases v <;> first | exact Or.inr ⟨_, rfl⟩ | (left; intro xs h; cases h)

/-- the zip commutes if the operator commutes (up to `N`) on all pairs of elements -/
theorem zip_comm (N : Value → Value) (hN : ∀ l, N (.arr l) = .arr (l.map N)) (f1 f2 : Nat) (op : ArithOp) :
    ∀ xs ys : List Value,
      (∀ x ∈ xs, ∀ y ∈ ys, (evalArith f1 op x y).map N = (evalArith f2 op y x).map N) →
      ((zipArith f1 op xs ys).map .arr).map N = ((zipArith f2 op ys xs).map .arr).map N := by
  have key : ∀ xs ys : List Value,
      (∀ x ∈ xs, ∀ y ∈ ys, (evalArith f1 op x y).map N = (evalArith f2 op y x).map N) →
      (zipArith f1 op xs ys).map (List.map N) = (zipArith f2 op ys xs).map (List.map N) := by
    intro xs
    induction xs with
    | nil => intro ys _; rw [zipArith_nil_left, zipArith_nil_right]
    | cons x xs ih =>
      intro ys h
      cases ys with
      | nil => rw [zipArith_nil_left, zipArith_nil_right]
      | cons y ys =>
        have h0 := h x (List.mem_cons_self) y (List.mem_cons_self)
        have h1 := ih ys (fun x' hx' y' hy' => h x' (List.mem_cons_of_mem _ hx') y' (List.mem_cons_of_mem _ hy'))
        rw [zipArith_cons, zipArith_cons]
        cases hA : evalArith f1 op x y <;> cases hA' : evalArith f2 op y x <;>
          rw [hA, hA'] at h0 <;> simp only [Except.map] at h0 <;>
          cases hB : zipArith f1 op xs ys <;> cases hB' : zipArith f2 op ys xs <;>
          rw [hB, hB'] at h1 <;> simp only [Except.map] at h1 <;>
          simp_all [Except.map, bind, Except.bind, pure, Except.pure]
  intro xs ys h
  have := key xs ys h
  cases hB : zipArith f1 op xs ys <;> cases hB' : zipArith f2 op ys xs <;>
    rw [hB, hB'] at this <;> simp only [Except.map] at this <;> simp_all [Except.map]


theorem length_eq_one_or (xs : List Value) : (∃ x, xs = [x]) ∨ xs.length ≠ 1 := by
  rcases xs with _ | ⟨x, _ | ⟨x2, xs⟩⟩
  · exact Or.inr (by simp)
  · exact Or.inl ⟨x, rfl⟩
  · exact Or.inr (by simp)

/-- the induction behind commutativity: if the operator commutes up to `N` on non-arrays
    (under a hypothesis `E` on the operand pair that is inherited by array elements), it does so
    on all values, with any two fuels covering the nesting depth -/
theorem comm_core (op : ArithOp) (N : Value → Value) (hN : ∀ l, N (.arr l) = .arr (l.map N))
    (E : Value → Value → Prop)
    (E_left : ∀ xs b, E (.arr xs) b → ∀ x ∈ xs, E x b)
    (E_right : ∀ a ys, E a (.arr ys) → ∀ y ∈ ys, E a y)
    (base : ∀ f1 f2 a b, NonArr a → NonArr b → E a b →
      (evalArith f1 op a b).map N = (evalArith f2 op b a).map N) :
    ∀ n a b f1 f2, E a b → depth a + depth b ≤ n → n ≤ f1 → n ≤ f2 →
      (evalArith f1 op a b).map N = (evalArith f2 op b a).map N := by
  intro n
  induction n with
  | zero =>
    intro a b f1 f2 hE hd _ _
    rcases nonArr_or a with ha | ⟨xs, rfl⟩
    · rcases nonArr_or b with hb | ⟨ys, rfl⟩
      · exact base f1 f2 a b ha hb hE
      · rw [depth] at hd; omega
    · rw [depth] at hd; omega
  | succ n ih =>
    intro a b f1 f2 hE hd h1 h2
    obtain ⟨g1, rfl⟩ : ∃ g, f1 = g + 1 := ⟨f1 - 1, by omega⟩
    obtain ⟨g2, rfl⟩ : ∃ g, f2 = g + 1 := ⟨f2 - 1, by omega⟩
    have hg1 : n ≤ g1 := by omega
    have hg2 : n ≤ g2 := by omega
    rcases nonArr_or a with ha | ⟨xs, rfl⟩
    · rcases nonArr_or b with hb | ⟨ys, rfl⟩
      · exact base _ _ a b ha hb hE
      · -- scalar ⊕ array
        cases hea : isErr a with
        | some e =>
          have : a = .err e := by cases a <;> simp_all [isErr]
          subst this
          rw [evalArith_err_left, evalArith_err_right _ _ _ _ rfl]
        | none =>
          rw [evalArith_arr_right g1 op a ys hea ha,
            evalArith_arr_left g2 op ys a hea (by intro zs h; exact absurd h (ha zs)),
            adaptValue_nonArr _ _ ha, if_neg (by simp)]
          apply zip_comm N hN
          intro x hx y hy
          rw [List.eq_of_mem_replicate hx]
          have hdy := depth_lt_of_mem hy
          exact ih a y g1 g2 (E_right a ys hE y hy) (by omega) hg1 hg2
    · rcases nonArr_or b with hb | ⟨ys, rfl⟩
      · -- array ⊕ scalar
        cases heb : isErr b with
        | some e =>
          have : b = .err e := by cases b <;> simp_all [isErr]
          subst this
          rw [evalArith_err_left, evalArith_err_right _ _ _ _ rfl]
        | none =>
          rw [evalArith_arr_right g2 op b xs heb hb,
            evalArith_arr_left g1 op xs b heb (by intro zs h; exact absurd h (hb zs)),
            adaptValue_nonArr _ _ hb, if_neg (by simp)]
          apply zip_comm N hN
          intro x hx y hy
          rw [List.eq_of_mem_replicate hy]
          have hdx := depth_lt_of_mem hx
          exact ih x b g1 g2 (E_left xs b hE x hx) (by omega) hg1 hg2
      · -- array ⊕ array
        have hIH : ∀ x ∈ xs, ∀ y ∈ ys, (evalArith g1 op x y).map N = (evalArith g2 op y x).map N := by
          intro x hx y hy
          have hdx := depth_lt_of_mem hx
          have hdy := depth_lt_of_mem hy
          exact ih x y g1 g2 (E_right x ys (E_left xs _ hE x hx) y hy) (by omega) hg1 hg2
        rcases length_eq_one_or xs with ⟨x, rfl⟩ | hlen
        · have hdx : depth x < depth (.arr [x]) := depth_lt_of_mem (List.mem_singleton.mpr rfl)
          rcases length_eq_one_or ys with ⟨y, rfl⟩ | hlen'
          · -- {x} ⊕ {y} = {x ⊕ y}
            rw [evalArith_one_one, evalArith_one_one]
            have := hIH x (List.mem_singleton.mpr rfl) y (List.mem_singleton.mpr rfl)
            cases hA : evalArith g1 op x y <;> cases hA' : evalArith g2 op y x <;>
              rw [hA, hA'] at this <;> simp only [Except.map] at this <;>
              simp_all [Except.map]
          · -- {x} ⊕ ys = x ⊕ ys
            rw [evalArith_one_left g1 op x ys hlen', evalArith_one_right g2 op ys x hlen']
            exact ih x (.arr ys) g1 g2 (E_left [x] _ hE x (List.mem_singleton.mpr rfl)) (by omega) hg1 hg2
        · rcases length_eq_one_or ys with ⟨y, rfl⟩ | hlen'
          · -- xs ⊕ {y} = xs ⊕ y
            have hdy : depth y < depth (.arr [y]) := depth_lt_of_mem (List.mem_singleton.mpr rfl)
            rw [evalArith_one_left g2 op y xs hlen, evalArith_one_right g1 op xs y hlen]
            exact ih (.arr xs) y g1 g2 (E_right _ [y] hE y (List.mem_singleton.mpr rfl)) (by omega) hg1 hg2
          · rw [evalArith_arr_left g1 op xs (.arr ys) rfl (by intro zs h; cases h; exact ⟨hlen, hlen'⟩),
              evalArith_arr_left g2 op ys (.arr xs) rfl (by intro zs h; cases h; exact ⟨hlen', hlen⟩),
              adaptValue_arr _ _ hlen', adaptValue_arr _ _ hlen]
            by_cases hl : ys.length = xs.length
            · rw [if_neg (by simpa using hl), if_neg (by simpa using hl.symm)]
              exact zip_comm N hN g1 g2 op _ _ hIH
            · rw [if_pos hl, if_pos (fun h => hl h.symm)]

theorem isErr_eq_some {v : Value} {e : Err} (h : isErr v = some e) : v = .err e := by
  cases v <;> simp_all [isErr]

theorem except_map_id {ε α : Type} (r : Except ε α) : r.map id = r := by cases r <;> rfl

theorem eraseErr_err (e : Err) : eraseErr (.err e) = .err .value := by rw [eraseErr]

end HotXL.Ops
