/-
  HotXL.Lemmas.Emitter — specification vocabulary and helper lemmas for property C20
  (model `HotXL.Model.Emitter` of hotxlfp/tinyemitter.py).
-/
import HotXL.Model.Emitter

namespace HotXL.Emitter

/-! ## Specification vocabulary -/

/-- the host callback a listener finally calls (`fn` itself, or `fn._` for a once-wrapper) -/
def Listener.cb (l : Listener) : CbId :=
  match l.fn with
  | .plain c => c
  | .wrapper _ c => c

/-- the once-wrapper id of a listener (`none` for a plain `on` listener) -/
def Listener.wid? (l : Listener) : Option Nat :=
  match l.fn with
  | .plain _ => none
  | .wrapper w _ => some w

/-- listener registered by `on` (not a once-wrapper) -/
def Listener.isPlain (l : Listener) : Bool :=
  match l.fn with
  | .plain _ => true
  | .wrapper _ _ => false

/-- the log entry that calling listener `l` for event `n` with argument `arg` at nesting `depth` produces -/
def entryOf (n : Name) (arg depth : Nat) (l : Listener) : Call :=
  { cb := l.cb, arg := arg, ctx := l.ctx, via := l.wid?, name := n, depth := depth }

/-- the state right after once-wrapper `w` of event `n` has set its flag and unsubscribed itself -/
def fire (σ : State) (n : Name) (w : Nat) : State :=
  doOffWrapper { σ with fired := w :: σ.fired } n w

/-- number of calls delivered through once-wrapper `w` -/
def viaCount (w : Nat) (log : List Call) : Nat :=
  (log.filter (fun c => c.via = some w)).length

theorem Listener.wid?_eq_some_iff (l : Listener) (w : Nat) :
    l.wid? = some w ↔ ∃ cb, l.fn = .wrapper w cb := by
  unfold Listener.wid?
  split <;> simp_all

theorem Listener.wid?_eq_none_iff (l : Listener) :
    l.wid? = none ↔ l.isPlain = true := by
  unfold Listener.wid? Listener.isPlain
  split <;> simp_all

theorem Listener.isPlain_iff (l : Listener) :
    l.isPlain = true ↔ ∃ cb, l.fn = .plain cb := by
  unfold Listener.isPlain
  split <;> simp_all

theorem State.ext' {σ τ : State} (h1 : σ.subs = τ.subs) (h2 : σ.nextWid = τ.nextWid)
    (h3 : σ.fired = τ.fired) : σ = τ := by
  cases σ; cases τ; simp_all

/-! ## Unfolding equations in projection form -/

theorem runOps_nil (fuel : Nat) (sc : Scripts) (d : Nat) (σ : State) :
    runOps fuel sc d σ [] = (σ, []) := by
  rw [runOps]

theorem runOps_cons (fuel : Nat) (sc : Scripts) (d : Nat) (σ : State) (op : Op) (rest : List Op) :
    runOps fuel sc d σ (op :: rest) =
      ((runOps fuel sc d (step fuel sc d σ op).1 rest).1,
       (step fuel sc d σ op).2 ++ (runOps fuel sc d (step fuel sc d σ op).1 rest).2) := by
  rw [runOps]

theorem step_on (fuel : Nat) (sc : Scripts) (d : Nat) (σ : State) (n : Name) (cb : CbId) (ctx : Ctx) :
    step fuel sc d σ (.on n cb ctx) = (doOn σ n cb ctx, []) := by rw [step]

theorem step_once (fuel : Nat) (sc : Scripts) (d : Nat) (σ : State) (n : Name) (cb : CbId) (ctx : Ctx) :
    step fuel sc d σ (.once n cb ctx) = (doOnce σ n cb ctx, []) := by rw [step]

theorem step_off (fuel : Nat) (sc : Scripts) (d : Nat) (σ : State) (n : Name) :
    step fuel sc d σ (.off n) = (doOff σ n, []) := by rw [step]

theorem step_offCb (fuel : Nat) (sc : Scripts) (d : Nat) (σ : State) (n : Name) (cb : CbId) :
    step fuel sc d σ (.offCb n cb) = (doOffCb σ n cb, []) := by rw [step]

theorem step_emit (fuel : Nat) (sc : Scripts) (d : Nat) (σ : State) (n : Name) (arg : Nat) :
    step fuel sc d σ (.emit n arg) = deliver fuel sc d σ n arg (σ.subs n) := by rw [step]

theorem deliver_nil (fuel : Nat) (sc : Scripts) (d : Nat) (σ : State) (n : Name) (arg : Nat) :
    deliver fuel sc d σ n arg [] = (σ, []) := by
  rw [deliver]

theorem deliver_cons (fuel : Nat) (sc : Scripts) (d : Nat) (σ : State) (n : Name) (arg : Nat)
    (l : Listener) (ls : List Listener) :
    deliver fuel sc d σ n arg (l :: ls) =
      ((deliver fuel sc d (call fuel sc d σ n arg l).1 n arg ls).1,
       (call fuel sc d σ n arg l).2 ++ (deliver fuel sc d (call fuel sc d σ n arg l).1 n arg ls).2) := by
  rw [deliver]

theorem call_plain_zero {l : Listener} {cb : CbId} (h : l.fn = .plain cb)
    (sc : Scripts) (d : Nat) (σ : State) (n : Name) (arg : Nat) :
    call 0 sc d σ n arg l = (σ, [entryOf n arg d l]) := by
  rw [call]; simp [h, entryOf, Listener.cb, Listener.wid?]

theorem call_plain_succ {l : Listener} {cb : CbId} (h : l.fn = .plain cb)
    (f : Nat) (sc : Scripts) (d : Nat) (σ : State) (n : Name) (arg : Nat) :
    call (f + 1) sc d σ n arg l =
      ((runOps f sc (d + 1) σ (sc cb)).1, entryOf n arg d l :: (runOps f sc (d + 1) σ (sc cb)).2) := by
  rw [call]; simp [h, entryOf, Listener.cb, Listener.wid?]

theorem call_wrapper_fired {l : Listener} {w : Nat} {cb : CbId} (h : l.fn = .wrapper w cb)
    (fuel : Nat) (sc : Scripts) (d : Nat) {σ : State} (hf : w ∈ σ.fired) (n : Name) (arg : Nat) :
    call fuel sc d σ n arg l = (σ, []) := by
  rw [call]; simp [h, hf]

theorem call_wrapper_zero {l : Listener} {w : Nat} {cb : CbId} (h : l.fn = .wrapper w cb)
    (sc : Scripts) (d : Nat) {σ : State} (hf : w ∉ σ.fired) (n : Name) (arg : Nat) :
    call 0 sc d σ n arg l = (fire σ n w, [entryOf n arg d l]) := by
  rw [call]; simp [h, hf, entryOf, Listener.cb, Listener.wid?, fire]

theorem call_wrapper_succ {l : Listener} {w : Nat} {cb : CbId} (h : l.fn = .wrapper w cb)
    (f : Nat) (sc : Scripts) (d : Nat) {σ : State} (hf : w ∉ σ.fired) (n : Name) (arg : Nat) :
    call (f + 1) sc d σ n arg l =
      ((runOps f sc (d + 1) (fire σ n w) (sc cb)).1,
       entryOf n arg d l :: (runOps f sc (d + 1) (fire σ n w) (sc cb)).2) := by
  rw [call]; simp [h, hf, entryOf, Listener.cb, Listener.wid?, fire]

/-! ## `viaCount` -/

@[simp] theorem viaCount_nil (w : Nat) : viaCount w [] = 0 := rfl

theorem viaCount_append (w : Nat) (l1 l2 : List Call) :
    viaCount w (l1 ++ l2) = viaCount w l1 + viaCount w l2 := by
  simp [viaCount, List.filter_append]

theorem viaCount_cons_of_eq {w : Nat} {e : Call} (h : e.via = some w) (log : List Call) :
    viaCount w (e :: log) = viaCount w log + 1 := by
  simp [viaCount, h]

theorem viaCount_cons_of_ne {w : Nat} {e : Call} (h : e.via ≠ some w) (log : List Call) :
    viaCount w (e :: log) = viaCount w log := by
  simp [viaCount, h]

theorem viaCount_eq_zero_iff (w : Nat) (log : List Call) :
    viaCount w log = 0 ↔ ∀ c ∈ log, c.via ≠ some w := by
  simp [viaCount, List.filter_eq_nil_iff]

theorem viaCount_pos_iff (w : Nat) (log : List Call) :
    0 < viaCount w log ↔ ∃ c ∈ log, c.via = some w := by
  rw [Nat.pos_iff_ne_zero, Ne, viaCount_eq_zero_iff]
  simp

/-! ## The `fired` flag invariant: once means once -/

/-- relation between the state before (`σ`), the state after (`σ'`) and the log of any piece of execution -/
structure FiredInv (σ σ' : State) (log : List Call) : Prop where
  /-- flags are never reset -/
  mono : ∀ w ∈ σ.fired, w ∈ σ'.fired
  /-- a wrapper whose flag was already set is not called -/
  old : ∀ w ∈ σ.fired, viaCount w log = 0
  /-- no wrapper is called twice -/
  le_one : ∀ w, viaCount w log ≤ 1
  /-- a called wrapper has its flag set afterwards -/
  marks : ∀ w, 0 < viaCount w log → w ∈ σ'.fired
  /-- … and only called wrappers get their flag set -/
  new : ∀ w ∈ σ'.fired, w ∈ σ.fired ∨ 0 < viaCount w log

theorem FiredInv.of_fired_eq {σ σ' : State} (h : σ'.fired = σ.fired) : FiredInv σ σ' [] :=
  ⟨fun _ hw => h ▸ hw, fun _ _ => rfl, fun _ => Nat.zero_le _, fun _ h0 => absurd h0 (Nat.lt_irrefl 0),
   fun _ hw => Or.inl (h ▸ hw)⟩

theorem FiredInv.refl (σ : State) : FiredInv σ σ [] := FiredInv.of_fired_eq rfl

theorem FiredInv.seq {σ σ1 σ2 : State} {l1 l2 : List Call}
    (h1 : FiredInv σ σ1 l1) (h2 : FiredInv σ1 σ2 l2) : FiredInv σ σ2 (l1 ++ l2) := by
  refine ⟨fun w hw => h2.mono w (h1.mono w hw), ?_, ?_, ?_, ?_⟩
  · intro w hw
    rw [viaCount_append, h1.old w hw, h2.old w (h1.mono w hw)]
  · intro w
    rw [viaCount_append]
    by_cases h : 0 < viaCount w l1
    · have := h2.old w (h1.marks w h)
      have := h1.le_one w
      omega
    · have := h2.le_one w
      omega
  · intro w hw
    rw [viaCount_append] at hw
    by_cases h : 0 < viaCount w l1
    · exact h2.mono w (h1.marks w h)
    · exact h2.marks w (by omega)
  · intro w hw
    rw [viaCount_append]
    rcases h2.new w hw with h | h
    · rcases h1.new w h with h | h
      · exact Or.inl h
      · exact Or.inr (by omega)
    · exact Or.inr (by omega)

theorem FiredInv.plain {σ σ' : State} {log : List Call} (h : FiredInv σ σ' log) {e : Call}
    (he : e.via = none) : FiredInv σ σ' (e :: log) := by
  have hne : ∀ w, e.via ≠ some w := by intro w; simp [he]
  refine ⟨h.mono, ?_, ?_, ?_, ?_⟩
  · intro w hw; rw [viaCount_cons_of_ne (hne w)]; exact h.old w hw
  · intro w; rw [viaCount_cons_of_ne (hne w)]; exact h.le_one w
  · intro w; rw [viaCount_cons_of_ne (hne w)]; exact h.marks w
  · intro w hw; rw [viaCount_cons_of_ne (hne w)]; exact h.new w hw

theorem fire_fired (σ : State) (n : Name) (w : Nat) : (fire σ n w).fired = w :: σ.fired := rfl

theorem fire_nextWid (σ : State) (n : Name) (w : Nat) : (fire σ n w).nextWid = σ.nextWid := rfl

theorem FiredInv.wrapper {σ σ' : State} {n : Name} {w : Nat} {log : List Call} (hnf : w ∉ σ.fired)
    (h : FiredInv (fire σ n w) σ' log) {e : Call} (he : e.via = some w) :
    FiredInv σ σ' (e :: log) := by
  have hw0 : viaCount w log = 0 := h.old w (by simp [fire_fired])
  refine ⟨fun v hv => h.mono v (by simp [fire_fired, hv]), ?_, ?_, ?_, ?_⟩
  · intro v hv
    have hne : e.via ≠ some v := by
      rw [he]; intro heq; cases heq; exact hnf hv
    rw [viaCount_cons_of_ne hne]
    exact h.old v (by simp [fire_fired, hv])
  · intro v
    by_cases hv : v = w
    · subst hv; rw [viaCount_cons_of_eq he, hw0]; exact Nat.le_refl 1
    · have hne : e.via ≠ some v := by rw [he]; intro heq; cases heq; exact hv rfl
      rw [viaCount_cons_of_ne hne]; exact h.le_one v
  · intro v hpos
    by_cases hv : v = w
    · subst hv; exact h.mono v (by simp [fire_fired])
    · have hne : e.via ≠ some v := by rw [he]; intro heq; cases heq; exact hv rfl
      rw [viaCount_cons_of_ne hne] at hpos; exact h.marks v hpos
  · intro v hv
    by_cases hvw : v = w
    · subst hvw; right; rw [viaCount_cons_of_eq he]; exact Nat.succ_pos _
    · have hne : e.via ≠ some v := by rw [he]; intro heq; cases heq; exact hvw rfl
      rw [viaCount_cons_of_ne hne]
      rcases h.new v hv with h' | h'
      · rw [fire_fired] at h'
        rcases List.mem_cons.mp h' with h' | h'
        · exact absurd h' hvw
        · exact Or.inl h'
      · exact Or.inr h'

theorem entryOf_via (n : Name) (arg d : Nat) (l : Listener) : (entryOf n arg d l).via = l.wid? := rfl

theorem wid?_of_plain {l : Listener} {cb : CbId} (h : l.fn = .plain cb) : l.wid? = none := by
  simp [Listener.wid?, h]

theorem wid?_of_wrapper {l : Listener} {w : Nat} {cb : CbId} (h : l.fn = .wrapper w cb) :
    l.wid? = some w := by
  simp [Listener.wid?, h]

/-- the `fired` invariant holds for every piece of execution, whatever the callbacks do -/
theorem firedInv_all (sc : Scripts) :
    (∀ (fuel depth : Nat) (σ : State) (ops : List Op),
        FiredInv σ (runOps fuel sc depth σ ops).1 (runOps fuel sc depth σ ops).2) ∧
    (∀ (fuel depth : Nat) (σ : State) (op : Op),
        FiredInv σ (step fuel sc depth σ op).1 (step fuel sc depth σ op).2) ∧
    (∀ (fuel depth : Nat) (σ : State) (n : Name) (arg : Nat) (ls : List Listener),
        FiredInv σ (deliver fuel sc depth σ n arg ls).1 (deliver fuel sc depth σ n arg ls).2) ∧
    (∀ (fuel depth : Nat) (σ : State) (n : Name) (arg : Nat) (l : Listener),
        FiredInv σ (call fuel sc depth σ n arg l).1 (call fuel sc depth σ n arg l).2) := by
  apply runOps.mutual_induct sc
    (motive1 := fun fuel depth σ ops =>
      FiredInv σ (runOps fuel sc depth σ ops).1 (runOps fuel sc depth σ ops).2)
    (motive2 := fun fuel depth σ op =>
      FiredInv σ (step fuel sc depth σ op).1 (step fuel sc depth σ op).2)
    (motive3 := fun fuel depth σ n arg ls =>
      FiredInv σ (deliver fuel sc depth σ n arg ls).1 (deliver fuel sc depth σ n arg ls).2)
    (motive4 := fun fuel depth σ n arg l =>
      FiredInv σ (call fuel sc depth σ n arg l).1 (call fuel sc depth σ n arg l).2)
  · intro fuel depth σ
    rw [runOps_nil]; exact FiredInv.refl σ
  · intro fuel depth σ op rest σ1 l1 h1 σ2 l2 _ ih1 ih2
    rw [runOps_cons]
    rw [h1] at ih1 ⊢
    exact ih1.seq ih2
  · intro fuel depth σ n cb ctx; rw [step_on]; exact FiredInv.of_fired_eq rfl
  · intro fuel depth σ n cb ctx; rw [step_once]; exact FiredInv.of_fired_eq rfl
  · intro fuel depth σ n; rw [step_off]; exact FiredInv.of_fired_eq rfl
  · intro fuel depth σ n cb; rw [step_offCb]; exact FiredInv.of_fired_eq rfl
  · intro fuel depth σ n arg ih; rw [step_emit]; exact ih
  · intro fuel depth σ n arg; rw [deliver_nil]; exact FiredInv.refl σ
  · intro fuel depth σ n arg l ls σ1 l1 h1 σ2 l2 _ ih1 ih2
    rw [deliver_cons]
    rw [h1] at ih1 ⊢
    exact ih1.seq ih2
  · intro depth σ n arg l cb h
    rw [call_plain_zero h]
    exact (FiredInv.refl σ).plain (by rw [entryOf_via, wid?_of_plain h])
  · intro depth σ n arg l cb h f σ2 l2 _ ih
    rw [call_plain_succ h]
    exact ih.plain (by rw [entryOf_via, wid?_of_plain h])
  · intro fuel depth σ n arg l w cb h hf
    rw [call_wrapper_fired h _ _ _ hf]; exact FiredInv.refl σ
  · intro depth σ n arg l w cb h hf
    rw [call_wrapper_zero h _ _ hf]
    exact FiredInv.wrapper hf (FiredInv.refl _) (by rw [entryOf_via, wid?_of_wrapper h])
  · intro depth σ n arg l w cb h hf σ0 σ1 f σ2 l2 _ ih
    rw [call_wrapper_succ h _ _ _ hf]
    exact FiredInv.wrapper hf ih (by rw [entryOf_via, wid?_of_wrapper h])

/-! ## Monotonicity: wrapper ids are only ever created fresh -/

/-- `σ'` is reachable-like from `σ`: the allocation counter and the flags only grow, and every
    once-wrapper of `σ'` whose id was already allocated in `σ` was subscribed (same name) in `σ` -/
structure Mono (σ σ' : State) : Prop where
  wid_le : σ.nextWid ≤ σ'.nextWid
  fired_sub : ∀ w ∈ σ.fired, w ∈ σ'.fired
  old_wrappers : ∀ m l w, l ∈ σ'.subs m → l.wid? = some w → w < σ.nextWid → l ∈ σ.subs m

theorem Mono.refl (σ : State) : Mono σ σ :=
  ⟨Nat.le_refl _, fun _ h => h, fun _ _ _ h _ _ => h⟩

theorem Mono.trans {σ σ1 σ2 : State} (h1 : Mono σ σ1) (h2 : Mono σ1 σ2) : Mono σ σ2 :=
  ⟨Nat.le_trans h1.wid_le h2.wid_le, fun w hw => h2.fired_sub w (h1.fired_sub w hw),
   fun m l w hl hw hlt =>
     h1.old_wrappers m l w (h2.old_wrappers m l w hl hw (Nat.lt_of_lt_of_le hlt h1.wid_le)) hw hlt⟩

theorem setSubs_subs_self (σ : State) (n : Name) (l : List Listener) : (setSubs σ n l).subs n = l := by
  simp [setSubs]

theorem setSubs_subs_of_ne (σ : State) {m n : Name} (h : m ≠ n) (l : List Listener) :
    (setSubs σ n l).subs m = σ.subs m := by
  simp [setSubs, h]

/-- shrinking subscription lists (with counters and flags at least as large) is monotone -/
theorem Mono.of_subset {σ σ' : State} (hw : σ.nextWid ≤ σ'.nextWid)
    (hf : ∀ w ∈ σ.fired, w ∈ σ'.fired) (hs : ∀ m l, l ∈ σ'.subs m → l ∈ σ.subs m) : Mono σ σ' :=
  ⟨hw, hf, fun m l _ hl _ _ => hs m l hl⟩

theorem mem_setSubs_filter {σ : State} {n m : Name} {p : Listener → Bool} {l : Listener}
    (h : l ∈ (setSubs σ n ((σ.subs n).filter p)).subs m) : l ∈ σ.subs m := by
  by_cases hm : m = n
  · subst hm; rw [setSubs_subs_self] at h; exact (List.mem_filter.mp h).1
  · rwa [setSubs_subs_of_ne σ hm] at h

theorem Mono.doOn (σ : State) (n : Name) (cb : CbId) (ctx : Ctx) : Mono σ (doOn σ n cb ctx) := by
  refine ⟨Nat.le_refl _, fun _ h => h, ?_⟩
  intro m l w hl hw _
  by_cases hm : m = n
  · subst hm
    simp only [HotXL.Emitter.doOn, setSubs_subs_self, List.mem_append, List.mem_singleton] at hl
    rcases hl with hl | hl
    · exact hl
    · subst hl; simp [Listener.wid?] at hw
  · simpa [HotXL.Emitter.doOn, setSubs_subs_of_ne σ hm] using hl

theorem doOnce_subs (σ : State) (n : Name) (cb : CbId) (ctx : Ctx) (m : Name) :
    (doOnce σ n cb ctx).subs m =
      if m = n then σ.subs n ++ [{ fn := .wrapper σ.nextWid cb, ctx := ctx }] else σ.subs m := rfl

theorem doOnce_nextWid (σ : State) (n : Name) (cb : CbId) (ctx : Ctx) :
    (doOnce σ n cb ctx).nextWid = σ.nextWid + 1 := rfl

theorem doOnce_fired (σ : State) (n : Name) (cb : CbId) (ctx : Ctx) :
    (doOnce σ n cb ctx).fired = σ.fired := rfl

theorem Mono.doOnce (σ : State) (n : Name) (cb : CbId) (ctx : Ctx) : Mono σ (doOnce σ n cb ctx) := by
  refine ⟨Nat.le_succ _, fun _ h => h, ?_⟩
  intro m l w hl hw hlt
  rw [doOnce_subs] at hl
  by_cases hm : m = n
  · subst hm
    simp only [if_true, List.mem_append, List.mem_singleton] at hl
    rcases hl with hl | hl
    · exact hl
    · subst hl
      simp [Listener.wid?] at hw
      omega
  · simpa [hm] using hl

theorem mem_doOff_subs {σ : State} {n m : Name} {l : Listener} (hl : l ∈ (doOff σ n).subs m) :
    l ∈ σ.subs m := by
  by_cases hm : m = n
  · subst hm; simp [HotXL.Emitter.doOff, setSubs_subs_self] at hl
  · simpa [HotXL.Emitter.doOff, setSubs_subs_of_ne σ hm] using hl

theorem Mono.doOff (σ : State) (n : Name) : Mono σ (doOff σ n) :=
  Mono.of_subset (Nat.le_refl _) (fun _ h => h) (fun _ _ hl => mem_doOff_subs hl)

theorem Mono.doOffCb (σ : State) (n : Name) (cb : CbId) : Mono σ (doOffCb σ n cb) :=
  Mono.of_subset (Nat.le_refl _) (fun _ h => h) (fun _ _ hl => mem_setSubs_filter hl)

theorem fire_subs (σ : State) (n : Name) (w : Nat) (m : Name) :
    (fire σ n w).subs m = if m = n then (σ.subs n).filter (keepsAgainstWrapper w) else σ.subs m := rfl

theorem mem_fire_subs {σ : State} {n : Name} {w : Nat} {m : Name} {l : Listener}
    (h : l ∈ (fire σ n w).subs m) : l ∈ σ.subs m := by
  rw [fire_subs] at h
  by_cases hm : m = n
  · subst hm; simp only [if_true] at h; exact (List.mem_filter.mp h).1
  · simpa [hm] using h

theorem Mono.fire (σ : State) (n : Name) (w : Nat) : Mono σ (fire σ n w) :=
  Mono.of_subset (Nat.le_refl _) (fun v hv => by simp [fire_fired, hv]) (fun _ _ hl => mem_fire_subs hl)

/-- every piece of execution is monotone -/
theorem mono_all (sc : Scripts) :
    (∀ (fuel depth : Nat) (σ : State) (ops : List Op), Mono σ (runOps fuel sc depth σ ops).1) ∧
    (∀ (fuel depth : Nat) (σ : State) (op : Op), Mono σ (step fuel sc depth σ op).1) ∧
    (∀ (fuel depth : Nat) (σ : State) (n : Name) (arg : Nat) (ls : List Listener),
        Mono σ (deliver fuel sc depth σ n arg ls).1) ∧
    (∀ (fuel depth : Nat) (σ : State) (n : Name) (arg : Nat) (l : Listener),
        Mono σ (call fuel sc depth σ n arg l).1) := by
  apply runOps.mutual_induct sc
    (motive1 := fun fuel depth σ ops => Mono σ (runOps fuel sc depth σ ops).1)
    (motive2 := fun fuel depth σ op => Mono σ (step fuel sc depth σ op).1)
    (motive3 := fun fuel depth σ n arg ls => Mono σ (deliver fuel sc depth σ n arg ls).1)
    (motive4 := fun fuel depth σ n arg l => Mono σ (call fuel sc depth σ n arg l).1)
  · intro fuel depth σ
    rw [runOps_nil]; exact Mono.refl σ
  · intro fuel depth σ op rest σ1 l1 h1 σ2 l2 _ ih1 ih2
    rw [runOps_cons]
    rw [h1] at ih1 ⊢
    exact ih1.trans ih2
  · intro fuel depth σ n cb ctx; rw [step_on]; exact Mono.doOn σ n cb ctx
  · intro fuel depth σ n cb ctx; rw [step_once]; exact Mono.doOnce σ n cb ctx
  · intro fuel depth σ n; rw [step_off]; exact Mono.doOff σ n
  · intro fuel depth σ n cb; rw [step_offCb]; exact Mono.doOffCb σ n cb
  · intro fuel depth σ n arg ih; rw [step_emit]; exact ih
  · intro fuel depth σ n arg; rw [deliver_nil]; exact Mono.refl σ
  · intro fuel depth σ n arg l ls σ1 l1 h1 σ2 l2 _ ih1 ih2
    rw [deliver_cons]
    rw [h1] at ih1 ⊢
    exact ih1.trans ih2
  · intro depth σ n arg l cb h
    rw [call_plain_zero h]; exact Mono.refl σ
  · intro depth σ n arg l cb h f σ2 l2 _ ih
    rw [call_plain_succ h]; exact ih
  · intro fuel depth σ n arg l w cb h hf
    rw [call_wrapper_fired h _ _ _ hf]; exact Mono.refl σ
  · intro depth σ n arg l w cb h hf
    rw [call_wrapper_zero h _ _ hf]; exact Mono.fire σ n w
  · intro depth σ n arg l w cb h hf σ0 σ1 f σ2 l2 _ ih
    rw [call_wrapper_succ h _ _ _ hf]
    exact (Mono.fire σ n w).trans ih

/-- after delivering the snapshot `ls`, every once-wrapper of `ls` has its flag set -/
theorem deliver_fires (fuel : Nat) (sc : Scripts) (d : Nat) (n : Name) (arg : Nat) :
    ∀ (ls : List Listener) (σ : State), ∀ l ∈ ls, ∀ w, l.wid? = some w →
      w ∈ (deliver fuel sc d σ n arg ls).1.fired := by
  intro ls
  induction ls with
  | nil => intro σ l hl; cases hl
  | cons l0 ls ih =>
    intro σ l hl w hw
    rw [deliver_cons]
    rcases List.mem_cons.mp hl with hl | hl
    · subst hl
      apply ((mono_all sc).2.2.1 fuel d _ n arg ls).fired_sub
      obtain ⟨cb, hfn⟩ := (Listener.wid?_eq_some_iff l w).mp hw
      by_cases hf : w ∈ σ.fired
      · rw [call_wrapper_fired hfn _ _ _ hf]; exact hf
      · cases fuel with
        | zero => rw [call_wrapper_zero hfn _ _ hf, fire_fired]; simp
        | succ f =>
          rw [call_wrapper_succ hfn _ _ _ hf]
          exact ((mono_all sc).1 f (d + 1) _ (sc cb)).fired_sub w (by rw [fire_fired]; simp)
    · exact ih _ l hl w hw

/-! ## Well-formed states -/

/-- well-formedness of emitter states (holds for every state reachable from `init`) -/
structure WF (σ : State) : Prop where
  /-- subscribed once-wrappers have allocated ids -/
  subs_lt : ∀ n l w, l ∈ σ.subs n → l.wid? = some w → w < σ.nextWid
  /-- set flags belong to allocated ids -/
  fired_lt : ∀ w ∈ σ.fired, w < σ.nextWid
  /-- a once-wrapper whose flag is set is no longer subscribed anywhere -/
  fired_gone : ∀ w ∈ σ.fired, ∀ n l, l ∈ σ.subs n → l.wid? ≠ some w
  /-- a once-wrapper id is subscribed under one name only -/
  home : ∀ m n l l' w, l ∈ σ.subs m → l' ∈ σ.subs n → l.wid? = some w → l'.wid? = some w → m = n
  /-- … and at most once under that name -/
  nodup : ∀ n, ((σ.subs n).filterMap Listener.wid?).Nodup

/-- the snapshot `ls` being delivered for event `n` is compatible with the current state `σ`:
    its once-wrappers have allocated ids and are subscribed, if at all, under `n` only -/
def SnapOK (σ : State) (n : Name) (ls : List Listener) : Prop :=
  ∀ l ∈ ls, ∀ w, l.wid? = some w →
    w < σ.nextWid ∧ ∀ m l', l' ∈ σ.subs m → l'.wid? = some w → m = n

theorem WF.init : WF init :=
  ⟨fun _ _ _ h => by simp [HotXL.Emitter.init] at h, fun _ h => by simp [HotXL.Emitter.init] at h,
   fun _ h => by simp [HotXL.Emitter.init] at h, fun _ _ _ _ _ h => by simp [HotXL.Emitter.init] at h,
   fun _ => by simp [HotXL.Emitter.init]⟩

theorem SnapOK.of_subs {σ : State} (h : WF σ) (n : Name) : SnapOK σ n (σ.subs n) :=
  fun l hl w hw => ⟨h.subs_lt n l w hl hw, fun m l' hl' hw' => h.home m n l' l w hl' hl hw' hw⟩

theorem SnapOK.mono {σ σ' : State} {n : Name} {ls : List Listener} (hm : Mono σ σ')
    (h : SnapOK σ n ls) : SnapOK σ' n ls := by
  intro l hl w hw
  obtain ⟨hlt, hhome⟩ := h l hl w hw
  exact ⟨Nat.lt_of_lt_of_le hlt hm.wid_le,
    fun m l' hl' hw' => hhome m l' (hm.old_wrappers m l' w hl' hw' hlt) hw'⟩

theorem SnapOK.head {σ : State} {n : Name} {l : Listener} {ls : List Listener}
    (h : SnapOK σ n (l :: ls)) : SnapOK σ n [l] :=
  fun l' hl' => h l' (by simp at hl'; simp [hl'])

theorem SnapOK.tail {σ : State} {n : Name} {l : Listener} {ls : List Listener}
    (h : SnapOK σ n (l :: ls)) : SnapOK σ n ls :=
  fun l' hl' => h l' (List.mem_cons_of_mem _ hl')

/-- shrinking subscription lists preserves well-formedness -/
theorem WF.of_sublist {σ σ' : State} (h : WF σ) (hn : σ'.nextWid = σ.nextWid)
    (hf : σ'.fired = σ.fired) (hs : ∀ m, (σ'.subs m).Sublist (σ.subs m)) : WF σ' := by
  refine ⟨?_, ?_, ?_, ?_, ?_⟩
  · intro n l w hl hw; rw [hn]; exact h.subs_lt n l w ((hs n).subset hl) hw
  · intro w hw; rw [hn]; exact h.fired_lt w (hf ▸ hw)
  · intro w hw n l hl; exact h.fired_gone w (hf ▸ hw) n l ((hs n).subset hl)
  · intro m n l l' w hl hl'; exact h.home m n l l' w ((hs m).subset hl) ((hs n).subset hl')
  · intro n; exact List.Nodup.sublist ((hs n).filterMap _) (h.nodup n)

theorem setSubs_filter_sublist (σ : State) (n : Name) (p : Listener → Bool) (m : Name) :
    ((setSubs σ n ((σ.subs n).filter p)).subs m).Sublist (σ.subs m) := by
  by_cases hm : m = n
  · subst hm; rw [setSubs_subs_self]; exact List.filter_sublist
  · rw [setSubs_subs_of_ne σ hm]; exact List.Sublist.refl _

theorem WF.doOff {σ : State} (h : WF σ) (n : Name) : WF (doOff σ n) := by
  refine h.of_sublist rfl rfl ?_
  intro m
  by_cases hm : m = n
  · subst hm; simp [HotXL.Emitter.doOff, setSubs_subs_self]
  · simp [HotXL.Emitter.doOff, setSubs_subs_of_ne σ hm]

theorem WF.doOffCb {σ : State} (h : WF σ) (n : Name) (cb : CbId) : WF (doOffCb σ n cb) :=
  h.of_sublist rfl rfl (setSubs_filter_sublist σ n _)

theorem doOn_subs (σ : State) (n : Name) (cb : CbId) (ctx : Ctx) (m : Name) :
    (doOn σ n cb ctx).subs m =
      if m = n then σ.subs n ++ [{ fn := .plain cb, ctx := ctx }] else σ.subs m := rfl

theorem mem_doOn_subs {σ : State} {n : Name} {cb : CbId} {ctx : Ctx} {m : Name} {l : Listener}
    (hl : l ∈ (doOn σ n cb ctx).subs m) : l ∈ σ.subs m ∨ l.wid? = none := by
  rw [doOn_subs] at hl
  by_cases hm : m = n
  · subst hm
    simp only [if_true, List.mem_append, List.mem_singleton] at hl
    rcases hl with hl | hl
    · exact Or.inl hl
    · subst hl; exact Or.inr rfl
  · simp only [hm, if_false] at hl; exact Or.inl hl

theorem WF.doOn {σ : State} (h : WF σ) (n : Name) (cb : CbId) (ctx : Ctx) : WF (doOn σ n cb ctx) := by
  refine ⟨?_, h.fired_lt, ?_, ?_, ?_⟩
  · intro m l w hl hw
    rcases mem_doOn_subs hl with hl | hl
    · exact h.subs_lt m l w hl hw
    · rw [hl] at hw; cases hw
  · intro w hw m l hl
    rcases mem_doOn_subs hl with hl | hl
    · exact h.fired_gone w hw m l hl
    · rw [hl]; simp
  · intro m k l l' w hl hl' hw hw'
    rcases mem_doOn_subs hl with hl | hl
    · rcases mem_doOn_subs hl' with hl' | hl'
      · exact h.home m k l l' w hl hl' hw hw'
      · rw [hl'] at hw'; cases hw'
    · rw [hl] at hw; cases hw
  · intro m
    rw [doOn_subs]
    by_cases hm : m = n
    · subst hm
      simp only [if_true, List.filterMap_append]
      have : List.filterMap Listener.wid? [({ fn := .plain cb, ctx := ctx } : Listener)] = [] := rfl
      rw [this, List.append_nil]; exact h.nodup m
    · simp only [hm, if_false]; exact h.nodup m

theorem mem_doOnce_subs {σ : State} {n : Name} {cb : CbId} {ctx : Ctx} {m : Name} {l : Listener}
    (hl : l ∈ (doOnce σ n cb ctx).subs m) :
    l ∈ σ.subs m ∨ (m = n ∧ l.wid? = some σ.nextWid) := by
  rw [doOnce_subs] at hl
  by_cases hm : m = n
  · subst hm
    simp only [if_true, List.mem_append, List.mem_singleton] at hl
    rcases hl with hl | hl
    · exact Or.inl hl
    · subst hl; exact Or.inr ⟨rfl, rfl⟩
  · simp only [hm, if_false] at hl; exact Or.inl hl

theorem WF.doOnce {σ : State} (h : WF σ) (n : Name) (cb : CbId) (ctx : Ctx) :
    WF (doOnce σ n cb ctx) := by
  refine ⟨?_, ?_, ?_, ?_, ?_⟩
  · intro m l w hl hw
    rw [doOnce_nextWid]
    rcases mem_doOnce_subs hl with hl | ⟨_, hl⟩
    · exact Nat.lt_succ_of_lt (h.subs_lt m l w hl hw)
    · rw [hl] at hw; cases hw; exact Nat.lt_succ_self _
  · intro w hw; rw [doOnce_nextWid]; exact Nat.lt_succ_of_lt (h.fired_lt w hw)
  · intro w hw m l hl
    rcases mem_doOnce_subs hl with hl | ⟨_, hl⟩
    · exact h.fired_gone w hw m l hl
    · rw [hl]; intro heq; cases heq
      exact Nat.lt_irrefl _ (h.fired_lt _ hw)
  · intro m k l l' w hl hl' hw hw'
    rcases mem_doOnce_subs hl with hl | ⟨hm, hl⟩
    · rcases mem_doOnce_subs hl' with hl' | ⟨_, hl'⟩
      · exact h.home m k l l' w hl hl' hw hw'
      · rw [hl'] at hw'; cases hw'
        exact absurd (h.subs_lt m l _ hl hw) (Nat.lt_irrefl _)
    · rcases mem_doOnce_subs hl' with hl' | ⟨hk, hl'⟩
      · rw [hl] at hw; cases hw
        exact absurd (h.subs_lt k l' _ hl' hw') (Nat.lt_irrefl _)
      · rw [hm, hk]
  · intro m
    rw [doOnce_subs]
    by_cases hm : m = n
    · subst hm
      simp only [if_true, List.filterMap_append]
      have : List.filterMap Listener.wid? [({ fn := .wrapper σ.nextWid cb, ctx := ctx } : Listener)]
          = [σ.nextWid] := rfl
      rw [this, List.nodup_append]
      refine ⟨h.nodup m, by simp, ?_⟩
      intro a ha b hb
      simp only [List.mem_singleton] at hb
      subst hb
      obtain ⟨l, hl, hw⟩ := List.mem_filterMap.mp ha
      exact Nat.ne_of_lt (h.subs_lt m l a hl hw)
    · simp only [hm, if_false]; exact h.nodup m

theorem keepsAgainstWrapper_eq_false_iff (w : Nat) (l : Listener) :
    keepsAgainstWrapper w l = false ↔ l.wid? = some w := by
  cases l with | mk fn ctx =>
  cases fn <;> simp [keepsAgainstWrapper, Listener.wid?]

theorem keepsAgainstWrapper_iff (w : Nat) (l : Listener) :
    keepsAgainstWrapper w l = true ↔ l.wid? ≠ some w := by
  cases l with | mk fn ctx =>
  cases fn <;> simp [keepsAgainstWrapper, Listener.wid?]

/-- a once-wrapper setting its flag and unsubscribing itself preserves well-formedness -/
theorem WF.fire {σ : State} (h : WF σ) {n : Name} {w : Nat} (hlt : w < σ.nextWid)
    (hhome : ∀ m l', l' ∈ σ.subs m → l'.wid? = some w → m = n) : WF (fire σ n w) := by
  have hsub : ∀ m, ((HotXL.Emitter.fire σ n w).subs m).Sublist (σ.subs m) := by
    intro m; rw [fire_subs]
    by_cases hm : m = n
    · subst hm; simp only [if_true]; exact List.filter_sublist
    · simp only [hm, if_false]; exact List.Sublist.refl _
  refine ⟨?_, ?_, ?_, ?_, ?_⟩
  · intro m l v hl hv; exact h.subs_lt m l v ((hsub m).subset hl) hv
  · intro v hv
    rw [fire_fired] at hv
    rcases List.mem_cons.mp hv with hv | hv
    · subst hv; exact hlt
    · exact h.fired_lt v hv
  · intro v hv m l hl
    rw [fire_fired] at hv
    rcases List.mem_cons.mp hv with hv | hv
    · subst hv
      intro hw
      have hm := hhome m l ((hsub m).subset hl) hw
      subst hm
      rw [fire_subs] at hl
      simp only [if_true] at hl
      have := (List.mem_filter.mp hl).2
      rw [keepsAgainstWrapper_iff] at this
      exact this hw
    · exact h.fired_gone v hv m l ((hsub m).subset hl)
  · intro m k l l' v hl hl'; exact h.home m k l l' v ((hsub m).subset hl) ((hsub k).subset hl')
  · intro m; exact List.Nodup.sublist ((hsub m).filterMap _) (h.nodup m)

/-- well-formedness is preserved by every piece of execution, whatever the callbacks do -/
theorem wf_all (sc : Scripts) :
    (∀ (fuel depth : Nat) (σ : State) (ops : List Op), WF σ → WF (runOps fuel sc depth σ ops).1) ∧
    (∀ (fuel depth : Nat) (σ : State) (op : Op), WF σ → WF (step fuel sc depth σ op).1) ∧
    (∀ (fuel depth : Nat) (σ : State) (n : Name) (arg : Nat) (ls : List Listener),
        WF σ → SnapOK σ n ls → WF (deliver fuel sc depth σ n arg ls).1) ∧
    (∀ (fuel depth : Nat) (σ : State) (n : Name) (arg : Nat) (l : Listener),
        WF σ → SnapOK σ n [l] → WF (call fuel sc depth σ n arg l).1) := by
  apply runOps.mutual_induct sc
    (motive1 := fun fuel depth σ ops => WF σ → WF (runOps fuel sc depth σ ops).1)
    (motive2 := fun fuel depth σ op => WF σ → WF (step fuel sc depth σ op).1)
    (motive3 := fun fuel depth σ n arg ls =>
      WF σ → SnapOK σ n ls → WF (deliver fuel sc depth σ n arg ls).1)
    (motive4 := fun fuel depth σ n arg l =>
      WF σ → SnapOK σ n [l] → WF (call fuel sc depth σ n arg l).1)
  · intro fuel depth σ hwf
    rw [runOps_nil]; exact hwf
  · intro fuel depth σ op rest σ1 l1 h1 σ2 l2 _ ih1 ih2 hwf
    rw [runOps_cons]
    rw [h1] at ih1 ⊢
    exact ih2 (ih1 hwf)
  · intro fuel depth σ n cb ctx hwf; rw [step_on]; exact hwf.doOn n cb ctx
  · intro fuel depth σ n cb ctx hwf; rw [step_once]; exact hwf.doOnce n cb ctx
  · intro fuel depth σ n hwf; rw [step_off]; exact hwf.doOff n
  · intro fuel depth σ n cb hwf; rw [step_offCb]; exact hwf.doOffCb n cb
  · intro fuel depth σ n arg ih hwf; rw [step_emit]; exact ih hwf (SnapOK.of_subs hwf n)
  · intro fuel depth σ n arg hwf _; rw [deliver_nil]; exact hwf
  · intro fuel depth σ n arg l ls σ1 l1 h1 σ2 l2 _ ih1 ih2 hwf hsnap
    rw [deliver_cons]
    have hmono := (mono_all sc).2.2.2 fuel depth σ n arg l
    rw [h1] at ih1 hmono ⊢
    exact ih2 (ih1 hwf hsnap.head) (hsnap.tail.mono hmono)
  · intro depth σ n arg l cb h hwf _
    rw [call_plain_zero h]; exact hwf
  · intro depth σ n arg l cb h f σ2 l2 _ ih hwf _
    rw [call_plain_succ h]; exact ih hwf
  · intro fuel depth σ n arg l w cb h hf hwf _
    rw [call_wrapper_fired h _ _ _ hf]; exact hwf
  · intro depth σ n arg l w cb h hf hwf hsnap
    rw [call_wrapper_zero h _ _ hf]
    obtain ⟨hlt, hhome⟩ := hsnap l (by simp) w (wid?_of_wrapper h)
    exact hwf.fire hlt hhome
  · intro depth σ n arg l w cb h hf σ0 σ1 f σ2 l2 _ ih hwf hsnap
    rw [call_wrapper_succ h _ _ _ hf]
    obtain ⟨hlt, hhome⟩ := hsnap l (by simp) w (wid?_of_wrapper h)
    exact ih (hwf.fire hlt hhome)

/-! ## Nesting depth of log entries -/

/-- every entry logged by execution at nesting `depth` carries a depth `≥ depth` -/
theorem depth_all (sc : Scripts) :
    (∀ (fuel depth : Nat) (σ : State) (ops : List Op),
        ∀ c ∈ (runOps fuel sc depth σ ops).2, depth ≤ c.depth) ∧
    (∀ (fuel depth : Nat) (σ : State) (op : Op),
        ∀ c ∈ (step fuel sc depth σ op).2, depth ≤ c.depth) ∧
    (∀ (fuel depth : Nat) (σ : State) (n : Name) (arg : Nat) (ls : List Listener),
        ∀ c ∈ (deliver fuel sc depth σ n arg ls).2, depth ≤ c.depth) ∧
    (∀ (fuel depth : Nat) (σ : State) (n : Name) (arg : Nat) (l : Listener),
        ∀ c ∈ (call fuel sc depth σ n arg l).2, depth ≤ c.depth) := by
  apply runOps.mutual_induct sc
    (motive1 := fun fuel depth σ ops => ∀ c ∈ (runOps fuel sc depth σ ops).2, depth ≤ c.depth)
    (motive2 := fun fuel depth σ op => ∀ c ∈ (step fuel sc depth σ op).2, depth ≤ c.depth)
    (motive3 := fun fuel depth σ n arg ls =>
      ∀ c ∈ (deliver fuel sc depth σ n arg ls).2, depth ≤ c.depth)
    (motive4 := fun fuel depth σ n arg l =>
      ∀ c ∈ (call fuel sc depth σ n arg l).2, depth ≤ c.depth)
  · intro fuel depth σ c hc
    rw [runOps_nil] at hc; cases hc
  · intro fuel depth σ op rest σ1 l1 h1 σ2 l2 _ ih1 ih2 c hc
    rw [runOps_cons] at hc
    rw [h1] at ih1 hc
    rcases List.mem_append.mp hc with hc | hc
    · exact ih1 c hc
    · exact ih2 c hc
  · intro fuel depth σ n cb ctx c hc; rw [step_on] at hc; cases hc
  · intro fuel depth σ n cb ctx c hc; rw [step_once] at hc; cases hc
  · intro fuel depth σ n c hc; rw [step_off] at hc; cases hc
  · intro fuel depth σ n cb c hc; rw [step_offCb] at hc; cases hc
  · intro fuel depth σ n arg ih c hc; rw [step_emit] at hc; exact ih c hc
  · intro fuel depth σ n arg c hc; rw [deliver_nil] at hc; cases hc
  · intro fuel depth σ n arg l ls σ1 l1 h1 σ2 l2 _ ih1 ih2 c hc
    rw [deliver_cons] at hc
    rw [h1] at ih1 hc
    rcases List.mem_append.mp hc with hc | hc
    · exact ih1 c hc
    · exact ih2 c hc
  · intro depth σ n arg l cb h c hc
    rw [call_plain_zero h] at hc
    simp only [List.mem_singleton] at hc; subst hc; exact Nat.le_refl _
  · intro depth σ n arg l cb h f σ2 l2 _ ih c hc
    rw [call_plain_succ h] at hc
    rcases List.mem_cons.mp hc with hc | hc
    · subst hc; exact Nat.le_refl _
    · exact Nat.le_of_succ_le (ih c hc)
  · intro fuel depth σ n arg l w cb h hf c hc
    rw [call_wrapper_fired h _ _ _ hf] at hc; cases hc
  · intro depth σ n arg l w cb h hf c hc
    rw [call_wrapper_zero h _ _ hf] at hc
    simp only [List.mem_singleton] at hc; subst hc; exact Nat.le_refl _
  · intro depth σ n arg l w cb h hf σ0 σ1 f σ2 l2 _ ih c hc
    rw [call_wrapper_succ h _ _ _ hf] at hc
    rcases List.mem_cons.mp hc with hc | hc
    · subst hc; exact Nat.le_refl _
    · exact Nat.le_of_succ_le (ih c hc)

/-- shape of the log of one listener call: either nothing (a once-wrapper whose flag is already set),
    or the listener's own entry followed by strictly deeper entries -/
theorem call_log_shape (fuel : Nat) (sc : Scripts) (d : Nat) (σ : State) (n : Name) (arg : Nat)
    (l : Listener) :
    ((call fuel sc d σ n arg l).2 = [] ∧ ∃ w, l.wid? = some w ∧ w ∈ σ.fired) ∨
    (∃ rest, (call fuel sc d σ n arg l).2 = entryOf n arg d l :: rest ∧
        (∀ c ∈ rest, d + 1 ≤ c.depth) ∧ ∀ w, l.wid? = some w → w ∉ σ.fired) := by
  cases hfn : l.fn with
  | plain cb =>
    right
    have hnw : ∀ w, l.wid? = some w → w ∉ σ.fired := by
      intro w hw; rw [wid?_of_plain hfn] at hw; cases hw
    cases fuel with
    | zero => exact ⟨[], by rw [call_plain_zero hfn], by simp, hnw⟩
    | succ f =>
      exact ⟨_, by rw [call_plain_succ hfn], (depth_all sc).1 f (d + 1) σ (sc cb), hnw⟩
  | wrapper w cb =>
    by_cases hf : w ∈ σ.fired
    · left; exact ⟨by rw [call_wrapper_fired hfn _ _ _ hf], w, wid?_of_wrapper hfn, hf⟩
    · right
      have hnw : ∀ v, l.wid? = some v → v ∉ σ.fired := by
        intro v hv; rw [wid?_of_wrapper hfn] at hv; cases hv; exact hf
      cases fuel with
      | zero => exact ⟨[], by rw [call_wrapper_zero hfn _ _ hf], by simp, hnw⟩
      | succ f =>
        exact ⟨_, by rw [call_wrapper_succ hfn _ _ _ hf],
          (depth_all sc).1 f (d + 1) (fire σ n w) (sc cb), hnw⟩

theorem filter_depth_eq_nil {d : Nat} {rest : List Call} (h : ∀ c ∈ rest, d + 1 ≤ c.depth) :
    rest.filter (fun c => c.depth = d) = [] := by
  rw [List.filter_eq_nil_iff]
  intro c hc
  have := h c hc
  simp only [decide_eq_true_eq]
  omega

/-- the top-level (depth-`d`) entries logged by delivering the snapshot `ls` are exactly the entries of
    a sub-sequence `called` of `ls` that contains all plain listeners; the called once-wrappers are
    ones whose flag was not set when the delivery started -/
theorem deliver_top (fuel : Nat) (sc : Scripts) (d : Nat) (n : Name) (arg : Nat) :
    ∀ (ls : List Listener) (σ : State),
      ∃ called : List Listener,
        called.Sublist ls ∧
        called.filter Listener.isPlain = ls.filter Listener.isPlain ∧
        (∀ l ∈ called, ∀ w, l.wid? = some w → w ∉ σ.fired) ∧
        (deliver fuel sc d σ n arg ls).2.filter (fun c => c.depth = d)
          = called.map (entryOf n arg d) := by
  intro ls
  induction ls with
  | nil =>
    intro σ
    exact ⟨[], List.Sublist.refl _, rfl, by simp, by rw [deliver_nil]; rfl⟩
  | cons l ls ih =>
    intro σ
    obtain ⟨called, hsub, hplain, hnf, hlog⟩ := ih (call fuel sc d σ n arg l).1
    have hmono := (mono_all sc).2.2.2 fuel d σ n arg l
    have hnf' : ∀ l' ∈ called, ∀ w, l'.wid? = some w → w ∉ σ.fired :=
      fun l' hl' w hw hin => hnf l' hl' w hw (hmono.fired_sub w hin)
    rw [deliver_cons]
    simp only [List.filter_append, hlog]
    rcases call_log_shape fuel sc d σ n arg l with ⟨hnil, w, hw, _⟩ | ⟨rest, hcons, hdeep, hfresh⟩
    · refine ⟨called, List.Sublist.cons _ hsub, ?_, hnf', ?_⟩
      · have : l.isPlain = false := by
          cases h : l.isPlain
          · rfl
          · rw [← Listener.wid?_eq_none_iff, hw] at h; cases h
        rw [List.filter_cons_of_neg (by simp [this])]; exact hplain
      · rw [hnil]; rfl
    · refine ⟨l :: called, List.Sublist.cons_cons _ hsub, ?_, ?_, ?_⟩
      · cases h : l.isPlain
        · rw [List.filter_cons_of_neg (by simp [h]), List.filter_cons_of_neg (by simp [h])]
          exact hplain
        · rw [List.filter_cons_of_pos h, List.filter_cons_of_pos h, hplain]
      · intro l' hl'
        rcases List.mem_cons.mp hl' with hl' | hl'
        · subst hl'; exact hfresh
        · exact hnf' l' hl'
      · rw [hcons, List.filter_cons_of_pos (by simp [entryOf]), filter_depth_eq_nil hdeep]
        rfl

/-! ## Pure listeners (empty scripts) -/

theorem call_pure_plain {sc : Scripts} (hsc : ∀ cb, sc cb = []) {l : Listener} (hp : l.wid? = none)
    (fuel d : Nat) (σ : State) (n : Name) (arg : Nat) :
    call fuel sc d σ n arg l = (σ, [entryOf n arg d l]) := by
  obtain ⟨cb, hfn⟩ := (Listener.isPlain_iff l).mp ((Listener.wid?_eq_none_iff l).mp hp)
  cases fuel with
  | zero => rw [call_plain_zero hfn]
  | succ f => rw [call_plain_succ hfn, hsc, runOps_nil]

theorem call_pure_wrapper {sc : Scripts} (hsc : ∀ cb, sc cb = []) {l : Listener} {w : Nat}
    (hw : l.wid? = some w) (fuel d : Nat) {σ : State} (hf : w ∉ σ.fired) (n : Name) (arg : Nat) :
    call fuel sc d σ n arg l = (fire σ n w, [entryOf n arg d l]) := by
  obtain ⟨cb, hfn⟩ := (Listener.wid?_eq_some_iff l w).mp hw
  cases fuel with
  | zero => rw [call_wrapper_zero hfn _ _ hf]
  | succ f => rw [call_wrapper_succ hfn _ _ _ hf, hsc, runOps_nil]

/-- `true` iff `l` is not a once-wrapper with an id in `ws` -/
def notWrapperIn (ws : List Nat) (l : Listener) : Bool :=
  match l.wid? with
  | none => true
  | some w => decide (w ∉ ws)

/-- delivery to pure listeners: every snapshot listener is called once, in order; the once-wrappers
    are unsubscribed and flagged (hypotheses: they are unflagged and pairwise distinct) -/
theorem deliver_pure {sc : Scripts} (hsc : ∀ cb, sc cb = []) (fuel d : Nat) (n : Name) (arg : Nat) :
    ∀ (ls : List Listener) (σ : State),
      (∀ w ∈ ls.filterMap Listener.wid?, w ∉ σ.fired) → (ls.filterMap Listener.wid?).Nodup →
      deliver fuel sc d σ n arg ls =
        ({ subs := fun m =>
              if m = n then (σ.subs n).filter (notWrapperIn (ls.filterMap Listener.wid?)) else σ.subs m,
           nextWid := σ.nextWid,
           fired := (ls.filterMap Listener.wid?).reverse ++ σ.fired },
         ls.map (entryOf n arg d)) := by
  intro ls
  induction ls with
  | nil =>
    intro σ _ _
    rw [deliver_nil]
    refine Prod.ext (State.ext' ?_ rfl (by simp)) rfl
    funext m
    by_cases hm : m = n
    · subst hm
      simp only [if_true, List.filterMap_nil]
      symm; rw [List.filter_eq_self]
      intro l _; unfold notWrapperIn; split <;> simp
    · simp [hm]
  | cons l ls ih =>
    intro σ hnf hnd
    rw [deliver_cons]
    cases hl : l.wid? with
    | none =>
      rw [List.filterMap_cons_none hl] at hnf hnd ⊢
      rw [call_pure_plain hsc hl, ih σ hnf hnd]
      rfl
    | some w =>
      rw [List.filterMap_cons_some hl] at hnf hnd ⊢
      have hw : w ∉ σ.fired := hnf w (by simp)
      obtain ⟨hwls, hnd'⟩ := List.nodup_cons.mp hnd
      rw [call_pure_wrapper hsc hl _ _ hw]
      have hnf' : ∀ v ∈ ls.filterMap Listener.wid?, v ∉ (fire σ n w).fired := by
        intro v hv
        rw [fire_fired]
        intro hin
        rcases List.mem_cons.mp hin with hin | hin
        · subst hin; exact hwls hv
        · exact hnf v (List.mem_cons_of_mem _ hv) hin
      rw [ih (fire σ n w) hnf' hnd']
      refine Prod.ext (State.ext' ?_ rfl (by simp [fire_fired])) rfl
      funext m
      by_cases hm : m = n
      · subst hm
        simp only [if_true, fire_subs, List.filter_filter]
        apply List.filter_congr
        intro x _
        cases x with | mk fn ctx =>
        cases fn with
        | plain c => simp [notWrapperIn, Listener.wid?, keepsAgainstWrapper]
        | wrapper v c =>
          have hx : ({ fn := .wrapper v c, ctx := ctx } : Listener).wid? = some v := rfl
          simp only [notWrapperIn, hx, keepsAgainstWrapper]
          by_cases h1 : v = w <;> by_cases h2 : v ∈ ls.filterMap Listener.wid? <;> simp [h1, h2]
      · simp [hm, fire_subs]

theorem filter_notWrapperIn_self (ls : List Listener) :
    ls.filter (notWrapperIn (ls.filterMap Listener.wid?)) = ls.filter Listener.isPlain := by
  apply List.filter_congr
  intro x hx
  cases hw : x.wid? with
  | none =>
    have := (Listener.wid?_eq_none_iff x).mp hw
    simp [notWrapperIn, hw, this]
  | some w =>
    have hp : x.isPlain = false := by
      cases h : x.isPlain
      · rfl
      · rw [← Listener.wid?_eq_none_iff, hw] at h; cases h
    have : w ∈ ls.filterMap Listener.wid? := List.mem_filterMap.mpr ⟨x, hx, hw⟩
    simp [notWrapperIn, hw, hp, this]

/-! ## Provenance: every call comes from a subscription to that very name -/

/-- every subscription made by an operation of `ops` satisfies `S` -/
def OpsOK (S : Name → CbId → Ctx → Prop) (ops : List Op) : Prop :=
  ∀ op ∈ ops, ∀ n cb ctx, (op = .on n cb ctx ∨ op = .once n cb ctx) → S n cb ctx

/-- every subscribed listener satisfies `S` (for the name it is subscribed under) -/
def SubsOK (S : Name → CbId → Ctx → Prop) (σ : State) : Prop :=
  ∀ m l, l ∈ σ.subs m → S m l.cb l.ctx

theorem SubsOK.of_subset {S : Name → CbId → Ctx → Prop} {σ σ' : State} (h : SubsOK S σ)
    (hs : ∀ m l, l ∈ σ'.subs m → l ∈ σ.subs m) : SubsOK S σ' :=
  fun m l hl => h m l (hs m l hl)

theorem SubsOK.doOn {S : Name → CbId → Ctx → Prop} {σ : State} (h : SubsOK S σ) {n : Name} {cb : CbId}
    {ctx : Ctx} (hs : S n cb ctx) : SubsOK S (doOn σ n cb ctx) := by
  intro m l hl
  rw [doOn_subs] at hl
  by_cases hm : m = n
  · subst hm
    simp only [if_true, List.mem_append, List.mem_singleton] at hl
    rcases hl with hl | hl
    · exact h m l hl
    · subst hl; exact hs
  · simp only [hm, if_false] at hl; exact h m l hl

theorem SubsOK.doOnce {S : Name → CbId → Ctx → Prop} {σ : State} (h : SubsOK S σ) {n : Name}
    {cb : CbId} {ctx : Ctx} (hs : S n cb ctx) : SubsOK S (doOnce σ n cb ctx) := by
  intro m l hl
  rw [doOnce_subs] at hl
  by_cases hm : m = n
  · subst hm
    simp only [if_true, List.mem_append, List.mem_singleton] at hl
    rcases hl with hl | hl
    · exact h m l hl
    · subst hl; exact hs
  · simp only [hm, if_false] at hl; exact h m l hl

/-- if all subscriptions made by the history and by the callbacks satisfy `S`, then so does every
    logged call (with the name it was delivered under) -/
theorem provenance_all (sc : Scripts) (S : Name → CbId → Ctx → Prop) (hsc : ∀ cb, OpsOK S (sc cb)) :
    (∀ (fuel depth : Nat) (σ : State) (ops : List Op), OpsOK S ops → SubsOK S σ →
        SubsOK S (runOps fuel sc depth σ ops).1 ∧
        ∀ c ∈ (runOps fuel sc depth σ ops).2, S c.name c.cb c.ctx) ∧
    (∀ (fuel depth : Nat) (σ : State) (op : Op), OpsOK S [op] → SubsOK S σ →
        SubsOK S (step fuel sc depth σ op).1 ∧
        ∀ c ∈ (step fuel sc depth σ op).2, S c.name c.cb c.ctx) ∧
    (∀ (fuel depth : Nat) (σ : State) (n : Name) (arg : Nat) (ls : List Listener),
        (∀ l ∈ ls, S n l.cb l.ctx) → SubsOK S σ →
        SubsOK S (deliver fuel sc depth σ n arg ls).1 ∧
        ∀ c ∈ (deliver fuel sc depth σ n arg ls).2, S c.name c.cb c.ctx) ∧
    (∀ (fuel depth : Nat) (σ : State) (n : Name) (arg : Nat) (l : Listener),
        S n l.cb l.ctx → SubsOK S σ →
        SubsOK S (call fuel sc depth σ n arg l).1 ∧
        ∀ c ∈ (call fuel sc depth σ n arg l).2, S c.name c.cb c.ctx) := by
  apply runOps.mutual_induct sc
    (motive1 := fun fuel depth σ ops => OpsOK S ops → SubsOK S σ →
        SubsOK S (runOps fuel sc depth σ ops).1 ∧
        ∀ c ∈ (runOps fuel sc depth σ ops).2, S c.name c.cb c.ctx)
    (motive2 := fun fuel depth σ op => OpsOK S [op] → SubsOK S σ →
        SubsOK S (step fuel sc depth σ op).1 ∧
        ∀ c ∈ (step fuel sc depth σ op).2, S c.name c.cb c.ctx)
    (motive3 := fun fuel depth σ n arg ls => (∀ l ∈ ls, S n l.cb l.ctx) → SubsOK S σ →
        SubsOK S (deliver fuel sc depth σ n arg ls).1 ∧
        ∀ c ∈ (deliver fuel sc depth σ n arg ls).2, S c.name c.cb c.ctx)
    (motive4 := fun fuel depth σ n arg l => S n l.cb l.ctx → SubsOK S σ →
        SubsOK S (call fuel sc depth σ n arg l).1 ∧
        ∀ c ∈ (call fuel sc depth σ n arg l).2, S c.name c.cb c.ctx)
  · intro fuel depth σ _ hσ
    rw [runOps_nil]; exact ⟨hσ, fun c hc => by cases hc⟩
  · intro fuel depth σ op rest σ1 l1 h1 σ2 l2 _ ih1 ih2 hops hσ
    rw [runOps_cons]
    rw [h1] at ih1 ⊢
    obtain ⟨hσ1, hl1⟩ := ih1 (fun o ho => hops o (by simp at ho; simp [ho])) hσ
    obtain ⟨hσ2, hl2⟩ := ih2 (fun o ho => hops o (List.mem_cons_of_mem _ ho)) hσ1
    refine ⟨hσ2, fun c hc => ?_⟩
    rcases List.mem_append.mp hc with hc | hc
    · exact hl1 c hc
    · exact hl2 c hc
  · intro fuel depth σ n cb ctx hop hσ; rw [step_on]
    exact ⟨hσ.doOn (hop _ (by simp) n cb ctx (Or.inl rfl)), fun c hc => by cases hc⟩
  · intro fuel depth σ n cb ctx hop hσ; rw [step_once]
    exact ⟨hσ.doOnce (hop _ (by simp) n cb ctx (Or.inr rfl)), fun c hc => by cases hc⟩
  · intro fuel depth σ n _ hσ; rw [step_off]
    exact ⟨hσ.of_subset (fun _ _ hl => mem_doOff_subs hl), fun c hc => by cases hc⟩
  · intro fuel depth σ n cb _ hσ; rw [step_offCb]
    exact ⟨hσ.of_subset (fun _ _ hl => mem_setSubs_filter hl), fun c hc => by cases hc⟩
  · intro fuel depth σ n arg ih _ hσ; rw [step_emit]; exact ih (fun l hl => hσ n l hl) hσ
  · intro fuel depth σ n arg _ hσ; rw [deliver_nil]; exact ⟨hσ, fun c hc => by cases hc⟩
  · intro fuel depth σ n arg l ls σ1 l1 h1 σ2 l2 _ ih1 ih2 hls hσ
    rw [deliver_cons]
    rw [h1] at ih1 ⊢
    obtain ⟨hσ1, hl1⟩ := ih1 (hls l (by simp)) hσ
    obtain ⟨hσ2, hl2⟩ := ih2 (fun l' hl' => hls l' (List.mem_cons_of_mem _ hl')) hσ1
    refine ⟨hσ2, fun c hc => ?_⟩
    rcases List.mem_append.mp hc with hc | hc
    · exact hl1 c hc
    · exact hl2 c hc
  · intro depth σ n arg l cb h hl hσ
    rw [call_plain_zero h]
    exact ⟨hσ, fun c hc => by simp only [List.mem_singleton] at hc; subst hc; exact hl⟩
  · intro depth σ n arg l cb h f σ2 l2 _ ih hl hσ
    rw [call_plain_succ h]
    obtain ⟨hσ', hlog⟩ := ih (hsc cb) hσ
    refine ⟨hσ', fun c hc => ?_⟩
    rcases List.mem_cons.mp hc with hc | hc
    · subst hc; exact hl
    · exact hlog c hc
  · intro fuel depth σ n arg l w cb h hf _ hσ
    rw [call_wrapper_fired h _ _ _ hf]; exact ⟨hσ, fun c hc => by cases hc⟩
  · intro depth σ n arg l w cb h hf hl hσ
    rw [call_wrapper_zero h _ _ hf]
    exact ⟨hσ.of_subset (fun _ _ hx => mem_fire_subs hx),
      fun c hc => by simp only [List.mem_singleton] at hc; subst hc; exact hl⟩
  · intro depth σ n arg l w cb h hf σ0 σ1 f σ2 l2 _ ih hl hσ
    rw [call_wrapper_succ h _ _ _ hf]
    obtain ⟨hσ', hlog⟩ := ih (hsc cb) (hσ.of_subset (fun _ _ hx => mem_fire_subs hx))
    refine ⟨hσ', fun c hc => ?_⟩
    rcases List.mem_cons.mp hc with hc | hc
    · subst hc; exact hl
    · exact hlog c hc

end HotXL.Emitter
