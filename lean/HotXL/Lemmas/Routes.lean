/-
  HotXL.Lemmas.Routes — route independence in the evaluator model.

  The value of an operator node or of a call depends on the VALUES its operand expressions
  evaluate to, not on which expressions they are: a variable, a cell reference answered by the
  host, a call of a custom function, a literal, a nested expression.  This is the model-side
  counterpart of the route layer of the harness (harness/routes.py, DESIGN.md 1.7), which checks
  the same statement on the real code.  Built on the log-free `outcome` of Lemmas/ErrorFlow.
-/
import HotXL.Lemmas.ErrorFlow

namespace HotXL.Routes
open HotXL HotXL.Ops HotXL.Eval HotXL.Syntax HotXL.ErrorFlow

/-- `xs` evaluate, one by one, to the values `vs` -/
def Yield (env : Env) : List Expr → List Value → Prop
  | [], [] => True
  | x :: xs, v :: vs => outcome env x = .ok v ∧ Yield env xs vs
  | _, _ => False

theorem outcomes_of_yield {env : Env} : ∀ {xs : List Expr} {vs : List Value},
    Yield env xs vs → outcomes env xs = .ok vs
  | [], [], _ => rfl
  | x :: xs, v :: vs, h => by
    obtain ⟨hx, hr⟩ := h
    rw [outcomes_cons, hx, outcomes_of_yield hr]
    rfl
  | [], _ :: _, h => absurd h (by simp [Yield])
  | _ :: _, [], h => absurd h (by simp [Yield])

/-- an operator node: equal operand outcomes (values OR raised exceptions), equal outcome -/
theorem bin_congr (env : Env) (op : BinOp) {l l' r r' : Expr}
    (hl : outcome env l = outcome env l') (hr : outcome env r = outcome env r') :
    outcome env (.bin op l r) = outcome env (.bin op l' r') := by
  rw [outcome_bin, outcome_bin, hl, hr]

theorem neg_congr (env : Env) {e e' : Expr} (h : outcome env e = outcome env e') :
    outcome env (.neg e) = outcome env (.neg e') := by
  rw [outcome_neg, outcome_neg, h]

/-- a call: argument lists that yield the same values give the same outcome, whatever the
    expressions are and however many events they log -/
theorem call_congr (env : Env) (name : List Char) (kind : SeqKind) {a a' b b' : List Expr}
    {av bv : List Value} (ha : Yield env a av) (ha' : Yield env a' av)
    (hb : Yield env b bv) (hb' : Yield env b' bv) :
    outcome env (.call name kind a b) = outcome env (.call name kind a' b') := by
  rw [outcome_call, outcome_call, outcomes_of_yield ha, outcomes_of_yield ha',
    outcomes_of_yield hb, outcomes_of_yield hb']

theorem arr_congr (env : Env) (kind : SeqKind) {a a' b b' : List Expr}
    {av bv : List Value} (ha : Yield env a av) (ha' : Yield env a' av)
    (hb : Yield env b bv) (hb' : Yield env b' bv) :
    outcome env (.arr kind a b) = outcome env (.arr kind a' b') := by
  rw [outcome_arr, outcome_arr, outcomes_of_yield ha, outcomes_of_yield ha',
    outcomes_of_yield hb, outcomes_of_yield hb']

/-! ### what each route yields -/

/-- a variable the host registered -/
theorem var_route {env : Env} {n : List Char} {v : Value} (h : env.vars n = some v) (rest : List (List Char)) :
    outcome env (.var (n :: rest)) = .ok v := by
  unfold outcome
  rw [evalExpr]
  simp only [List.headD_cons, callVariable, h]

/-- a cell answered by the host's listener: the value set for the upper-cased label -/
theorem cell_route {env : Env} {l : List Char} {row col : Cell.ParsedLabel}
    (h : Cell.extractLabel (Cell.upper l) = some (row, col)) :
    outcome env (.cell l) = .ok (env.cellValue (Cell.upper l)) := by
  unfold outcome
  rw [evalExpr]
  simp only [callCell, h]

/-- a range answered by the host's listener: the value set for the normalised corner labels -/
theorem range_route {env : Env} {a b : List Char} {sRow sCol eRow eCol : Cell.ParsedLabel}
    (ha : Cell.extractLabel (Cell.upper a) = some (sRow, sCol))
    (hb : Cell.extractLabel (Cell.upper b) = some (eRow, eCol)) :
    ∃ l1 l2 : List Char, outcome env (.range a b) = .ok (env.rangeValue l1 l2) := by
  unfold outcome
  rw [evalExpr]
  simp only [callRange, ha, hb]
  exact ⟨_, _, rfl⟩

/-- a custom function without arguments that returns `v` -/
theorem hostfn_route {env : Env} {f : List Char} {g : HostFn} {v : Value}
    (h : env.custom f = some g) (hg : g [] = .ok v) :
    outcome env (.call f .empty [] []) = .ok v := by
  rw [outcome_call]
  simp only [outcomes_nil, bind, Except.bind, seqValues, callFunction, h, hg]

/-- a text literal -/
theorem str_route (env : Env) (s : List Char) : outcome env (.str s) = .ok (.str s) := rfl

/-- a blank slot -/
theorem slot_route (env : Env) : outcome env .blankSlot = .ok .blank := rfl


/-! ### routes through another builtin: `IF(TRUE,x,0)` and `CHOOSE(1,x)` hand `x` on -/

theorem outcome_TRUE {env : Env} (hT : env.vars "TRUE".toList = none) :
    outcome env (.var ["TRUE".toList]) = .ok (.bool true) := by
  unfold outcome
  rw [evalExpr]
  have hp : predefined "TRUE".toList = some (.bool true) := by rfl
  simp only [List.headD_cons, callVariable, hT, hp]

/-- `IF(TRUE,x,0)` on a parser whose host redefined neither `IF` nor `TRUE`: the value of `x` -/
theorem if_route {env : Env} (hc : env.custom "IF".toList = none) (hT : env.vars "TRUE".toList = none)
    {x : Expr} {v : Value} (hx : outcome env x = .ok v) (hno : isNoOpinion v = false) :
    outcome env (.call "IF".toList .flat [.var ["TRUE".toList], x, .num (.int ['0'])] []) = .ok v := by
  have hargs : outcomes env [.var ["TRUE".toList], x, .num (.int ['0'])] =
      .ok [.bool true, v, .num (.int 0)] := by
    rw [outcomes_cons, outcome_TRUE hT, outcomes_two hx (outcome_num_int env ['0'])]
    rfl
  have h := outcome_builtin_call (b := Fn.Logic.IF) hc (by decide +kernel) (by rfl) hargs
    (by simpa [Fn.Logic.IF, Fn.pyTruthy] using hno)
  simpa [Fn.Logic.IF, Fn.pyTruthy] using h

/-- the record of a formula is determined by the outcome of its tree -/
theorem finish_congr {o o' : Except Exn Value} (h : o = o') : finish o = finish o' := by rw [h]

end HotXL.Routes
