/-
  HotXL.Lemmas.RealOps — the REAL-NUMBER instance of `HotXL.Fn.Math.ElemOps`: Mathlib's
  `Real.sin`, `Real.log`, `Real.arctan`, … restricted to their mathematical domains (`none`
  outside), the real power where it exists, the angle of a point as `Complex.arg`.
  Noncomputable; used only by the theorems of `Props/C16.lean`, which are about the generic
  definitions of `Model/Fn/Math.lean` / `Model/Fn/Fin.lean` instantiated HERE.

  What is trusted (layer L3 of C16, not proved): that libm's functions on doubles, which the
  executable `floatOps` instance calls, approximate these real functions.
-/
import HotXL.Model.Fn.Math
import HotXL.Model.Fn.Fin
import Mathlib.Analysis.SpecialFunctions.Trigonometric.Basic
import Mathlib.Analysis.SpecialFunctions.Trigonometric.Inverse
import Mathlib.Analysis.SpecialFunctions.Trigonometric.Arctan
import Mathlib.Analysis.SpecialFunctions.Complex.Arg
import Mathlib.Analysis.SpecialFunctions.Log.Basic
import Mathlib.Analysis.SpecialFunctions.Log.Base
import Mathlib.Analysis.SpecialFunctions.Pow.Real
import Mathlib.Analysis.SpecialFunctions.Arsinh
import Mathlib.Analysis.SpecialFunctions.Arcosh
import Mathlib.Analysis.SpecialFunctions.Artanh
import Mathlib.Analysis.SpecialFunctions.Exp
import Mathlib.Tactic.FieldSimp
import Mathlib.Tactic.Ring
import Mathlib.Tactic.Linarith

namespace HotXL.RealOps
open HotXL HotXL.Fn.Math

/-- the real power `x ^ y` where it exists: positive base; zero base with `y ≥ 0`
    (`0 ^ 0 = 1`, Python's convention); negative base with an integer exponent -/
noncomputable def rpow? (x y : ℝ) : Option ℝ :=
  if 0 < x then some (x ^ y)
  else if x = 0 then (if 0 < y then some 0 else if y = 0 then some 1 else none)
  else if (⌊y⌋ : ℝ) = y then some (x ^ ⌊y⌋) else none

/-- the real numbers with the elementary functions on their mathematical domains -/
noncomputable def realOps : ElemOps ℝ where
  ofRat q := (q : ℝ)
  ofInt i := some (i : ℝ)
  add x y := x + y
  sub x y := x - y
  mul x y := x * y
  neg x := -x
  abs x := |x|
  div x y := if y = 0 then none else some (x / y)
  isZero x := decide (x = 0)
  isNaN _ := false
  pi := Real.pi
  e := Real.exp 1
  sqrt x := if 0 ≤ x then some (Real.sqrt x) else none
  log x := if 0 < x then some (Real.log x) else none
  exp x := some (Real.exp x)
  sin x := some (Real.sin x)
  cos x := some (Real.cos x)
  tan x := if Real.cos x = 0 then none else some (Real.tan x)
  asin x := if |x| ≤ 1 then some (Real.arcsin x) else none
  acos x := if |x| ≤ 1 then some (Real.arccos x) else none
  atan x := some (Real.arctan x)
  sinh x := some (Real.sinh x)
  cosh x := some (Real.cosh x)
  tanh x := some (Real.tanh x)
  asinh x := some (Real.arsinh x)
  acosh x := if 1 ≤ x then some (Real.arcosh x) else none
  atanh x := if |x| < 1 then some (Real.artanh x) else none
  atan2 y x := some (Complex.arg ⟨x, y⟩)
  pow := rpow?


/-! the fields of `realOps`, as rewrite rules -/

@[simp] theorem ofRat_eq (q : ℚ) : realOps.ofRat q = (q : ℝ) := rfl
@[simp] theorem ofInt_eq (i : ℤ) : realOps.ofInt i = some (i : ℝ) := rfl
@[simp] theorem add_eq (x y : ℝ) : realOps.add x y = x + y := rfl
@[simp] theorem sub_eq (x y : ℝ) : realOps.sub x y = x - y := rfl
@[simp] theorem mul_eq (x y : ℝ) : realOps.mul x y = x * y := rfl
@[simp] theorem neg_eq (x : ℝ) : realOps.neg x = -x := rfl
@[simp] theorem abs_eq (x : ℝ) : realOps.abs x = |x| := rfl
@[simp] theorem div_eq (x y : ℝ) : realOps.div x y = if y = 0 then none else some (x / y) := rfl
@[simp] theorem isZero_eq (x : ℝ) : realOps.isZero x = decide (x = 0) := rfl
@[simp] theorem isNaN_eq (x : ℝ) : realOps.isNaN x = false := rfl
@[simp] theorem pi_eq : realOps.pi = Real.pi := rfl
@[simp] theorem e_eq : realOps.e = Real.exp 1 := rfl
@[simp] theorem sqrt_eq (x : ℝ) : realOps.sqrt x = if 0 ≤ x then some (Real.sqrt x) else none := rfl
@[simp] theorem log_eq (x : ℝ) : realOps.log x = if 0 < x then some (Real.log x) else none := rfl
@[simp] theorem exp_eq (x : ℝ) : realOps.exp x = some (Real.exp x) := rfl
@[simp] theorem sin_eq (x : ℝ) : realOps.sin x = some (Real.sin x) := rfl
@[simp] theorem cos_eq (x : ℝ) : realOps.cos x = some (Real.cos x) := rfl
@[simp] theorem tan_eq (x : ℝ) : realOps.tan x = if Real.cos x = 0 then none else some (Real.tan x) := rfl
@[simp] theorem asin_eq (x : ℝ) : realOps.asin x = if |x| ≤ 1 then some (Real.arcsin x) else none := rfl
@[simp] theorem acos_eq (x : ℝ) : realOps.acos x = if |x| ≤ 1 then some (Real.arccos x) else none := rfl
@[simp] theorem atan_eq (x : ℝ) : realOps.atan x = some (Real.arctan x) := rfl
@[simp] theorem sinh_eq (x : ℝ) : realOps.sinh x = some (Real.sinh x) := rfl
@[simp] theorem cosh_eq (x : ℝ) : realOps.cosh x = some (Real.cosh x) := rfl
@[simp] theorem tanh_eq (x : ℝ) : realOps.tanh x = some (Real.tanh x) := rfl
@[simp] theorem asinh_eq (x : ℝ) : realOps.asinh x = some (Real.arsinh x) := rfl
@[simp] theorem acosh_eq (x : ℝ) : realOps.acosh x = if 1 ≤ x then some (Real.arcosh x) else none := rfl
@[simp] theorem atanh_eq (x : ℝ) : realOps.atanh x = if |x| < 1 then some (Real.artanh x) else none := rfl
@[simp] theorem atan2_eq (y x : ℝ) : realOps.atan2 y x = some (Complex.arg ⟨x, y⟩) := rfl
@[simp] theorem pow_eq (x y : ℝ) : realOps.pow x y = rpow? x y := rfl

/-- the annuity equation as pure field algebra: with `R` standing for `(1+r)^n`, the value
    `v = (((1 - R)/r)·pmt·(1 + r·ty) − fv)/R` that PV computes satisfies
    `v·R + pmt·(1 + r·ty)·(R − 1)/r + fv = 0` — over ANY field -/
theorem annuity_identity {K : Type} [Field K] (r R pmt fv ty : K) (hr : r ≠ 0) (hR : R ≠ 0) :
    ((((1 - R) / r) * pmt * (1 + r * ty) - fv) / R) * R
      + pmt * (1 + r * ty) * (R - 1) / r + fv = 0 := by
  field_simp
  ring

/-- conversion of a parsed number: always succeeds over ℝ, and is the cast of its rational value -/
theorem ofNum_real (n : Num) : ofNum realOps n = some ((Ops.Num.toRat n : ℚ) : ℝ) := by
  cases n with
  | int i => simp [ofNum, realOps, Ops.Num.toRat]
  | flt q => simp [ofNum, realOps, Ops.Num.toRat]

end HotXL.RealOps
