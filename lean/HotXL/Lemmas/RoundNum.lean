/-
  HotXL.Lemmas.RoundNum — helper lemmas for property C17: the numeric builtins (ROUND…, CEILING,
  FLOOR, INT, EVEN, ODD, QUOTIENT, MOD, SIGN, FACT, FACTDOUBLE, COMPLEX parts) on exact rationals.
-/
import HotXL.Lemmas.Round
import HotXL.Lemmas.PowGuard
import Mathlib.Tactic.Positivity
import Mathlib.Tactic.FieldSimp
import Mathlib.Tactic.Ring
import Mathlib.Data.Nat.Factorial.DoubleFactorial

namespace HotXL.Lemmas.Round
open HotXL HotXL.Ops HotXL.Fn HotXL.Fn.Round

theorem fl_le (q : Rat) : (q.floor : Rat) ≤ q := Rat.floor_le q

theorem lt_fl (q : Rat) : q < (q.floor : Rat) + 1 := by
  have := Rat.lt_floor_add_one q; push_cast at this; exact this

theorem le_cl (q : Rat) : q ≤ (q.ceil : Rat) := Rat.le_ceil

theorem cl_lt (q : Rat) : (q.ceil : Rat) < q + 1 := Rat.ceil_lt

theorem ratAbs_eq (q : Rat) : ratAbs q = |q| := by
  unfold ratAbs
  split
  · rw [abs_of_neg ‹_›]
  · rw [abs_of_nonneg (not_lt.mp ‹_›)]

theorem pow10_pos (d : Int) : 0 < pow10 d := by
  unfold pow10
  split
  · exact_mod_cast Nat.pow_pos (n := d.toNat) (by norm_num : 0 < 10)
  · have : (0 : Rat) < ((10 ^ (-d).toNat : Nat) : Rat) := by exact_mod_cast Nat.pow_pos (n := (-d).toNat) (by norm_num : 0 < 10)
    positivity

theorem halfEven_spec (q : Rat) : |(halfEven q : Rat) - q| ≤ 1 / 2 := by
  have h1 := fl_le q
  have h2 := lt_fl q
  rw [abs_le]
  unfold halfEven
  simp only
  split
  · constructor <;> linarith
  · split
    · push_cast; constructor <;> linarith
    · split
      · constructor <;> linarith
      · push_cast; constructor <;> linarith

theorem pow10_neg (d : Int) (hd : ¬ 0 ≤ d) : pow10 d = 1 / (((10 ^ (-d).toNat : Nat) : Int) : Rat) := by
  unfold pow10; rw [if_neg hd]; push_cast; rfl

theorem pow10_nonneg (d : Int) (hd : 0 ≤ d) : pow10 d = (((10 ^ d.toNat : Nat) : Int) : Rat) := by
  unfold pow10; rw [if_pos hd]; push_cast; rfl

theorem scaled_close (k : Int) (q p : Rat) (hp : 0 < p) (h : |(k : Rat) - q * p| ≤ 1 / 2) :
    |(k : Rat) / p - q| ≤ (1 / 2) / p := by
  have e : (k : Rat) / p - q = ((k : Rat) - q * p) / p := by field_simp
  rw [e, abs_div, abs_of_pos hp]
  exact div_le_div_of_nonneg_right h hp.le

theorem pyRound_spec (x : Num) (d : Int) :
    (∃ k : Int, Num.toRat (pyRound x d) = (k : Rat) / pow10 d) ∧
    |Num.toRat (pyRound x d) - Num.toRat x| ≤ (1 / 2) / pow10 d := by
  have hp := pow10_pos d
  cases x with
  | int i =>
    by_cases hd : 0 ≤ d
    · simp only [pyRound, if_pos hd, Num.toRat]
      refine ⟨⟨i * ((10 ^ d.toNat : Nat) : Int), ?_⟩, ?_⟩
      · rw [pow10_nonneg d hd]
        have : ((((10 ^ d.toNat : Nat) : Int)) : Rat) ≠ 0 := by
          have := pow10_pos d; rw [pow10_nonneg d hd] at this; exact this.ne'
        push_cast at this ⊢
        field_simp
      · simp only [sub_self, abs_zero]; positivity
    · simp only [pyRound, if_neg hd, Num.toRat]
      set m : Int := ((10 ^ (-d).toNat : Nat) : Int) with hm
      have hmpos : (0 : Rat) < (m : Rat) := by
        have : (0 : Int) < m := by rw [hm]; exact_mod_cast Nat.pow_pos (n := (-d).toNat) (by norm_num : 0 < 10)
        exact_mod_cast this
      have hpd : pow10 d = 1 / (m : Rat) := pow10_neg d hd
      refine ⟨⟨halfEven ((i : Rat) / (m : Rat)), ?_⟩, ?_⟩
      · rw [hpd]; push_cast; field_simp
      · have h := halfEven_spec ((i : Rat) / (m : Rat))
        rw [hpd]
        have e : ((halfEven ((i : Rat) / (m : Rat)) * m : Int) : Rat) - (i : Rat)
            = ((halfEven ((i : Rat) / (m : Rat)) : Rat) - (i : Rat) / (m : Rat)) * (m : Rat) := by
          push_cast; field_simp
        rw [e, abs_mul, abs_of_pos hmpos]
        have : (1 / 2 : Rat) / (1 / (m : Rat)) = (1 / 2) * (m : Rat) := by field_simp
        rw [this]
        exact mul_le_mul_of_nonneg_right h hmpos.le
  | flt q =>
    simp only [pyRound, Num.toRat]
    exact ⟨⟨_, rfl⟩, scaled_close _ q _ hp (halfEven_spec _)⟩

theorem roundDirNeg_eq (up : Bool) (q : Rat) (d : Int) (hd : d < 0) :
    ((roundDirNeg up q d : Int) : Rat) = roundDir up q d := by
  have hp := pow10_neg d (by omega)
  have hm : (0 : Rat) < (((10 ^ (-d).toNat : Nat) : Int) : Rat) := by
    have : (0 : Int) < ((10 ^ (-d).toNat : Nat) : Int) := by exact_mod_cast Nat.pow_pos (n := (-d).toNat) (by norm_num : 0 < 10)
    exact_mod_cast this
  unfold roundDirNeg roundDir
  simp only [hp]
  have e : ratAbs q * (1 / (((10 ^ (-d).toNat : Nat) : Int) : Rat)) = ratAbs q / (((10 ^ (-d).toNat : Nat) : Int) : Rat) := by ring
  rw [e]
  by_cases hq : 0 < q <;> simp only [hq, if_true, if_false] <;> push_cast <;> field_simp

theorem signed_abs (q : Rat) (k : Int) (p : Rat) (hk : 0 ≤ k) (hp : 0 < p) :
    let s : Rat := if 0 < q then 1 else -1
    |s * (k : Rat) / p| = (k : Rat) / p ∧ (0 ≤ q → q ≠ 0 → 0 ≤ s * (k : Rat) / p) ∧ (q ≤ 0 → s * (k : Rat) / p ≤ 0) := by
  intro s
  have hk' : (0 : Rat) ≤ (k : Rat) := by exact_mod_cast hk
  have hkp : 0 ≤ (k : Rat) / p := div_nonneg hk' hp.le
  by_cases hq : 0 < q
  · have hs : s = 1 := if_pos hq
    rw [hs, one_mul]
    exact ⟨abs_of_nonneg hkp, fun _ _ => hkp, fun h => absurd hq (not_lt.mpr h)⟩
  · have hs : s = -1 := if_neg hq
    rw [hs]
    have e : (-1 : Rat) * (k : Rat) / p = -((k : Rat) / p) := by ring
    rw [e, abs_neg]
    exact ⟨abs_of_nonneg hkp, fun h hne => absurd (lt_of_le_of_ne h (Ne.symm hne)) hq, fun _ => by linarith⟩

theorem roundDir_up_spec (q : Rat) (d : Int) :
    (∃ k : Int, roundDir true q d = (k : Rat) / pow10 d) ∧
    |q| ≤ |roundDir true q d| ∧ |roundDir true q d| < |q| + 1 / pow10 d ∧
    (0 ≤ q → 0 ≤ roundDir true q d) ∧ (q ≤ 0 → roundDir true q d ≤ 0) := by
  have hp := pow10_pos d
  have ha : 0 ≤ |q| * pow10 d := mul_nonneg (abs_nonneg q) hp.le
  have h1 := le_cl (|q| * pow10 d)
  have h2 := cl_lt (|q| * pow10 d)
  have hk : 0 ≤ (|q| * pow10 d).ceil := by
    have : (0 : Rat) ≤ ((|q| * pow10 d).ceil : Rat) := le_trans ha h1
    exact_mod_cast this
  obtain ⟨e1, e2, e3⟩ := signed_abs q (|q| * pow10 d).ceil (pow10 d) hk hp
  unfold roundDir
  simp only [ratAbs_eq, if_true]
  refine ⟨⟨(if 0 < q then 1 else -1) * (|q| * pow10 d).ceil, ?_⟩, ?_, ?_, ?_, e3⟩
  · split <;> push_cast <;> ring
  · rw [e1, le_div_iff₀ hp]; exact h1
  · rw [e1, div_lt_iff₀ hp]; have : (|q| + 1 / pow10 d) * pow10 d = |q| * pow10 d + 1 := by field_simp
    rw [this]; exact h2
  · intro h0
    by_cases hz : q = 0
    · subst hz
      have c0 : Rat.ceil 0 = 0 := by decide
      simp [c0]
    · exact e2 h0 hz

theorem roundDir_down_spec (q : Rat) (d : Int) :
    (∃ k : Int, roundDir false q d = (k : Rat) / pow10 d) ∧
    |q| - 1 / pow10 d < |roundDir false q d| ∧ |roundDir false q d| ≤ |q| ∧
    (0 ≤ q → 0 ≤ roundDir false q d) ∧ (q ≤ 0 → roundDir false q d ≤ 0) := by
  have hp := pow10_pos d
  have ha : 0 ≤ |q| * pow10 d := mul_nonneg (abs_nonneg q) hp.le
  have h1 := fl_le (|q| * pow10 d)
  have h2 := lt_fl (|q| * pow10 d)
  have hk : 0 ≤ (|q| * pow10 d).floor := Rat.le_floor_iff.mpr (by simpa using ha)
  obtain ⟨e1, e2, e3⟩ := signed_abs q (|q| * pow10 d).floor (pow10 d) hk hp
  unfold roundDir
  simp only [ratAbs_eq, Bool.false_eq_true, if_false]
  refine ⟨⟨(if 0 < q then 1 else -1) * (|q| * pow10 d).floor, ?_⟩, ?_, ?_, ?_, e3⟩
  · split <;> push_cast <;> ring
  · rw [e1, lt_div_iff₀ hp]; have : (|q| - 1 / pow10 d) * pow10 d = |q| * pow10 d - 1 := by field_simp
    rw [this]; linarith
  · rw [e1, div_le_iff₀ hp]; exact h1
  · intro h0
    by_cases hz : q = 0
    · subst hz
      have c0 : Rat.floor 0 = 0 := by decide
      simp [c0]
    · exact e2 h0 hz

theorem toRat_numAbs (n : Num) : Num.toRat (numAbs n) = |Num.toRat n| := by
  cases n with
  | int i =>
    simp only [numAbs, Num.toRat]
    split
    · rw [abs_of_neg (by exact_mod_cast ‹i < 0›)]; push_cast; rfl
    · rw [abs_of_nonneg (by exact_mod_cast (not_lt.mp ‹¬ i < 0›))]
  | flt q => simp [numAbs, Num.toRat, ratAbs_eq]

theorem toRat_mulInt (k : Int) (n : Num) : Num.toRat (mulInt k n) = (k : Rat) * Num.toRat n := by
  cases n <;> simp [mulInt, Num.toRat]

theorem ceil_mul_bounds (y a : Rat) (ha : 0 < a) :
    y ≤ ((y / a).ceil : Rat) * a ∧ ((y / a).ceil : Rat) * a < y + a := by
  have h1 := le_cl (y / a)
  have h2 := cl_lt (y / a)
  rw [div_le_iff₀ ha] at h1
  have : (y / a + 1) * a = y + a := by field_simp
  exact ⟨h1, by nlinarith [mul_lt_mul_of_pos_right h2 ha]⟩

theorem floor_mul_bounds (y a : Rat) (ha : 0 < a) :
    ((y / a).floor : Rat) * a ≤ y ∧ y < ((y / a).floor : Rat) * a + a := by
  have h1 := fl_le (y / a)
  have h2 := lt_fl (y / a)
  rw [le_div_iff₀ ha] at h1
  rw [div_lt_iff₀ ha] at h2
  exact ⟨h1, by linarith⟩

theorem isZero_iff (n : Num) : Num.isZero n = true ↔ Num.toRat n = 0 := by
  simp [Num.isZero]

theorem mult_abs (k : Int) (S : Rat) : ∃ k' : Int, (k : Rat) * |S| = (k' : Rat) * S := by
  by_cases h : 0 ≤ S
  · exact ⟨k, by rw [abs_of_nonneg h]⟩
  · exact ⟨-k, by rw [abs_of_neg (not_le.mp h)]; push_cast; ring⟩

theorem ceilingNum_spec (x s : Num) (hs : Num.toRat s ≠ 0) :
    ∃ r : Num, ceilingNum x s = .num r ∧
      (∃ k : Int, Num.toRat r = (k : Rat) * Num.toRat s) ∧
      |Num.toRat r - Num.toRat x| < |Num.toRat s| ∧
      ((0 ≤ Num.toRat x ∨ 0 < Num.toRat s) → Num.toRat x ≤ Num.toRat r) ∧
      ((Num.toRat x < 0 ∧ Num.toRat s < 0) → Num.toRat r ≤ Num.toRat x) := by
  have hz : ¬ (Num.isZero s = true) := by rw [isZero_iff]; exact hs
  have ha : 0 < |Num.toRat s| := abs_pos.mpr hs
  unfold ceilingNum
  rw [if_neg hz]
  simp only [toRat_numAbs, ratAbs_eq]
  by_cases hq : 0 ≤ Num.toRat x
  · rw [if_pos hq]
    obtain ⟨b1, b2⟩ := ceil_mul_bounds (Num.toRat x) _ ha
    refine ⟨_, rfl, ?_, ?_, fun _ => ?_, fun h => absurd hq (not_le.mpr h.1)⟩
    · rw [toRat_mulInt, toRat_numAbs]; exact mult_abs _ _
    · rw [toRat_mulInt, toRat_numAbs, abs_lt]; constructor <;> linarith
    · rw [toRat_mulInt, toRat_numAbs]; exact b1
  · rw [if_neg hq]
    have hq' : Num.toRat x < 0 := not_le.mp hq
    have habs : |Num.toRat x| = -Num.toRat x := abs_of_neg hq'
    by_cases hp : 0 < Num.toRat s
    · simp only [hp, if_true]
      obtain ⟨b1, b2⟩ := floor_mul_bounds (|Num.toRat x|) _ ha
      refine ⟨_, rfl, ?_, ?_, fun _ => ?_, fun h => absurd hp (not_lt.mpr h.2.le)⟩
      · rw [toRat_mulInt, toRat_numAbs]; exact mult_abs _ _
      · rw [toRat_mulInt, toRat_numAbs, abs_lt]; push_cast; constructor <;> linarith
      · rw [toRat_mulInt, toRat_numAbs]; push_cast; linarith
    · simp only [hp, if_false]
      obtain ⟨b1, b2⟩ := ceil_mul_bounds (|Num.toRat x|) _ ha
      refine ⟨_, rfl, ?_, ?_, fun h => ?_, fun _ => ?_⟩
      · rw [toRat_mulInt, toRat_numAbs]; exact mult_abs _ _
      · rw [toRat_mulInt, toRat_numAbs, abs_lt]; push_cast; constructor <;> linarith
      · rcases h with h | h
        · exact absurd h hq
        · exact h.elim
      · rw [toRat_mulInt, toRat_numAbs]; push_cast; linarith

theorem floorNum_num (x s : Num) (hx : 0 < Num.toRat x) (hs : Num.toRat s < 0) : floorNum x s = .err .num := by
  have hz : ¬ (Num.isZero s = true) := by rw [isZero_iff]; exact hs.ne
  unfold floorNum
  rw [if_neg hz]
  simp [hx, not_lt.mpr hs.le]

theorem floorNum_spec (x s : Num) (hs : Num.toRat s ≠ 0) (hdom : ¬ (0 < Num.toRat x ∧ Num.toRat s < 0)) :
    ∃ r : Num, floorNum x s = .num r ∧
      (∃ k : Int, Num.toRat r = (k : Rat) * Num.toRat s) ∧
      |Num.toRat r - Num.toRat x| < |Num.toRat s| ∧
      ((Num.toRat x < 0 ∧ Num.toRat s < 0) → Num.toRat x ≤ Num.toRat r) ∧
      (¬ (Num.toRat x < 0 ∧ Num.toRat s < 0) → Num.toRat r ≤ Num.toRat x) := by
  have hz : ¬ (Num.isZero s = true) := by rw [isZero_iff]; exact hs
  have ha : 0 < |Num.toRat s| := abs_pos.mpr hs
  have hguard : (decide (0 < Num.toRat x) && !decide (0 < Num.toRat s)) = false := by
    rw [Bool.and_eq_false_iff]
    by_cases hx : 0 < Num.toRat x
    · right
      have : 0 < Num.toRat s := by
        rcases lt_or_gt_of_ne hs with h | h
        · exact absurd ⟨hx, h⟩ hdom
        · exact h
      simp [this]
    · left; simp [hx]
  unfold floorNum
  rw [if_neg hz]
  simp only [hguard, Bool.false_eq_true, if_false, toRat_numAbs, ratAbs_eq]
  by_cases hq : 0 ≤ Num.toRat x
  · rw [if_pos hq]
    obtain ⟨b1, b2⟩ := floor_mul_bounds (Num.toRat x) _ ha
    refine ⟨_, rfl, ?_, ?_, fun h => absurd hq (not_le.mpr h.1), fun _ => ?_⟩
    · rw [toRat_mulInt, toRat_numAbs]; exact mult_abs _ _
    · rw [toRat_mulInt, toRat_numAbs, abs_lt]; constructor <;> linarith
    · rw [toRat_mulInt, toRat_numAbs]; exact b1
  · rw [if_neg hq]
    have hq' : Num.toRat x < 0 := not_le.mp hq
    have habs : |Num.toRat x| = -Num.toRat x := abs_of_neg hq'
    by_cases hp : 0 < Num.toRat s
    · rw [if_pos hp]
      obtain ⟨b1, b2⟩ := ceil_mul_bounds (|Num.toRat x|) _ ha
      refine ⟨_, rfl, ?_, ?_, fun h => absurd hp (not_lt.mpr h.2.le), fun _ => ?_⟩
      · rw [toRat_mulInt, toRat_numAbs]; exact mult_abs _ _
      · rw [toRat_mulInt, toRat_numAbs, abs_lt]; push_cast; constructor <;> linarith
      · rw [toRat_mulInt, toRat_numAbs]; push_cast; linarith
    · rw [if_neg hp]
      obtain ⟨b1, b2⟩ := floor_mul_bounds (|Num.toRat x|) _ ha
      have hs' : Num.toRat s < 0 := lt_of_le_of_ne (not_lt.mp hp) hs
      refine ⟨_, rfl, ?_, ?_, fun _ => ?_, fun h => absurd ⟨hq', hs'⟩ h⟩
      · rw [toRat_mulInt, toRat_numAbs]; exact mult_abs _ _
      · rw [toRat_mulInt, toRat_numAbs, abs_lt]; push_cast; constructor <;> linarith
      · rw [toRat_mulInt, toRat_numAbs]; push_cast; linarith

theorem ratTrunc_nonneg (q : Rat) (h : 0 ≤ q) : ratTrunc q = q.floor := by simp [ratTrunc, h]

theorem ratTrunc_neg (q : Rat) (h : q < 0) : ratTrunc q = q.ceil := by simp [ratTrunc, not_le.mpr h]

theorem ceil_eq_floor_or (q : Rat) : q.ceil = q.floor ∨ q.ceil = q.floor + 1 := by
  have h1 := fl_le q; have h2 := lt_fl q; have h3 := le_cl q; have h4 := cl_lt q
  have a : (q.floor : Rat) < (q.ceil : Rat) + 1 := by linarith
  have b : (q.ceil : Rat) < (q.floor : Rat) + 2 := by linarith
  have a' : q.floor < q.ceil + 1 := by exact_mod_cast a
  have b' : q.ceil < q.floor + 2 := by exact_mod_cast b
  omega

theorem int_floor (n : Num) : INT [.num n] = .ok (.num (.int (Num.toRat n).floor)) := by
  simp only [INT, asNumber?]
  set q := Num.toRat n
  by_cases h0 : 0 ≤ q
  · simp [h0, ratTrunc_nonneg q h0]
  · have hneg : q < 0 := not_le.mp h0
    rw [if_neg h0, ratTrunc_neg q hneg]
    have h3 := le_cl q
    by_cases hlt : q < (q.ceil : Rat)
    · rw [if_pos hlt]
      rcases ceil_eq_floor_or q with h | h
      · exfalso; rw [h] at hlt; exact absurd (fl_le q) (not_le.mpr hlt)
      · rw [h]; simp
    · rw [if_neg hlt]
      have : (q.ceil : Rat) = q := le_antisymm (not_lt.mp hlt) h3
      have hf : q.floor = q.ceil := by rw [← this]; exact Rat.floor_intCast _
      rw [hf]

theorem toRat_numNeg (n : Num) : Num.toRat (numNeg n) = -Num.toRat n := by
  cases n <;> simp [numNeg, Num.toRat]

theorem ratTrunc_spec (q : Rat) :
    (0 ≤ q → ((ratTrunc q : Int) : Rat) ≤ q ∧ q < (ratTrunc q : Rat) + 1) ∧
    (q < 0 → (ratTrunc q : Rat) - 1 < q ∧ q ≤ (ratTrunc q : Rat)) := by
  constructor
  · intro h; rw [ratTrunc_nonneg q h]; exact ⟨fl_le q, lt_fl q⟩
  · intro h; rw [ratTrunc_neg q h]; exact ⟨by linarith [cl_lt q], le_cl q⟩

theorem pyMod_spec (n d : Num) (hd : Num.toRat d ≠ 0) :
    (∃ k : Int, Num.toRat n = Num.toRat d * (k : Rat) + Num.toRat (pyMod n d)) ∧
    (0 < Num.toRat d → 0 ≤ Num.toRat (pyMod n d) ∧ Num.toRat (pyMod n d) < Num.toRat d) ∧
    (Num.toRat d < 0 → Num.toRat d < Num.toRat (pyMod n d) ∧ Num.toRat (pyMod n d) ≤ 0) := by
  have flt : ∀ N D : Rat, D ≠ 0 →
      (∃ k : Int, N = D * (k : Rat) + (N - D * ((N / D).floor : Rat))) ∧
      (0 < D → 0 ≤ N - D * ((N / D).floor : Rat) ∧ N - D * ((N / D).floor : Rat) < D) ∧
      (D < 0 → D < N - D * ((N / D).floor : Rat) ∧ N - D * ((N / D).floor : Rat) ≤ 0) := by
    intro N D hD
    refine ⟨⟨(N / D).floor, by ring⟩, fun h => ?_, fun h => ?_⟩
    · obtain ⟨b1, b2⟩ := floor_mul_bounds N D h
      constructor <;> linarith
    · have e : N / D = (-N) / (-D) := (neg_div_neg_eq N D).symm
      obtain ⟨b1, b2⟩ := floor_mul_bounds (-N) (-D) (by linarith)
      rw [← e] at b1 b2
      constructor <;> linarith
  cases n with
  | flt q => cases d <;> exact flt _ _ hd
  | int a =>
    cases d with
    | flt q => exact flt _ _ hd
    | int b =>
      simp only [pyMod, Num.toRat] at hd ⊢
      have hb : b ≠ 0 := by exact_mod_cast hd
      refine ⟨⟨a.fdiv b, ?_⟩, fun h => ?_, fun h => ?_⟩
      · have := Int.fmod_add_mul_fdiv a b
        have : ((a.fmod b + b * a.fdiv b : Int) : Rat) = (a : Rat) := by rw [this]
        push_cast at this; linarith
      · have hb' : 0 < b := by exact_mod_cast h
        exact ⟨by exact_mod_cast Int.fmod_nonneg_of_pos a hb', by exact_mod_cast Int.fmod_lt_of_pos a hb'⟩
      · have hb' : b < 0 := by exact_mod_cast h
        have e : a.fmod b = -((-a).fmod (-b)) := by
          have := Int.neg_fmod_neg a b; omega
        have h1 := Int.fmod_nonneg_of_pos (-a) (show 0 < -b by omega)
        have h2 := Int.fmod_lt_of_pos (-a) (show 0 < -b by omega)
        have c1 : b < a.fmod b := by omega
        have c2 : a.fmod b ≤ 0 := by omega
        exact ⟨by exact_mod_cast c1, by exact_mod_cast c2⟩

theorem mod_value (n d : Num) (hd : Num.toRat d ≠ 0) :
    ∃ r : Num, MOD [.num n, .num d] = .ok (.num r) ∧ Num.toRat r = Num.toRat (pyMod n d) := by
  have hz : ¬ (Num.isZero d = true) := by rw [isZero_iff]; exact hd
  obtain ⟨_, hpos, hneg⟩ := pyMod_spec n d hd
  simp only [MOD, parseNumber_num, if_neg hz]
  by_cases h : 0 < Num.toRat d
  · refine ⟨_, by rw [if_pos h], ?_⟩
    rw [toRat_numAbs, abs_of_nonneg (hpos h).1]
  · refine ⟨_, by rw [if_neg h], ?_⟩
    have h' : Num.toRat d < 0 := lt_of_le_of_ne (not_lt.mp h) hd
    rw [toRat_numNeg, toRat_numAbs, abs_of_nonpos (hneg h').2, neg_neg]

theorem bump_bounds (q : Rat) (t : Int) (h : t = (|q|).ceil ∨ t = (|q|).ceil + 1) (h0 : 0 ≤ t) :
    |q| ≤ (t : Rat) ∧ (t : Rat) < |q| + 2 := by
  have h1 := le_cl |q|; have h2 := cl_lt |q|
  rcases h with h | h <;> subst h <;> push_cast <;> constructor <;> linarith

theorem ceil_abs_nonneg (q : Rat) : 0 ≤ (|q|).ceil := by
  have : (0 : Rat) ≤ ((|q|).ceil : Rat) := le_trans (abs_nonneg q) (le_cl _)
  exact_mod_cast this

theorem even_spec' (n : Num) :
    ∃ r : Int, EVEN [.num n] = .ok (.num (.int r)) ∧ r % 2 = 0 ∧
      |Num.toRat n| ≤ |(r : Rat)| ∧ |(r : Rat)| < |Num.toRat n| + 2 ∧
      (0 ≤ Num.toRat n → 0 ≤ r) ∧ (Num.toRat n ≤ 0 → r ≤ 0) := by
  simp only [EVEN, parseNumber_num, ratAbs_eq]
  set q := Num.toRat n
  set c := (|q|).ceil with hc
  have hc0 := ceil_abs_nonneg q
  set t : Int := if c % 2 = 0 then c else c + 1 with ht
  have ht0 : 0 ≤ t := by rw [ht]; split <;> omega
  have htpar : t % 2 = 0 := by rw [ht]; split <;> omega
  have htc : t = c ∨ t = c + 1 := by rw [ht]; split <;> simp
  obtain ⟨b1, b2⟩ := bump_bounds q t htc ht0
  have ht0' : (0 : Rat) ≤ (t : Rat) := by exact_mod_cast ht0
  by_cases hq : 0 < q
  · refine ⟨t, by rw [if_pos hq], htpar, ?_, ?_, fun _ => ht0, fun h => absurd hq (not_lt.mpr h)⟩
    · rwa [abs_of_nonneg ht0']
    · rwa [abs_of_nonneg ht0']
  · refine ⟨-t, by rw [if_neg hq], by omega, ?_, ?_, fun h => ?_, fun _ => by omega⟩
    · push_cast; rwa [abs_neg, abs_of_nonneg ht0']
    · push_cast; rwa [abs_neg, abs_of_nonneg ht0']
    · have hz : q = 0 := le_antisymm (not_lt.mp hq) h
      have : c = 0 := by rw [hc, hz]; decide
      have : t = 0 := by rw [ht, this]; simp
      omega

theorem odd_spec' (n : Num) :
    ∃ r : Int, ODD [.num n] = .ok (.num (.int r)) ∧ r % 2 = 1 ∧
      |Num.toRat n| ≤ |(r : Rat)| ∧ |(r : Rat)| < |Num.toRat n| + 2 ∧
      (0 ≤ Num.toRat n → 0 < r) ∧ (Num.toRat n < 0 → r < 0) := by
  simp only [ODD, parseNumber_num, ratAbs_eq]
  set q := Num.toRat n
  set c := (|q|).ceil with hc
  have hc0 := ceil_abs_nonneg q
  set t : Int := if c % 2 = 1 then c else c + 1 with ht
  have htpar : t % 2 = 1 := by rw [ht]; split <;> omega
  have ht0 : 0 < t := by rw [ht]; split <;> omega
  have htc : t = c ∨ t = c + 1 := by rw [ht]; split <;> simp
  obtain ⟨b1, b2⟩ := bump_bounds q t htc ht0.le
  have ht0' : (0 : Rat) ≤ (t : Rat) := by exact_mod_cast ht0.le
  by_cases hq : 0 ≤ q
  · refine ⟨t, by rw [if_pos hq], htpar, ?_, ?_, fun _ => ht0, fun h => absurd hq (not_le.mpr h)⟩
    · rwa [abs_of_nonneg ht0']
    · rwa [abs_of_nonneg ht0']
  · refine ⟨-t, by rw [if_neg hq], by omega, ?_, ?_, fun h => absurd h hq, fun _ => by omega⟩
    · push_cast; rwa [abs_neg, abs_of_nonneg ht0']
    · push_cast; rwa [abs_neg, abs_of_nonneg ht0']

theorem sign_spec' (n : Num) :
    SIGN [.num n] = .ok (.num (.int (if Num.toRat n < 0 then -1 else if Num.toRat n = 0 then 0 else 1))) := by
  simp only [SIGN, asNumber?]
  rcases lt_trichotomy (Num.toRat n) 0 with h | h | h
  · simp [h, h.ne, not_lt.mpr h.le]
  · simp [h]
  · simp [h, h.ne', not_lt.mpr h.le]

theorem fact_eq (n : Nat) : fact n = n.factorial := by
  induction n with
  | zero => rfl
  | succ n ih => rw [fact, ih, Nat.factorial_succ]

theorem dfact_eq : ∀ n : Nat, dfact n = n.doubleFactorial
  | 0 => rfl
  | 1 => rfl
  | n + 2 => by rw [dfact, dfact_eq n, Nat.doubleFactorial_add_two]

theorem trunc_natCast (n : Nat) : (ratTrunc ((n : Int) : Rat)).toNat = n := by
  rw [ratTrunc_nonneg _ (by exact_mod_cast Int.natCast_nonneg n), Rat.floor_intCast]; simp

/-- the casts of the generated range constants, as rational literals -/
theorem factLimit_cast : ((Generated.factLimit : Int) : Rat) = 171 := by simp [Generated.factLimit]
theorem factdoubleLimit_cast : ((Generated.factdoubleLimit : Int) : Rat) = 301 := by simp [Generated.factdoubleLimit]
theorem roundDirMax_cast (up : Bool) : ((roundDirMax up : Int) : Rat) = 1074 := by
  cases up <;> simp [roundDirMax, Generated.roundupDigitsMax, Generated.rounddownDigitsMax]

/-- FACT inside its range `0 ≤ x < 171`: the factorial of the truncated number -/
theorem fact_value (x : Num) (h0 : 0 ≤ Num.toRat x) (h1 : Num.toRat x < 171) :
    FACT [.num x] = .ok (.num (.int (((Num.toRat x).floor.toNat).factorial : Nat))) := by
  have a : ¬ (Num.toRat x < 0) := not_lt.mpr h0
  have b : ¬ ((171 : Rat) ≤ Num.toRat x) := not_le.mpr h1
  simp only [FACT, parseNumber_num, factLimit_cast, a, b, decide_false, Bool.or_self, Bool.false_eq_true, if_false,
    ratTrunc_nonneg _ h0, fact_eq]

/-- FACTDOUBLE inside its range `0 ≤ x < 301`: the double factorial of the truncated number -/
theorem factdouble_value (x : Num) (h0 : 0 ≤ Num.toRat x) (h1 : Num.toRat x < 301) :
    FACTDOUBLE [.num x] = .ok (.num (.int (((Num.toRat x).floor.toNat).doubleFactorial : Nat))) := by
  have a : ¬ (Num.toRat x < 0) := not_lt.mpr h0
  have b : ¬ ((301 : Rat) ≤ Num.toRat x) := not_le.mpr h1
  simp only [FACTDOUBLE, parseNumber_num, factdoubleLimit_cast, a, b, decide_false, Bool.or_self, Bool.false_eq_true,
    if_false, ratTrunc_nonneg _ h0, dfact_eq]

theorem floor_natCast (n : Nat) : (Num.toRat (.int (n : Int))).floor.toNat = n := by
  simp only [Num.toRat, Rat.floor_intCast, Int.toNat_natCast]

theorem fact_nat (n : Nat) (hn : n ≤ 170) : FACT [.num (.int n)] = .ok (.num (.int (n.factorial : Nat))) := by
  have h0 : (0 : Rat) ≤ Num.toRat (.int (n : Int)) := by simp only [Num.toRat]; exact_mod_cast Int.natCast_nonneg n
  have h1 : Num.toRat (.int (n : Int)) < 171 := by
    simp only [Num.toRat]; have : (n : Int) < 171 := by omega
    exact_mod_cast this
  rw [fact_value _ h0 h1, floor_natCast]

theorem factdouble_nat (n : Nat) (hn : n ≤ 300) :
    FACTDOUBLE [.num (.int n)] = .ok (.num (.int (n.doubleFactorial : Nat))) := by
  have h0 : (0 : Rat) ≤ Num.toRat (.int (n : Int)) := by simp only [Num.toRat]; exact_mod_cast Int.natCast_nonneg n
  have h1 : Num.toRat (.int (n : Int)) < 301 := by
    simp only [Num.toRat]; have : (n : Int) < 301 := by omega
    exact_mod_cast this
  rw [factdouble_value _ h0 h1, floor_natCast]

theorem fact_neg (x : Num) (h : Num.toRat x < 0) :
    FACT [.num x] = .ok (.err .num) ∧ FACTDOUBLE [.num x] = .ok (.err .num) := by
  simp [FACT, FACTDOUBLE, parseNumber_num, h]

/-- from 171 (resp. 301) on: `#NUM!`, whatever the size of the number — no factorial is computed -/
theorem fact_big (x : Num) :
    ((171 : Rat) ≤ Num.toRat x → FACT [.num x] = .ok (.err .num)) ∧
    ((301 : Rat) ≤ Num.toRat x → FACTDOUBLE [.num x] = .ok (.err .num)) := by
  constructor <;> intro h <;>
    simp [FACT, FACTDOUBLE, parseNumber_num, factLimit_cast, factdoubleLimit_cast, h]

theorem trunc_intCast (a : Int) : ratTrunc (a : Rat) = a := by
  unfold ratTrunc; split
  · exact Rat.floor_intCast a
  · exact Rat.ceil_intCast a

theorem complex_parts (a b : Int) :
    (Eng.COMPLEX [.num (.int a), .num (.int b)] >>= fun z => Eng.IMREAL [z]) = .ok (.num (.int a)) ∧
    (Eng.COMPLEX [.num (.int a), .num (.int b)] >>= fun z => Eng.IMAGINARY [z]) = .ok (.num (.int b)) := by
  simp [Eng.COMPLEX, parseNumber_num, bind, Except.bind, Eng.mkComplex, Eng.IMREAL, Eng.IMAGINARY, Eng.parseComplex,
    Num.toRat, trunc_intCast]

-- `2 ^ 1024`, `10 ^ 1025`, `2 ^ 1074` appear as literals in the statements below
set_option exponentiation.threshold 1200

/-- `size` of `_place_beyond`: the bit length of an int, 0 for a float -/
def numSize : Num → Int
  | .int i => (Math.bitLength i : Int)
  | .flt _ => 0

/-- what the statements assume of a float argument: it is in the range of the doubles … -/
def InDoubleRange (x : Num) : Prop := ∀ q, x = .flt q → |q| < 2 ^ 1024
/-- … and (only needed for `digits > 1074`) a multiple of 2^-1074, as every double is -/
def OnDoubleGrid (x : Num) : Prop := ∀ q, x = .flt q → ∃ m : Int, q = (m : Rat) / 2 ^ 1074

/-- `_place_beyond` spelled out with the constants of the source (a float or int `digits`) -/
theorem placeBeyond_iff (x dn : Num) :
    placeBeyond x dn = true ↔ ((max 1024 (numSize x) : Int) : Rat) < -Num.toRat dn := by
  cases x with
  | int i =>
    show decide (((max (1024 : Int) (Math.bitLength i : Int) : Int) : Rat) < -Num.toRat dn) = true ↔ _
    simp only [decide_eq_true_eq, numSize]
  | flt q =>
    show decide (((max (1024 : Int) (0 : Int) : Int) : Rat) < -Num.toRat dn) = true ↔ _
    simp only [decide_eq_true_eq, numSize]

theorem placeBeyond_int (x : Num) (d : Int) :
    placeBeyond x (.int d) = true ↔ max 1024 (numSize x) < -d := by
  rw [placeBeyond_iff]
  simp only [Num.toRat]
  rw [← Int.cast_neg, Int.cast_lt]

/-- `1 / pow10 d = 10 ^ (-d)` for a negative `d` -/
theorem unit_neg (d : Int) (hd : d < 0) : 1 / pow10 d = (10 : Rat) ^ (-d).toNat := by
  unfold pow10
  rw [if_neg (by omega), one_div_one_div, Nat.cast_pow, Nat.cast_ofNat]

/-- a number of size `s` (bit length of an int; a float in the double range with `s = 1024`) is
    below `2 ^ s` in magnitude -/
theorem abs_lt_two_pow (x : Num) (hx : InDoubleRange x) :
    |Num.toRat x| < (2 : Rat) ^ (max 1024 (numSize x)).toNat := by
  cases x with
  | int i =>
    simp only [Num.toRat, numSize]
    have h1 : i.natAbs < 2 ^ Math.bitLength i := by
      by_cases h0 : i = 0
      · subst h0; decide
      · exact (Lemmas.PowGuard.bitLength_spec i h0).2
    have h2 : (2 : Nat) ^ Math.bitLength i ≤ 2 ^ (max 1024 (Math.bitLength i : Int)).toNat :=
      Nat.pow_le_pow_right (by decide) (by omega)
    have h3 : ((i.natAbs : Nat) : Rat) < ((2 ^ (max 1024 (Math.bitLength i : Int)).toNat : Nat) : Rat) := by
      exact_mod_cast lt_of_lt_of_le h1 h2
    rw [Nat.cast_natAbs, Nat.cast_pow, Nat.cast_ofNat] at h3
    simpa using h3
  | flt q =>
    simp only [Num.toRat, numSize]
    have : (max (1024 : Int) 0).toNat = 1024 := by decide
    rw [this]
    exact hx q rfl

/-- where the place is beyond the number, one unit of it is more than twice the number (and at
    least 10^1025) -/
theorem beyond_magnitude (x : Num) (d : Int) (hb : placeBeyond x (.int d) = true) (hx : InDoubleRange x) :
    d < 0 ∧ 2 * |Num.toRat x| < 1 / pow10 d ∧ (10 : Rat) ^ 1025 ≤ 1 / pow10 d := by
  have hk := (placeBeyond_int x d).mp hb
  have hd : d < 0 := by omega
  rw [unit_neg d hd]
  refine ⟨hd, ?_, ?_⟩
  · have h1 := abs_lt_two_pow x hx
    have h2 : (max 1024 (numSize x)).toNat + 1 ≤ (-d).toNat := by omega
    have h3 : (2 : Rat) ^ ((max 1024 (numSize x)).toNat + 1) ≤ 2 ^ (-d).toNat :=
      pow_le_pow_right₀ (by norm_num) h2
    have h4 : (2 : Rat) ^ (-d).toNat ≤ 10 ^ (-d).toNat := pow_le_pow_left₀ (by norm_num) (by norm_num) _
    rw [pow_succ] at h3
    linarith
  · exact pow_le_pow_right₀ (by norm_num) (by omega)

/-- a multiple of 2^-1074 is a multiple of 10^-d for every d > 1074 -/
theorem grid_multiple (q : Rat) (m : Int) (hq : q = (m : Rat) / 2 ^ 1074) (d : Int) (hd : 1074 < d) :
    ∃ k : Int, q = (k : Rat) / pow10 d := by
  obtain ⟨j, hj⟩ : ∃ j : Nat, d.toNat = 1074 + j := ⟨d.toNat - 1074, by omega⟩
  refine ⟨m * 5 ^ 1074 * 10 ^ j, ?_⟩
  rw [pow10_nonneg d (by omega), hq, hj]
  have e : (((10 ^ (1074 + j) : Nat) : Int) : Rat) = 2 ^ 1074 * 5 ^ 1074 * 10 ^ j := by
    push_cast
    rw [pow_add, show (10 : Rat) = 2 * 5 by norm_num, mul_pow]
  rw [e]
  have h2 : (2 : Rat) ^ 1074 ≠ 0 := by positivity
  rw [div_eq_div_iff h2 (by positivity)]
  push_cast
  ring

/-- every number the statements are about is a multiple of 10^-d for d > 1074 -/
theorem multiple_above (x : Num) (d : Int) (hd : 1074 < d) (hg : OnDoubleGrid x) :
    ∃ k : Int, Num.toRat x = (k : Rat) / pow10 d := by
  cases x with
  | int i =>
    refine ⟨i * ((10 ^ d.toNat : Nat) : Int), ?_⟩
    have hp := pow10_pos d
    rw [pow10_nonneg d (by omega)] at hp ⊢
    simp only [Num.toRat]
    push_cast at hp ⊢
    field_simp
  | flt q =>
    obtain ⟨m, hm⟩ := hg q rfl
    exact grid_multiple q m hm d hd

/-- value of ROUNDUP / ROUNDDOWN for an int `digits` between the guards -/
theorem roundDirFn_value (up : Bool) (x : Num) (d : Int) (h1 : d ≤ 1074) (h2 : placeBeyond x (.int d) = false) :
    ∃ r : Num, roundDirFn up [.num x, .num (.int d)] = .ok (.num r) ∧ Num.toRat r = roundDir up (Num.toRat x) d := by
  have a : ¬ ((1074 : Rat) < (d : Rat)) := by
    have : ¬ ((1074 : Int) < d) := by omega
    exact_mod_cast this
  by_cases hd : d < 0
  · exact ⟨.int (roundDirNeg up (Num.toRat x) d),
      by simp [roundDirFn, parseNumber_num, integral?, hd, roundDirMax_cast, Num.toRat, a, h2],
      roundDirNeg_eq up _ d hd⟩
  · exact ⟨.flt (roundDir up (Num.toRat x) d),
      by simp [roundDirFn, parseNumber_num, integral?, hd, roundDirMax_cast, Num.toRat, a, h2], rfl⟩

/-- beyond the upper guard (`digits > 1074`, int or float): the number itself, of the same kind -/
theorem roundDirFn_above (up : Bool) (x dn : Num) (h : 1074 < Num.toRat dn) :
    roundDirFn up [.num x, .num dn] = .ok (.num x) := by
  simp only [roundDirFn, parseNumber_num, roundDirMax_cast, if_pos h]

/-- a place beyond the number (int or float `digits`): `number * 0`, except ROUNDUP of a non-zero
    number, which is `#NUM!` -/
theorem roundDirFn_beyond (up : Bool) (x dn : Num) (h : placeBeyond x dn = true) :
    roundDirFn up [.num x, .num dn] =
      if up = true ∧ Num.toRat x ≠ 0 then .ok (.err .num) else .ok (.num (mulZero x)) := by
  have hneg : Num.toRat dn < 0 := by
    have := (placeBeyond_iff x dn).mp h
    have h1024 : ((1024 : Int) : Rat) ≤ ((max 1024 (numSize x) : Int) : Rat) := by exact_mod_cast le_max_left _ _
    have : (1024 : Rat) < -Num.toRat dn := lt_of_le_of_lt (by simp) this
    linarith
  have a : ¬ ((1074 : Rat) < Num.toRat dn) := by linarith
  simp only [roundDirFn, parseNumber_num, roundDirMax_cast, if_neg a, h, if_true]
  by_cases hz : Num.toRat x = 0
  · have : Num.isZero x = true := (isZero_iff x).mpr hz
    simp [this, hz]
  · have : Num.isZero x = false := by
      cases hb : Num.isZero x
      · rfl
      · exact absurd ((isZero_iff x).mp hb) hz
    cases up <;> simp [this, hz]

theorem toRat_mulZero (x : Num) : Num.toRat (mulZero x) = 0 := by
  cases x <;> simp [mulZero, Num.toRat]

/-- ROUND where the place is not beyond the number: Python's `round` -/
theorem round_value (x : Num) (d : Int) (h : placeBeyond x (.int d) = false) :
    ROUND [.num x, .num (.int d)] = .ok (.num (pyRound x d)) := by
  simp [ROUND, parseNumber_num, h]

/-- ROUND where the place is beyond the number (int or float `digits`): `number * 0` -/
theorem round_beyond (x dn : Num) (h : placeBeyond x dn = true) :
    ROUND [.num x, .num dn] = .ok (.num (mulZero x)) := by
  simp only [ROUND, parseNumber_num, h, if_true]

end HotXL.Lemmas.Round
