/-
  HotXL.Lemmas.ErrorFlow — helper lemmas for C08 (error values propagate through operators
  and can be trapped):

  * the operator models return an error operand (left one first);
  * the event log is write-only: the outcome of an evaluation does not depend on the log it
    starts from, the events are appended (`evalExpr_log`), so the outcome can be studied on
    its own (`outcome`, `outcomes`, with their monadic equations);
  * evaluation contexts `Ctx` (a hole somewhere below `neg`/`bin`/`call`/`arr` nodes): a raised
    exception in the hole is the result of the whole (`abort_ctx`), an error VALUE in the hole
    is the value of the whole along an operator-only path (`carries_ctx`);
  * operator trees `OpTree` over arbitrary leaf expressions: leftmost error leaf wins;
  * `error.from_message` over the generated table; `call_function` turns raised exceptions
    into values.
-/
import HotXL.Model.Eval

namespace HotXL.ErrorFlow
open HotXL HotXL.Ops HotXL.Eval HotXL.Syntax

/-! ### operators return an error operand, the left one first -/

@[simp] theorem isErr_err (e : Err) : isErr (.err e) = some e := rfl

theorem isErr_eq_some_iff (v : Value) (e : Err) : isErr v = some e ↔ v = .err e := by
  cases v <;> simp [isErr]

theorem isErr_eq_none_iff (v : Value) : isErr v = none ↔ ∀ e, v ≠ .err e := by
  cases v <;> simp [isErr]

theorem evalArith_left_err (fuel : Nat) (op : ArithOp) (e : Err) (r : Value) :
    evalArith fuel op (.err e) r = .ok (.err e) := by
  unfold evalArith; simp only [isErr_err]

theorem evalArith_right_err (fuel : Nat) (op : ArithOp) (e : Err) (l : Value) (h : isErr l = none) :
    evalArith fuel op l (.err e) = .ok (.err e) := by
  unfold evalArith; simp only [isErr_err, h]

theorem evalLogic_left_err (op : CmpOp) (e : Err) (r : Value) :
    evalLogic op (.err e) r = .ok (.err e) := by
  simp only [evalLogic, isErr_err]

theorem evalLogic_right_err (op : CmpOp) (e : Err) (l : Value) (h : isErr l = none) :
    evalLogic op l (.err e) = .ok (.err e) := by
  simp only [evalLogic, isErr_err, h]

theorem evalLogicG_left_err (op : CmpOp) (e : Err) (r : Value) :
    evalLogicG op (.err e) r = .ok (.err e) := by
  simp only [evalLogicG, isForeign, Bool.false_and, Bool.false_eq_true, if_false, evalLogic_left_err]

theorem evalLogicG_right_err (op : CmpOp) (e : Err) (l : Value) (h : isErr l = none) :
    evalLogicG op l (.err e) = .ok (.err e) := by
  simp only [evalLogicG, isForeign, Bool.and_false, Bool.false_eq_true, if_false, evalLogic_right_err _ _ _ h]

theorem evalAmp_left_err (e : Err) (r : Value) : evalAmp (.err e) r = .ok (.err e) := by
  simp only [evalAmp, isErr_err]

theorem evalAmp_right_err (e : Err) (l : Value) (h : isErr l = none) :
    evalAmp l (.err e) = .ok (.err e) := by
  simp only [evalAmp, isErr_err, h]

theorem binOfOp_left_err (op : BinOp) (e : Err) (v : Value) :
    binOfOp op (.err e) v = .ok (.err e) := by
  cases op <;> simp only [binOfOp, evalArith_left_err, evalAmp_left_err, evalLogicG_left_err]

theorem binOfOp_right_err (op : BinOp) (e : Err) (v : Value) (h : isErr v = none) :
    binOfOp op v (.err e) = .ok (.err e) := by
  cases op <;>
    simp only [binOfOp, evalArith_right_err _ _ _ _ h, evalAmp_right_err _ _ h, evalLogicG_right_err _ _ _ h]

/-- on two operands that are neither errors nor arrays `evaluate_arithmetic` is the scalar table
    lookup (used to evaluate concrete examples: `evalArith` is defined by well-founded recursion) -/
theorem evalArith_scalar (fuel : Nat) (op : ArithOp) (l r : Value)
    (hl : isErr l = none) (hr : isErr r = none)
    (hla : ∀ xs, l ≠ .arr xs) (hra : ∀ xs, r ≠ .arr xs) :
    evalArith fuel op l r = arithScalar op l r := by
  unfold evalArith
  simp only [hl, hr]
  cases l <;> cases r <;> first | rfl | (exfalso; exact hla _ rfl) | (exfalso; exact hra _ rfl)

/-! ### `error.from_message` over the generated table -/

/-- `from_message(str(e)) is e` for the nine singletons -/
theorem fromMessage_singleton (e : Err) : fromMessage (singletonMessage e) = e := by
  cases e <;> rfl

/-- `str(e)` of a singleton (generated) is the canonical code of `HotXL.Err.code` -/
theorem singletonMessage_eq_code (e : Err) : singletonMessage e = e.code := by
  cases e <;> rfl

theorem fromMessage_code (e : Err) : fromMessage e.code = e := by
  rw [← singletonMessage_eq_code, fromMessage_singleton]

theorem code_injective {a b : Err} (h : a.code = b.code) : a = b := by
  rw [← fromMessage_code a, ← fromMessage_code b, h]

@[simp] theorem toErr_xl (e : Err) : (Exn.xl e).toErr = e := fromMessage_singleton e
@[simp] theorem toErr_py (m : String) : (Exn.py m).toErr = fromMessage m := rfl

/-- a message that is not a key of the table gives the default, `#ERROR!` -/
theorem fromMessage_default (m : String) (h : ∀ p ∈ Generated.errorTable, p.1 ≠ m) :
    fromMessage m = .error := by
  have hf : Generated.errorTable.find? (fun p => decide (p.1 = m)) = none := by
    rw [List.find?_eq_none]
    intro p hp
    simpa using h p hp
  unfold fromMessage
  simp only [hf]
  rfl

/-- the keys of the generated table are exactly the nine canonical codes -/
theorem errorTable_keys : Generated.errorTable.map (·.1) = Err.all.map Err.code := by
  decide

/-- `from_message` as a relation: the code's singleton, `#ERROR!` for any other text -/
theorem fromMessage_eq_iff (m : String) (e : Err) :
    fromMessage m = e ↔ (m = e.code ∨ (e = .error ∧ ∀ e' : Err, m ≠ e'.code)) := by
  by_cases hm : ∃ e' : Err, m = e'.code
  · obtain ⟨e', rfl⟩ := hm
    rw [fromMessage_code]
    constructor
    · intro h; left; rw [h]
    · rintro (h | ⟨_, h⟩)
      · exact code_injective h
      · exact absurd rfl (h e')
  · have hm' : ∀ e' : Err, m ≠ e'.code := fun e' h => hm ⟨e', h⟩
    have hd : fromMessage m = .error := by
      apply fromMessage_default
      intro p hp heq
      have : p.1 ∈ Generated.errorTable.map (·.1) := List.mem_map_of_mem hp
      rw [errorTable_keys, List.mem_map] at this
      obtain ⟨e', _, he'⟩ := this
      exact hm' e' (by rw [he', heq])
    rw [hd]
    constructor
    · intro h; right; exact ⟨h.symm, hm'⟩
    · rintro (h | ⟨h, _⟩)
      · exact absurd h (hm' e)
      · exact h.symm

/-- an error literal whose text is a canonical code raises that code's singleton -/
theorem throwErrorLit_code (e : Err) : throwErrorLit e.code.toList = .xl e := by
  unfold throwErrorLit
  rw [String.ofList_toList, fromMessage_code]

/-! ### the event log is write-only -/

theorem callFunction_log (env : Env) (name : List Char) (args : List Value) (log : Log) :
    callFunction env name args log =
      ((callFunction env name args []).1, log ++ (callFunction env name args []).2) := by
  unfold callFunction
  simp only []
  split
  · simp
  · split <;> simp

theorem callVariable_log (env : Env) (name : List Char) (log : Log) :
    callVariable env name log = ((callVariable env name []).1, log ++ (callVariable env name []).2) := by
  unfold callVariable
  simp only []
  split
  · simp
  · split <;> simp

theorem callCell_log (env : Env) (label : List Char) (log : Log) :
    callCell env label log = ((callCell env label []).1, log ++ (callCell env label []).2) := by
  unfold callCell
  simp only []
  split <;> simp

theorem callRange_log (env : Env) (a b : List Char) (log : Log) :
    callRange env a b log = ((callRange env a b []).1, log ++ (callRange env a b []).2) := by
  unfold callRange
  simp only []
  split <;> simp

mutual
/-- evaluation started from any log = the outcome of the evaluation started from the empty
    log, with the events of that evaluation appended to the log -/
theorem evalExpr_log (env : Env) : ∀ (x : Expr) (log : Log),
    evalExpr env x log = ((evalExpr env x []).1, log ++ (evalExpr env x []).2)
  | .num l, log => by simp only [evalExpr]; split <;> simp
  | .str s, log => by simp [evalExpr]
  | .errLit t, log => by simp [evalExpr]
  | .blankSlot, log => by simp [evalExpr]
  | .neg e, log => by
    have ih := evalExpr_log env e
    rw [evalExpr, ih log]
    conv => rhs; rw [evalExpr]
    cases h : evalExpr env e [] with
    | mk o d => cases o with
      | error x => simp
      | ok v => simp only []; split <;> simp
  | .bin op l r, log => by
    have ihl := evalExpr_log env l
    have ihr := evalExpr_log env r
    rw [evalExpr, ihl log]
    conv => rhs; rw [evalExpr]
    cases h : evalExpr env l [] with
    | mk o d => cases o with
      | error x => simp
      | ok v =>
        simp only []
        rw [ihr (log ++ d), ihr d]
        cases h2 : evalExpr env r [] with
        | mk o2 d2 => cases o2 <;> simp
  | .call name kind a b, log => by
    have iha := evalList_log env a
    have ihb := evalList_log env b
    rw [evalExpr, iha log]
    conv => rhs; rw [evalExpr]
    cases h : evalList env a [] with
    | mk o d => cases o with
      | error x => simp
      | ok v =>
        simp only []
        rw [ihb (log ++ d), ihb d]
        cases h2 : evalList env b [] with
        | mk o2 d2 => cases o2 with
          | error x => simp
          | ok bv =>
            simp only []
            rw [callFunction_log env name _ (log ++ d ++ d2), callFunction_log env name _ (d ++ d2)]
            simp
  | .arr kind a b, log => by
    have iha := evalList_log env a
    have ihb := evalList_log env b
    rw [evalExpr, iha log]
    conv => rhs; rw [evalExpr]
    cases h : evalList env a [] with
    | mk o d => cases o with
      | error x => simp
      | ok v =>
        simp only []
        rw [ihb (log ++ d), ihb d]
        cases h2 : evalList env b [] with
        | mk o2 d2 => cases o2 <;> simp
  | .var names, log => by simp only [evalExpr]; exact callVariable_log ..
  | .cell label, log => by simp only [evalExpr]; exact callCell_log ..
  | .range a b, log => by simp only [evalExpr]; exact callRange_log ..
theorem evalList_log (env : Env) : ∀ (xs : List Expr) (log : Log),
    evalList env xs log = ((evalList env xs []).1, log ++ (evalList env xs []).2)
  | [], log => by simp [evalList]
  | x :: xs, log => by
    have ihx := evalExpr_log env x
    have ihr := evalList_log env xs
    rw [evalList, ihx log]
    conv => rhs; rw [evalList]
    cases h : evalExpr env x [] with
    | mk o d => cases o with
      | error e => simp
      | ok v =>
        simp only []
        rw [ihr (log ++ d), ihr d]
        cases h2 : evalList env xs [] with
        | mk o2 d2 => cases o2 <;> simp
end

/-! ### outcomes -/

/-- what evaluating `x` yields — a value or a raised exception — whatever the log -/
def outcome (env : Env) (x : Expr) : Except Exn Value := (evalExpr env x []).1

/-- what evaluating the sequence `xs` left to right yields -/
def outcomes (env : Env) (xs : List Expr) : Except Exn (List Value) := (evalList env xs []).1

theorem evalExpr_fst (env : Env) (x : Expr) (log : Log) : (evalExpr env x log).1 = outcome env x := by
  rw [evalExpr_log]; rfl

theorem evalExpr_snd (env : Env) (x : Expr) (log : Log) :
    (evalExpr env x log).2 = log ++ (evalExpr env x []).2 := by
  rw [evalExpr_log]

theorem evalList_fst (env : Env) (xs : List Expr) (log : Log) : (evalList env xs log).1 = outcomes env xs := by
  rw [evalList_log]; rfl

theorem pair_of_fst {α β : Type} {p : α × β} {a : α} (h : p.1 = a) : p = (a, p.2) := by
  cases p; cases h; rfl

theorem evalExpr_of_outcome {env : Env} {x : Expr} {o : Except Exn Value} (h : outcome env x = o)
    (log : Log) : evalExpr env x log = (o, (evalExpr env x log).2) :=
  pair_of_fst ((evalExpr_fst env x log).trans h)

theorem evalList_of_outcomes {env : Env} {xs : List Expr} {o : Except Exn (List Value)}
    (h : outcomes env xs = o) (log : Log) : evalList env xs log = (o, (evalList env xs log).2) :=
  pair_of_fst ((evalList_fst env xs log).trans h)

/-- an operator's exception (`TypeError` …) as the evaluator sees it -/
def liftRes (r : Ops.Res) : Except Exn Value :=
  match r with
  | .ok v => .ok v
  | .error e => .error (.py (singletonMessage e))

/-- a number literal: `#NUM!` is thrown for a literal power of at least 2^1024 (the guard of
    `p_expression_number`), every other literal is the number it spells -/
theorem outcome_num (env : Env) (l : NumLit) :
    outcome env (.num l) = if numLitTooBig l then .error (.xl .num) else .ok (evalNumLit l) := by
  unfold outcome; rw [evalExpr]; split <;> rfl

/-- a literal below the guard evaluates to the number it spells -/
theorem outcome_num_small (env : Env) {l : NumLit} (h : numLitTooBig l = false) :
    outcome env (.num l) = .ok (evalNumLit l) := by
  rw [outcome_num, h]; rfl

/-- a literal power at or above the guard throws `#NUM!` -/
theorem outcome_num_big (env : Env) {l : NumLit} (h : numLitTooBig l = true) :
    outcome env (.num l) = .error (.xl .num) := by
  rw [outcome_num, h]; rfl

/-- only the literal-power form can trip the guard -/
@[simp] theorem numLitTooBig_int (a : List Char) : numLitTooBig (.int a) = false := rfl
@[simp] theorem numLitTooBig_dec (a b : List Char) : numLitTooBig (.dec a b) = false := rfl
@[simp] theorem numLitTooBig_dotDec (b : List Char) : numLitTooBig (.dotDec b) = false := rfl
@[simp] theorem numLitTooBig_pct (a : List Char) : numLitTooBig (.pct a) = false := rfl
@[simp] theorem outcome_num_int (env : Env) (a : List Char) :
    outcome env (.num (.int a)) = .ok (evalNumLit (.int a)) := outcome_num_small env rfl
@[simp] theorem outcome_str (env : Env) (s : List Char) : outcome env (.str s) = .ok (.str s) := rfl
@[simp] theorem outcome_blank (env : Env) : outcome env .blankSlot = .ok .blank := rfl
@[simp] theorem outcome_errLit (env : Env) (t : List Char) :
    outcome env (.errLit t) = .error (throwErrorLit t) := rfl

theorem outcome_neg (env : Env) (e : Expr) :
    outcome env (.neg e) = (do let v ← outcome env e; liftRes (evalNeg v)) := by
  unfold outcome; rw [evalExpr]
  cases h : evalExpr env e [] with
  | mk o d => cases o with
    | error x => rfl
    | ok v =>
      simp only [bind, Except.bind, liftRes]
      split <;> simp_all

theorem outcome_bin (env : Env) (op : BinOp) (l r : Expr) :
    outcome env (.bin op l r) =
      (do let lv ← outcome env l; let rv ← outcome env r; binOfOp op lv rv) := by
  unfold outcome; rw [evalExpr]
  cases h : evalExpr env l [] with
  | mk o d => cases o with
    | error x => rfl
    | ok v =>
      simp only [bind, Except.bind]
      rw [evalExpr_log env r d]
      cases h2 : evalExpr env r [] with
      | mk o2 d2 => cases o2 <;> rfl

theorem outcome_call (env : Env) (name : List Char) (kind : SeqKind) (a b : List Expr) :
    outcome env (.call name kind a b) =
      (do let av ← outcomes env a; let bv ← outcomes env b
          (callFunction env name (seqValues kind av bv) []).1) := by
  unfold outcome outcomes; rw [evalExpr]
  cases h : evalList env a [] with
  | mk o d => cases o with
    | error x => rfl
    | ok v =>
      simp only [bind, Except.bind]
      rw [evalList_log env b d]
      cases h2 : evalList env b [] with
      | mk o2 d2 => cases o2 with
        | error x => rfl
        | ok bv => simp only []; rw [callFunction_log]

theorem outcome_arr (env : Env) (kind : SeqKind) (a b : List Expr) :
    outcome env (.arr kind a b) =
      (do let av ← outcomes env a; let bv ← outcomes env b; pure (.arr (seqValues kind av bv))) := by
  unfold outcome outcomes; rw [evalExpr]
  cases h : evalList env a [] with
  | mk o d => cases o with
    | error x => rfl
    | ok v =>
      simp only [bind, Except.bind]
      rw [evalList_log env b d]
      cases h2 : evalList env b [] with
      | mk o2 d2 => cases o2 <;> rfl

@[simp] theorem outcomes_nil (env : Env) : outcomes env [] = .ok [] := rfl

theorem outcomes_cons (env : Env) (x : Expr) (xs : List Expr) :
    outcomes env (x :: xs) = (do let v ← outcome env x; let vs ← outcomes env xs; pure (v :: vs)) := by
  unfold outcome outcomes; rw [evalList]
  cases h : evalExpr env x [] with
  | mk o d => cases o with
    | error e => rfl
    | ok v =>
      simp only [bind, Except.bind]
      rw [evalList_log env xs d]
      cases h2 : evalList env xs [] with
      | mk o2 d2 => cases o2 <;> rfl

theorem outcomes_append (env : Env) (xs ys : List Expr) :
    outcomes env (xs ++ ys) = (do let a ← outcomes env xs; let b ← outcomes env ys; pure (a ++ b)) := by
  induction xs with
  | nil =>
    simp only [List.nil_append, outcomes_nil, bind, Except.bind, pure, Except.pure]
    cases outcomes env ys <;> rfl
  | cons x xs ih =>
    rw [List.cons_append, outcomes_cons, ih, outcomes_cons]
    cases outcome env x with
    | error e => rfl
    | ok v =>
      cases outcomes env xs with
      | error e => rfl
      | ok a => cases outcomes env ys <;> rfl

/-! ### one evaluation step around a raised exception (with the logs: nothing is evaluated
    after the raise) -/

theorem neg_abort {env : Env} {e : Expr} {log log' : Log} {x : Exn}
    (h : evalExpr env e log = (.error x, log')) : evalExpr env (.neg e) log = (.error x, log') := by
  rw [evalExpr, h]

theorem bin_abort_left {env : Env} {l : Expr} {log log1 : Log} {x : Exn} (op : BinOp) (r : Expr)
    (h : evalExpr env l log = (.error x, log1)) : evalExpr env (.bin op l r) log = (.error x, log1) := by
  rw [evalExpr, h]

theorem bin_abort_right {env : Env} {l r : Expr} {log log1 log2 : Log} {lv : Value} {x : Exn} (op : BinOp)
    (hl : evalExpr env l log = (.ok lv, log1)) (h : evalExpr env r log1 = (.error x, log2)) :
    evalExpr env (.bin op l r) log = (.error x, log2) := by
  rw [evalExpr, hl]; simp only []; rw [h]

theorem evalList_abort {env : Env} {pre : List Expr} {y : Expr} {log log1 log2 : Log} {vs : List Value}
    {x : Exn} (post : List Expr)
    (hpre : evalList env pre log = (.ok vs, log1)) (h : evalExpr env y log1 = (.error x, log2)) :
    evalList env (pre ++ y :: post) log = (.error x, log2) := by
  induction pre generalizing log vs with
  | nil =>
    rw [evalList] at hpre
    cases hpre
    rw [List.nil_append, evalList, h]
  | cons p pre ih =>
    rw [evalList] at hpre
    rw [List.cons_append, evalList]
    cases hp : evalExpr env p log with
    | mk o d => cases o with
      | error e => rw [hp] at hpre; cases hpre
      | ok v =>
        rw [hp] at hpre
        simp only [] at hpre ⊢
        cases hr : evalList env pre d with
        | mk o2 d2 => cases o2 with
          | error e => rw [hr] at hpre; cases hpre
          | ok vs' =>
            rw [hr] at hpre
            simp only [Prod.mk.injEq] at hpre
            obtain ⟨_, rfl⟩ := hpre
            rw [ih hr]

theorem call_abort_a {env : Env} {a : List Expr} {log log1 : Log} {x : Exn}
    (name : List Char) (kind : SeqKind) (b : List Expr)
    (h : evalList env a log = (.error x, log1)) :
    evalExpr env (.call name kind a b) log = (.error x, log1) := by
  rw [evalExpr, h]

theorem call_abort_b {env : Env} {a b : List Expr} {log log1 log2 : Log} {av : List Value} {x : Exn}
    (name : List Char) (kind : SeqKind)
    (ha : evalList env a log = (.ok av, log1)) (h : evalList env b log1 = (.error x, log2)) :
    evalExpr env (.call name kind a b) log = (.error x, log2) := by
  rw [evalExpr, ha]; simp only []; rw [h]

theorem arr_abort_a {env : Env} {a : List Expr} {log log1 : Log} {x : Exn}
    (kind : SeqKind) (b : List Expr)
    (h : evalList env a log = (.error x, log1)) :
    evalExpr env (.arr kind a b) log = (.error x, log1) := by
  rw [evalExpr, h]

theorem arr_abort_b {env : Env} {a b : List Expr} {log log1 log2 : Log} {av : List Value} {x : Exn}
    (kind : SeqKind)
    (ha : evalList env a log = (.ok av, log1)) (h : evalList env b log1 = (.error x, log2)) :
    evalExpr env (.arr kind a b) log = (.error x, log2) := by
  rw [evalExpr, ha]; simp only []; rw [h]

/-! ### evaluation contexts -/

/-- an expression with one hole, anywhere below `neg`, `bin`, `call` and `arr` nodes
    (`callA`/`arrA`: the hole is element `pre.length` of the first sequence, `callB`/`arrB`: of the
    second row) -/
inductive Ctx where
  | hole
  | neg (c : Ctx)
  | binL (op : BinOp) (c : Ctx) (r : Expr)
  | binR (op : BinOp) (l : Expr) (c : Ctx)
  | callA (name : List Char) (kind : SeqKind) (pre : List Expr) (c : Ctx) (post b : List Expr)
  | callB (name : List Char) (kind : SeqKind) (a pre : List Expr) (c : Ctx) (post : List Expr)
  | arrA (kind : SeqKind) (pre : List Expr) (c : Ctx) (post b : List Expr)
  | arrB (kind : SeqKind) (a pre : List Expr) (c : Ctx) (post : List Expr)

/-- plug `x` into the hole -/
def Ctx.fill : Ctx → Expr → Expr
  | .hole, x => x
  | .neg c, x => .neg (c.fill x)
  | .binL op c r, x => .bin op (c.fill x) r
  | .binR op l c, x => .bin op l (c.fill x)
  | .callA n k pre c post b, x => .call n k (pre ++ c.fill x :: post) b
  | .callB n k a pre c post, x => .call n k a (pre ++ c.fill x :: post)
  | .arrA k pre c post b, x => .arr k (pre ++ c.fill x :: post) b
  | .arrB k a pre c post, x => .arr k a (pre ++ c.fill x :: post)

/-- everything that is evaluated BEFORE the hole (post-order, left to right: the left operands
    and the earlier sequence elements on the way down) evaluates normally, to a value -/
def Ctx.Reaches (env : Env) : Ctx → Prop
  | .hole => True
  | .neg c => c.Reaches env
  | .binL _ c _ => c.Reaches env
  | .binR _ l c => (∃ v, outcome env l = .ok v) ∧ c.Reaches env
  | .callA _ _ pre c _ _ => (∃ vs, outcomes env pre = .ok vs) ∧ c.Reaches env
  | .callB _ _ a pre c _ => (∃ vs, outcomes env a = .ok vs) ∧ (∃ vs, outcomes env pre = .ok vs) ∧ c.Reaches env
  | .arrA _ pre c _ _ => (∃ vs, outcomes env pre = .ok vs) ∧ c.Reaches env
  | .arrB _ a pre c _ => (∃ vs, outcomes env a = .ok vs) ∧ (∃ vs, outcomes env pre = .ok vs) ∧ c.Reaches env

/-- the event log at the moment the hole starts being evaluated -/
def Ctx.entryLog (env : Env) : Ctx → Log → Log
  | .hole, log => log
  | .neg c, log => c.entryLog env log
  | .binL _ c _, log => c.entryLog env log
  | .binR _ l c, log => c.entryLog env (evalExpr env l log).2
  | .callA _ _ pre c _ _, log => c.entryLog env (evalList env pre log).2
  | .callB _ _ a pre c _, log => c.entryLog env (evalList env pre (evalList env a log).2).2
  | .arrA _ pre c _ _, log => c.entryLog env (evalList env pre log).2
  | .arrB _ a pre c _, log => c.entryLog env (evalList env pre (evalList env a log).2).2

/-- once the sub-evaluation in the hole raises, every enclosing node returns that exception, and
    the log is the log at the raise: nothing after it is evaluated -/
theorem abort_ctx (env : Env) (x : Expr) (ex : Exn) (hx : outcome env x = .error ex) :
    ∀ (c : Ctx), c.Reaches env → ∀ log : Log,
      evalExpr env (c.fill x) log = (.error ex, (evalExpr env x (c.entryLog env log)).2)
  | .hole, _, log => evalExpr_of_outcome hx log
  | .neg c, hr, log => neg_abort (abort_ctx env x ex hx c hr log)
  | .binL op c r, hr, log => bin_abort_left op r (abort_ctx env x ex hx c hr log)
  | .binR op _ c, ⟨⟨_, hv⟩, hr⟩, log =>
    bin_abort_right op (evalExpr_of_outcome hv log) (abort_ctx env x ex hx c hr _)
  | .callA n k _ c post b, ⟨⟨_, hv⟩, hr⟩, log =>
    call_abort_a n k b (evalList_abort post (evalList_of_outcomes hv log) (abort_ctx env x ex hx c hr _))
  | .callB n k _ _ c post, ⟨⟨_, ha⟩, ⟨_, hv⟩, hr⟩, log =>
    call_abort_b n k (evalList_of_outcomes ha log)
      (evalList_abort post (evalList_of_outcomes hv _) (abort_ctx env x ex hx c hr _))
  | .arrA k _ c post b, ⟨⟨_, hv⟩, hr⟩, log =>
    arr_abort_a k b (evalList_abort post (evalList_of_outcomes hv log) (abort_ctx env x ex hx c hr _))
  | .arrB k _ _ c post, ⟨⟨_, ha⟩, ⟨_, hv⟩, hr⟩, log =>
    arr_abort_b k (evalList_of_outcomes ha log)
      (evalList_abort post (evalList_of_outcomes hv _) (abort_ctx env x ex hx c hr _))

/-- the operator-only contexts along which an error VALUE in the hole is handed up unchanged:
    right-hand siblings evaluate to any value, left-hand siblings to a value that is not an error
    (else the left one wins) -/
def Ctx.Carries (env : Env) : Ctx → Prop
  | .hole => True
  | .neg c => c.Carries env
  | .binL _ c r => (∃ v, outcome env r = .ok v) ∧ c.Carries env
  | .binR _ l c => (∃ v, outcome env l = .ok v ∧ isErr v = none) ∧ c.Carries env
  | _ => False

theorem carries_ctx (env : Env) (x : Expr) (e : Err) (hx : outcome env x = .ok (.err e)) :
    ∀ (c : Ctx), c.Carries env → outcome env (c.fill x) = .ok (.err e)
  | .hole, _ => hx
  | .neg c, h => by
    rw [Ctx.fill, outcome_neg, carries_ctx env x e hx c h]; rfl
  | .binL op c r, ⟨⟨v, hv⟩, h⟩ => by
    rw [Ctx.fill, outcome_bin, carries_ctx env x e hx c h, hv]
    exact binOfOp_left_err op e v
  | .binR op l c, ⟨⟨v, hv, hne⟩, h⟩ => by
    rw [Ctx.fill, outcome_bin, carries_ctx env x e hx c h, hv]
    exact binOfOp_right_err op e v hne

/-! ### operator trees over arbitrary leaf expressions -/

inductive OpTree where
  | leaf (x : Expr)
  | neg (t : OpTree)
  | bin (op : BinOp) (l r : OpTree)

def OpTree.toExpr : OpTree → Expr
  | .leaf x => x
  | .neg t => .neg t.toExpr
  | .bin op l r => .bin op l.toExpr r.toExpr

/-- the leaf expressions, left to right -/
def OpTree.leaves : OpTree → List Expr
  | .leaf x => [x]
  | .neg t => t.leaves
  | .bin _ l r => l.leaves ++ r.leaves

def OpTree.subtrees : OpTree → List OpTree
  | .leaf x => [.leaf x]
  | .neg t => .neg t :: t.subtrees
  | .bin op l r => .bin op l r :: (l.subtrees ++ r.subtrees)

theorem OpTree.self_mem_subtrees (t : OpTree) : t ∈ t.subtrees := by
  cases t <;> simp [OpTree.subtrees]

/-- the error a leaf expression evaluates to, if it evaluates to an error value -/
def leafErr (env : Env) (x : Expr) : Option Err :=
  match outcome env x with
  | .ok (.err e) => some e
  | _ => none

theorem leafErr_eq_some {env : Env} {x : Expr} {e : Err} (h : leafErr env x = some e) :
    outcome env x = .ok (.err e) := by
  unfold leafErr at h
  split at h
  · cases h; assumption
  · cases h

/-- the error value of the leftmost leaf that evaluates to an error value -/
def OpTree.firstErr (env : Env) (t : OpTree) : Option Err := t.leaves.findSome? (leafErr env)

/-- `firstErr` is `firstError` (the scan of `HotXL.Fn`) over the leaf values in order -/
theorem findSome_leafErr_eq_firstError (env : Env) :
    ∀ (xs : List Expr) (vs : List Value), outcomes env xs = .ok vs →
      xs.findSome? (leafErr env) = Fn.firstError vs
  | [], vs, h => by
    rw [outcomes_nil] at h; cases h; rfl
  | x :: xs, vs, h => by
    rw [outcomes_cons] at h
    cases hx : outcome env x with
    | error e => rw [hx] at h; cases h
    | ok v =>
      cases hr : outcomes env xs with
      | error e => rw [hx, hr] at h; cases h
      | ok vs' =>
        rw [hx, hr] at h
        cases h
        have ih := findSome_leafErr_eq_firstError env xs vs' hr
        rw [List.findSome?_cons]
        cases v <;> simp [leafErr, hx, Fn.firstError, ih]

/-- in a tree where every subtree without an error-valued leaf evaluates to a non-error value,
    the value of the whole tree is the error of the leftmost error-valued leaf -/
theorem tree_firstErr (env : Env) :
    ∀ (t : OpTree),
      (∀ s ∈ t.subtrees, s.firstErr env = none → ∃ v, outcome env s.toExpr = .ok v ∧ isErr v = none) →
      ∀ e, t.firstErr env = some e → outcome env t.toExpr = .ok (.err e)
  | .leaf x, _, e, h => by
    apply leafErr_eq_some
    cases hl : leafErr env x with
    | none => simp [OpTree.firstErr, OpTree.leaves, hl] at h
    | some e' =>
      simp [OpTree.firstErr, OpTree.leaves, hl] at h
      subst h; exact hl
  | .neg t, hc, e, h => by
    have ih := tree_firstErr env t (fun s hs => hc s (by simp [OpTree.subtrees, hs])) e h
    rw [OpTree.toExpr, outcome_neg, ih]; rfl
  | .bin op l r, hc, e, h => by
    have hcl : ∀ s ∈ l.subtrees, s.firstErr env = none → ∃ v, outcome env s.toExpr = .ok v ∧ isErr v = none :=
      fun s hs => hc s (by simp [OpTree.subtrees, hs])
    have hcr : ∀ s ∈ r.subtrees, s.firstErr env = none → ∃ v, outcome env s.toExpr = .ok v ∧ isErr v = none :=
      fun s hs => hc s (by simp [OpTree.subtrees, hs])
    have ihl := tree_firstErr env l hcl
    have ihr := tree_firstErr env r hcr
    have hsplit : (OpTree.bin op l r).firstErr env = (l.firstErr env).or (r.firstErr env) := by
      simp only [OpTree.firstErr, OpTree.leaves, List.findSome?_append]
    rw [hsplit] at h
    -- the right operand evaluates to some value in any case
    have hrv : ∃ rv, outcome env r.toExpr = .ok rv := by
      cases hr : r.firstErr env with
      | none => obtain ⟨v, hv, _⟩ := hcr r r.self_mem_subtrees hr; exact ⟨v, hv⟩
      | some e' => exact ⟨_, ihr e' hr⟩
    rw [OpTree.toExpr, outcome_bin]
    cases hl : l.firstErr env with
    | some e' =>
      rw [hl] at h
      simp only [Option.some_or, Option.some.injEq] at h
      subst h
      obtain ⟨rv, hrv⟩ := hrv
      rw [ihl e' hl, hrv]
      exact binOfOp_left_err op e' rv
    | none =>
      rw [hl] at h
      simp only [Option.none_or] at h
      obtain ⟨lv, hlv, hne⟩ := hcl l l.self_mem_subtrees hl
      rw [hlv, ihr e h]
      exact binOfOp_right_err op e lv hne

/-! ### `call_function`: name resolution, raised exceptions become values -/

/-- the function `call_function` finds for a name: an instance function shadows the registry -/
def resolve (env : Env) (name : List Char) : Option HostFn :=
  match env.custom name with
  | some f => some f
  | none =>
    if Builtins.isRegistered (String.ofList name) then
      match Builtins.model? (String.ofList name) with
      | some b => some (fun a => match b a with
            | .ok v => if isNoOpinion v then .error .unmodelled else .ok v
            | .error e => .error (.xl e))
      | none => some (fun _ => .error .unmodelled)
    else none

/-- `callFunction` in terms of `resolve` (definitional) -/
theorem callFunction_eq (env : Env) (name : List Char) (args : List Value) (log : Log) :
    callFunction env name args log =
      match resolve env name with
      | none => (.error (.xl .name), log)
      | some f =>
        match f args with
        | .ok v => (.ok v, log ++ [.fn name args])
        | .error .unmodelled => (.error .unmodelled, log)
        | .error x => (.ok (.err x.toErr), log ++ [.fn name args]) := rfl

theorem resolve_custom {env : Env} {name : List Char} {f : HostFn} (h : env.custom name = some f) :
    resolve env name = some f := by
  simp only [resolve, h]

theorem resolve_builtin {env : Env} {name : List Char} {b : Builtins.Builtin}
    (hc : env.custom name = none) (hr : Builtins.isRegistered (String.ofList name) = true)
    (hm : Builtins.model? (String.ofList name) = some b) :
    resolve env name = some (fun a => match b a with
            | .ok v => if isNoOpinion v then .error .unmodelled else .ok v
            | .error e => .error (.xl e)) := by
  simp only [resolve, hc, hr, hm, if_true]

/-- the error a function body produces: returned as a value, raised as an `XLError`, or any
    other raised exception (→ `from_message(str(exception))`) -/
def yieldsErr (r : Except Exn Value) : Option Err :=
  match r with
  | .ok (.err e) => some e
  | .error (.xl e) => some e
  | .error (.py m) => some (fromMessage m)
  | _ => none

/-- whichever way the body produces the error, the call returns it as a VALUE -/
theorem callFunction_error_is_value {env : Env} {name : List Char} {f : HostFn} {args : List Value} {e : Err}
    (hf : resolve env name = some f) (he : yieldsErr (f args) = some e) (log : Log) :
    callFunction env name args log = (.ok (.err e), log ++ [.fn name args]) := by
  rw [callFunction_eq, hf]
  simp only []
  cases hfa : f args with
  | ok v =>
    rw [hfa] at he
    cases v <;> simp [yieldsErr] at he
    subst he; rfl
  | error x =>
    rw [hfa] at he
    cases x with
    | xl e' => simp only [yieldsErr, Option.some.injEq] at he; subst he; simp only [toErr_xl]
    | py m => simp only [yieldsErr, Option.some.injEq] at he; subst he; simp only [toErr_py]
    | unmodelled => simp [yieldsErr] at he

/-- a call whose body returns normally has that value, whatever the arguments are (errors included) -/
theorem callFunction_value {env : Env} {name : List Char} {f : HostFn} {args : List Value} {v : Value}
    (hf : resolve env name = some f) (hv : f args = .ok v) (log : Log) :
    callFunction env name args log = (.ok v, log ++ [.fn name args]) := by
  rw [callFunction_eq, hf]; simp only []; rw [hv]

/-- `isNoOpinion` is true only for (some) foreign values: every known value has an opinion -/
@[simp] theorem isNoOpinion_num (n : Num) : isNoOpinion (.num n) = false := rfl
@[simp] theorem isNoOpinion_str (s : List Char) : isNoOpinion (.str s) = false := rfl
@[simp] theorem isNoOpinion_bool (b : Bool) : isNoOpinion (.bool b) = false := rfl
@[simp] theorem isNoOpinion_blank : isNoOpinion .blank = false := rfl
@[simp] theorem isNoOpinion_err (e : Err) : isNoOpinion (.err e) = false := rfl
@[simp] theorem isNoOpinion_date (d : Int) : isNoOpinion (.date d) = false := rfl
@[simp] theorem isNoOpinion_arr (xs : List Value) : isNoOpinion (.arr xs) = false := rfl

/-- a "no opinion" value is a foreign value -/
theorem isNoOpinion_eq_true {v : Value} (h : isNoOpinion v = true) : ∃ t, v = .other t := by
  cases v <;> first | exact ⟨_, rfl⟩ | cases h

/-- a modelled registered builtin that is not shadowed: the call's value is what the builtin
    returns, or the error it raises -- when the model of the builtin has an opinion about it -/
theorem callFunction_builtin {env : Env} {name : List Char} {b : Builtins.Builtin}
    (hc : env.custom name = none) (hr : Builtins.isRegistered (String.ofList name) = true)
    (hm : Builtins.model? (String.ofList name) = some b) (args : List Value) (log : Log)
    (hno : isNoOpinion (match b args with | .ok v => v | .error e => .err e) = false) :
    callFunction env name args log =
      (.ok (match b args with | .ok v => v | .error e => .err e), log ++ [.fn name args]) := by
  rw [callFunction_eq, resolve_builtin hc hr hm]
  simp only []
  cases hb : b args with
  | ok v => rw [hb] at hno; simp only [] at hno; simp only [hno]; rfl
  | error e => simp only [toErr_xl]

/-- a modelled registered builtin that is not shadowed and whose model has NO opinion about the
    result: the evaluation is `unmodelled` (the model does not say), nothing is logged -/
theorem callFunction_builtin_noOpinion {env : Env} {name : List Char} {b : Builtins.Builtin}
    (hc : env.custom name = none) (hr : Builtins.isRegistered (String.ofList name) = true)
    (hm : Builtins.model? (String.ofList name) = some b) (args : List Value) (log : Log) {v : Value}
    (hv : b args = .ok v) (hno : isNoOpinion v = true) :
    callFunction env name args log = (.error .unmodelled, log) := by
  rw [callFunction_eq, resolve_builtin hc hr hm]
  simp only [hv, hno, if_true]

/-- the value of a call of a modelled, unshadowed builtin written with a flat argument list -/
theorem outcome_builtin_call {env : Env} {name : List Char} {b : Builtins.Builtin}
    (hc : env.custom name = none) (hr : Builtins.isRegistered (String.ofList name) = true)
    (hm : Builtins.model? (String.ofList name) = some b) {args : List Expr} {vs : List Value}
    (hargs : outcomes env args = .ok vs)
    (hno : isNoOpinion (match b vs with | .ok v => v | .error e => .err e) = false) :
    outcome env (.call name .flat args []) = .ok (match b vs with | .ok v => v | .error e => .err e) := by
  rw [outcome_call, hargs, outcomes_nil]
  simp only [bind, Except.bind, seqValues]
  rw [callFunction_builtin hc hr hm _ _ (by simpa [seqValues] using hno)]

theorem outcomes_one {env : Env} {x : Expr} {v : Value} (h : outcome env x = .ok v) :
    outcomes env [x] = .ok [v] := by
  rw [outcomes_cons, h, outcomes_nil]; rfl

theorem outcomes_two {env : Env} {x y : Expr} {v w : Value} (hx : outcome env x = .ok v)
    (hy : outcome env y = .ok w) : outcomes env [x, y] = .ok [v, w] := by
  rw [outcomes_cons, hx, outcomes_one hy]; rfl

/-! ### a Boolean equality test on expression trees (so that the result of parsing a concrete
    formula can be checked by kernel evaluation: `Expr` has no `DecidableEq`) -/

mutual
def exprBeq : Expr → Expr → Bool
  | .num a, .num b => decide (a = b)
  | .str a, .str b => decide (a = b)
  | .errLit a, .errLit b => decide (a = b)
  | .neg a, .neg b => exprBeq a b
  | .bin o a b, .bin o' a' b' => decide (o = o') && exprBeq a a' && exprBeq b b'
  | .call n k a b, .call n' k' a' b' => decide (n = n') && decide (k = k') && listBeq a a' && listBeq b b'
  | .arr k a b, .arr k' a' b' => decide (k = k') && listBeq a a' && listBeq b b'
  | .var a, .var b => decide (a = b)
  | .cell a, .cell b => decide (a = b)
  | .range a b, .range a' b' => decide (a = a') && decide (b = b')
  | .blankSlot, .blankSlot => true
  | _, _ => false
def listBeq : List Expr → List Expr → Bool
  | [], [] => true
  | x :: xs, y :: ys => exprBeq x y && listBeq xs ys
  | _, _ => false
end

mutual
theorem exprBeq_sound : ∀ (a b : Expr), exprBeq a b = true → a = b
  | .num a, b, h => by cases b <;> simp_all [exprBeq]
  | .str a, b, h => by cases b <;> simp_all [exprBeq]
  | .errLit a, b, h => by cases b <;> simp_all [exprBeq]
  | .var a, b, h => by cases b <;> simp_all [exprBeq]
  | .cell a, b, h => by cases b <;> simp_all [exprBeq]
  | .range a a', b, h => by cases b <;> simp_all [exprBeq]
  | .blankSlot, b, h => by cases b <;> simp_all [exprBeq]
  | .neg a, b, h => by
    cases b with
    | neg b' => simp only [exprBeq] at h; rw [exprBeq_sound a b' h]
    | _ => simp [exprBeq] at h
  | .bin o x y, b, h => by
    cases b with
    | bin o' x' y' =>
      simp only [exprBeq, Bool.and_eq_true, decide_eq_true_eq] at h
      rw [h.1.1, exprBeq_sound x x' h.1.2, exprBeq_sound y y' h.2]
    | _ => simp [exprBeq] at h
  | .call n k x y, b, h => by
    cases b with
    | call n' k' x' y' =>
      simp only [exprBeq, Bool.and_eq_true, decide_eq_true_eq] at h
      rw [h.1.1.1, h.1.1.2, listBeq_sound x x' h.1.2, listBeq_sound y y' h.2]
    | _ => simp [exprBeq] at h
  | .arr k x y, b, h => by
    cases b with
    | arr k' x' y' =>
      simp only [exprBeq, Bool.and_eq_true, decide_eq_true_eq] at h
      rw [h.1.1, listBeq_sound x x' h.1.2, listBeq_sound y y' h.2]
    | _ => simp [exprBeq] at h
theorem listBeq_sound : ∀ (a b : List Expr), listBeq a b = true → a = b
  | [], b, h => by cases b <;> simp_all [listBeq]
  | x :: xs, b, h => by
    cases b with
    | nil => simp [listBeq] at h
    | cons y ys =>
      simp only [listBeq, Bool.and_eq_true] at h
      rw [exprBeq_sound x y h.1, listBeq_sound xs ys h.2]
end

theorem parse_eq_of_beq {s : List Char} {X : Expr}
    (h : (match parseFormula s with | .ok x => exprBeq x X | .error _ => false) = true) :
    parseFormula s = .ok X := by
  split at h
  · next x hx => rw [hx, exprBeq_sound x X h]
  · cases h

/-! ### fixtures for the concrete examples of `HotXL.Props.C08` -/

/-- the names of the trapping builtins -/
def trapNames : List (List Char) :=
  ["IFERROR".toList, "IFNA".toList, "ISERROR".toList, "ISERR".toList, "ISNA".toList, "ERROR.TYPE".toList]

def one : Expr := .num (.int ['1'])
def zero : Expr := .num (.int ['0'])
def two : Expr := .num (.int ['2'])
def oneByZero : Expr := .bin .div one zero
def naCall : Expr := .call "NA".toList .empty [] []

theorem arith_num (fuel : Nat) (op : ArithOp) (a b : Num) :
    evalArith fuel op (.num a) (.num b) = arithScalar op (.num a) (.num b) :=
  evalArith_scalar fuel op _ _ rfl rfl (fun _ h => by cases h) (fun _ h => by cases h)

theorem outcome_oneByZero (env : Env) : outcome env oneByZero = .ok (.err .div0) := by
  simp only [oneByZero, one, zero, outcome_bin, outcome_num_int, bind, Except.bind, binOfOp, evalNumLit, arith_num]
  rfl

theorem outcome_naCall : outcome Env.empty naCall = .ok (.err .na) := by
  have h : outcome Env.empty naCall =
      .ok (match Fn.Info.NA [] with | .ok v => v | .error e => .err e) := by
    rw [naCall, outcome_call, outcomes_nil]
    simp only [bind, Except.bind, seqValues]
    rw [callFunction_builtin (b := Fn.Info.NA) rfl (by decide) (by rfl) _ _ rfl]
  rw [h]; rfl

/-- an environment with the host functions of the harness: `ID(x) = x`, `RAISE_NUM()` raises the
    singleton `#NUM!`, `PYRAISE()` raises `ValueError('boom')` -/
def envH : Env :=
  { Env.empty with
    custom := fun n =>
      if n = "ID".toList then some (fun a => .ok (a.headD .blank))
      else if n = "RAISE_NUM".toList then some (fun _ => .error (.xl .num))
      else if n = "PYRAISE".toList then some (fun _ => .error (.py "boom"))
      else none }

theorem envH_no_shadow : ∀ n ∈ trapNames, envH.custom n = none := by decide

theorem envH_SUM : resolve envH "SUM".toList =
    some (fun a => match Fn.Agg.SUM a with
      | .ok v => if isNoOpinion v then .error .unmodelled else .ok v
      | .error e => .error (.xl e)) :=
  resolve_builtin (by decide) (by decide) (by rfl)

end HotXL.ErrorFlow
