/-
  HotXL.Lemmas.Compare — the order that property C07 describes, stated independently of
  the comparator code (`Key`, `Key.lt`, `ordLt`, `ordEq`, `zeroLike`), and the helper
  lemmas that link it with the model of `ExcelComparator` / `evaluate_logic`
  (`HotXL.Ops.cmpLt`, `cmpGt`, `cmpEq`, `evalLogic`).  Core Lean only.
-/
import HotXL.Model.Operators

namespace HotXL.Compare
open HotXL HotXL.Ops

/-! ### `strLt` (Python `str.__lt__`, by code point) is a strict total order -/

theorem strLt_irrefl (s : List Char) : strLt s s = false := by
  induction s with
  | nil => rfl
  | cons a as ih => simp [strLt, ih]

theorem strLt_trans {s t u : List Char} :
    strLt s t = true → strLt t u = true → strLt s u = true := by
  induction s generalizing t u with
  | nil => cases t <;> cases u <;> simp [strLt]
  | cons a as ih =>
    cases t with
    | nil => simp [strLt]
    | cons b bs =>
      cases u with
      | nil => simp [strLt]
      | cons c cs =>
        simp only [strLt]
        intro h1 h2
        split at h1
        · split at h2
          · have : a.toNat < c.toNat := by omega
            simp [this]
          · split at h2
            · simp at h2
            · have : a.toNat < c.toNat := by omega
              simp [this]
        · split at h1
          · simp at h1
          · split at h2
            · have : a.toNat < c.toNat := by omega
              simp [this]
            · split at h2
              · simp at h2
              · have h3 : ¬ a.toNat < c.toNat := by omega
                have h4 : ¬ a.toNat > c.toNat := by omega
                simp only [h3, h4, if_false]
                exact ih h1 h2

/-- characters with the same code point are equal -/
theorem char_eq_of_toNat {a b : Char} (h1 : ¬ a.toNat < b.toNat) (h2 : ¬ a.toNat > b.toNat) :
    a = b := by
  apply Char.ext
  apply UInt32.toNat_inj.mp
  simp only [Char.toNat] at h1 h2
  omega

theorem strLt_trichotomy (s t : List Char) : strLt s t = true ∨ s = t ∨ strLt t s = true := by
  induction s generalizing t with
  | nil => cases t <;> simp [strLt]
  | cons a as ih =>
    cases t with
    | nil => simp [strLt]
    | cons b bs =>
      simp only [strLt]
      by_cases h1 : a.toNat < b.toNat
      · simp [h1]
      · by_cases h2 : a.toNat > b.toNat
        · right; right; simp [h2]
        · have := char_eq_of_toNat h1 h2
          subst this
          simp only [h1, if_false, List.cons.injEq, true_and]
          exact ih bs

theorem strLt_asymm {s t : List Char} (h : strLt s t = true) : strLt t s = false := by
  cases h' : strLt t s with
  | false => rfl
  | true => have := strLt_trans h h'; rw [strLt_irrefl] at this; cases this

/-- `strLt` is the lexicographic order of core Lean on `List Char` (`Char` ordered by code point) -/
theorem strLt_iff_lt (s t : List Char) : strLt s t = true ↔ s < t := by
  induction s generalizing t with
  | nil => cases t <;> simp [strLt]
  | cons a as ih =>
    cases t with
    | nil => simp [strLt]
    | cons b bs =>
      simp only [strLt, List.cons_lt_cons_iff]
      by_cases h1 : a.toNat < b.toNat
      · have : a < b := h1
        simp [h1, this]
      · by_cases h2 : a.toNat > b.toNat
        · have h3 : ¬ a < b := h1
          have h4 : a ≠ b := by intro h; subst h; omega
          simp [h1, h2, h3, h4]
        · have := char_eq_of_toNat h1 h2
          subst this
          simp [h1, ih]

/-! ### the order of the statement, independent of the comparator -/

/-- scalar operands of the statement: number, logical, text, blank, date(-time) -/
def Scalar : Value → Prop
  | .num _ | .bool _ | .str _ | .blank | .date _ => True
  | _ => False

def NonBlank : Value → Prop
  | .blank => False
  | _ => True

/-- a number or a date -/
def IsNumeric : Value → Prop
  | .num _ | .date _ => True
  | _ => False

/-- sort key of a non-blank scalar: numbers and dates (by serial) as exact rationals,
    text as code points, logicals -/
inductive Key where
  | number (q : Rat)
  | text (s : List Char)
  | logical (b : Bool)

/-- number/date = 0 < text = 1 < logical = 2 -/
def Key.rank : Key → Nat
  | .number _ => 0 | .text _ => 1 | .logical _ => 2

/-- lexicographic order on (rank, value): numbers numerically, text lexicographically by code
    point, FALSE < TRUE -/
def Key.lt (x y : Key) : Prop :=
  x.rank < y.rank ∨ (x.rank = y.rank ∧
    match x, y with
    | .number p, .number q => p < q
    | .text s, .text t => strLt s t = true
    | .logical a, .logical b => a = false ∧ b = true
    | _, _ => False)

def key : Value → Option Key
  | .num n => some (.number (Num.toRat n))
  | .date us => some (.number (Num.toRat (Dates.serialize us)))
  | .str s => some (.text s)
  | .bool b => some (.logical b)
  | _ => none

/-- the rank of a value: number/date 0, text 1, logical 2 (none for blank and non-scalars) -/
def rank (v : Value) : Option Nat := (key v).map Key.rank

/-- `a` is before `b` in the order number < text < logical (non-blank scalars) -/
def ordLt (a b : Value) : Prop :=
  match key a, key b with
  | some x, some y => x.lt y
  | _, _ => False

/-- same rank and same value (int 2 = float 2.0; a date equals its serial number) -/
def ordEq (a b : Value) : Prop :=
  match key a, key b with
  | some x, some y => x = y
  | _, _ => False

/-- what a blank acts as, according to the other operand -/
def zeroLike : Value → Value
  | .num _ => .num (.int 0)
  | .date _ => .num (.int 0)
  | .str _ => .str []
  | .bool _ => .bool false
  | v => v

/-! ### `Key.lt` is a strict total order -/

theorem Key.lt_irrefl (x : Key) : ¬ x.lt x := by
  cases x with
  | number q => simp [Key.lt]
  | text s => simp [Key.lt, strLt_irrefl]
  | logical b => cases b <;> simp [Key.lt]

theorem Key.lt_trans {x y z : Key} (h1 : x.lt y) (h2 : y.lt z) : x.lt z := by
  cases x <;> cases y <;> cases z <;> simp [Key.lt, Key.rank] at h1 h2 ⊢
  · grind
  · exact strLt_trans h1 h2
  · simp [h1.2] at h2

theorem Key.lt_trichotomy (x y : Key) : x.lt y ∨ x = y ∨ y.lt x := by
  cases x <;> cases y <;> simp [Key.lt, Key.rank]
  · grind
  · exact strLt_trichotomy _ _
  · rename_i a b; cases a <;> cases b <;> simp

theorem Key.lt_asymm {x y : Key} (h : x.lt y) : ¬ y.lt x :=
  fun h' => Key.lt_irrefl x (Key.lt_trans h h')

theorem ordLt_trans {a b c : Value} (h1 : ordLt a b) (h2 : ordLt b c) : ordLt a c := by
  unfold ordLt at *
  cases ha : key a <;> cases hb : key b <;> cases hc : key c <;> simp [ha, hb, hc] at h1 h2 ⊢
  exact Key.lt_trans h1 h2

/-! ### the comparator on keys -/

def cvKey : CV → Option Key
  | .num n => some (.number (Num.toRat n))
  | .str s => some (.text s)
  | .bool b => some (.logical b)
  | _ => none

theorem key_eq_cvKey (v : Value) : key v = cvKey (toCV v) := by
  cases v <;> rfl

theorem isErr_scalar {v : Value} (h : Scalar v) : isErr v = none := by
  cases v <;> first | rfl | exact h.elim

theorem key_isSome {v : Value} (hs : Scalar v) (hn : NonBlank v) : ∃ x, key v = some x := by
  cases v <;> first | exact ⟨_, rfl⟩ | exact hs.elim | exact hn.elim

theorem cmpLt_key {a b : CV} {x y : Key} (ha : cvKey a = some x) (hb : cvKey b = some y) :
    ∃ l, cmpLt a b = some l ∧ (l = true ↔ x.lt y) := by
  cases a <;> cases b <;> simp [cvKey] at ha hb <;> subst ha <;> subst hb
  case num.num n m =>
    cases n <;> cases m <;>
      simp [cmpLt, cmpLtCore, sameType, bothPlainNumbers, pyLt, Key.lt, Key.rank]
  case num.bool n m =>
    cases n <;> simp [cmpLt, cmpLtCore, sameType, bothPlainNumbers, Key.lt, Key.rank]
  case num.str n m =>
    cases n <;> simp [cmpLt, cmpLtCore, sameType, bothPlainNumbers, Key.lt, Key.rank]
  case bool.num n m =>
    cases m <;> simp [cmpLt, cmpLtCore, sameType, bothPlainNumbers, Key.lt, Key.rank]
  case str.num n m =>
    cases m <;> simp [cmpLt, cmpLtCore, sameType, bothPlainNumbers, Key.lt, Key.rank]
  all_goals simp [cmpLt, cmpLtCore, sameType, bothPlainNumbers, pyLt, Key.lt, Key.rank]

theorem cmpGt_key {a b : CV} {x y : Key} (ha : cvKey a = some x) (hb : cvKey b = some y) :
    ∃ g, cmpGt a b = some g ∧ (g = true ↔ y.lt x) := by
  cases a <;> cases b <;> simp [cvKey] at ha hb <;> subst ha <;> subst hb
  case num.num n m =>
    cases n <;> cases m <;>
      simp [cmpGt, cmpGtCore, sameType, bothPlainNumbers, pyLt, Key.lt, Key.rank]
  case num.bool n m =>
    cases n <;> simp [cmpGt, cmpGtCore, sameType, bothPlainNumbers, Key.lt, Key.rank]
  case num.str n m =>
    cases n <;> simp [cmpGt, cmpGtCore, sameType, bothPlainNumbers, Key.lt, Key.rank]
  case bool.num n m =>
    cases m <;> simp [cmpGt, cmpGtCore, sameType, bothPlainNumbers, Key.lt, Key.rank]
  case str.num n m =>
    cases m <;> simp [cmpGt, cmpGtCore, sameType, bothPlainNumbers, Key.lt, Key.rank]
  all_goals simp [cmpGt, cmpGtCore, sameType, bothPlainNumbers, pyLt, Key.lt, Key.rank]

theorem cmpEq_key {a b : CV} {x y : Key} (ha : cvKey a = some x) (hb : cvKey b = some y) :
    cmpEq a b = true ↔ x = y := by
  cases a <;> cases b <;> simp [cvKey] at ha hb <;> subst ha <;> subst hb
  case num.num n m =>
    cases n <;> cases m <;> simp [cmpEq, cmpEqCore.eq_def, sameType, pyEq]
  case num.bool n m =>
    cases n <;> simp [cmpEq, cmpEqCore.eq_def, sameType]
  case num.str n m =>
    cases n <;> simp [cmpEq, cmpEqCore.eq_def, sameType, pyEq]
  case bool.num n m =>
    cases m <;> simp [cmpEq, cmpEqCore.eq_def, sameType]
  case str.num n m =>
    cases m <;> simp [cmpEq, cmpEqCore.eq_def, sameType, pyEq]
  all_goals simp [cmpEq, cmpEqCore.eq_def, sameType, pyEq]

/-! ### the comparator never raises on non-foreign operands -/

def Plain : CV → Prop
  | .foreign => False
  | _ => True

theorem toCV_plain {v : Value} (h : Scalar v) : Plain (toCV v) := by
  cases v <;> first | exact trivial | exact h.elim

theorem cmpLt_isSome {a b : CV} (ha : Plain a) (hb : Plain b) : ∃ l, cmpLt a b = some l := by
  cases a <;> cases b <;> try (first | exact ha.elim | exact hb.elim)
  case num.num n m =>
    cases n <;> cases m <;> simp [cmpLt, cmpLtCore, sameType, bothPlainNumbers, pyLt]
  case num.none n =>
    cases n <;> simp [cmpLt, cmpLtCore, sameType, bothPlainNumbers, pyLt, convertNone]
  case none.num n =>
    cases n <;> simp [cmpLt, cmpGtCore, sameType, bothPlainNumbers, pyLt, convertNone]
  case num.bool n m =>
    cases n <;> simp [cmpLt, cmpLtCore, sameType, bothPlainNumbers]
  case num.str n m =>
    cases n <;> simp [cmpLt, cmpLtCore, sameType, bothPlainNumbers]
  case bool.num n m =>
    cases m <;> simp [cmpLt, cmpLtCore, sameType, bothPlainNumbers]
  case str.num n m =>
    cases m <;> simp [cmpLt, cmpLtCore, sameType, bothPlainNumbers]
  all_goals simp [cmpLt, cmpLtCore, cmpGtCore, sameType, bothPlainNumbers, pyLt, convertNone]

theorem cmpGt_isSome {a b : CV} (ha : Plain a) (hb : Plain b) : ∃ l, cmpGt a b = some l := by
  cases a <;> cases b <;> try (first | exact ha.elim | exact hb.elim)
  case num.num n m =>
    cases n <;> cases m <;> simp [cmpGt, cmpGtCore, sameType, bothPlainNumbers, pyLt]
  case num.none n =>
    cases n <;> simp [cmpGt, cmpGtCore, sameType, bothPlainNumbers, pyLt, convertNone]
  case none.num n =>
    cases n <;> simp [cmpGt, cmpLtCore, sameType, bothPlainNumbers, pyLt, convertNone]
  case num.bool n m =>
    cases n <;> simp [cmpGt, cmpGtCore, sameType, bothPlainNumbers]
  case num.str n m =>
    cases n <;> simp [cmpGt, cmpGtCore, sameType, bothPlainNumbers]
  case bool.num n m =>
    cases m <;> simp [cmpGt, cmpGtCore, sameType, bothPlainNumbers]
  case str.num n m =>
    cases m <;> simp [cmpGt, cmpGtCore, sameType, bothPlainNumbers]
  all_goals simp [cmpGt, cmpLtCore, cmpGtCore, sameType, bothPlainNumbers, pyLt, convertNone]

/-- `a < b` computed by `__lt__` is `b > a` computed by `__gt__` -/
theorem cmpLt_eq_cmpGt_swap {a b : CV} (ha : Plain a) (hb : Plain b) : cmpLt a b = cmpGt b a := by
  cases a <;> cases b <;> try (first | exact ha.elim | exact hb.elim)
  case num.num n m =>
    cases n <;> cases m <;>
      simp [cmpLt, cmpGt, cmpLtCore, cmpGtCore, sameType, bothPlainNumbers, pyLt]
  case num.none n =>
    cases n <;> simp [cmpLt, cmpGt, cmpLtCore, sameType, bothPlainNumbers, pyLt, convertNone]
  case none.num n =>
    cases n <;> simp [cmpLt, cmpGt, cmpGtCore, sameType, bothPlainNumbers, pyLt, convertNone]
  case num.bool n m =>
    cases n <;> simp [cmpLt, cmpGt, cmpLtCore, cmpGtCore, sameType, bothPlainNumbers]
  case num.str n m =>
    cases n <;> simp [cmpLt, cmpGt, cmpLtCore, cmpGtCore, sameType, bothPlainNumbers]
  case bool.num n m =>
    cases m <;> simp [cmpLt, cmpGt, cmpLtCore, cmpGtCore, sameType, bothPlainNumbers]
  case str.num n m =>
    cases m <;> simp [cmpLt, cmpGt, cmpLtCore, cmpGtCore, sameType, bothPlainNumbers]
  all_goals simp [cmpLt, cmpGt, cmpLtCore, cmpGtCore, sameType, bothPlainNumbers, pyLt, convertNone]

/-! ### `evaluate_logic` on scalars, operator by operator -/

theorem evalLogic_lt {a b : Value} (ha : Scalar a) (hb : Scalar b) {x : Bool}
    (h : cmpLt (toCV a) (toCV b) = some x) : evalLogic .lt a b = .ok (.bool x) := by
  simp only [evalLogic, isErr_scalar ha, isErr_scalar hb, h]

theorem evalLogic_gt {a b : Value} (ha : Scalar a) (hb : Scalar b) {x : Bool}
    (h : cmpGt (toCV a) (toCV b) = some x) : evalLogic .gt a b = .ok (.bool x) := by
  simp only [evalLogic, isErr_scalar ha, isErr_scalar hb, h]

theorem evalLogic_eq {a b : Value} (ha : Scalar a) (hb : Scalar b) :
    evalLogic .eq a b = .ok (.bool (cmpEq (toCV a) (toCV b))) := by
  simp only [evalLogic, isErr_scalar ha, isErr_scalar hb]

theorem evalLogic_ne {a b : Value} (ha : Scalar a) (hb : Scalar b) :
    evalLogic .ne a b = .ok (.bool (!cmpEq (toCV a) (toCV b))) := by
  simp only [evalLogic, isErr_scalar ha, isErr_scalar hb]

theorem evalLogic_le {a b : Value} (ha : Scalar a) (hb : Scalar b) {x : Bool}
    (h : cmpLt (toCV a) (toCV b) = some x) :
    evalLogic .le a b = .ok (.bool (x || cmpEq (toCV a) (toCV b))) := by
  simp only [evalLogic, isErr_scalar ha, isErr_scalar hb, h, Option.map_some]

theorem evalLogic_ge {a b : Value} (ha : Scalar a) (hb : Scalar b) {x : Bool}
    (h : cmpGt (toCV a) (toCV b) = some x) :
    evalLogic .ge a b = .ok (.bool (x || cmpEq (toCV a) (toCV b))) := by
  simp only [evalLogic, isErr_scalar ha, isErr_scalar hb, h, Option.map_some]

/-- all six results on scalars, in terms of three Booleans -/
theorem evalLogic_six {a b : Value} (ha : Scalar a) (hb : Scalar b) :
    ∃ l g : Bool, cmpLt (toCV a) (toCV b) = some l ∧ cmpGt (toCV a) (toCV b) = some g ∧
      evalLogic .lt a b = .ok (.bool l) ∧
      evalLogic .gt a b = .ok (.bool g) ∧
      evalLogic .eq a b = .ok (.bool (cmpEq (toCV a) (toCV b))) ∧
      evalLogic .le a b = .ok (.bool (l || cmpEq (toCV a) (toCV b))) ∧
      evalLogic .ge a b = .ok (.bool (g || cmpEq (toCV a) (toCV b))) ∧
      evalLogic .ne a b = .ok (.bool (!cmpEq (toCV a) (toCV b))) := by
  obtain ⟨l, hl⟩ := cmpLt_isSome (toCV_plain ha) (toCV_plain hb)
  obtain ⟨g, hg⟩ := cmpGt_isSome (toCV_plain ha) (toCV_plain hb)
  exact ⟨l, g, hl, hg, evalLogic_lt ha hb hl, evalLogic_gt ha hb hg, evalLogic_eq ha hb,
    evalLogic_le ha hb hl, evalLogic_ge ha hb hg, evalLogic_ne ha hb⟩

/-! ### blanks -/

theorem zeroLike_scalar {v : Value} (h : Scalar v) : Scalar (zeroLike v) := by
  cases v <;> first | exact trivial | exact h.elim

theorem zeroLike_nonBlank {v : Value} (hs : Scalar v) (h : NonBlank v) : NonBlank (zeroLike v) := by
  cases v <;> first | exact trivial | exact h.elim | exact hs.elim

/-- at the comparator level: `None` on the left acts as the zero of the other operand's type -/
theorem cmp_none_left (n : Num) :
    cmpLt .none (.num n) = cmpLt (.num (.int 0)) (.num n) ∧
    cmpGt .none (.num n) = cmpGt (.num (.int 0)) (.num n) ∧
    cmpEq .none (.num n) = cmpEq (.num (.int 0)) (.num n) := by
  cases n with
  | int i =>
    simp [cmpLt, cmpGt, cmpEq, cmpLtCore, cmpGtCore, cmpEqCore.eq_def, sameType, bothPlainNumbers, pyLt,
      pyEq, convertNone, Num.toRat, eq_comm]
  | flt q =>
    simp [cmpLt, cmpGt, cmpEq, cmpLtCore, cmpGtCore, cmpEqCore.eq_def, sameType, bothPlainNumbers, pyLt,
      pyEq, convertNone, Num.toRat, eq_comm]
    exact ⟨rfl, rfl, rfl⟩

theorem cmp_none_right (n : Num) :
    cmpLt (.num n) .none = cmpLt (.num n) (.num (.int 0)) ∧
    cmpGt (.num n) .none = cmpGt (.num n) (.num (.int 0)) ∧
    cmpEq (.num n) .none = cmpEq (.num n) (.num (.int 0)) := by
  cases n with
  | int i =>
    simp [cmpLt, cmpGt, cmpEq, cmpLtCore, cmpGtCore, cmpEqCore.eq_def, sameType, bothPlainNumbers, pyLt,
      pyEq, convertNone, Num.toRat]
  | flt q =>
    simp [cmpLt, cmpGt, cmpEq, cmpLtCore, cmpGtCore, cmpEqCore.eq_def, sameType, bothPlainNumbers, pyLt,
      pyEq, convertNone, Num.toRat]
    exact ⟨rfl, rfl, rfl⟩

theorem cmp_none_left_str (s : List Char) :
    cmpLt .none (.str s) = cmpLt (.str []) (.str s) ∧
    cmpGt .none (.str s) = cmpGt (.str []) (.str s) ∧
    cmpEq .none (.str s) = cmpEq (.str []) (.str s) := by
  simp [cmpLt, cmpGt, cmpEq, cmpLtCore, cmpGtCore, cmpEqCore.eq_def, sameType, bothPlainNumbers, pyLt,
      pyEq, convertNone, eq_comm]

theorem cmp_none_right_str (s : List Char) :
    cmpLt (.str s) .none = cmpLt (.str s) (.str []) ∧
    cmpGt (.str s) .none = cmpGt (.str s) (.str []) ∧
    cmpEq (.str s) .none = cmpEq (.str s) (.str []) := by
  simp [cmpLt, cmpGt, cmpEq, cmpLtCore, cmpGtCore, cmpEqCore.eq_def, sameType, bothPlainNumbers, pyLt,
      pyEq, convertNone]

theorem cmp_none_left_bool (b : Bool) :
    cmpLt .none (.bool b) = cmpLt (.bool false) (.bool b) ∧
    cmpGt .none (.bool b) = cmpGt (.bool false) (.bool b) ∧
    cmpEq .none (.bool b) = cmpEq (.bool false) (.bool b) := by
  cases b <;> simp [cmpLt, cmpGt, cmpEq, cmpLtCore, cmpGtCore, cmpEqCore.eq_def, sameType, bothPlainNumbers, pyLt,
      pyEq, convertNone]

theorem cmp_none_right_bool (b : Bool) :
    cmpLt (.bool b) .none = cmpLt (.bool b) (.bool false) ∧
    cmpGt (.bool b) .none = cmpGt (.bool b) (.bool false) ∧
    cmpEq (.bool b) .none = cmpEq (.bool b) (.bool false) := by
  cases b <;> simp [cmpLt, cmpGt, cmpEq, cmpLtCore, cmpGtCore, cmpEqCore.eq_def, sameType, bothPlainNumbers, pyLt,
      pyEq, convertNone]

/-- `evalLogic` depends on its (non-error) operands only through the three comparator results -/
theorem evalLogic_congr {a a' b b' : Value} (op : CmpOp)
    (ha : isErr a = none) (ha' : isErr a' = none) (hb : isErr b = none) (hb' : isErr b' = none)
    (h : cmpLt (toCV a) (toCV b) = cmpLt (toCV a') (toCV b') ∧
         cmpGt (toCV a) (toCV b) = cmpGt (toCV a') (toCV b') ∧
         cmpEq (toCV a) (toCV b) = cmpEq (toCV a') (toCV b')) :
    evalLogic op a b = evalLogic op a' b' := by
  obtain ⟨h1, h2, h3⟩ := h
  cases op <;> simp only [evalLogic, ha, ha', hb, hb', h1, h2, h3]

end HotXL.Compare
