/-
  HotXL.Lemmas.RoundRomanB — kernel-decided chunks (≤ 1000 numbers each) of the roman-numeral facts of
  property C17, over the WHOLE range 1..3999 (lifted by `lift4`); re-checked against the numeral
  tables regenerated from /repo.
-/
import HotXL.Lemmas.RoundRoman

namespace HotXL.Lemmas.Round
open HotXL HotXL.Fn HotXL.Fn.Round

theorem denotes_2_0 : ∀ j, j < 1000 → denotesOK 2 (j + 1) = true := by decide +kernel
theorem denotes_2_1 : ∀ j, j < 1000 → denotesOK 2 (j + 1001) = true := by decide +kernel
theorem denotes_2_2 : ∀ j, j < 1000 → denotesOK 2 (j + 2001) = true := by decide +kernel
theorem denotes_2_3 : ∀ j, j < 999 → denotesOK 2 (j + 3001) = true := by decide +kernel
theorem denotes_2 : ∀ n, 1 ≤ n → n ≤ 3999 → denotesOK 2 n = true :=
  lift4 _ denotes_2_0 denotes_2_1 denotes_2_2 denotes_2_3

theorem denotes_3_0 : ∀ j, j < 1000 → denotesOK 3 (j + 1) = true := by decide +kernel
theorem denotes_3_1 : ∀ j, j < 1000 → denotesOK 3 (j + 1001) = true := by decide +kernel
theorem denotes_3_2 : ∀ j, j < 1000 → denotesOK 3 (j + 2001) = true := by decide +kernel
theorem denotes_3_3 : ∀ j, j < 999 → denotesOK 3 (j + 3001) = true := by decide +kernel
theorem denotes_3 : ∀ n, 1 ≤ n → n ≤ 3999 → denotesOK 3 n = true :=
  lift4 _ denotes_3_0 denotes_3_1 denotes_3_2 denotes_3_3

end HotXL.Lemmas.Round
