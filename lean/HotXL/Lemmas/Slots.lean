/-
  HotXL.Lemmas.Slots — the argument / element sequence productions of the ply grammar
  (`p_expseq_comma`, `p_expseq_semicolon`, `p_expseq_backslash` in
  hotxlfp/grammarparser/parser.py) as an inductive relation carrying the Python ACTION of
  each alternative, the function `slots` (split at the separators, an empty piece is a
  blank), and the proof that EVERY derivation yields `slots` of the derived word.
  Then the ties to the generated grammar table and to the model parser
  (`HotXL.Syntax.classify`, `acceptFlat`, `slotsOf`).  Core Lean only.
-/
import HotXL.Model.Syntax

namespace HotXL.Slots

/-! ### words of items, the derivation relation -/

/-- one symbol of the right-hand side of an `expseq*` derivation once the expressions are
    reduced: the separator token, or an expression with its value / tree `v` -/
inductive ItemOf (α : Type) where
  | sep
  | expr (v : α)
  deriving Repr

variable {α : Type}

/-- The six productions of `expseqcomma` (= of `expseqbackslash`, = the first six of
    `expseqsemicolon`) with the action of each alternative (`None` = `none`):
    ```
    expseq : expression                    p[0] = [p[1]]
           | SEP SEP                       p[0] = [None, None, None]
           | SEP expseq                    p[0] = [None] + p[2]
           | expseq SEP                    p[0] = p[1] + [None]
           | expseq SEP expression         p[0] = p[1] + [p[3]]
           | expseq SEP SEP expression     p[0] = p[1] + [None, p[4]]
    ```
    `Derives w l`: the word `w` can be reduced to the nonterminal with semantic value `l`. -/
inductive Derives : List (ItemOf α) → List (Option α) → Prop where
  | single (v : α) : Derives [.expr v] [some v]
  | sepSep : Derives [.sep, .sep] [none, none, none]
  | sepCons {w l} : Derives w l → Derives (.sep :: w) (none :: l)
  | snocSep {w l} : Derives w l → Derives (w ++ [.sep]) (l ++ [none])
  | snocExpr {w l} (v : α) : Derives w l → Derives (w ++ [.sep, .expr v]) (l ++ [some v])
  | snocSepExpr {w l} (v : α) : Derives w l → Derives (w ++ [.sep, .sep, .expr v]) (l ++ [none, some v])

/-! ### `slots`: split at the separators -/

/-- put `v` in front of the first piece -/
def consHead (v : α) : List (List α) → List (List α)
  | [] => [[v]]
  | p :: ps => (v :: p) :: ps

/-- the pieces between the separators (always at least one piece) -/
def pieces : List (ItemOf α) → List (List α)
  | [] => [[]]
  | .sep :: w => [] :: pieces w
  | .expr v :: w => consHead v (pieces w)

/-- a piece as a slot: the empty piece is a blank -/
def toSlot : List α → Option α
  | [] => none
  | v :: _ => some v

/-- split at the separators; an empty piece is `none` -/
def slots (w : List (ItemOf α)) : List (Option α) := (pieces w).map toSlot

/-- number of separator items -/
def sepCount : List (ItemOf α) → Nat
  | [] => 0
  | .sep :: w => sepCount w + 1
  | .expr _ :: w => sepCount w

theorem pieces_ne_nil (w : List (ItemOf α)) : pieces w ≠ [] := by
  cases w with
  | nil => simp [pieces]
  | cons i w =>
    cases i with
    | sep => simp [pieces]
    | expr v => cases h : pieces w <;> simp [pieces, consHead, h]

theorem consHead_append (v : α) (a b : List (List α)) (ha : a ≠ []) :
    consHead v (a ++ b) = consHead v a ++ b := by
  cases a with
  | nil => exact absurd rfl ha
  | cons p ps => rfl

/-- splitting distributes over a separator -/
theorem pieces_append_sep (w w' : List (ItemOf α)) :
    pieces (w ++ .sep :: w') = pieces w ++ pieces w' := by
  induction w with
  | nil => rfl
  | cons i w ih =>
    cases i with
    | sep => simp [pieces, ih]
    | expr v =>
      simp only [List.cons_append, pieces, ih]
      exact consHead_append v _ _ (pieces_ne_nil w)

theorem slots_append_sep (w w' : List (ItemOf α)) :
    slots (w ++ .sep :: w') = slots w ++ slots w' := by
  simp [slots, pieces_append_sep]

theorem slots_nil : slots ([] : List (ItemOf α)) = [none] := rfl
theorem slots_single (v : α) : slots [ItemOf.expr v] = [some v] := rfl
theorem slots_sep_cons (w : List (ItemOf α)) : slots (.sep :: w) = none :: slots w := rfl

theorem slots_snoc_sep (w : List (ItemOf α)) : slots (w ++ [.sep]) = slots w ++ [none] := by
  rw [slots_append_sep]; rfl

theorem slots_snoc_sep_expr (w : List (ItemOf α)) (v : α) :
    slots (w ++ [.sep, .expr v]) = slots w ++ [some v] := by
  rw [slots_append_sep]; rfl

theorem slots_snoc_sep_sep_expr (w : List (ItemOf α)) (v : α) :
    slots (w ++ [.sep, .sep, .expr v]) = slots w ++ [none, some v] := by
  rw [slots_append_sep]; rfl

theorem length_pieces (w : List (ItemOf α)) : (pieces w).length = sepCount w + 1 := by
  induction w with
  | nil => rfl
  | cons i w ih =>
    cases i with
    | sep => simp [pieces, sepCount, ih]
    | expr v =>
      cases h : pieces w with
      | nil => exact absurd h (pieces_ne_nil w)
      | cons p ps => simp [pieces, sepCount, consHead, h] at ih ⊢; omega

/-- one slot per separator-delimited piece: (number of separators) + 1 -/
theorem length_slots (w : List (ItemOf α)) : (slots w).length = sepCount w + 1 := by
  simp [slots, length_pieces]

/-- **every** derivation of a word yields the slots of that word -/
theorem slots_of_derivation (w : List (ItemOf α)) (l : List (Option α)) (h : Derives w l) :
    l = slots w := by
  induction h with
  | single v => rfl
  | sepSep => rfl
  | sepCons _ ih => rw [slots_sep_cons, ih]
  | snocSep _ ih => rw [slots_snoc_sep, ih]
  | snocExpr v _ ih => rw [slots_snoc_sep_expr, ih]
  | snocSepExpr v _ ih => rw [slots_snoc_sep_sep_expr, ih]

/-- no two expressions are adjacent: every piece holds at most one expression
    (so `slots` forgets nothing of the word) -/
def NoAdjacent (w : List (ItemOf α)) : Prop := ∀ p ∈ pieces w, p.length ≤ 1

theorem noAdjacent_append_sep {w w' : List (ItemOf α)} (h : NoAdjacent w) (h' : NoAdjacent w') :
    NoAdjacent (w ++ .sep :: w') := by
  intro p hp
  rw [pieces_append_sep, List.mem_append] at hp
  cases hp with
  | inl hp => exact h p hp
  | inr hp => exact h' p hp

theorem noAdjacent_of_derivation {w : List (ItemOf α)} {l : List (Option α)} (h : Derives w l) :
    NoAdjacent w := by
  induction h with
  | single v => intro p hp; simp [pieces, consHead] at hp; subst hp; simp
  | sepSep => intro p hp; simp [pieces] at hp; subst hp; simp
  | sepCons _ ih =>
    intro p hp
    simp only [pieces, List.mem_cons] at hp
    cases hp with
    | inl hp => subst hp; simp
    | inr hp => exact ih p hp
  | snocSep _ ih =>
    refine noAdjacent_append_sep ih ?_
    intro p hp; simp [pieces] at hp; subst hp; simp
  | snocExpr v _ ih =>
    refine noAdjacent_append_sep ih ?_
    intro p hp; simp [pieces, consHead] at hp; subst hp; simp
  | snocSepExpr v _ ih =>
    refine noAdjacent_append_sep ih ?_
    intro p hp; simp [pieces, consHead] at hp
    rcases hp with hp | hp <;> subst hp <;> simp

/-- a derived word never is empty -/
theorem ne_nil_of_derivation {w : List (ItemOf α)} {l : List (Option α)} (h : Derives w l) : w ≠ [] := by
  cases h <;> simp

/-! ### two rows: `expseqcomma SEMICOLON expseqcomma` / `expseqbackslash SEMICOLON expseqbackslash` -/

/-- items of a two-row sequence: the `SEMICOLON` between the rows, or an item of a row
    (whose separator is the comma, or the backslash) -/
inductive RowItem (α : Type) where
  | semi
  | inner (i : ItemOf α)
  deriving Repr

/-- the row production of `p_expseq_semicolon` with its action `p[0] = [p[1]] + [p[3]]` -/
inductive RowsDerive : List (RowItem α) → List (List (Option α)) → Prop where
  | rows {w1 w2 l1 l2} : Derives w1 l1 → Derives w2 l2 →
      RowsDerive (w1.map .inner ++ .semi :: w2.map .inner) [l1, l2]

/-- split at the semicolons into rows of inner items -/
def rowPieces : List (RowItem α) → List (List (ItemOf α))
  | [] => [[]]
  | .semi :: w => [] :: rowPieces w
  | .inner i :: w => consHead i (rowPieces w)

/-- split at the semicolons, then each row at its separators -/
def rowsOf (w : List (RowItem α)) : List (List (Option α)) := (rowPieces w).map slots

theorem rowPieces_inner (w : List (ItemOf α)) : rowPieces (w.map RowItem.inner) = [w] := by
  induction w with
  | nil => rfl
  | cons i w ih => simp [rowPieces, ih, consHead]

theorem rowPieces_inner_semi (w : List (ItemOf α)) (r : List (RowItem α)) :
    rowPieces (w.map RowItem.inner ++ .semi :: r) = w :: rowPieces r := by
  induction w with
  | nil => rfl
  | cons i w ih => simp [rowPieces, ih, consHead]

theorem rowsOf_two (w1 w2 : List (ItemOf α)) :
    rowsOf (w1.map RowItem.inner ++ .semi :: w2.map .inner) = [slots w1, slots w2] := by
  simp [rowsOf, rowPieces_inner_semi, rowPieces_inner]

/-- every derivation by the row production yields the list of the two rows, each the slots
    of its word -/
theorem rows_of_derivation (w : List (RowItem α)) (r : List (List (Option α))) (h : RowsDerive w r) :
    r = rowsOf w := by
  cases h with
  | rows h1 h2 =>
    rw [rowsOf_two, ← slots_of_derivation _ _ h1, ← slots_of_derivation _ _ h2]


/-! ### tie to the model parser (`HotXL.Syntax`) -/

open HotXL.Syntax HotXL.Lexer

/-- the model's items with the separator kind forgotten -/
def toItems : List Item → List (ItemOf Expr)
  | [] => []
  | .e x :: r => .expr x :: toItems r
  | .sep _ :: r => .sep :: toItems r

/-- a slot as the model's argument expression: a blank is `Expr.blankSlot` -/
def slotExpr : Option Expr → Expr
  | none => .blankSlot
  | some x => x

theorem toItems_append (a b : List Item) : toItems (a ++ b) = toItems a ++ toItems b := by
  induction a with
  | nil => rfl
  | cons i a ih => cases i <;> simp [toItems, ih]

theorem shapeOf_cons_e (x : Expr) (r : List Item) : shapeOf (.e x :: r) = true :: shapeOf r := rfl
theorem shapeOf_cons_sep (k : TK) (r : List Item) : shapeOf (.sep k :: r) = false :: shapeOf r := rfl
theorem shapeOf_nil : shapeOf [] = [] := rfl

/-- after an expression: whatever `acceptTail` accepts extends a derivation by the three
    left-recursive productions -/
theorem derives_tail : ∀ (rest : List Item) {w : List (ItemOf Expr)} {l : List (Option Expr)},
    Derives w l → acceptTail (shapeOf rest) = true → ∃ l', Derives (w ++ toItems rest) l'
  | [], w, l, h, _ => ⟨l, by simpa [toItems] using h⟩
  | [.sep _], w, l, h, _ => ⟨_, by simpa [toItems] using h.snocSep⟩
  | .sep _ :: .e x :: r, w, l, h, ha => by
    have ha' : acceptTail (shapeOf r) = true := by
      simpa [shapeOf_cons_e, shapeOf_cons_sep, acceptTail] using ha
    obtain ⟨l', h'⟩ := derives_tail r (h.snocExpr x) ha'
    exact ⟨l', by simpa [toItems] using h'⟩
  | .sep _ :: .sep _ :: .e x :: r, w, l, h, ha => by
    have ha' : acceptTail (shapeOf r) = true := by
      simpa [shapeOf_cons_e, shapeOf_cons_sep, acceptTail] using ha
    obtain ⟨l', h'⟩ := derives_tail r (h.snocSepExpr x) ha'
    exact ⟨l', by simpa [toItems] using h'⟩
  | .e _ :: _, _, _, _, ha => by simp [shapeOf_cons_e, acceptTail] at ha
  | [.sep _, .sep _], _, _, _, ha => by simp [shapeOf_cons_sep, shapeOf_nil, acceptTail] at ha
  | .sep _ :: .sep _ :: .sep _ :: _, _, _, _, ha => by simp [shapeOf_cons_sep, acceptTail] at ha

theorem acceptFlat_true_cons (s : List Bool) : acceptFlat (true :: s) = acceptTail s := by
  simp [acceptFlat]

theorem acceptFlat_false_cons (s : List Bool) (h : acceptFlat (false :: s) = true) :
    acceptFlat s = true ∨ s = [false] := by
  unfold acceptFlat at h ⊢
  simp only [List.takeWhile_cons, List.dropWhile_cons, decide_true, ite_true] at h
  cases hd : s.dropWhile (· = false) with
  | nil =>
    rw [hd] at h
    simp only [List.length_cons, ge_iff_le, decide_eq_true_eq] at h
    -- `s` consists of separators only
    have hall : s.takeWhile (· = false) = s := by
      have := List.takeWhile_append_dropWhile (p := (· = false)) (l := s)
      rw [hd, List.append_nil] at this; exact this
    by_cases h2 : 2 ≤ (s.takeWhile (· = false)).length
    · left; exact decide_eq_true h2
    · right
      rw [hall] at h h2
      match s, h, h2, hall with
      | [b], _, _, hall =>
        cases b with
        | false => rfl
        | true => simp at hall
      | [], h, _, _ => simp at h
      | _ :: _ :: _, _, h2, _ => simp at h2
  | cons b rest =>
    rw [hd] at h
    left; simpa using h

/-- a shape the model accepts is derivable by the six productions: the model parser never
    accepts an argument / element sequence that the grammar cannot derive -/
theorem derives_of_acceptFlat : ∀ (items : List Item), acceptFlat (shapeOf items) = true →
    ∃ l, Derives (toItems items) l
  | [], h => by simp [shapeOf_nil, acceptFlat] at h
  | .e x :: r, h => by
    rw [shapeOf_cons_e, acceptFlat_true_cons] at h
    obtain ⟨l, hl⟩ := derives_tail r (Derives.single x) h
    exact ⟨l, by simpa [toItems] using hl⟩
  | .sep k :: r, h => by
    rw [shapeOf_cons_sep] at h
    cases acceptFlat_false_cons _ h with
    | inl h' =>
      obtain ⟨l, hl⟩ := derives_of_acceptFlat r h'
      exact ⟨none :: l, by simpa [toItems] using hl.sepCons⟩
    | inr h' =>
      match r, h' with
      | [.sep _], _ => exact ⟨_, by simpa [toItems] using Derives.sepSep⟩
      | [.e _], h' => simp [shapeOf] at h'
      | [], h' => simp [shapeOf] at h'
      | _ :: _ :: _, h' => simp [shapeOf] at h'

/-- on words without adjacent expressions the model's `slotsOf` is `slots` -/
theorem slotsOf_eq_slots : ∀ (items : List Item), NoAdjacent (toItems items) →
    slotsOf items = (slots (toItems items)).map slotExpr
  | [], _ => rfl
  | [.e x], _ => rfl
  | .e x :: .sep k :: rest, h => by
    have hrest : NoAdjacent (toItems rest) := by
      intro p hp
      apply h p
      show p ∈ pieces ([ItemOf.expr x] ++ ItemOf.sep :: toItems rest)
      rw [pieces_append_sep]; exact List.mem_append_right _ hp
    have : slots (toItems (.e x :: .sep k :: rest)) = some x :: slots (toItems rest) := by
      show slots ([ItemOf.expr x] ++ ItemOf.sep :: toItems rest) = _
      rw [slots_append_sep]; rfl
    rw [this, slotsOf, slotsOf_eq_slots rest hrest]; rfl
  | .sep k :: rest, h => by
    have hrest : NoAdjacent (toItems rest) := by
      intro p hp; apply h p; simp [toItems, pieces, hp]
    rw [slotsOf, slotsOf_eq_slots rest hrest]; rfl
  | .e x :: .e y :: rest, h => by
    exfalso
    have hne := pieces_ne_nil (toItems rest)
    cases hp : pieces (toItems rest) with
    | nil => exact hne hp
    | cons p ps =>
      have := h (x :: y :: p) (by simp [toItems, pieces, hp, consHead])
      simp at this

theorem sepCount_toItems (items : List Item) :
    sepCount (toItems items) = (items.filter (fun i => match i with | .sep _ => true | .e _ => false)).length := by
  induction items with
  | nil => rfl
  | cons i r ih => cases i <;> simp [toItems, sepCount, ih]

/-- `classify` answers `.flat` only through its one-separator branch -/
theorem classify_flat_inv {items : List Item} {a b : List Expr}
    (h : classify items = some (.flat, a, b)) :
    (sepKinds items).length ≤ 1 ∧ acceptFlat (shapeOf items) = true ∧ a = slotsOf items ∧ b = [] := by
  unfold classify at h
  simp only at h
  split at h
  · rename_i hk
    split at h
    · exact absurd h (by simp)
    · split at h
      · rename_i hacc
        simp only [Option.some.injEq, Prod.mk.injEq, true_and] at h
        exact ⟨hk, hacc, h.1.symm, h.2.symm⟩
      · exact absurd h (by simp)
  · split at h
    · split at h
      · simp at h
      · exact absurd h (by simp)
    · exact absurd h (by simp)

/-! ### separator kinds -/

theorem eraseDups_of_forall_eq {k : TK} : ∀ (l : List TK), (∀ x ∈ l, x = k) →
    l.eraseDups = if l = [] then [] else [k]
  | [], _ => rfl
  | x :: r, h => by
    have hx : x = k := h x (by simp)
    subst hx
    rw [List.eraseDups_cons]
    have : r.filter (fun b => !b == x) = [] := by
      rw [List.filter_eq_nil_iff]
      intro a ha
      have := h a (by simp [ha])
      simp [this]
    simp [this]

/-- the separator kinds of an item list, in order of occurrence -/
def sepList (items : List Item) : List TK :=
  items.filterMap (fun i => match i with | .sep k => some k | .e _ => none)

theorem sepKinds_eq (items : List Item) : sepKinds items = (sepList items).eraseDups := rfl

theorem mem_sepList {items : List Item} {k : TK} : k ∈ sepList items ↔ Item.sep k ∈ items := by
  induction items with
  | nil => simp [sepList]
  | cons i r ih =>
    cases i with
    | e x => simp [sepList] at ih ⊢; exact ih
    | sep j =>
      simp only [sepList, List.filterMap_cons, List.mem_cons] at ih ⊢
      rw [ih]
      constructor
      · rintro (h | h)
        · left; rw [h]
        · right; exact h
      · rintro (h | h)
        · left; injection h
        · right; exact h

theorem sepKinds_length_le_one {items : List Item} {k : TK} (h : ∀ j, Item.sep j ∈ items → j = k) :
    (sepKinds items).length ≤ 1 := by
  rw [sepKinds_eq, eraseDups_of_forall_eq (k := k)]
  · split <;> simp
  · intro x hx; exact h x (mem_sepList.mp hx)

/-- rename every separator to kind `k'` -/
def renameSeps (k' : TK) (items : List Item) : List Item :=
  items.map (fun i => match i with | .sep _ => .sep k' | .e x => .e x)

theorem shapeOf_renameSeps (k' : TK) (items : List Item) : shapeOf (renameSeps k' items) = shapeOf items := by
  induction items with
  | nil => rfl
  | cons i r ih =>
    cases i <;> simp only [renameSeps, List.map_cons, shapeOf] at ih ⊢ <;> simp [ih]

theorem slotsOf_renameSeps (k' : TK) : ∀ (items : List Item), slotsOf (renameSeps k' items) = slotsOf items
  | [] => rfl
  | [.e x] => rfl
  | .e x :: .sep k :: rest => by
    have := slotsOf_renameSeps k' rest
    simp only [renameSeps, List.map_cons, slotsOf] at this ⊢
    rw [this]
  | .sep k :: rest => by
    have := slotsOf_renameSeps k' rest
    simp only [renameSeps, List.map_cons, slotsOf] at this ⊢
    rw [this]
  | .e x :: .e y :: rest => by
    have := slotsOf_renameSeps k' (.e y :: rest)
    simp only [renameSeps, List.map_cons, slotsOf] at this ⊢
    rw [this]

theorem mem_renameSeps {k' j : TK} {items : List Item} (h : Item.sep j ∈ renameSeps k' items) : j = k' := by
  simp only [renameSeps, List.mem_map] at h
  obtain ⟨i, _, hi⟩ := h
  cases i with
  | e x => simp at hi
  | sep k => simp at hi; exact hi.symm

theorem renameSeps_isEmpty (k' : TK) (items : List Item) : (renameSeps k' items).isEmpty = items.isEmpty := by
  cases items <;> rfl


/-! ### two rows in the model: `splitAtSemicolon`, the `.rows` answer of `classify` -/

def isSemi : Item → Bool
  | .sep .SEMICOLON => true
  | _ => false

theorem isSemi_sep (k : TK) : isSemi (.sep k) = decide (k = .SEMICOLON) := by
  cases k <;> rfl

theorem isSemi_eq_true {i : Item} : isSemi i = true ↔ i = .sep .SEMICOLON := by
  cases i with
  | e x => simp [isSemi]
  | sep k => cases k <;> simp [isSemi]

theorem splitAtSemicolon_cons (i : Item) (r : List Item) :
    splitAtSemicolon (i :: r) =
      if isSemi i then ([], r) else (i :: (splitAtSemicolon r).1, (splitAtSemicolon r).2) := by
  cases i with
  | e x => simp [splitAtSemicolon, isSemi]
  | sep k => cases k <;> simp [splitAtSemicolon, isSemi]

/-- the `nSemi` count of `classify` -/
theorem nSemi_eq (items : List Item) :
    (items.filter (fun i => match i with | .sep .SEMICOLON => true | _ => false)) = items.filter isSemi := by
  have : (fun i : Item => match i with | .sep .SEMICOLON => true | _ => false) = isSemi := by
    funext i
    cases i with
    | e x => rfl
    | sep k => cases k <;> rfl
  rw [this]

/-- `splitAtSemicolon` cuts at the first semicolon: the first part has none, and the two
    parts hold the remaining semicolons -/
theorem splitAtSemicolon_spec : ∀ (items : List Item), 1 ≤ (items.filter isSemi).length →
    items = (splitAtSemicolon items).1 ++ .sep .SEMICOLON :: (splitAtSemicolon items).2 ∧
    (splitAtSemicolon items).1.filter isSemi = [] ∧
    ((splitAtSemicolon items).2.filter isSemi).length + 1 = (items.filter isSemi).length
  | [], h => by simp at h
  | i :: r, h => by
    rw [splitAtSemicolon_cons]
    by_cases hi : isSemi i = true
    · have : i = .sep .SEMICOLON := isSemi_eq_true.mp hi
      subst this
      simp [isSemi, List.filter_cons]
    · have hi' : isSemi i = false := by simpa using hi
      have hr : 1 ≤ (r.filter isSemi).length := by simpa [List.filter_cons, hi'] using h
      obtain ⟨h1, h2, h3⟩ := splitAtSemicolon_spec r hr
      simp only [hi', Bool.false_eq_true, ite_false, List.cons_append, List.filter_cons]
      refine ⟨by rw [← h1], h2, h3⟩

/-- items of a two-row sequence: the semicolon is the row separator, every other separator
    an inner one -/
def toRowItems : List Item → List (RowItem Expr)
  | [] => []
  | .e x :: r => .inner (.expr x) :: toRowItems r
  | .sep k :: r => (if k = .SEMICOLON then .semi else .inner .sep) :: toRowItems r

theorem toRowItems_append (a b : List Item) : toRowItems (a ++ b) = toRowItems a ++ toRowItems b := by
  induction a with
  | nil => rfl
  | cons i a ih => cases i <;> simp [toRowItems, ih]

theorem toRowItems_of_no_semi : ∀ (a : List Item), a.filter isSemi = [] →
    toRowItems a = (toItems a).map RowItem.inner
  | [], _ => rfl
  | .e x :: r, h => by
    have hr : r.filter isSemi = [] := by simpa [List.filter_cons, isSemi] using h
    simp [toRowItems, toItems, toRowItems_of_no_semi r hr]
  | .sep k :: r, h => by
    have hk : k ≠ .SEMICOLON := by
      intro hk; subst hk; simp [List.filter_cons, isSemi] at h
    have hk' : isSemi (.sep k) = false := by rw [isSemi_sep]; simpa using hk
    have hr : r.filter isSemi = [] := by simpa [List.filter_cons, hk'] using h
    simp [toRowItems, toItems, hk, toRowItems_of_no_semi r hr]

theorem filter_isSemi_eq_nil_of_length {l : List Item} (h : (l.filter isSemi).length = 0) :
    l.filter isSemi = [] := List.eq_nil_of_length_eq_zero h

/-- `classify` answers `.rows` only through its two-row branch -/
theorem classify_rows_inv {items : List Item} {a b : List Expr}
    (h : classify items = some (.rows, a, b)) :
    (sepKinds items).length = 2 ∧ TK.SEMICOLON ∈ sepKinds items ∧ (items.filter isSemi).length = 1 ∧
    (sepKinds (splitAtSemicolon items).1).length = 1 ∧
    acceptFlat (shapeOf (splitAtSemicolon items).1) = true ∧
    acceptFlat (shapeOf (splitAtSemicolon items).2) = true ∧
    a = slotsOf (splitAtSemicolon items).1 ∧ b = slotsOf (splitAtSemicolon items).2 := by
  unfold classify at h
  simp only at h
  split at h
  · split at h
    · exact absurd h (by simp)
    · split at h
      · simp at h
      · exact absurd h (by simp)
  · split at h
    · rename_i hk
      split at h
      · rename_i hc
        simp only [Option.some.injEq, Prod.mk.injEq, true_and] at h
        simp only [Bool.and_eq_true, decide_eq_true_eq, List.contains_iff_mem] at hk hc
        have hn : (items.filter isSemi).length = 1 := by
          have key : ∀ f : Item → Bool, (∀ i, f i = isSemi i) → (items.filter f).length = 1 →
              (items.filter isSemi).length = 1 := by
            intro f hf h1
            rwa [show f = isSemi from funext hf] at h1
          exact key _ (by intro i; cases i with | e x => rfl | sep k => cases k <;> rfl) hk.2
        exact ⟨hk.1.1, hk.1.2, hn, hc.1.1.1.1, hc.1.2, hc.2, h.1.symm, h.2.symm⟩
      · exact absurd h (by simp)
    · exact absurd h (by simp)

theorem mem_of_length_two {x y k : TK} {l : List TK} (hl : l.length = 2) (hx : x ∈ l) (hy : y ∈ l)
    (hxy : x ≠ y) (hk : k ∈ l) : k = x ∨ k = y := by
  match l, hl with
  | [p, q], _ =>
    simp only [List.mem_cons, List.not_mem_nil, or_false] at hx hy hk
    rcases hx with rfl | rfl <;> rcases hy with rfl | rfl <;> rcases hk with rfl | rfl <;> simp_all

theorem sepKinds_eq_singleton {items : List Item} (h : (sepKinds items).length = 1) :
    ∃ k, sepKinds items = [k] ∧ Item.sep k ∈ items := by
  match hs : sepKinds items, h with
  | [k], _ =>
    refine ⟨k, rfl, ?_⟩
    have : k ∈ sepKinds items := by rw [hs]; simp
    rw [sepKinds_eq, List.mem_eraseDups] at this
    exact mem_sepList.mp this

theorem mem_sepKinds {items : List Item} {k : TK} : k ∈ sepKinds items ↔ Item.sep k ∈ items := by
  rw [sepKinds_eq, List.mem_eraseDups, mem_sepList]

theorem not_isSemi_of_filter_nil {l : List Item} (h : l.filter isSemi = []) {i : Item} (hi : i ∈ l) :
    isSemi i = false := by
  rw [List.filter_eq_nil_iff] at h
  simpa using h i hi


/-- at most one separator kind: all separators are of one kind -/
theorem single_kind_of_sepKinds {items : List Item} (h : (sepKinds items).length ≤ 1) :
    ∃ k, ∀ j, Item.sep j ∈ items → j = k := by
  match hs : sepKinds items, h with
  | [], _ =>
    refine ⟨.COMMA, fun j hj => ?_⟩
    have : j ∈ sepKinds items := mem_sepKinds.mpr hj
    rw [hs] at this; simp at this
  | [k], _ =>
    refine ⟨k, fun j hj => ?_⟩
    have : j ∈ sepKinds items := mem_sepKinds.mpr hj
    rw [hs] at this; simpa using this

end HotXL.Slots
