/-
  HotXL.Lemmas.RoundRomanA — kernel-decided chunks (≤ 1000 numbers each) of the roman-numeral facts of
  property C17, over the WHOLE range 1..3999 (lifted by `lift4`); re-checked against the numeral
  tables regenerated from /repo.
-/
import HotXL.Lemmas.RoundRoman

namespace HotXL.Lemmas.Round
open HotXL HotXL.Fn HotXL.Fn.Round

theorem denotes_0_0 : ∀ j, j < 1000 → denotesOK 0 (j + 1) = true := by decide +kernel
theorem denotes_0_1 : ∀ j, j < 1000 → denotesOK 0 (j + 1001) = true := by decide +kernel
theorem denotes_0_2 : ∀ j, j < 1000 → denotesOK 0 (j + 2001) = true := by decide +kernel
theorem denotes_0_3 : ∀ j, j < 999 → denotesOK 0 (j + 3001) = true := by decide +kernel
theorem denotes_0 : ∀ n, 1 ≤ n → n ≤ 3999 → denotesOK 0 n = true :=
  lift4 _ denotes_0_0 denotes_0_1 denotes_0_2 denotes_0_3

theorem denotes_1_0 : ∀ j, j < 1000 → denotesOK 1 (j + 1) = true := by decide +kernel
theorem denotes_1_1 : ∀ j, j < 1000 → denotesOK 1 (j + 1001) = true := by decide +kernel
theorem denotes_1_2 : ∀ j, j < 1000 → denotesOK 1 (j + 2001) = true := by decide +kernel
theorem denotes_1_3 : ∀ j, j < 999 → denotesOK 1 (j + 3001) = true := by decide +kernel
theorem denotes_1 : ∀ n, 1 ≤ n → n ≤ 3999 → denotesOK 1 n = true :=
  lift4 _ denotes_1_0 denotes_1_1 denotes_1_2 denotes_1_3

end HotXL.Lemmas.Round
