/-
  HotXL.Lemmas.Dates — closed forms of `Dates.serialize` / `Dates.parseNum` (model of
  `serialize_date` / `parse_date`): every fact about the GENERATED constants and comparison
  operators is obtained by `decide`, so an edited literal in /repo re-checks (and breaks) these proofs.
-/
import HotXL.Model.Dates
import Mathlib.Tactic.Linarith
import Mathlib.Tactic.FieldSimp
import Mathlib.Tactic.Ring
import Mathlib.Tactic.NormNum
namespace HotXL.Dates
open HotXL

/-- the serial number of the datetime `us` microseconds after 1900-01-01T00:00, written out:
    days since 1900-01-01 plus 1 before 1900-03-01 and plus 2 from then on (the phantom
    1900-02-29), except that 1900-01-01T00:00 itself has serial 0 -/
def serialQ (us : Int) : Rat :=
  if us = 0 then 0 else (us : Rat) / 86400000000 + (if us < 59 * 86400000000 then 1 else 2)

def serialNum (us : Int) : Num := if us = 0 then .int 0 else .flt (serialQ us)

theorem sConsts : sConst 0 = 0 ∧ sConst 1 = 1000 ∧ sConst 2 = 1000 ∧ sConst 3 = -2203891200000 ∧
    sConst 4 = 86400000 ∧ sConst 5 = 1 ∧ sConst 6 = 86400000 ∧ sConst 7 = 2 := by decide +kernel

theorem sCompare : Generated.serializeDateCompares.getD 1 "" = "Lt" := by decide +kernel

theorem epochSeconds1900_eq : epochSeconds1900 = -2208988800 := by decide +kernel

theorem cmpBy_Lt (a b : Rat) : cmpBy "Lt" a b = decide (a < b) := by simp [cmpBy]
theorem cmpBy_LtE (a b : Rat) : cmpBy "LtE" a b = decide (a ≤ b) := by simp [cmpBy]

theorem serialize_eq (us : Int) : serialize us = serialNum us := by
  obtain ⟨c0, c1, c2, c3, c4, c5, c6, c7⟩ := sConsts
  unfold serialize serialNum serialQ
  simp only [c0, c1, c2, c3, c4, c5, c6, c7, sCompare, epochSeconds1900_eq, cmpBy_Lt]
  by_cases h0 : us = 0
  · simp [h0]
  · simp only [h0, if_false]
    have hlt : (((-2208988800 : Int) : Rat) + (us : Rat) / 1000000) * ((1000 : Int) : Rat) < ((-2203891200000 : Int) : Rat)
        ↔ us < 59 * 86400000000 := by
      rw [← Int.cast_lt (R := Rat)]
      push_cast
      constructor <;> intro h <;> linarith
    by_cases h : us < 59 * 86400000000
    · simp only [decide_eq_true (hlt.mpr h), if_true, h]
      rw [Num.flt.injEq]
      push_cast
      ring
    · simp only [decide_eq_false (fun hh => h (hlt.mp hh)), h, if_false, Bool.false_eq_true]
      rw [Num.flt.injEq]
      push_cast
      ring


/-- the datetime (µs after 1900-01-01) a non-negative serial number denotes, written out;
    `none` below 0 (`#NUM!`).  Serials below 1 give 1900-01-01; up to 60 the day count is
    `serial - 1`, above it `serial - 2`; sub-microsecond parts are rounded half to even. -/
def dateOfSerial (q : Rat) : Option Int :=
  if q < 0 then none else if q < 1 then some 0
  else if q ≤ 60 then some (roundHalfEven ((q - 1) * 86400000000))
  else some (roundHalfEven ((q - 2) * 86400000000))

theorem pConsts : pConst 0 = 0 ∧ pConst 1 = 1 ∧ pConst 2 = 60 ∧ pConst 3 = 1 ∧ pConst 4 = 86400 ∧
    pConst 5 = 2 ∧ pConst 6 = 86400 := by decide +kernel

theorem pCompares : Generated.parseDateCompares.getD 0 "" = "Lt" ∧
    Generated.parseDateCompares.getD 1 "" = "Lt" ∧ Generated.parseDateCompares.getD 2 "" = "LtE" := by
  decide +kernel

theorem parseNum_eq (q : Rat) : parseNum q = dateOfSerial q := by
  obtain ⟨c0, c1, c2, c3, c4, c5, c6⟩ := pConsts
  obtain ⟨k0, k1, k2⟩ := pCompares
  unfold parseNum dateOfSerial
  simp only [c0, c1, c2, c3, c4, c5, c6, k0, k1, k2, cmpBy_Lt, cmpBy_LtE, decide_eq_true_eq]
  have e1 : (q - ((1 : Int) : Rat)) * ((86400 : Int) : Rat) * 1000000 = (q - 1) * 86400000000 := by
    push_cast; ring
  have e2 : (q - ((2 : Int) : Rat)) * ((86400 : Int) : Rat) * 1000000 = (q - 2) * 86400000000 := by
    push_cast; ring
  rw [e1, e2]
  push_cast
  rfl

theorem roundHalfEven_intCast (k : Int) : roundHalfEven (k : Rat) = k := by
  unfold roundHalfEven
  simp [Rat.floor_intCast]


/-- `parse_date(serialize_date(d)) = d` for every datetime from 1900-01-01T00:00 on
    (microsecond resolution) -/
theorem dateOfSerial_serialQ (us : Int) (h : 0 ≤ us) : dateOfSerial (serialQ us) = some us := by
  unfold serialQ
  by_cases h0 : us = 0
  · subst h0; simp [dateOfSerial]
  · have hpos : (0 : Rat) < (us : Rat) := by exact_mod_cast (by omega : (0 : Int) < us)
    have ht : ((us : Rat) / 86400000000) * 86400000000 = us := by field_simp
    simp only [h0, if_false]
    by_cases hl : us < 59 * 86400000000
    · have hl' : (us : Rat) < 59 * 86400000000 := by exact_mod_cast hl
      simp only [hl, if_true]
      unfold dateOfSerial
      have a1 : ¬ ((us : Rat) / 86400000000 + 1 < 0) := by
        have : (0 : Rat) < (us : Rat) / 86400000000 := div_pos hpos (by norm_num)
        linarith
      have a2 : ¬ ((us : Rat) / 86400000000 + 1 < 1) := by
        have : (0 : Rat) < (us : Rat) / 86400000000 := div_pos hpos (by norm_num)
        linarith
      have a3 : (us : Rat) / 86400000000 + 1 ≤ 60 := by
        have : (us : Rat) / 86400000000 < 59 := by
          rw [div_lt_iff₀ (by norm_num)]; linarith
        linarith
      simp only [a1, a2, a3, if_false, if_true]
      have : ((us : Rat) / 86400000000 + 1 - 1) * 86400000000 = (us : Rat) := by
        rw [add_sub_cancel_right]; exact ht
      rw [this, roundHalfEven_intCast]
    · have hl' : (59 * 86400000000 : Rat) ≤ (us : Rat) := by exact_mod_cast (by omega : (59 * 86400000000 : Int) ≤ us)
      simp only [hl, if_false]
      unfold dateOfSerial
      have b : (59 : Rat) ≤ (us : Rat) / 86400000000 := by
        rw [le_div_iff₀ (by norm_num)]; linarith
      have a1 : ¬ ((us : Rat) / 86400000000 + 2 < 0) := by linarith
      have a2 : ¬ ((us : Rat) / 86400000000 + 2 < 1) := by linarith
      have a3 : ¬ ((us : Rat) / 86400000000 + 2 ≤ 60) := by linarith
      simp only [a1, a2, a3, if_false]
      have : ((us : Rat) / 86400000000 + 2 - 2) * 86400000000 = (us : Rat) := by
        rw [add_sub_cancel_right]; exact ht
      rw [this, roundHalfEven_intCast]

/-- from 1900-03-01 on, adding `i` to the serial moves the date by `i` whole days -/
theorem serialQ_add_days (d i : Int) (h1 : 59 * 86400000000 ≤ d) (h2 : 59 * 86400000000 ≤ d + i * 86400000000) :
    serialQ d + (i : Rat) = serialQ (d + i * 86400000000) := by
  unfold serialQ
  have n1 : ¬ d = 0 := by omega
  have n2 : ¬ d + i * 86400000000 = 0 := by omega
  have l1 : ¬ d < 59 * 86400000000 := by omega
  have l2 : ¬ d + i * 86400000000 < 59 * 86400000000 := by omega
  simp only [n1, n2, l1, l2, if_false]
  push_cast
  field_simp
  ring

/-- before 1900-03-01 (and after 1900-01-01T00:00) likewise -/
theorem serialQ_add_days_early (d i : Int) (h0 : 0 < d) (h1 : d < 59 * 86400000000)
    (h0' : 0 < d + i * 86400000000) (h2 : d + i * 86400000000 < 59 * 86400000000) :
    serialQ d + (i : Rat) = serialQ (d + i * 86400000000) := by
  unfold serialQ
  have n1 : ¬ d = 0 := by omega
  have n2 : ¬ d + i * 86400000000 = 0 := by omega
  simp only [n1, n2, h1, h2, if_false, if_true]
  push_cast
  field_simp
  ring

/-- the difference of two serials from 1900-03-01 on is the elapsed time in days -/
theorem serialQ_sub_late (a b : Int) (ha : 59 * 86400000000 ≤ a) (hb : 59 * 86400000000 ≤ b) :
    serialQ a - serialQ b = ((a - b : Int) : Rat) / 86400000000 := by
  unfold serialQ
  have n1 : ¬ a = 0 := by omega
  have n2 : ¬ b = 0 := by omega
  have l1 : ¬ a < 59 * 86400000000 := by omega
  have l2 : ¬ b < 59 * 86400000000 := by omega
  simp only [n1, n2, l1, l2, if_false]
  push_cast
  field_simp
  ring

end HotXL.Dates
