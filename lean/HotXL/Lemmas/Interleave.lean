/-
  Helper lemmas for Props/C03: frame properties of `step`, the ownership invariant `Inv`, and
  the simulation `Sim` between an interleaved run and a solo run.
-/
import HotXL.Model.Interleave

namespace HotXL.Interleave

variable {Tok S : Type}

theorem upd_same {β : Type} (f : Nat → β) (k : Nat) (v : β) : upd f k v k = v := by
  simp [upd]

theorem upd_other {β : Type} (f : Nat → β) (k i : Nat) (v : β) (h : i ≠ k) : upd f k v i = f i := by
  simp [upd, h]

/-! ### stream -/

theorem stream_length (inp : List Tok) (n : Nat) : (stream inp n).length = n := by
  simp [stream]

theorem stream_succ (inp : List Tok) (n : Nat) : stream inp (n + 1) = stream inp n ++ [inp[n]?] := by
  simp [stream, List.range_succ]

theorem stream_zero (inp : List Tok) : stream inp 0 = [] := by
  simp [stream]

theorem mem_stream (inp : List Tok) (n : Nat) (t : Option Tok) :
    t ∈ stream inp n ↔ ∃ i, i < n ∧ inp[i]? = t := by
  simp [stream]

/-- all of the input, then end-of-input -/
theorem stream_full (inp : List Tok) : stream inp (inp.length + 1) = inp.map some ++ [none] := by
  apply List.ext_getElem?
  intro i
  simp only [stream, List.getElem?_map, List.getElem?_append, List.length_map]
  by_cases h : i < inp.length
  · have h' : i < inp.length + 1 := by omega
    simp [h, h']
  · by_cases h2 : i = inp.length
    · subst h2
      simp
    · have h3 : ¬ i < inp.length + 1 := by omega
      have h4 : inp.length + 1 ≤ i := by omega
      have h5 : (List.range (inp.length + 1))[i]? = none := by
        simp [h4]
      have h6 : i - inp.length ≠ 0 := by omega
      simp [h, h5]
      omega

/-! ### frame properties of one step -/

/-- a step of `b` does not touch the private state of another activation -/
theorem step_act_other (c : Config Tok S) (σ : Sys Tok S) (a b : ActId) (h : a ≠ b) :
    (step c σ b).act a = σ.act a := by
  unfold step
  split <;> simp [upd_other, h]

/-- a step of `b` writes only the lexer `lexRef b` -/
theorem step_store_other (c : Config Tok S) (σ : Sys Tok S) (b : ActId) (l : LexId) (h : l ≠ c.lexRef b) :
    (step c σ b).store l = σ.store l := by
  unfold step
  split <;> simp [upd_other, h]

theorem run_nil (c : Config Tok S) (σ : Sys Tok S) : run c σ [] = σ := rfl

theorem run_cons (c : Config Tok S) (σ : Sys Tok S) (b : ActId) (rest : Schedule) :
    run c σ (b :: rest) = run c (step c σ b) rest := rfl

theorem run_append (c : Config Tok S) (σ : Sys Tok S) (s₁ s₂ : Schedule) :
    run c σ (s₁ ++ s₂) = run c (run c σ s₁) s₂ := by
  simp [run, List.foldl_append]

/-- a finished activation stays as it is -/
theorem step_finished (c : Config Tok S) (σ : Sys Tok S) (a : ActId) (h : (σ.act a).phase = .finished) :
    step c σ a = σ := by
  unfold step
  simp [h]

/-! ### the ownership invariant -/

/-- what activation `a` and the lexer it references look like as long as nobody else uses
    that lexer -/
structure Inv (c : Config Tok S) (a : ActId) (σ : Sys Tok S) : Prop where
  /-- once started, `a`'s lexer holds `a`'s input and stands right after the tokens `a` fetched -/
  lex : (σ.act a).phase ≠ .fresh →
    σ.store (c.lexRef a) = { data := c.input a, pos := (σ.act a).seen.length }
  /-- the tokens seen are a prefix of `a`'s own token stream -/
  seen : (σ.act a).seen = stream (c.input a) (σ.act a).seen.length
  /-- the private state is the machine run on the tokens seen -/
  st : (σ.act a).st = (σ.act a).seen.foldl (c.δ a) c.init
  /-- not started ⇒ nothing fetched -/
  fresh : (σ.act a).phase = .fresh → (σ.act a).seen = []
  /-- while running, end-of-input has not been seen and the machine has not halted -/
  running : (σ.act a).phase = .running →
    (∀ t ∈ (σ.act a).seen, t.isSome = true) ∧
    ((σ.act a).seen ≠ [] → c.halted (σ.act a).st = false)
  /-- finished ⇒ the last fetch returned end-of-input or the machine halted; before that only tokens -/
  finished : (σ.act a).phase = .finished →
    (∃ pre last, (σ.act a).seen = pre ++ [last] ∧ (∀ t ∈ pre, t.isSome = true) ∧
      (last = none ∨ c.halted (σ.act a).st = true))

theorem inv_initial (c : Config Tok S) (store : LexId → LexState Tok) (a : ActId) :
    Inv c a (Sys.initial c store) := by
  refine ⟨?_, ?_, ?_, ?_, ?_, ?_⟩ <;> simp [Sys.initial, stream_zero]

theorem inv_step_other (c : Config Tok S) (σ : Sys Tok S) (a b : ActId)
    (hab : a ≠ b) (hl : c.lexRef a ≠ c.lexRef b) (h : Inv c a σ) : Inv c a (step c σ b) := by
  have e1 := step_act_other c σ a b hab
  have e2 := step_store_other c σ b (c.lexRef a) hl
  refine ⟨?_, ?_, ?_, ?_, ?_, ?_⟩
  · rw [e1, e2]; exact h.lex
  · rw [e1]; exact h.seen
  · rw [e1]; exact h.st
  · rw [e1]; exact h.fresh
  · rw [e1]; exact h.running
  · rw [e1]; exact h.finished

theorem inv_step_self (c : Config Tok S) (σ : Sys Tok S) (a : ActId) (h : Inv c a σ) :
    Inv c a (step c σ a) := by
  cases hp : (σ.act a).phase with
  | finished => rw [step_finished c σ a hp]; exact h
  | fresh =>
    have hs := h.fresh hp
    have hst := h.st
    rw [hs] at hst
    have e : step c σ a =
        { store := upd σ.store (c.lexRef a) (LexState.input (c.input a)),
          act := upd σ.act a { σ.act a with phase := .running } } := by
      unfold step; simp [hp]
    rw [e]
    refine ⟨?_, ?_, ?_, ?_, ?_, ?_⟩ <;>
      simp [upd_same, hs, stream_zero, LexState.input, hst]
  | running =>
    have hlex := h.lex (by simp [hp])
    have e : step c σ a =
        { store := upd σ.store (c.lexRef a) ((σ.store (c.lexRef a)).token).2,
          act := upd σ.act a
            { phase := if ((σ.store (c.lexRef a)).token).1.isNone ||
                  c.halted (c.δ a (σ.act a).st ((σ.store (c.lexRef a)).token).1) then .finished else .running,
              st := c.δ a (σ.act a).st ((σ.store (c.lexRef a)).token).1,
              seen := (σ.act a).seen ++ [((σ.store (c.lexRef a)).token).1] } } := by
      unfold step; simp [hp]
    rw [e]
    have ht1 : ((σ.store (c.lexRef a)).token).1 = (c.input a)[(σ.act a).seen.length]? := by
      rw [hlex]; rfl
    have ht2 : ((σ.store (c.lexRef a)).token).2 =
        { data := c.input a, pos := (σ.act a).seen.length + 1 } := by
      rw [hlex]; rfl
    have hrun := h.running hp
    refine ⟨?_, ?_, ?_, ?_, ?_, ?_⟩
    · intro _
      simp only [upd_same, ht2, List.length_append, List.length_singleton]
    · simp only [upd_same, List.length_append, List.length_singleton, stream_succ, ht1]
      rw [← h.seen]
    · simp only [upd_same, List.foldl_append, List.foldl_cons, List.foldl_nil]
      rw [← h.st]
    · simp only [upd_same]
      intro hf
      split at hf <;> simp at hf
    · simp only [upd_same]
      intro hr
      split at hr
      · simp at hr
      · rename_i hcond
        simp only [Bool.or_eq_true, not_or, Bool.not_eq_true] at hcond
        refine ⟨?_, ?_⟩
        · intro t ht
          simp only [List.mem_append, List.mem_singleton] at ht
          rcases ht with ht | ht
          · exact hrun.1 t ht
          · subst ht
            cases hh : ((σ.store (c.lexRef a)).token).1 with
            | none => simp [hh] at hcond
            | some _ => rfl
        · intro _; exact hcond.2
    · simp only [upd_same]
      intro hf
      split at hf
      · rename_i hcond
        refine ⟨(σ.act a).seen, ((σ.store (c.lexRef a)).token).1, rfl, hrun.1, ?_⟩
        simp only [Bool.or_eq_true, Option.isNone_iff_eq_none] at hcond
        exact hcond
      · simp at hf

/-- THE FRAME INVARIANT: along any schedule in which no OTHER activation uses `a`'s lexer -/
theorem inv_run (c : Config Tok S) (a : ActId) (sched : Schedule)
    (hown : ∀ b ∈ sched, b ≠ a → c.lexRef b ≠ c.lexRef a) :
    ∀ σ : Sys Tok S, Inv c a σ → Inv c a (run c σ sched) := by
  induction sched with
  | nil => intro σ h; exact h
  | cons b rest ih =>
    intro σ h
    rw [run_cons]
    apply ih (fun x hx => hown x (List.mem_cons_of_mem _ hx))
    by_cases hb : b = a
    · subst hb; exact inv_step_self c σ b h
    · exact inv_step_other c σ a b (Ne.symm hb)
        (Ne.symm (hown b (List.mem_cons_self) hb)) h

/-! ### simulation: the interleaved run against the solo run -/

/-- `a` cannot tell `σ` from `σ'`: same private state and, once started, same lexer contents -/
def Sim (c : Config Tok S) (a : ActId) (σ σ' : Sys Tok S) : Prop :=
  σ.act a = σ'.act a ∧
  ((σ.act a).phase ≠ .fresh → σ.store (c.lexRef a) = σ'.store (c.lexRef a))

theorem sim_step_other (c : Config Tok S) (σ σ' : Sys Tok S) (a b : ActId)
    (hab : a ≠ b) (hl : c.lexRef a ≠ c.lexRef b) (h : Sim c a σ σ') : Sim c a (step c σ b) σ' := by
  unfold Sim
  rw [step_act_other c σ a b hab, step_store_other c σ b (c.lexRef a) hl]
  exact h

theorem sim_step_self (c : Config Tok S) (σ σ' : Sys Tok S) (a : ActId) (h : Sim c a σ σ') :
    Sim c a (step c σ a) (step c σ' a) := by
  obtain ⟨hact, hst⟩ := h
  cases hp : (σ.act a).phase with
  | finished =>
    have hp' : (σ'.act a).phase = .finished := by rw [← hact]; exact hp
    rw [step_finished c σ a hp, step_finished c σ' a hp']
    exact ⟨hact, hst⟩
  | fresh =>
    have hp' : (σ'.act a).phase = .fresh := by rw [← hact]; exact hp
    have e : step c σ a =
        { store := upd σ.store (c.lexRef a) (LexState.input (c.input a)),
          act := upd σ.act a { σ.act a with phase := .running } } := by
      unfold step; simp [hp]
    have e' : step c σ' a =
        { store := upd σ'.store (c.lexRef a) (LexState.input (c.input a)),
          act := upd σ'.act a { σ'.act a with phase := .running } } := by
      unfold step; simp [hp']
    rw [e, e']
    refine ⟨?_, ?_⟩
    · simp only [upd_same, hact]
    · intro _; simp only [upd_same]
  | running =>
    have hp' : (σ'.act a).phase = .running := by rw [← hact]; exact hp
    have hs := hst (by simp [hp])
    have e : ∀ τ : Sys Tok S, (τ.act a).phase = .running → step c τ a =
        { store := upd τ.store (c.lexRef a) ((τ.store (c.lexRef a)).token).2,
          act := upd τ.act a
            { phase := if ((τ.store (c.lexRef a)).token).1.isNone ||
                  c.halted (c.δ a (τ.act a).st ((τ.store (c.lexRef a)).token).1) then .finished else .running,
              st := c.δ a (τ.act a).st ((τ.store (c.lexRef a)).token).1,
              seen := (τ.act a).seen ++ [((τ.store (c.lexRef a)).token).1] } } := by
      intro τ hτ; unfold step; simp [hτ]
    rw [e σ hp, e σ' hp']
    refine ⟨?_, ?_⟩
    · simp only [upd_same, hact, hs]
    · intro _; simp only [upd_same, hs]

theorem sim_run (c : Config Tok S) (a : ActId) (sched : Schedule)
    (hown : ∀ b ∈ sched, b ≠ a → c.lexRef b ≠ c.lexRef a) :
    ∀ σ σ' : Sys Tok S, Sim c a σ σ' →
      Sim c a (run c σ sched) (run c σ' (List.replicate (sched.count a) a)) := by
  induction sched with
  | nil => intro σ σ' h; simpa [run] using h
  | cons b rest ih =>
    intro σ σ' h
    have hown' : ∀ x ∈ rest, x ≠ a → c.lexRef x ≠ c.lexRef a :=
      fun x hx => hown x (List.mem_cons_of_mem _ hx)
    by_cases hb : b = a
    · subst hb
      rw [List.count_cons_self, List.replicate_succ, run_cons, run_cons]
      exact ih hown' _ _ (sim_step_self c σ σ' b h)
    · rw [List.count_cons_of_ne hb, run_cons]
      exact ih hown' _ _ (sim_step_other c σ σ' a b (Ne.symm hb)
        (Ne.symm (hown b List.mem_cons_self hb)) h)

theorem sim_initial (c : Config Tok S) (a : ActId) (store store' : LexId → LexState Tok) :
    Sim c a (Sys.initial c store) (Sys.initial c store') := by
  refine ⟨rfl, ?_⟩
  intro h; simp [Sys.initial] at h

/-! ### nesting -/

mutual
theorem body_exec_eq_run (c : Config Tok S) (a : ActId) :
    ∀ (b : Body) (σ : Sys Tok S), b.exec c a σ = run c σ (b.sched a)
  | .nil, σ => by simp [Body.exec, Body.sched, run_nil]
  | .own k, σ => by
    simp only [Body.exec, Body.sched, run_cons]
    exact body_exec_eq_run c a k _
  | .call e k, σ => by
    simp only [Body.exec, Body.sched, run_append]
    rw [eval_exec_eq_run c e σ]
    exact body_exec_eq_run c a k _
theorem eval_exec_eq_run (c : Config Tok S) :
    ∀ (e : Eval) (σ : Sys Tok S), e.exec c σ = run c σ e.sched
  | .mk a b, σ => by
    simp only [Eval.exec, Eval.sched]
    exact body_exec_eq_run c a b σ
end

end HotXL.Interleave
